#!/bin/sh
# usage: firstdiff.sh <PID> <shard> <index>   (store-level properties) — first differing op and both answers
d=/verif/.build/run/$1
grep -v "^Eval" $d/cases_$1_$2.v > /tmp/fd.v
cat >> /tmp/fd.v <<EOT
Definition cc := nth $3 cases (mkCase 0 [] []).
Definition fd := first_diff sinit (c_hist cc) 1.
Eval vm_compute in fd.
Fixpoint state_at (s : sstate) (h : list (sop * sres)) (n : nat) : sstate :=
  match n, h with S n', (o, _) :: r => state_at (fst (step s o)) r n' | _, _ => s end.
Eval vm_compute in (match nth_error (c_hist cc) (N.to_nat fd - 1) with Some (o, r) => Some (o, r, snd (step (state_at sinit (c_hist cc) (N.to_nat fd - 1)) o)) | None => None end).
EOT
cd /tmp && coqc -q -noglob -Q /verif/coq ID fd.v 2>&1 | tail -30
