#!/bin/sh
# usage: goal.sh <file.v> <line>  -- show the proof state just before <line>
f=$1; n=$2
head -n $((n-1)) "$f" > /tmp/goal_dbg.v
printf 'Show.\nAdmitted.\n' >> /tmp/goal_dbg.v
cd /verif/coq && coqc -q -Q . ID /tmp/goal_dbg.v -o /tmp/goal_dbg.vo 2>&1 | tail -${3:-40}
