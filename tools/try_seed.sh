#!/bin/bash
# usage: try_seed.sh <patch.diff> <ID> [<ID> ...]  -- apply a seeded change to /repo, run the checks, undo it
patch=$1; shift
cd /repo && git diff --quiet || { echo "/repo has uncommitted changes"; exit 2; }
git -C /repo apply "$patch" || { echo "patch does not apply"; exit 2; }
cd /verif
for id in "$@"; do
  out=$(timeout 1500 ./check $id 2>&1 | grep -v "^\s*[0-9]*:\|stack backtrace\|note: Some\|^$\|panicked at\|called .Option" | tail -3)
  echo "== $id: $(echo "$out" | grep -c VIOLATION) violation line(s)"; echo "$out" | cut -c1-220
done
git -C /repo checkout -- .
