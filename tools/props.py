"""Per-property configuration of ./check (see DESIGN.md section 6)."""

ALLOWED_AXIOMS = set()   # every property theorem must be "Closed under the global context"

TRUSTED_BASE = [
    "Coq 8.16.1 kernel (coqc); vm_compute is used to evaluate the executable models on the cases and in Example witnesses; no native_compute",
    "Print Assumptions of every property theorem: Closed under the global context (no axioms)",
    "no extraction: the model is evaluated inside Coq (cases_<id>_<k>.v + Eval vm_compute)",
    "tools/gen_params.py: regex translator of the crate's constants into coq/Params.v (fails closed)",
    "the hand-written Gallina models in coq/Model (all Rust code is modelled, not verified) tied to /repo by this run's correspondence check",
    "the Rust harness (generators, case printers) and the add-only hooks under cfg(iroh_docs_verif)",
    "redb (ordered tables, range scans in key order, atomic commit), ed25519, BLAKE3, postcard, tokio: outside the model",
]

BITS = {"1": "implementation differs from the executable model", "2": "implementation violates the specification oracle"}

PROPS = {
    "C02": {
        "n": {"quick": 2000, "thorough": 60000},
        "relation": "Check.C02.check: per-operation results and final content of Replica::{insert,delete_prefix,insert_remote_entry} = Model.Replica over Model.FsStore = Model.Put.put / reduce",
        "rule": "operation sequences (1-10 ops quick, 1-14 thorough; local insert with chosen clock, prefix delete, remote insert) over 1-3 authors, keys from a boundary pool (empty key, prefix-related, 0xFF-edged) plus random bytes, timestamps from a 6-value window, two hashes + deletion markers; a third of the cases are shuffled and duplicated; memory store, every 6th on a file store reopened before reading. Non-trivial = some operation pruned at least one entry or was rejected as superseded; distinct = distinct case terms",
        "spec_fail_text": "the final content of the real replica is not reduce(valid offers), or an operation's result differs from the abstract put (the property fails on the implementation for this operation sequence)",
        "classes": {4: "twin-len"},
        "bits": dict(BITS, **{"4": "the offers contain two entries equal in (author,key,timestamp,hash) but different in len"}),
        "assumptions": ["signatures of generated remote entries are valid (C03 covers invalid ones)", "timestamps are below 2^62"],
        "modelled": "sync.rs Replica::{insert,delete_prefix,insert_remote_entry,insert_entry}, validate_entry; ranger.rs Store::put; store/fs.rs parents, remove_prefix_filtered, entry_put, get_exact; store/fs/bounds.rs",
    },
    "C01": {
        "n": {"quick": 400, "thorough": 12000},
        "shard_size": 25,
        "relation": "Check.C01.check: every protocol message, both final contents and both SyncOutcome counters of a real two-replica session = Model.Ranger.session over the table-level store model",
        "rule": "pairs of replica states built by C02-style histories (0-15 ops each, quick; 0-29 thorough; 1-3 authors, boundary keys, markers; a third share history; a tenth with an empty side), either side initiating, memory and file stores, default SyncConfig in 3/5 of the cases and (max_set_size, split_factor) from {0,2,3,8}x{2} + {0,1,2}x{3} + (3,4),(1,5),(8,5) otherwise; each pair runs a full session and an immediate second one through Replica::sync_initial_message / sync_process_message. Non-trivial = at least 3 messages; distinct = distinct case terms",
        "spec_fail_text": "after a complete session the two real replicas do not both hold join(A0,B0), or the counters do not mirror, or the session exceeded 2(|A|+|B|)+4 messages, or a second session transferred something, or the implementation panicked",
        "classes": {4: "twin-len"},
        "bits": dict(BITS, **{"4": "twin-len pair among the starting entries", "8": "ordered-list reference differs (C08)"}),
        "assumptions": ["fingerprints are collision free (XOR of BLAKE3): the model compares the fingerprinted entry lists; the harness checks every wire fingerprint against the real fingerprint of its list", "all entries are validly signed and not in the receiver's future (C03 covers the rest)"],
        "modelled": "ranger.rs Message::init, Store::process_message, Store::put; sync.rs sync_initial_message, sync_process_message, validate_entry; store/fs.rs StoreInstance (get_first, get_range, get_fingerprint, prefixes_of, remove_prefix_filtered, entry_put)",
    },
    "C08": {
        "n": {"quick": 250, "thorough": 8000},
        "shard_size": 25,
        "relation": "Check.C08.check: (a) real session transcript = Model.Ranger.process_message over om_ops (plain ordered list) = over fs_ops (table model); (b) StoreInstance::{get_first,get_range,prefixes_of,remove_prefix_filtered} = Model.FsStore = ordered-map definitions (filter range_contains etc.)",
        "rule": "per case one session pair as in C01 (memory/file stores, all configurations) plus one probe case: a C02-style history, then 12 ranges (x<y, x>y wrap-around, x=y; ids of held entries, neighbours, unknown authors 00..,80..,ff..), first key, 6 parent lookups, one prefix removal with a timestamp bound. evaluations = cases (sessions + probes); non-trivial = a range answer that is neither empty nor everything (counted per range)",
        "spec_fail_text": "a database-backed store operation (or a whole session transcript) differs from what the ordered-map definitions prescribe",
        "classes": {4: "twin-len"},
        "bits": dict(BITS, **{"2": "differs from the ordered-map reference"}),
        "assumptions": ["fingerprints compared through their recorded preimages (collision freedom of XOR-of-BLAKE3 assumed)", "range bounds lie in the replica's own namespace (get_range does not clamp foreign-namespace bounds; no listed property covers that)"],
        "modelled": "store/fs.rs StoreInstance as ranger::Store, store/fs/bounds.rs, ranger.rs process_message",
    },
    "C05": {
        "n": {"quick": 120, "thorough": 1500},
        "shard_size": 40,
        "relation": "Check.C05.check: Store::get_many / get_exact answers = Model.Query.run_query over the model tables built by the same history = Model.Query.query_spec over the implementation's own full content",
        "rule": "states built by C02-style histories (3-16 ops, 1-3 authors, boundary keys, markers, entries pruned by prefix deletion so that the by-key index holds stale rows); per state 50 random queries over kind x sort x author filter (none/known/unknown) x key filter (any/exact/prefix, incl. 0xFF-edged) x direction x include_empty x offset 0-3 x limit none/0-4, plus 12 point lookups; thorough: every 10th state gets the full product of query dimensions over 5 keys. evaluations = queries asked; non-trivial = the answer is neither empty nor everything; distinct = distinct (query, answer) pairs",
        "spec_fail_text": "a query (or point lookup) on the real store returned something else than the declarative specification prescribes for the store's own content",
        "assumptions": ["the specification oracle reads the store's content through get_many(all, include_empty); that query itself is checked against the model tables"],
        "modelled": "store/fs/query.rs QueryIterator, store/util.rs IndexKind + LatestPerKeySelector, store/fs/bounds.rs RecordsBounds/ByKeyBounds, store/fs.rs get_exact, store/fs/ranges.rs",
    },
}

NOT_APPLICABLE = {}

LEVEL_TEXT = {
    "C01": "PARTIAL proof + full correspondence. Proved for every message, store content and configuration: the store after processing a message is reduce(valid values ++ previous content) (step soundness, hence no foreign entries), equal fingerprints are answered with silence (second session), and sent/received counters mirror after any complete session. Delivery completeness and the termination bound are not yet theorems: they are checked on every generated pair of reachable states by running complete sessions on the real replicas (both initiators, memory and file stores, 11 configurations) and comparing every protocol message, both final contents (= join), the counters, the message bound and the silent second session with the model.",
    "C08": "PARTIAL proof + full correspondence. Proved: exactness of the database range bounds (namespace scan, author-prefix scan incl. 0xFF-edged keys), the store effect of a message is the same function for every store instance, the ordered-list instance holds the abstract store's set. Checked by correspondence: real session transcripts = the same algorithm over a plain ordered list, message by message; direct probes of get_range (three shapes), get_first, prefixes_of, remove_prefix_filtered against the table model and the ordered-map definitions.",
    "C05": "Theorems: every range bound a query path scans (namespace, author+key-prefix, author+exact key, by-key prefix/exact/namespace) is exact for all 32-byte ids and all byte keys (closed under the global context); the iterator model and the declarative query_spec are both compared with the real get_many/get_exact on generated states (with stale index rows) and queries over the full product of query dimensions. The equality run_query = query_spec itself is checked by the correspondence runs, not yet by a theorem (partial).",
    "C02": "Theorems (Coq, closed under the global context) that put computes reduce: content after any offer sequence = the non-dominated offers, hence independent of order/duplication; exact removal set/count; rejected = no-op. The real Replica (memory and file store) is compared per operation and on the final content with the table-level model and with the abstract put/reduce on generated operation sequences; a disagreement is classified into property-violating input vs. broken correspondence.",
}
