"""Per-property configuration of ./check (see DESIGN.md section 6)."""

ALLOWED_AXIOMS = set()   # every property theorem must be "Closed under the global context"

TRUSTED_BASE = [
    "Coq 8.16.1 kernel (coqc); vm_compute is used to evaluate the executable models on the cases and in Example witnesses; no native_compute",
    "Print Assumptions of every property theorem: Closed under the global context (no axioms)",
    "no extraction: the model is evaluated inside Coq (cases_<id>_<k>.v + Eval vm_compute)",
    "tools/gen_params.py: regex translator of the crate's constants into coq/Params.v (fails closed)",
    "the hand-written Gallina models in coq/Model (all Rust code is modelled, not verified) tied to /repo by this run's correspondence check",
    "the Rust harness (generators, case printers) and the add-only hooks under cfg(iroh_docs_verif)",
    "redb (ordered tables, range scans in key order, atomic commit), ed25519, BLAKE3, postcard, tokio: outside the model",
]

BITS = {"1": "implementation differs from the executable model", "2": "implementation violates the specification oracle"}

PROPS = {
    "C02": {
        "n": {"quick": 2000, "thorough": 60000},
        "relation": "Check.C02.check: per-operation results and final content of Replica::{insert,delete_prefix,insert_remote_entry} = Model.Replica over Model.FsStore = Model.Put.put / reduce",
        "rule": "operation sequences (1-10 ops quick, 1-14 thorough; local insert with chosen clock, prefix delete, remote insert) over 1-3 authors, keys from a boundary pool (empty key, prefix-related, 0xFF-edged) plus random bytes, timestamps from a 6-value window, two hashes + deletion markers; a third of the cases are shuffled and duplicated; memory store, every 6th on a file store reopened before reading. Non-trivial = some operation pruned at least one entry or was rejected as superseded; distinct = distinct case terms",
        "spec_fail_text": "the final content of the real replica is not reduce(valid offers), or an operation's result differs from the abstract put (the property fails on the implementation for this operation sequence)",
        "classes": {4: "twin-len"},
        "bits": dict(BITS, **{"4": "the offers contain two entries equal in (author,key,timestamp,hash) but different in len"}),
        "assumptions": ["signatures of generated remote entries are valid (C03 covers invalid ones)", "timestamps are below 2^62"],
        "modelled": "sync.rs Replica::{insert,delete_prefix,insert_remote_entry,insert_entry}, validate_entry; ranger.rs Store::put; store/fs.rs parents, remove_prefix_filtered, entry_put, get_exact; store/fs/bounds.rs",
    },
    "C01": {
        "n": {"quick": 400, "thorough": 12000},
        "shard_size": 25,
        "relation": "Check.C01.check: every protocol message, both final contents and both SyncOutcome counters of a real two-replica session = Model.Ranger.session over the table-level store model",
        "rule": "pairs of replica states built by C02-style histories (0-15 ops each, quick; 0-29 thorough; 1-3 authors, boundary keys, markers; a third share history; a tenth with an empty side), either side initiating, memory and file stores, default SyncConfig in 3/5 of the cases and (max_set_size, split_factor) from {0,2,3,8}x{2} + {0,1,2}x{3} + (3,4),(1,5),(8,5) otherwise; each pair runs a full session and an immediate second one through Replica::sync_initial_message / sync_process_message. Non-trivial = at least 3 messages; distinct = distinct case terms",
        "spec_fail_text": "after a complete session the two real replicas do not both hold join(A0,B0), or the counters do not mirror, or the session exceeded 2(|A|+|B|)+4 messages, or a second session transferred something, or the implementation panicked",
        "classes": {4: "twin-len"},
        "bits": dict(BITS, **{"4": "twin-len pair among the starting entries", "8": "ordered-list reference differs (C08)"}),
        "assumptions": ["fingerprints are collision free (XOR of BLAKE3): the model compares the fingerprinted entry lists; the harness checks every wire fingerprint against the real fingerprint of its list", "all entries are validly signed and not in the receiver's future (C03 covers the rest)"],
        "modelled": "ranger.rs Message::init, Store::process_message, Store::put; sync.rs sync_initial_message, sync_process_message, validate_entry; store/fs.rs StoreInstance (get_first, get_range, get_fingerprint, prefixes_of, remove_prefix_filtered, entry_put)",
    },
    "C08": {
        "n": {"quick": 250, "thorough": 8000},
        "shard_size": 25,
        "relation": "Check.C08.check: (a) real session transcript = Model.Ranger.process_message over om_ops (plain ordered list) = over fs_ops (table model); (b) StoreInstance::{get_first,get_range,prefixes_of,remove_prefix_filtered} = Model.FsStore = ordered-map definitions (filter range_contains etc.)",
        "rule": "per case one session pair as in C01 (memory/file stores, all configurations) plus one probe case: a C02-style history, then 12 ranges (x<y, x>y wrap-around, x=y; ids of held entries, neighbours, unknown authors 00..,80..,ff..), first key, 6 parent lookups, one prefix removal with a timestamp bound. evaluations = cases (sessions + probes); non-trivial = a range answer that is neither empty nor everything (counted per range)",
        "spec_fail_text": "a database-backed store operation (or a whole session transcript) differs from what the ordered-map definitions prescribe",
        "classes": {4: "twin-len"},
        "bits": dict(BITS, **{"2": "differs from the ordered-map reference"}),
        "assumptions": ["fingerprints compared through their recorded preimages (collision freedom of XOR-of-BLAKE3 assumed)", "range bounds lie in the replica's own namespace (get_range does not clamp foreign-namespace bounds; no listed property covers that)"],
        "modelled": "store/fs.rs StoreInstance as ranger::Store, store/fs/bounds.rs, ranger.rs process_message",
    },
    "C13": {
        "n": {"quick": 400, "thorough": 20000},
        "shard_size": 50, "check_module": "Check/StoreProps.v",
        "relation": "Check.StoreProps.check: every answer of a history of store operations (import, open/close, remove, insert/delete/remote insert, raw put, peers, policy, heads, news, content hashes, list, get_all, reopen) = Model.StoreOps.store_step",
        "rule": "histories of 8-30 operations over 2-3 documents and 1-3 authors: entries arriving in any timestamp order (6-value window, ties), prefix deletions, document removal and re-creation, reopen; after random prefixes the triple (get_all, heads, has_news_for_us against a random head set with ties and an unknown author) is read. Non-trivial = some has_news answer was non-zero",
        "spec_fail_text": "the heads reported by the real store are not the per-author maximum timestamp of the entries it holds, or has_news_for_us is not the number of authors with a strictly newer or unknown head",
        "modelled": "store/fs.rs entry_put (latest-by-author), get_latest_for_each_author, has_news_for_us, remove_replica; heads.rs AuthorHeads::{insert,has_news_for}",
    },
    "C15": {
        "n": {"quick": 400, "thorough": 20000},
        "shard_size": 50, "check_module": "Check/StoreProps.v",
        "relation": "Check.StoreProps.check: every answer of a history of store operations (import, open/close, remove, insert/delete/remote insert, raw put, peers, policy, heads, news, content hashes, list, get_all, reopen, policy matching, filter text) = Model.StoreOps.store_step",
        "rule": "histories of 8-30 operations over 2-3 documents plus neighbouring read-only ids: set_download_policy with random policies (both kinds, 0-3 exact/prefix filters over the boundary key pool incl. empty and non-UTF-8 bytes), get_download_policy on existing and unknown documents, removal/re-import, reopen of file stores; DownloadPolicy::matches on random (policy, key); FilterKind to_string/parse round trips (incl. colons and non-UTF-8 bytes) and FromStr on well-formed and mutated filter strings. Non-trivial = a non-default policy was read back",
        "spec_fail_text": "a policy read back differs from the last one set (or default), setting on an unknown document did not fail, matches() differs from the everything-except / nothing-except definition, or a filter did not survive its textual form",
        "modelled": "store.rs DownloadPolicy::matches, FilterKind::{matches, Display, FromStr}; store/fs.rs set_download_policy / get_download_policy (postcard value), remove_replica",
    },
    "C16": {
        "n": {"quick": 300, "thorough": 15000},
        "shard_size": 50, "check_module": "Check/StoreProps.v",
        "relation": "Check.StoreProps.check: every answer of a history of store operations (import, open/close, remove, insert/delete/remote insert, raw put, peers, policy, heads, news, content hashes, list, get_all, reopen) = Model.StoreOps.store_step",
        "rule": "histories of 8-30 operations over 2-3 writable documents and read-only documents whose ids are byte-order neighbours of the first one (id+1, id-1, ..ff, ..ff+1 with carry, all-00, all-ff): entry writes, rows placed in neighbour namespaces through the unvalidated put hook, peers, policies, open/close, and removals (12%) each bracketed by two full dumps of every observable of every document (entries, heads, peers, policy, namespace list, content hashes); reopen on file stores. Non-trivial = at least one removal succeeded",
        "spec_fail_text": "after a successful removal something of the removed document is still observable, or an observable of another document changed, or removal of an open document was not refused, or the reported content hashes are not exactly the hashes of the entries held",
        "modelled": "store/fs.rs remove_replica, content_hashes, open_replica/close_replica, import_namespace; store/fs/bounds.rs namespace bounds",
    },
    "C07": {
        "n": {"quick": 400, "thorough": 20000},
        "shard_size": 50, "check_module": "Check/StoreProps.v",
        "relation": "Check.StoreProps.check: every answer of a history of store operations (import, open/close, remove, insert/delete/remote insert, raw put, peers, policy, heads, news, content hashes, list, get_all, reopen) = Model.StoreOps.store_step",
        "rule": "histories of 8-30 operations over 2-3 documents: imports of read and write capabilities in any order (20%), local inserts/deletes and remote inserts (45%), open/close, list, removal, reopen of file stores. Non-trivial = some import upgraded a read-only document",
        "spec_fail_text": "an import outcome, a write attempt or the namespace listing contradicts the capability history (read-only replica authored an entry, a write capability was lost, or another document's capability changed)",
        "assumptions": ["the upgrade of an already-open replica through the actor is covered by C14's model, not here"],
        "modelled": "sync.rs Capability::merge/raw/from_raw, Replica::insert/delete_prefix (secret_key), store/fs.rs import_namespace, load_replica_info, list_namespaces",
    },
    "C17": {
        "n": {"quick": 400, "thorough": 20000},
        "shard_size": 50, "check_module": "Check/StoreProps.v",
        "relation": "Check.StoreProps.check: every answer of a history of store operations (import, open/close, remove, insert/delete/remote insert, raw put, peers, policy, heads, news, content hashes, list, get_all, reopen) = Model.StoreOps.store_step",
        "rule": "histories of 8-30 operations over 2-3 writable documents plus read-only documents whose ids are byte-order neighbours (..fe/..ff/carry, all-00, all-ff): peer registrations over 9 distinct peers (55%), reads of the peer list, document removal and re-import, reopen of a file store (a third of the cases are file backed); closing dump of every observable. Non-trivial = some peer list with at least 2 entries was read; distinct = distinct case terms",
        "spec_fail_text": "a peer list read from the real store is not the first five of the distinct registrations (most recent first), or a registration for an unknown document did not fail",
        "assumptions": ["consecutive register_useful_peer calls read strictly increasing SystemTime nanoseconds (no clock hook on this path)"],
        "modelled": "store/fs.rs register_useful_peer, get_sync_peers, remove_replica (peer rows), import_namespace",
    },
    "C05": {
        "n": {"quick": 120, "thorough": 1500},
        "shard_size": 40,
        "relation": "Check.C05.check: Store::get_many / get_exact answers = Model.Query.run_query over the model tables built by the same history = Model.Query.query_spec over the implementation's own full content",
        "rule": "states built by C02-style histories (3-16 ops, 1-3 authors, boundary keys, markers, entries pruned by prefix deletion so that the by-key index holds stale rows); per state 50 random queries over kind x sort x author filter (none/known/unknown) x key filter (any/exact/prefix, incl. 0xFF-edged) x direction x include_empty x offset 0-3 x limit none/0-4, plus 12 point lookups; thorough: every 10th state gets the full product of query dimensions over 5 keys. evaluations = queries asked; non-trivial = the answer is neither empty nor everything; distinct = distinct (query, answer) pairs",
        "spec_fail_text": "a query (or point lookup) on the real store returned something else than the declarative specification prescribes for the store's own content",
        "assumptions": ["the specification oracle reads the store's content through get_many(all, include_empty); that query itself is checked against the model tables"],
        "modelled": "store/fs/query.rs QueryIterator, store/util.rs IndexKind + LatestPerKeySelector, store/fs/bounds.rs RecordsBounds/ByKeyBounds, store/fs.rs get_exact, store/fs/ranges.rs",
    },
}

NOT_APPLICABLE = {}

LEVEL_TEXT = {
    "C15": "Theorems: get-after-set, set touches only the named document and requires it to exist, matches = negb exists (everything-except) / exists (nothing-except) with prefix = starts-with and exact = equality, and every filter survives print-then-parse for every notion of valid UTF-8 (hex round trip proved for all byte strings). The real store/policy/filter code is compared with the model on generated histories (set/get across removal and reopen, matches, text forms incl. malformed strings).",
    "C13": "PARTIAL. Theorems: has_news_for counts exactly the authors with a strictly newer or unknown head; zero iff every named author is known with a timestamp at least as new. The head table (maximum timestamp per author, across removal and re-creation) and news detection of the real store are compared with the model and with an independent oracle (per-author maximum over get_all) on generated histories.",
    "C16": "Theorems (for all 32-byte ids, incl. ids ending in 0xFF and all-0xFF): remove_replica deletes from every table exactly the rows keyed by the document (erases completely: entries, index, heads, capability, peers, policy unobservable afterwards; and only it: rows of every other document unchanged and in order); removal of an open document is refused. The real store is compared with the model operation by operation on histories over byte-order-neighbouring document ids, with full dumps of all observables around every removal and the content-hash set checked against the entries held.",
    "C07": "Theorems: no import downgrades a stored write capability, importing the secret upgrades, imports touch only the named document, a read-only replica refuses local inserts/deletes without changing anything, entry writes never touch the capability table. The real store is compared with the model and with an oracle tracking the capability history on generated import/write/reopen histories.",
    "C17": "Theorem: for every sequence of registrations with increasing clock readings the table-level register_useful_peer implements the bounded MRU specification lastn cap (without p ps ++ [p]) per document, keeps the table invariant, never exceeds the cap, never duplicates, and leaves every other document and table untouched; registering for an unknown document fails. The real store is compared with the model operation by operation and with an independent oracle (first five of the distinct registrations, newest first) on generated histories incl. removal, re-creation and reopen.",
    "C01": "PARTIAL proof + full correspondence. Proved for every message, store content and configuration: the store after processing a message is reduce(valid values ++ previous content) (step soundness, hence no foreign entries), equal fingerprints are answered with silence (second session), and sent/received counters mirror after any complete session. Delivery completeness and the termination bound are not yet theorems: they are checked on every generated pair of reachable states by running complete sessions on the real replicas (both initiators, memory and file stores, 11 configurations) and comparing every protocol message, both final contents (= join), the counters, the message bound and the silent second session with the model.",
    "C08": "PARTIAL proof + full correspondence. Proved: exactness of the database range bounds (namespace scan, author-prefix scan incl. 0xFF-edged keys), the store effect of a message is the same function for every store instance, the ordered-list instance holds the abstract store's set. Checked by correspondence: real session transcripts = the same algorithm over a plain ordered list, message by message; direct probes of get_range (three shapes), get_first, prefixes_of, remove_prefix_filtered against the table model and the ordered-map definitions.",
    "C05": "Theorems: every range bound a query path scans (namespace, author+key-prefix, author+exact key, by-key prefix/exact/namespace) is exact for all 32-byte ids and all byte keys (closed under the global context); the iterator model and the declarative query_spec are both compared with the real get_many/get_exact on generated states (with stale index rows) and queries over the full product of query dimensions. The equality run_query = query_spec itself is checked by the correspondence runs, not yet by a theorem (partial).",
    "C02": "Theorems (Coq, closed under the global context) that put computes reduce: content after any offer sequence = the non-dominated offers, hence independent of order/duplication; exact removal set/count; rejected = no-op. The real Replica (memory and file store) is compared per operation and on the final content with the table-level model and with the abstract put/reduce on generated operation sequences; a disagreement is classified into property-violating input vs. broken correspondence.",
}
