"""Per-property configuration of ./check (see DESIGN.md section 6)."""

ALLOWED_AXIOMS = set()   # every property theorem must be "Closed under the global context"

TRUSTED_BASE = [
    "Coq 8.16.1 kernel (coqc); vm_compute is used to evaluate the executable models on the cases and in Example witnesses; no native_compute",
    "Print Assumptions of every property theorem: Closed under the global context (no axioms)",
    "no extraction: the model is evaluated inside Coq (cases_<id>_<k>.v + Eval vm_compute)",
    "tools/gen_params.py: regex translator of the crate's constants into coq/Params.v (fails closed)",
    "the hand-written Gallina models in coq/Model (all Rust code is modelled, not verified) tied to /repo by this run's correspondence check",
    "the Rust harness (generators, case printers) and the add-only hooks under cfg(iroh_docs_verif)",
    "redb (ordered tables, range scans in key order, atomic commit), ed25519, BLAKE3, postcard, tokio: outside the model",
]

BITS = {"1": "implementation differs from the executable model", "2": "implementation violates the specification oracle"}

PROPS = {
    "C02": {
        "n": {"quick": 2000, "thorough": 60000},
        "relation": "Check.C02.check: per-operation results and final content of Replica::{insert,delete_prefix,insert_remote_entry} = Model.Replica over Model.FsStore = Model.Put.put / reduce",
        "rule": "operation sequences (1-10 ops quick, 1-14 thorough; local insert with chosen clock, prefix delete, remote insert) over 1-3 authors, keys from a boundary pool (empty key, prefix-related, 0xFF-edged) plus random bytes, timestamps from a 6-value window, two hashes + deletion markers; a third of the cases are shuffled and duplicated; memory store, every 6th on a file store reopened before reading. Non-trivial = some operation pruned at least one entry or was rejected as superseded; distinct = distinct case terms",
        "spec_fail_text": "the final content of the real replica is not reduce(valid offers), or an operation's result differs from the abstract put (the property fails on the implementation for this operation sequence)",
        "classes": {4: "twin-len"},
        "bits": dict(BITS, **{"4": "the offers contain two entries equal in (author,key,timestamp,hash) but different in len"}),
        "assumptions": ["signatures of generated remote entries are valid (C03 covers invalid ones)", "timestamps are below 2^62"],
        "modelled": "sync.rs Replica::{insert,delete_prefix,insert_remote_entry,insert_entry}, validate_entry; ranger.rs Store::put; store/fs.rs parents, remove_prefix_filtered, entry_put, get_exact; store/fs/bounds.rs",
    },
    "C05": {
        "n": {"quick": 120, "thorough": 1500},
        "shard_size": 40,
        "relation": "Check.C05.check: Store::get_many / get_exact answers = Model.Query.run_query over the model tables built by the same history = Model.Query.query_spec over the implementation's own full content",
        "rule": "states built by C02-style histories (3-16 ops, 1-3 authors, boundary keys, markers, entries pruned by prefix deletion so that the by-key index holds stale rows); per state 50 random queries over kind x sort x author filter (none/known/unknown) x key filter (any/exact/prefix, incl. 0xFF-edged) x direction x include_empty x offset 0-3 x limit none/0-4, plus 12 point lookups; thorough: every 10th state gets the full product of query dimensions over 5 keys. evaluations = queries asked; non-trivial = the answer is neither empty nor everything; distinct = distinct (query, answer) pairs",
        "spec_fail_text": "a query (or point lookup) on the real store returned something else than the declarative specification prescribes for the store's own content",
        "assumptions": ["the specification oracle reads the store's content through get_many(all, include_empty); that query itself is checked against the model tables"],
        "modelled": "store/fs/query.rs QueryIterator, store/util.rs IndexKind + LatestPerKeySelector, store/fs/bounds.rs RecordsBounds/ByKeyBounds, store/fs.rs get_exact, store/fs/ranges.rs",
    },
}

NOT_APPLICABLE = {}

LEVEL_TEXT = {
    "C05": "Theorems: every range bound a query path scans (namespace, author+key-prefix, author+exact key, by-key prefix/exact/namespace) is exact for all 32-byte ids and all byte keys (closed under the global context); the iterator model and the declarative query_spec are both compared with the real get_many/get_exact on generated states (with stale index rows) and queries over the full product of query dimensions. The equality run_query = query_spec itself is checked by the correspondence runs, not yet by a theorem (partial).",
    "C02": "Theorems (Coq, closed under the global context) that put computes reduce: content after any offer sequence = the non-dominated offers, hence independent of order/duplication; exact removal set/count; rejected = no-op. The real Replica (memory and file store) is compared per operation and on the final content with the table-level model and with the abstract put/reduce on generated operation sequences; a disagreement is classified into property-violating input vs. broken correspondence.",
}
