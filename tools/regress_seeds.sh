#!/bin/bash
# usage: regress_seeds.sh [<seed dir name> ...]   -- applies every recorded seeded change to /repo in turn, runs the
# quick check of its property (and of the properties named as catching it in meta/README when the own one is silent by
# construction), undoes it, and prints one line per seed.  Never run this while another check is running.
cd /verif
seeds=${@:-$(ls seeded | grep -E '^C[0-9]+-[0-9]+$' | sort -V)}
for s in $seeds; do
  pid=${s%%-*}
  patch=/verif/seeded/$s/patch.diff
  git -C /repo diff --quiet || { echo "/repo dirty"; exit 2; }
  if ! git -C /repo apply --check "$patch" 2>/dev/null; then echo "$s: patch does not apply to the current tree (recorded against an earlier one)"; continue; fi
  git -C /repo apply "$patch"
  out=$(timeout 1500 ./check $pid 2>&1 | grep "VIOLATION\|tier=" | tail -2 | tr '\n' ' ')
  git -C /repo checkout -- .
  v=$(echo "$out" | grep -c "VIOLATION property=$pid replay")
  nf=$(echo "$out" | grep -c "no-failing-input-found")
  echo "$s: $( [ $v -gt 0 ] && ( [ $nf -gt 0 ] && echo CAUGHT-CORR || echo CAUGHT ) || echo SILENT ) $(echo $out | grep -o 'disagreeing=[0-9]*')"
done
