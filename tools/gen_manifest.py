#!/usr/bin/env python3
"""Write MANIFEST.json from tools/props.py (so the manifest always lists exactly the claimed checks)."""
import json, os, subprocess, sys
ROOT = os.path.join(os.path.dirname(os.path.abspath(__file__)), "..")
sys.path.insert(0, os.path.dirname(os.path.abspath(__file__)))
from props import PROPS, TRUSTED_BASE, NOT_APPLICABLE, LEVEL_TEXT

ids = [json.loads(l)["id"] for l in open(os.path.join(ROOT, "properties.jsonl"))]
commits = subprocess.run(["git", "-C", "/repo", "log", "--format=%H %s"], capture_output=True, text=True).stdout.strip().split("\n")
hook_commits = [c.split()[0] for c in commits if c.split(" ", 1)[1].startswith("verif hooks")]
checks = []
for pid in ids:
    if pid not in PROPS:
        continue
    cfg = PROPS[pid]
    checks.append({
        "property_id": pid,
        "quick_cmd": f"./check {pid} --tier quick",
        "thorough_cmd": f"./check {pid} --tier thorough",
        "evidence_file": f"/verif/evidence/{pid}.json",
        "replay_cmd_template": f"./check {pid} --replay {{path}}",
        "engine": "coq-proof+correspondence",
        "level_claimed": {"category": "proof", "text": LEVEL_TEXT.get(pid, cfg.get("level_text", "")), "design_ref": f"DESIGN.md section 6/{pid}"},
        "level_note": "; ".join(TRUSTED_BASE[:3]) + "; " + cfg.get("modelled", ""),
        "technique": cfg.get("technique", "machine-checked proof in Coq 8.16 about a hand-written Gallina model + differential correspondence check (vm_compute) against the implementation"),
    })
na = [{"property_id": p, "reason": NOT_APPLICABLE.get(p, "not covered yet by this framework (no model/check built so far)")} for p in ids if p not in PROPS]
m = {
    "version": 1,
    "setup_cmd": "./check --setup",
    "hooks": {
        "guard": "--cfg iroh_docs_verif",
        "enable": "RUSTFLAGS=\"--cfg iroh_docs_verif\" (set in harness/.cargo/config.toml; the harness depends on /repo by path)",
        "baseline_off_cmd": "cd /repo && cargo nextest run --workspace --no-fail-fast --tool-config-file pb:/w/lib/nextest.toml --profile pb --test-threads 8 --offline",
        "source_commits": hook_commits,
        "add_only": True,
    },
    "engines": [{"name": "coq-proof+correspondence", "path": "/verif/check", "serves_properties": [c["property_id"] for c in checks],
                 "kind_free_text": "Coq 8.16.1 theorems over hand-written Gallina models (coq/), tied to /repo by a Rust harness (harness/) whose cases are evaluated by the model inside coqc (vm_compute)"}],
    "checks": checks,
    "not_applicable": na,
    "notes": "See DESIGN.md. KNOWN_FINDINGS.txt lists recorded defects and fix: commits.",
}
with open(os.path.join(ROOT, "MANIFEST.json"), "w") as f:
    json.dump(m, f, indent=1)
    f.write("\n")
print("MANIFEST.json:", len(checks), "checks,", len(na), "not claimed")
