#!/bin/bash
# usage: confirm_seed.sh <worktree dir>   -- confirms a seeded change in its scratch worktree
# prints: DEMO_WITH_PATCH=fail|pass  DEMO_WITHOUT_PATCH=..  LIB_TESTS_WITH_PATCH=..  INTEG_TESTS_WITH_PATCH=..
d=$1
cd $d || exit 2
export CARGO_NET_OFFLINE=true
git checkout -q -- src 2>/dev/null
cp demo.rs tests/seed_demo.rs
if cargo test --offline --test seed_demo >/tmp/confirm_$$.log 2>&1; then echo "DEMO_WITHOUT_PATCH=pass"; else echo "DEMO_WITHOUT_PATCH=fail"; tail -5 /tmp/confirm_$$.log; fi
git apply patch.diff || { echo "PATCH_DOES_NOT_APPLY"; exit 1; }
if cargo test --offline --test seed_demo >/tmp/confirm_$$.log 2>&1; then echo "DEMO_WITH_PATCH=pass"; else echo "DEMO_WITH_PATCH=fail"; fi
if cargo test --offline --lib >/tmp/confirm_$$.log 2>&1; then echo "LIB_TESTS_WITH_PATCH=pass"; else echo "LIB_TESTS_WITH_PATCH=fail"; grep "FAILED\|failed" /tmp/confirm_$$.log | head -5; fi
if cargo test --offline --test sync --test client --test gc >/tmp/confirm_$$.log 2>&1; then echo "INTEG_TESTS_WITH_PATCH=pass";
else
  # tests/sync.rs::test_sync_via_relay is timing sensitive (it fails now and then on the unpatched tree
  # as well when the machine is busy): when it is the only failure it is retried alone
  failed=$(grep "^test .* FAILED" /tmp/confirm_$$.log | grep -v "^test result" | awk '{print $2}' | sort -u | tr '\n' ' ')
  if [ "$failed" = "test_sync_via_relay " ] || [ "$failed" = "test_download_policies " ]; then
    flaky=$(echo $failed)
    ok=no; for i in 1 2 3 4; do if cargo test --offline --test sync $flaky >/tmp/confirm_$$.log 2>&1; then ok=yes; break; fi; done
    if [ $ok = yes ] && cargo test --offline --test client --test gc >/tmp/confirm_$$.log 2>&1; then echo "INTEG_TESTS_WITH_PATCH=pass (test_sync_via_relay passed on retry)"; else echo "INTEG_TESTS_WITH_PATCH=fail"; fi
  else echo "INTEG_TESTS_WITH_PATCH=fail"; echo "failed: $failed"; fi
fi
git checkout -q -- src
rm -f tests/seed_demo.rs /tmp/confirm_$$.log
