//! A peer that reconciles document A must only ever be told about entries of document A.
//! The range ends in a reconciliation message are chosen by the peer; they carry a namespace
//! component. Here the peer names a range that lies inside ANOTHER document of the same store.
use anyhow::Result;
use iroh_blobs::Hash;
use iroh_docs::{
    actor::SyncHandle, store::Store, Author, ContentStatus, NamespaceSecret, Record,
    RecordIdentifier, SignedEntry, SyncOutcome,
};
use serde::{Deserialize, Serialize};

#[derive(Serialize, Deserialize)]
struct WireMessage { parts: Vec<WirePart> }
#[derive(Serialize, Deserialize)]
enum WirePart { RangeFingerprint(WireRangeFingerprint), RangeItem(WireRangeItem) }
#[derive(Serialize, Deserialize)]
struct WireRangeFingerprint { range: WireRange, fingerprint: [u8; 32] }
#[derive(Serialize, Deserialize)]
struct WireRangeItem { range: WireRange, values: Vec<(SignedEntry, ContentStatus)>, have_local: bool }
#[derive(Serialize, Deserialize)]
struct WireRange { x: RecordIdentifier, y: RecordIdentifier }

#[tokio::test]
async fn range_ends_in_another_document_leak_nothing() -> Result<()> {
    let mut rng = rand::rng();
    let doc_a = NamespaceSecret::new(&mut rng);
    let doc_b = NamespaceSecret::new(&mut rng);
    let author = Author::new(&mut rng);
    let sync = SyncHandle::spawn(Store::memory(), None, "d14".into());
    sync.import_namespace(doc_a.clone().into()).await?;
    sync.import_namespace(doc_b.clone().into()).await?;
    sync.import_author(author.clone()).await?;
    sync.open(doc_a.id(), iroh_docs::actor::OpenOpts::default().sync()).await?;
    sync.open(doc_b.id(), Default::default()).await?;
    sync.insert_local(doc_a.id(), author.id(), "public".into(), Hash::new(b"x"), 1).await?;
    sync.insert_local(doc_b.id(), author.id(), "secret".into(), Hash::new(b"y"), 1).await?;

    // the peer reconciles document A but asks about a range inside document B
    let x = RecordIdentifier::new(doc_b.id(), [0u8; 32], b"");
    let y = RecordIdentifier::new(doc_b.id(), [0xffu8; 32], b"\xff");
    let msg = WireMessage { parts: vec![WirePart::RangeFingerprint(WireRangeFingerprint { range: WireRange { x, y }, fingerprint: [7u8; 32] })] };
    let bytes = postcard::to_stdvec(&msg)?;
    let (reply, _) = sync.sync_process_message(doc_a.id(), postcard::from_bytes(&bytes)?, [9u8; 32], SyncOutcome::default()).await?;
    if let Some(reply) = reply {
        let reply: WireMessage = postcard::from_bytes(&postcard::to_stdvec(&reply)?)?;
        for p in reply.parts {
            if let WirePart::RangeItem(it) = p {
                for (e, _) in it.values {
                    assert_eq!(e.entry().namespace(), doc_a.id(), "the reply to a session on document A contains an entry of document B: key {:?}", String::from_utf8_lossy(e.entry().key()));
                }
            }
        }
    }
    Ok(())
}
