//! C05: queries. States are built by C02-style histories (so the by-key index contains rows
//! whose record was pruned), then many queries are asked.
use std::path::Path;

use iroh_docs::store::{Query, SortBy, SortDirection};

use crate::c02::{self, Op};
use crate::common::*;

#[derive(Clone, Debug)]
pub struct Q {
    pub latest: bool,
    pub by_key: bool,
    pub author: Option<[u8; 32]>,
    pub key: KF,
    pub limit: Option<u64>,
    pub offset: u64,
    pub include_empty: bool,
    pub desc: bool,
}
#[derive(Clone, Debug)]
pub enum KF {
    Any,
    Exact(Vec<u8>),
    Prefix(Vec<u8>),
}

pub fn to_query(q: &Q) -> Query {
    let dir = if q.desc { SortDirection::Desc } else { SortDirection::Asc };
    macro_rules! common {
        ($b:expr) => {{
            let mut b = $b;
            if let Some(a) = q.author {
                b = b.author(iroh_docs::AuthorId::from(&a));
            }
            b = match &q.key {
                KF::Any => b,
                KF::Exact(k) => b.key_exact(k),
                KF::Prefix(k) => b.key_prefix(k),
            };
            if let Some(l) = q.limit {
                b = b.limit(l);
            }
            b = b.offset(q.offset);
            if q.include_empty {
                b = b.include_empty();
            }
            b
        }};
    }
    if q.latest {
        common!(Query::single_latest_per_key()).sort_direction(dir).build()
    } else {
        let sb = if q.by_key { SortBy::KeyAuthor } else { SortBy::AuthorKey };
        common!(Query::all()).sort_by(sb, dir).build()
    }
}

pub fn cq(q: &Q) -> String {
    format!(
        "(mkQ {} {} {} {} {} {} {} {})",
        cbool(q.latest),
        cbool(q.by_key),
        coption(q.author.as_ref(), |a| n256(a)),
        match &q.key {
            KF::Any => "KAny".to_string(),
            KF::Exact(k) => format!("(KExact {})", cbytes(k)),
            KF::Prefix(k) => format!("(KPrefix {})", cbytes(k)),
        },
        coption(q.limit, |l| l.to_string()),
        q.offset,
        cbool(q.include_empty),
        cbool(q.desc)
    )
}

pub fn gen_query(rng: &mut Rng, w: &World, stats: &mut Stats) -> Q {
    let author = match rng.below(5) {
        0 | 1 => None,
        2 | 3 => Some(rng.pick(&w.authors).id().to_bytes()),
        _ => Some([0x77; 32]),
    };
    let key = match rng.below(4) {
        0 => KF::Any,
        1 => KF::Exact(gen_key(rng)),
        _ => KF::Prefix(gen_key(rng)),
    };
    let q = Q {
        latest: rng.chance(1, 3),
        by_key: rng.chance(1, 2),
        author,
        key,
        // small windows mostly; now and then the extreme u64 values ("no limit" sentinels, paging past the end)
        limit: match rng.below(12) { 0..=3 => Some(rng.below(5)), 4 => { stats.inc("q_huge_limit"); Some(*rng.pick(&[u64::MAX, u64::MAX - 1, 1u64 << 63, u32::MAX as u64 + 1])) } _ => None },
        offset: match rng.below(12) { 0..=3 => rng.below(4), 4 => { stats.inc("q_huge_offset"); *rng.pick(&[u64::MAX, u64::MAX - 2, 1u64 << 40]) } _ => 0 },
        include_empty: rng.chance(1, 2),
        desc: rng.chance(1, 2),
    };
    stats.inc(if q.latest { "q_latest" } else if q.by_key { "q_flat_by_key" } else { "q_flat_by_author" });
    stats.inc(match &q.key {
        KF::Any => "q_key_any",
        KF::Exact(_) => "q_key_exact",
        KF::Prefix(_) => "q_key_prefix",
    });
    q
}

/// Every query of the product (used by the thorough tier on a sample of states).
pub fn all_queries(w: &World, keys: &[Vec<u8>]) -> Vec<Q> {
    let mut out = Vec::new();
    let mut authors: Vec<Option<[u8; 32]>> = vec![None];
    for a in &w.authors {
        authors.push(Some(a.id().to_bytes()));
    }
    let mut kfs = vec![KF::Any];
    for k in keys {
        kfs.push(KF::Exact(k.clone()));
        kfs.push(KF::Prefix(k.clone()));
    }
    for latest in [false, true] {
        for by_key in [false, true] {
            if latest && by_key {
                continue;
            }
            for author in &authors {
                for key in &kfs {
                    for include_empty in [false, true] {
                        for desc in [false, true] {
                            for (limit, offset) in [(None, 0), (Some(1), 1)] {
                                out.push(Q { latest, by_key, author: *author, key: key.clone(), limit, offset, include_empty, desc });
                            }
                        }
                    }
                }
            }
        }
    }
    out
}

pub fn run(seed: u64, n: usize, out: &Path, thorough: bool) -> anyhow::Result<()> {
    let mut rng = Rng::new(seed ^ 0xC05);
    let mut stats = Stats::default();
    let mut cw = CaseWriter::new(out, "C05", "Check.C05", 40)?;
    let mut distinct = std::collections::HashSet::new();
    for i in 0..n {
        let n_auth = 1 + rng.below(3) as usize;
        let w = World::new(seed.wrapping_add((i % 5) as u64), n_auth);
        let len = 3 + rng.below(14) as usize;
        let ops: Vec<Op> = (0..len).map(|_| c02::gen_op(&mut rng, &w, &mut stats)).collect();
        let persistent = rng.chance(1, 6);
        let (mut ts, results) = c02::build_state(&w, &ops, persistent)?;
        let all = all_entries(ts.s(), w.ns_id())?;
        let exhaustive = thorough && i % 10 == 0;
        let queries: Vec<Q> = if exhaustive {
            let keys: Vec<Vec<u8>> = [&b""[..], b"a", b"a\xff", b"b", b"\xff"].iter().map(|k| k.to_vec()).collect();
            stats.inc("state_exhaustive_queries");
            all_queries(&w, &keys)
        } else {
            (0..50).map(|_| gen_query(&mut rng, &w, &mut stats)).collect()
        };
        let mut qterms = Vec::new();
        let mut jq = Vec::new();
        for q in &queries {
            // a query that panics is recorded as an answer that no specification can give (one entry with an
            // all-zero id under a key no generator produces)
            let ran = std::panic::catch_unwind(std::panic::AssertUnwindSafe(|| -> anyhow::Result<Vec<iroh_docs::SignedEntry>> {
                ts.s().get_many(w.ns_id(), to_query(q))?.collect::<anyhow::Result<Vec<_>>>()
            }));
            let res = match ran {
                Ok(r) => r?,
                Err(_) => { stats.inc("query_panicked"); vec![w.signed(0, b"\x00query panicked\x00", HASH_A, 1, 1)] }
            };
            stats.inc("queries");
            if !res.is_empty() && res.len() < all.len() {
                let t = format!("{:?}|{}", q, clist(&res, centry));
                if distinct.insert(t) {
                    stats.inc("distinct_nontrivial");
                }
            }
            if jq.len() < 4 {
                jq.push(format!("{{\"query\":\"{:?}\",\"result\":[{}]}}", q, res.iter().map(jentry).collect::<Vec<_>>().join(",")).replace('\\', "/"));
            }
            qterms.push(format!("({}, {})", cq(q), clist(&res, centry)));
        }
        // point lookups
        let mut exact = Vec::new();
        for _ in 0..12 {
            let a = rng.pick(&w.authors).id();
            let k = gen_key(&mut rng);
            let ie = rng.chance(1, 2);
            let r = ts.s().get_exact(w.ns_id(), a, &k, ie)?;
            exact.push(format!("({}, {}, {}, {})", n256(a.as_bytes()), cbytes(&k), cbool(ie), coption(r.as_ref(), centry)));
            stats.inc(if r.is_some() { "exact_hit" } else { "exact_miss" });
        }
        stats.add("state_entries", all.len() as u64);
        let coq = format!(
            "(mkCase {} {} {} [{}] [{}])",
            n256(w.ns_id().as_bytes()),
            c02::cops(&w, &ops, &results),
            clist(&all, centry),
            qterms.join("; "),
            exact.join("; ")
        );
        let json = format!(
            "{{\"store\":\"{}\",\"ops\":[{}],\"all\":[{}],\"n_queries\":{},\"first_queries\":[{}]}}",
            if persistent { "file" } else { "memory" },
            c02::jops(&ops),
            all.iter().map(jentry).collect::<Vec<_>>().join(","),
            queries.len(),
            jq.join(",")
        );
        cw.push(coq, json)?;
    }
    cw.flush()?;
    stats.add("evaluations", *stats.0.get("queries").unwrap_or(&0));
    stats.add("states", cw.total as u64);
    stats.write(out, "C05")?;
    Ok(())
}
