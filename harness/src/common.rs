//! Shared pieces of the correspondence harness: PRNG, key material, Coq term printers.
#![allow(dead_code)]
use std::fmt::Write as _;
use std::io::Write as _;
use std::path::{Path, PathBuf};

use iroh_docs::{
    store::{fs::Store, Query},
    sync::{Record, SignedEntry},
    Author, AuthorId, NamespaceId, NamespaceSecret,
};

/// SplitMix64: every random choice of a run derives from one seed.
#[derive(Clone)]
pub struct Rng(pub u64);
impl Rng {
    pub fn new(seed: u64) -> Self {
        Rng(seed ^ 0x9E37_79B9_7F4A_7C15)
    }
    pub fn next(&mut self) -> u64 {
        self.0 = self.0.wrapping_add(0x9E37_79B9_7F4A_7C15);
        let mut z = self.0;
        z = (z ^ (z >> 30)).wrapping_mul(0xBF58_476D_1CE4_E5B9);
        z = (z ^ (z >> 27)).wrapping_mul(0x94D0_49BB_1331_11EB);
        z ^ (z >> 31)
    }
    pub fn below(&mut self, n: u64) -> u64 {
        if n == 0 {
            0
        } else {
            self.next() % n
        }
    }
    pub fn range(&mut self, lo: u64, hi: u64) -> u64 {
        lo + self.below(hi - lo + 1)
    }
    pub fn chance(&mut self, num: u64, den: u64) -> bool {
        self.below(den) < num
    }
    pub fn pick<'a, T>(&mut self, xs: &'a [T]) -> &'a T {
        &xs[self.below(xs.len() as u64) as usize]
    }
    pub fn bytes32(&mut self) -> [u8; 32] {
        let mut b = [0u8; 32];
        for c in b.chunks_mut(8) {
            c.copy_from_slice(&self.next().to_le_bytes());
        }
        b
    }
    pub fn shuffle<T>(&mut self, xs: &mut [T]) {
        for i in (1..xs.len()).rev() {
            let j = self.below(i as u64 + 1) as usize;
            xs.swap(i, j);
        }
    }
}

/// Keys drawn from a boundary alphabet: empty key, prefix-related keys, 0xFF-edged keys.
pub const KEY_POOL: &[&[u8]] = &[
    b"",
    b"\x00",
    b"a",
    b"a\x00",
    b"aa",
    b"a\xff",
    b"a\xff\xff",
    b"a\xff\x00",
    b"ab",
    b"b",
    b"b\x00",
    b"\xff",
    b"\xff\xff",
    b"\xfe\xff",
];

pub fn gen_key(rng: &mut Rng) -> Vec<u8> {
    if rng.chance(4, 5) {
        rng.pick(KEY_POOL).to_vec()
    } else {
        let n = rng.below(4);
        (0..n)
            .map(|_| *rng.pick(&[0u8, 0x61, 0x62, 0xfe, 0xff]))
            .collect()
    }
}

/// Fixed key material: one namespace and a few authors, sorted by id.
pub struct World {
    pub ns: NamespaceSecret,
    pub authors: Vec<Author>,
}
impl World {
    pub fn new(seed: u64, n_authors: usize) -> Self {
        let mut rng = Rng::new(seed ^ 0xA11CE);
        let ns = NamespaceSecret::from_bytes(&rng.bytes32());
        let mut authors: Vec<Author> = (0..n_authors)
            .map(|_| Author::from_bytes(&rng.bytes32()))
            .collect();
        authors.sort_by_key(|a| a.id().to_bytes());
        World { ns, authors }
    }
    pub fn ns_id(&self) -> NamespaceId {
        self.ns.id()
    }
    pub fn signed(&self, author: usize, key: &[u8], hash: [u8; 32], len: u64, ts: u64) -> SignedEntry {
        signed_raw(&self.ns, &self.authors[author], key, hash, len, ts)
    }
}

/// Sign an entry with arbitrary content (bypasses the `Record::new` debug assertion by going
/// through the wire encoding, as a remote peer would).
pub fn signed_raw(ns: &NamespaceSecret, author: &Author, key: &[u8], hash: [u8; 32], len: u64, ts: u64) -> SignedEntry {
    let h = iroh_blobs::Hash::from_bytes(hash);
    if len != 0 || h == iroh_blobs::Hash::EMPTY {
        SignedEntry::from_parts(ns, author, key, Record::new(h, len, ts))
    } else {
        // malformed emptiness: build through the wire form
        let mut canon = Vec::new();
        canon.extend_from_slice(ns.id().as_bytes());
        canon.extend_from_slice(author.id().as_bytes());
        canon.extend_from_slice(key);
        let id_len = canon.len();
        canon.extend_from_slice(&len.to_be_bytes());
        canon.extend_from_slice(&hash);
        canon.extend_from_slice(&ts.to_be_bytes());
        let nsig = ns.sign(&canon).to_bytes();
        let asig = author.sign(&canon).to_bytes();
        let w = crate::wire::WEntry {
            author_sig: asig,
            ns_sig: nsig,
            id: canon[..id_len].to_vec(),
            len,
            hash,
            ts,
        };
        crate::wire::decode_signed_entry(&w.encode()).expect("well-formed wire entry")
    }
}

pub const HASH_A: [u8; 32] = [0x11; 32];
pub const HASH_B: [u8; 32] = [0x22; 32];
pub fn empty_hash() -> [u8; 32] {
    *iroh_blobs::Hash::EMPTY.as_bytes()
}

// ---------- Coq term printers ----------
thread_local! {
    /// 256-bit literals are expensive for coqc to parse (~3 ms each), so every distinct value
    /// is emitted once per file as a named constant.
    static INTERN: std::cell::RefCell<(std::collections::HashMap<[u8; 32], usize>, Vec<[u8; 32]>)> =
        std::cell::RefCell::new((Default::default(), Vec::new()));
}
pub fn n256(b: &[u8; 32]) -> String {
    INTERN.with(|t| {
        let mut t = t.borrow_mut();
        let n = t.1.len();
        let idx = *t.0.entry(*b).or_insert(n);
        if idx == n {
            t.1.push(*b);
        }
        format!("x{}", idx)
    })
}
fn interned_definitions() -> String {
    INTERN.with(|t| {
        let t = t.borrow();
        let mut s = String::new();
        for (i, b) in t.1.iter().enumerate() {
            write!(s, "Definition x{} : N := 0x{}.\n", i, hex::encode(b)).unwrap();
        }
        s
    })
}
pub fn cbytes(b: &[u8]) -> String {
    let mut s = String::from("[");
    for (i, x) in b.iter().enumerate() {
        if i > 0 {
            s.push(';');
        }
        write!(s, "{}", x).unwrap();
    }
    s.push(']');
    s
}
pub fn centry(e: &SignedEntry) -> String {
    format!(
        "(mkE {} {} {} {} {} {})",
        n256(e.entry().namespace().as_bytes()),
        n256(e.author_bytes().as_bytes()),
        cbytes(e.key()),
        e.timestamp(),
        e.content_len(),
        n256(e.content_hash().as_bytes())
    )
}
pub fn clist<T>(xs: impl IntoIterator<Item = T>, f: impl Fn(T) -> String) -> String {
    let mut s = String::from("[");
    for (i, x) in xs.into_iter().enumerate() {
        if i > 0 {
            s.push_str("; ");
        }
        s.push_str(&f(x));
    }
    s.push(']');
    s
}
pub fn coption<T>(x: Option<T>, f: impl Fn(T) -> String) -> String {
    match x {
        None => "None".into(),
        Some(v) => format!("(Some {})", f(v)),
    }
}
pub fn cbool(b: bool) -> &'static str {
    if b {
        "true"
    } else {
        "false"
    }
}

/// JSON-ish rendering of an entry for replay files.
pub fn jentry(e: &SignedEntry) -> String {
    format!(
        "{{\"author\":\"{}\",\"key\":\"{}\",\"ts\":{},\"len\":{},\"hash\":\"{}\"}}",
        hex::encode(&e.author_bytes().as_bytes()[..4]),
        hex::encode(e.key()),
        e.timestamp(),
        e.content_len(),
        hex::encode(&e.content_hash().as_bytes()[..4])
    )
}

pub fn insert_err(e: &iroh_docs::sync::InsertError) -> &'static str {
    use iroh_docs::sync::{InsertError as I, ValidationFailure as V};
    match e {
        I::Store(_) => "EStore",
        I::Validation(V::InvalidNamespace) => "EInvalidNamespace",
        I::Validation(V::BadSignature) => "EBadSignature",
        I::Validation(V::TooFarInTheFuture) => "EFuture",
        I::Validation(V::InvalidEmptyEntry) => "EInvalidEmpty",
        I::NewerEntryExists => "ENewerExists",
        I::EntryIsEmpty => "EEntryIsEmpty",
        I::ReadOnly => "EReadOnly",
        I::Closed => "EClosed",
    }
}
pub fn cresult(r: &Result<usize, iroh_docs::sync::InsertError>) -> String {
    match r {
        Ok(n) => format!("(Ok {})", n),
        Err(e) => format!("(Err {})", insert_err(e)),
    }
}

/// All entries of a namespace, deletion markers included, in (author, key) order.
pub fn all_entries(store: &mut Store, ns: NamespaceId) -> anyhow::Result<Vec<SignedEntry>> {
    store
        .get_many(ns, Query::all().include_empty())?
        .collect::<anyhow::Result<Vec<_>>>()
}

/// A store that is either in memory or backed by a file in a temporary directory.
pub struct TestStore {
    pub store: Option<Store>,
    pub dir: Option<tempfile::TempDir>,
}
impl TestStore {
    pub fn new(persistent: bool) -> anyhow::Result<Self> {
        if persistent {
            let dir = tempfile::tempdir()?;
            let store = Store::persistent(dir.path().join("docs.redb"))?;
            Ok(TestStore { store: Some(store), dir: Some(dir) })
        } else {
            Ok(TestStore { store: Some(Store::memory()), dir: None })
        }
    }
    pub fn path(&self) -> Option<PathBuf> {
        self.dir.as_ref().map(|d| d.path().join("docs.redb"))
    }
    pub fn s(&mut self) -> &mut Store {
        self.store.as_mut().unwrap()
    }
    /// drop and reopen (persistent only)
    pub fn reopen(&mut self) -> anyhow::Result<()> {
        if let Some(p) = self.path() {
            drop(self.store.take());
            self.store = Some(Store::persistent(p)?);
        }
        Ok(())
    }
}

pub fn author_id(a: &Author) -> AuthorId {
    a.id()
}

/// Writer for sharded `cases_<id>_<k>.v` files plus a json-lines description of every case.
pub struct CaseWriter {
    pub dir: PathBuf,
    pub id: String,
    pub module: String,
    pub shard_size: usize,
    cur: Vec<String>,
    pub shards: usize,
    pub total: usize,
    desc: std::fs::File,
}
impl CaseWriter {
    pub fn new(dir: &Path, id: &str, module: &str, shard_size: usize) -> anyhow::Result<Self> {
        std::fs::create_dir_all(dir)?;
        let desc = std::fs::File::create(dir.join(format!("{id}_cases.jsonl")))?;
        Ok(CaseWriter {
            dir: dir.to_path_buf(),
            id: id.into(),
            module: module.into(),
            shard_size,
            cur: vec![],
            shards: 0,
            total: 0,
            desc,
        })
    }
    /// `coq`: the Coq term of the case; `json`: a one-line JSON description for replays.
    pub fn push(&mut self, coq: String, json: String) -> anyhow::Result<()> {
        writeln!(self.desc, "{}", json)?;
        self.cur.push(coq);
        self.total += 1;
        if self.cur.len() >= self.shard_size {
            self.flush()?;
        }
        Ok(())
    }
    pub fn flush(&mut self) -> anyhow::Result<()> {
        if self.cur.is_empty() {
            return Ok(());
        }
        let path = self.dir.join(format!("cases_{}_{}.v", self.id, self.shards));
        let mut f = std::io::BufWriter::new(std::fs::File::create(path)?);
        writeln!(f, "From ID Require Import {}.", self.module)?;
        writeln!(f, "Open Scope N_scope.")?;
        writeln!(f, "Set Printing Width 1000000.")?;
        writeln!(f, "Set Printing Depth 1000000.")?;
        write!(f, "{}", interned_definitions())?;
        writeln!(f, "Definition cases : list case := [")?;
        for (i, c) in self.cur.iter().enumerate() {
            if i > 0 {
                writeln!(f, ";")?;
            }
            write!(f, "{}", c)?;
        }
        writeln!(f, "].")?;
        writeln!(f, "Eval vm_compute in (failing check cases).")?;
        f.flush()?;
        self.cur.clear();
        self.shards += 1;
        Ok(())
    }
}

/// Simple counter map for the input distribution written into the evidence.
#[derive(Default)]
pub struct Stats(pub std::collections::BTreeMap<String, u64>);
impl Stats {
    pub fn inc(&mut self, k: &str) {
        *self.0.entry(k.to_string()).or_insert(0) += 1;
    }
    pub fn add(&mut self, k: &str, n: u64) {
        *self.0.entry(k.to_string()).or_insert(0) += n;
    }
    pub fn to_json(&self) -> String {
        let mut s = String::from("{");
        for (i, (k, v)) in self.0.iter().enumerate() {
            if i > 0 {
                s.push(',');
            }
            write!(s, "\"{}\":{}", k, v).unwrap();
        }
        s.push('}');
        s
    }
    pub fn write(&self, dir: &Path, id: &str) -> anyhow::Result<()> {
        std::fs::write(dir.join(format!("{id}_stats.json")), self.to_json())?;
        Ok(())
    }
}

pub fn rt() -> tokio::runtime::Runtime {
    tokio::runtime::Builder::new_current_thread()
        .enable_all()
        .build()
        .unwrap()
}
