//! C04: a swarm of replicas with loss, duplication, reordering, aborted sessions and restarts.
use std::path::Path;

use iroh_docs::{sync::SignedEntry, verif, ContentStatus};

use crate::c01::cmessage;
use crate::c02::{self, Op, T0};
use crate::common::*;

fn session(rt: &tokio::runtime::Runtime, stores: &mut [TestStore], w: &World, i: usize, j: usize, cut: Option<usize>) -> anyhow::Result<usize> {
    // split_at_mut to borrow two stores
    let (a, b) = if i < j {
        let (l, r) = stores.split_at_mut(j);
        (&mut l[i], &mut r[0])
    } else {
        let (l, r) = stores.split_at_mut(i);
        (&mut r[0], &mut l[j])
    };
    let ns = w.ns_id();
    let mut ra = a.s().open_replica(&ns)?;
    let mut rb = b.s().open_replica(&ns)?;
    let mut oa = Default::default();
    let mut ob = Default::default();
    let mut msg = ra.sync_initial_message()?;
    let mut turn_b = true;
    let mut processed = 0usize;
    loop {
        if let Some(c) = cut {
            if processed >= c { break; }
        }
        let reply = if turn_b { rt.block_on(rb.sync_process_message(msg, [1; 32], &mut ob))? } else { rt.block_on(ra.sync_process_message(msg, [2; 32], &mut oa))? };
        processed += 1;
        let Some(r) = reply else { break };
        msg = r;
        turn_b = !turn_b;
        if processed > 10_000 { anyhow::bail!("session does not terminate"); }
    }
    drop(ra);
    drop(rb);
    a.s().close_replica(ns);
    b.s().close_replica(ns);
    let _ = cmessage;
    Ok(processed)
}

pub fn run(seed: u64, n: usize, out: &Path, thorough: bool) -> anyhow::Result<()> {
    let mut rng = Rng::new(seed ^ 0xC04);
    let mut stats = Stats::default();
    let mut cw = CaseWriter::new(out, "C04", "Check.C04", 20)?;
    let mut distinct = std::collections::HashSet::new();
    let rt = rt();
    verif::set_sync_config(None);
    for i in 0..n {
        let w = World::new(seed.wrapping_add((i % 5) as u64), 1 + rng.below(3) as usize);
        let nrep = if i == 0 { 2 } else { 2 + rng.below(4) as usize };
        let ns = w.ns_id();
        let mut stores: Vec<TestStore> = Vec::new();
        let skews: Vec<u64> = (0..nrep).map(|_| rng.below(4)).collect();
        for _ in 0..nrep {
            let mut ts = TestStore::new(rng.chance(1, 3))?;
            ts.s().import_namespace(w.ns.clone().into())?;
            stores.push(ts);
        }
        let mut evs: Vec<String> = Vec::new();
        let mut jevs: Vec<String> = Vec::new();
        let mut written: Vec<SignedEntry> = Vec::new();
        let len = if i == 0 { 2 } else { 10 + rng.below(if thorough { 70 } else { 35 }) as usize };
        let mut tick = 0u64;
        for _ in 0..len {
            tick += 1;
            let r = rng.below(nrep as u64) as usize;
            let now = T0 + skews[r] + tick / 6;
            // corpus (case 0): the recorded twin-len finding — two replicas accept writes equal in
            // (author, key, timestamp, hash) and different in len
            let roll = if i == 0 { 0 } else { rng.below(100) };
            let (r, now) = if i == 0 { (tick as usize - 1, T0 + 1) } else { (r, now) };
            match roll {
                0..=39 => {
                    // local write
                    let au = rng.below(w.authors.len() as u64) as usize;
                    let key = gen_key(&mut rng);
                    let hash = if rng.chance(1, 2) { HASH_A } else { HASH_B };
                    let len = if hash == HASH_A { 1 } else { 2 };
                    let (au, key, hash, len) = if i == 0 { (0usize, b"k".to_vec(), HASH_A, 1 + 2 * (r as u64)) } else { (au, key, hash, len) };
                    let op = if i != 0 && rng.chance(1, 4) { Op::Delete { au, key: key.clone(), now } } else { Op::Insert { au, key: key.clone(), hash, len, now } };
                    verif::set_clock(now);
                    let res = {
                        let mut rep = stores[r].s().open_replica(&ns)?;
                        match &op {
                            Op::Insert { au, key, hash, len, .. } => rt.block_on(rep.insert(key, &w.authors[*au], iroh_blobs::Hash::from_bytes(*hash), *len)),
                            Op::Delete { au, key, .. } => rt.block_on(rep.delete_prefix(key, &w.authors[*au])),
                            _ => unreachable!(),
                        }
                    };
                    stores[r].s().close_replica(ns);
                    if res.is_ok() {
                        // the signed entry as stored (for later deliveries)
                        if let Some(e) = stores[r].s().get_exact(ns, w.authors[au].id(), &key, true)? {
                            written.push(e);
                        }
                    }
                    stats.inc("ev_write");
                    evs.push(format!("(SwWrite {} {} {})", r, c02::cop(&w, &op), cresult(&res)));
                    jevs.push(format!("\"write@{} {}\"", r, c02::jop(&op).replace('"', "'")));
                }
                40..=64 => {
                    // unreliable broadcast: any earlier written entry may arrive anywhere, any number of times
                    if written.is_empty() { continue; }
                    let e = rng.pick(&written).clone();
                    verif::set_clock(now);
                    let res = {
                        let mut rep = stores[r].s().open_replica(&ns)?;
                        rt.block_on(rep.insert_remote_entry(e.clone(), [5; 32], ContentStatus::Missing))
                    };
                    stores[r].s().close_replica(ns);
                    stats.inc("ev_deliver");
                    evs.push(format!("(SwDeliver {} {} {} {})", r, centry(&e), now, cresult(&res)));
                    jevs.push(format!("\"deliver@{} key={} ts={}\"", r, hex::encode(e.key()), e.timestamp()));
                }
                65..=84 => {
                    let mut j = rng.below(nrep as u64) as usize;
                    if j == r { j = (j + 1) % nrep; }
                    let cut = if rng.chance(1, 2) { Some(rng.below(5) as usize) } else { None };
                    verif::set_clock(now);
                    session(&rt, &mut stores, &w, r, j, cut)?;
                    stats.inc(if cut.is_some() { "ev_session_cut" } else { "ev_session_complete" });
                    evs.push(format!("(SwSession {} {} {} {})", r, j, coption(cut, |c| c.to_string()), now));
                    jevs.push(format!("\"session {}->{} cut={:?}\"", r, j, cut));
                }
                85..=92 => {
                    stores[r].reopen()?;
                    stats.inc("ev_restart");
                    evs.push(format!("(SwRestart {})", r));
                    jevs.push(format!("\"restart {}\"", r));
                }
                _ => {
                    let c = all_entries(stores[r].s(), ns)?;
                    evs.push(format!("(SwObserve {} {})", r, clist(&c, centry)));
                    jevs.push(format!("\"observe {} ({} entries)\"", r, c.len()));
                }
            }
        }
        // closing round: complete sessions up and down a random spanning tree
        let parent: Vec<usize> = (0..nrep).map(|k| if k == 0 { 0 } else { rng.below(k as u64) as usize }).collect();
        let now = T0 + 20;
        verif::set_clock(now);
        for k in (1..nrep).rev() {
            session(&rt, &mut stores, &w, k, parent[k], None)?;
            evs.push(format!("(SwSession {} {} None {})", k, parent[k], now));
        }
        for k in 1..nrep {
            session(&rt, &mut stores, &w, parent[k], k, None)?;
            evs.push(format!("(SwSession {} {} None {})", parent[k], k, now));
        }
        let mut sizes = Vec::new();
        for k in 0..nrep {
            let c = all_entries(stores[k].s(), ns)?;
            sizes.push(c.len());
            evs.push(format!("(SwObserve {} {})", k, clist(&c, centry)));
        }
        stats.add("replicas", nrep as u64);
        let coq = format!("(mkCase {} {} [{}])", n256(ns.as_bytes()), nrep, evs.join("; "));
        let json = format!("{{\"replicas\":{},\"clock_skews\":{:?},\"events\":[{}],\"spanning_tree_parents\":{:?},\"final_sizes\":{:?}}}", nrep, skews, jevs.join(","), parent, sizes);
        if sizes.iter().any(|s| *s > 1) && distinct.insert(coq.clone()) { stats.inc("distinct_nontrivial"); }
        cw.push(coq, json)?;
    }
    cw.flush()?;
    stats.add("evaluations", cw.total as u64);
    stats.write(out, "C04")?;
    Ok(())
}
