//! C14 / C12: request histories through the asynchronous store handle (`SyncHandle`).
use std::collections::HashMap;
use std::path::Path;

use iroh_docs::{
    actor::{OpenOpts, SyncHandle},
    store::{DownloadPolicy, Query},
    sync::{Capability, Event, SignedEntry, SyncOutcome},
    verif, AuthorHeads, AuthorId, ContentStatus, NamespaceId, NamespaceSecret,
};

use crate::c01::crid;
use crate::c02::T0;
use crate::c03::{cevent, gen_wire, sig_ok};
use crate::common::*;
use crate::storeops::{cpolicy, gen_policy, Universe};
use crate::wire::{WEntry, WMessage, WPart};

#[derive(Clone)]
pub enum AOp {
    Open { ns: [u8; 32], sync: bool, sub: Option<usize> },
    Close { ns: [u8; 32] },
    GetState { ns: [u8; 32] },
    SetSync { ns: [u8; 32], b: bool },
    Subscribe { ns: [u8; 32], chan: usize },
    Unsubscribe { ns: [u8; 32], chan: usize },
    DropReceiver { chan: usize },
    InsertLocal { ns: [u8; 32], au: usize, known: bool, key: Vec<u8>, hash: [u8; 32], len: u64, now: u64 },
    DeletePrefix { ns: [u8; 32], au: usize, known: bool, key: Vec<u8>, now: u64 },
    InsertRemote { ns: [u8; 32], w: WEntry, st: u8, now: u64 },
    SyncInit { ns: [u8; 32] },
    SyncProcess { ns: [u8; 32], m: WMessage, now: u64 },
    GetExact { ns: [u8; 32], au: usize, key: Vec<u8>, ie: bool },
    GetAll { ns: [u8; 32] },
    Drop { ns: [u8; 32] },
    Import { ns: [u8; 32], secret: Option<[u8; 32]> },
    ExportSecret { ns: [u8; 32] },
    SetPolicy { ns: [u8; 32], p: DownloadPolicy },
    GetPolicy { ns: [u8; 32] },
    RegisterPeer { ns: [u8; 32], peer: [u8; 32] },
    GetPeers { ns: [u8; 32] },
    HasNews { ns: [u8; 32], heads: Vec<([u8; 32], u64)> },
}

pub const FROM: [u8; 32] = [9u8; 32];

fn classify(e: &anyhow::Error) -> String {
    if let Some(ie) = e.downcast_ref::<iroh_docs::sync::InsertError>() {
        return format!("(AErr (AInsert {}))", insert_err(ie));
    }
    let s = format!("{e:#}");
    if s.contains("replica not open") {
        "(AErr ANotOpen)".into()
    } else if s.contains("sync is not enabled") {
        "(AErr ASyncOff)".into()
    } else if s.contains("Replica not found") {
        "(AErr ANotFound)".into()
    } else if s.contains("replica is not closed") {
        "(AErr ANotClosed)".into()
    } else if s.contains("author not found") {
        "(AErr AAuthorMissing)".into()
    } else if s.contains("read access only") {
        "(AErr (AInsert EReadOnly))".into()
    } else if s.contains("replica is closed") {
        "(AErr (AInsert EClosed))".into()
    } else {
        "(AErr AOther)".into()
    }
}

pub struct Client {
    pub handle: SyncHandle,
    pub txs: Vec<async_channel::Sender<Event>>,
    pub rxs: Vec<Option<async_channel::Receiver<Event>>>,
    pub author_ids: Vec<AuthorId>,
}

fn wire_centry(w: &WEntry) -> String {
    crate::c01::cwentry(w)
}

impl Client {
    /// Apply one request, return the Coq rendering of the reply.
    /// Send the request, stop waiting for its reply at once (the future is polled once, which puts the
    /// request into the actor's inbox, and dropped), then wait until the actor has passed it (a further
    /// request, awaited). Only for `Close` and `SetSync`. Returns false when the reply arrived at the first
    /// poll already (then nothing was cancelled and the caller records the reply).
    pub async fn apply_cancelled(&mut self, op: &AOp) -> anyhow::Result<Option<String>> {
        use std::future::Future;
        let h = self.handle.clone();
        let id = |b: &[u8; 32]| NamespaceId::from(b);
        let early: Option<String> = match op {
            AOp::Close { ns } => {
                let mut fut = Box::pin(h.close(id(ns)));
                let p = std::future::poll_fn(|cx| std::task::Poll::Ready(fut.as_mut().poll(cx))).await;
                match p { std::task::Poll::Ready(r) => Some(match r { Ok(b) => format!("(ABool {})", cbool(b)), Err(e) => classify(&e) }), std::task::Poll::Pending => None }
            }
            AOp::SetSync { ns, b } => {
                let mut fut = Box::pin(h.set_sync(id(ns), *b));
                let p = std::future::poll_fn(|cx| std::task::Poll::Ready(fut.as_mut().poll(cx))).await;
                match p { std::task::Poll::Ready(r) => Some(match r { Ok(()) => "AOk".to_string(), Err(e) => classify(&e) }), std::task::Poll::Pending => None }
            }
            _ => anyhow::bail!("only close and set_sync are issued without waiting"),
        };
        // the actor handles its inbox in order: once this later request is answered, the earlier one is done
        let _ = self.handle.get_state(NamespaceId::from(&[0xABu8; 32])).await;
        Ok(early)
    }

    pub async fn apply(&mut self, op: &AOp, unknown_author: AuthorId) -> anyhow::Result<String> {
        let h = &self.handle;
        let id = |b: &[u8; 32]| NamespaceId::from(b);
        let au = |s: &Self, i: usize, known: bool| if known { s.author_ids[i] } else { unknown_author };
        let ok = |r: anyhow::Result<()>| match r {
            Ok(()) => "AOk".to_string(),
            Err(e) => classify(&e),
        };
        Ok(match op {
            AOp::Open { ns, sync, sub } => {
                let mut opts = OpenOpts::default();
                if *sync {
                    opts = opts.sync();
                }
                if let Some(c) = sub {
                    opts = opts.subscribe(self.txs[*c].clone());
                }
                ok(h.open(id(ns), opts).await)
            }
            AOp::Close { ns } => match h.close(id(ns)).await {
                Ok(b) => format!("(ABool {})", cbool(b)),
                Err(e) => classify(&e),
            },
            AOp::GetState { ns } => match h.get_state(id(ns)).await {
                Ok(s) => format!("(AState {} {} {})", cbool(s.sync), s.subscribers, s.handles),
                Err(e) => classify(&e),
            },
            AOp::SetSync { ns, b } => ok(h.set_sync(id(ns), *b).await),
            AOp::Subscribe { ns, chan } => ok(h.subscribe(id(ns), self.txs[*chan].clone()).await),
            AOp::Unsubscribe { ns, chan } => ok(h.unsubscribe(id(ns), self.txs[*chan].clone()).await),
            AOp::DropReceiver { chan } => {
                self.rxs[*chan] = None;
                "AOk".into()
            }
            AOp::InsertLocal { ns, au: a, known, key, hash, len, now } => {
                verif::set_clock(*now);
                ok(h.insert_local(id(ns), au(self, *a, *known), key.clone().into(), iroh_blobs::Hash::from_bytes(*hash), *len).await)
            }
            AOp::DeletePrefix { ns, au: a, known, key, now } => {
                verif::set_clock(*now);
                match h.delete_prefix(id(ns), au(self, *a, *known), key.clone().into()).await {
                    Ok(n) => format!("(ACount {})", n),
                    Err(e) => classify(&e),
                }
            }
            AOp::InsertRemote { ns, w, st, now } => {
                verif::set_clock(*now);
                let e = crate::wire::decode_signed_entry(&w.encode())?;
                let cs = match st { 0 => ContentStatus::Complete, 1 => ContentStatus::Incomplete, _ => ContentStatus::Missing };
                ok(h.insert_remote(id(ns), e, FROM, cs).await)
            }
            AOp::SyncInit { ns } => match h.sync_initial_message(id(ns)).await {
                Ok(m) => {
                    // the initial message is a single fingerprint over everything: render its preimage from get_many
                    let w = WMessage::of(&m);
                    let all = self.get_all(ns).await?;
                    match (&w.parts[..], all) {
                        ([WPart::Fingerprint { x, y, .. }], Some(all)) => format!(
                            "(AMsg [PFp {} {} {}])",
                            crid(x), crid(y),
                            clist(&all, |e| format!("({}, {}, {}, {}, {})", n256(e.entry().namespace().as_bytes()), n256(e.author_bytes().as_bytes()), cbytes(e.key()), e.timestamp(), n256(e.content_hash().as_bytes())))
                        ),
                        _ => "(AMsg [])".to_string(),
                    }
                }
                Err(e) => classify(&e),
            },
            AOp::SyncProcess { ns, m, now } => {
                verif::set_clock(*now);
                let real = m.to_real()?;
                match h.sync_process_message(id(ns), real, FROM, SyncOutcome::default()).await {
                    Ok((reply, oc)) => {
                        // replies to crafted item-only messages contain only item parts (have_local = true)
                        let creply = match &reply {
                            None => "None".to_string(),
                            Some(r) => {
                                let w = WMessage::of(r);
                                let parts: Vec<String> = w.parts.iter().map(|p| match p {
                                    WPart::Item { x, y, values, have_local } => format!(
                                        "(PItem {} {} {} {})", crid(x), crid(y),
                                        clist(values, |(e, st)| format!("({}, {})", wire_centry(e), st)), cbool(*have_local)),
                                    WPart::Fingerprint { x, y, .. } => format!("(PFp {} {} [])", crid(x), crid(y)),
                                }).collect();
                                format!("(Some [{}])", parts.join("; "))
                            }
                        };
                        format!("(AReply {} {} {})", creply, oc.num_recv, oc.num_sent)
                    }
                    Err(e) => classify(&e),
                }
            }
            AOp::GetExact { ns, au: a, key, ie } => match h.get_exact(id(ns), self.author_ids[*a], key.clone().into(), *ie).await {
                Ok(e) => format!("(AEntry {})", coption(e.as_ref(), centry)),
                Err(e) => classify(&e),
            },
            AOp::GetAll { ns } => match self.get_all(ns).await? {
                Some(l) => format!("(AEntries {})", clist(&l, centry)),
                None => "(AErr ANotOpen)".into(),
            },
            AOp::Drop { ns } => ok(h.drop_replica(id(ns)).await),
            AOp::Import { ns, secret } => {
                let cap = match secret {
                    Some(s) => Capability::Write(NamespaceSecret::from_bytes(s)),
                    None => Capability::Read(id(ns)),
                };
                ok(h.import_namespace(cap).await.map(|_| ()))
            }
            AOp::ExportSecret { ns } => ok(h.export_secret_key(id(ns)).await.map(|_| ())),
            AOp::SetPolicy { ns, p } => ok(h.set_download_policy(id(ns), p.clone()).await),
            AOp::GetPolicy { ns } => match h.get_download_policy(id(ns)).await {
                Ok(p) => format!("(APolicy {})", cpolicy(&p)),
                Err(e) => classify(&e),
            },
            AOp::RegisterPeer { ns, peer } => ok(h.register_useful_peer(id(ns), *peer).await),
            AOp::GetPeers { ns } => match h.get_sync_peers(id(ns)).await {
                Ok(l) => format!("(APeers {})", coption(l.as_ref(), |l| clist(l, |p| n256(p)))),
                Err(e) => classify(&e),
            },
            AOp::HasNews { ns, heads } => {
                let hd: AuthorHeads = heads.iter().map(|(a, t)| (AuthorId::from(a), *t)).collect();
                match h.has_news_for_us(id(ns), hd).await {
                    Ok(n) => format!("(ANews {})", n.map(|n| n.get()).unwrap_or(0)),
                    Err(e) => classify(&e),
                }
            }
        })
    }

    /// `get_many(all, include_empty)`; `None` when the actor answers with an error item.
    pub async fn get_all(&self, ns: &[u8; 32]) -> anyhow::Result<Option<Vec<SignedEntry>>> {
        let (tx, mut rx) = irpc::channel::mpsc::channel(64);
        self.handle.get_many(NamespaceId::from(ns), Query::all().include_empty().build(), tx).await?;
        let mut v = Vec::new();
        while let Some(item) = rx.recv().await? {
            match item {
                Ok(e) => v.push(e),
                Err(_) => return Ok(None),
            }
        }
        Ok(Some(v))
    }

    pub fn drain(&mut self) -> Vec<(usize, Event)> {
        let mut v = Vec::new();
        for (i, rx) in self.rxs.iter().enumerate() {
            if let Some(rx) = rx {
                while let Ok(ev) = rx.try_recv() {
                    v.push((i, ev));
                }
            }
        }
        v
    }
}

pub fn caop(uni: &Universe, op: &AOp) -> String {
    let au = |i: &usize| n256(uni.authors[*i].id().as_bytes());
    match op {
        AOp::Open { ns, sync, sub } => format!("(AOpen {} {} {})", n256(ns), cbool(*sync), coption(*sub, |c| c.to_string())),
        AOp::Close { ns } => format!("(AClose {})", n256(ns)),
        AOp::GetState { ns } => format!("(AGetState {})", n256(ns)),
        AOp::SetSync { ns, b } => format!("(ASetSync {} {})", n256(ns), cbool(*b)),
        AOp::Subscribe { ns, chan } => format!("(ASubscribe {} {})", n256(ns), chan),
        AOp::Unsubscribe { ns, chan } => format!("(AUnsubscribe {} {})", n256(ns), chan),
        AOp::DropReceiver { chan } => format!("(ADropReceiver {})", chan),
        AOp::InsertLocal { ns, au: a, known, key, hash, len, now } => format!("(AInsertLocal {} {} {} {} {} {} {})", n256(ns), au(a), cbool(*known), cbytes(key), n256(hash), len, now),
        AOp::DeletePrefix { ns, au: a, known, key, now } => format!("(ADeletePrefix {} {} {} {} {})", n256(ns), au(a), cbool(*known), cbytes(key), now),
        AOp::InsertRemote { ns, w, st, now } => format!("(AInsertRemote {} {} {} {} {} {})", n256(ns), wire_centry(w), cbool(sig_ok(w)), n256(&FROM), st, now),
        AOp::SyncInit { ns } => format!("(ASyncInit {})", n256(ns)),
        AOp::SyncProcess { ns, m, now } => {
            let parts: Vec<String> = m.parts.iter().map(|p| match p {
                WPart::Item { x, y, values, have_local } => format!(
                    "(PItem {} {} {} {})", crid(x), crid(y),
                    clist(values, |(e, st)| format!("({}, {})", wire_centry(e), *st as u64 + if sig_ok(e) { 0 } else { 4 })), cbool(*have_local)),
                WPart::Fingerprint { x, y, .. } => format!("(PFp {} {} [])", crid(x), crid(y)),
            }).collect();
            format!("(ASyncProcess {} [{}] {} {})", n256(ns), parts.join("; "), n256(&FROM), now)
        }
        AOp::GetExact { ns, au: a, key, ie } => format!("(AGetExact {} {} {} {})", n256(ns), au(a), cbytes(key), cbool(*ie)),
        AOp::GetAll { ns } => format!("(AGetAll {})", n256(ns)),
        AOp::Drop { ns } => format!("(ADrop {})", n256(ns)),
        AOp::Import { ns, secret } => format!("(AImport {} {})", n256(ns), coption(secret.as_ref(), |s| n256(s))),
        AOp::ExportSecret { ns } => format!("(AExportSecret {})", n256(ns)),
        AOp::SetPolicy { ns, p } => format!("(ASetPolicy {} {})", n256(ns), cpolicy(p)),
        AOp::GetPolicy { ns } => format!("(AGetPolicy {})", n256(ns)),
        AOp::RegisterPeer { ns, peer } => format!("(ARegisterPeer {} {})", n256(ns), n256(peer)),
        AOp::GetPeers { ns } => format!("(AGetPeers {})", n256(ns)),
        AOp::HasNews { ns, heads } => format!("(AHasNews {} {})", n256(ns), clist(heads, |(a, t)| format!("({}, {})", n256(a), t))),
    }
}

pub fn jaop(op: &AOp) -> String {
    let h = |b: &[u8; 32]| hex::encode(&b[..3]);
    match op {
        AOp::Open { ns, sync, sub } => format!("open {} sync={} sub={:?}", h(ns), sync, sub),
        AOp::Close { ns } => format!("close {}", h(ns)),
        AOp::GetState { ns } => format!("get_state {}", h(ns)),
        AOp::SetSync { ns, b } => format!("set_sync {} {}", h(ns), b),
        AOp::Subscribe { ns, chan } => format!("subscribe {} chan{}", h(ns), chan),
        AOp::Unsubscribe { ns, chan } => format!("unsubscribe {} chan{}", h(ns), chan),
        AOp::DropReceiver { chan } => format!("drop_receiver chan{}", chan),
        AOp::InsertLocal { ns, au, known, key, hash, len, now } => format!("insert_local {} author#{}{} key={} hash={} len={} now={}", h(ns), au, if *known { "" } else { "(unknown)" }, hex::encode(key), h(hash), len, now),
        AOp::DeletePrefix { ns, au, known, key, now } => format!("delete_prefix {} author#{}{} key={} now={}", h(ns), au, if *known { "" } else { "(unknown)" }, hex::encode(key), now),
        AOp::InsertRemote { ns, w, st, now } => format!("insert_remote {} key={} ts={} len={} sig_ok={} status={} now={}", h(ns), hex::encode(&w.id[64..]), w.ts, w.len, sig_ok(w), st, now),
        AOp::SyncInit { ns } => format!("sync_initial_message {}", h(ns)),
        AOp::SyncProcess { ns, m, now } => format!("sync_process_message {} values={} now={}", h(ns), m.parts.iter().map(|p| match p { WPart::Item { values, .. } => values.len(), _ => 0 }).sum::<usize>(), now),
        AOp::GetExact { ns, au, key, ie } => format!("get_exact {} author#{} key={} include_empty={}", h(ns), au, hex::encode(key), ie),
        AOp::GetAll { ns } => format!("get_many(all) {}", h(ns)),
        AOp::Drop { ns } => format!("drop_replica {}", h(ns)),
        AOp::Import { ns, secret } => format!("import {} {}", h(ns), if secret.is_some() { "write" } else { "read" }),
        AOp::ExportSecret { ns } => format!("export_secret {}", h(ns)),
        AOp::SetPolicy { ns, .. } => format!("set_policy {}", h(ns)),
        AOp::GetPolicy { ns } => format!("get_policy {}", h(ns)),
        AOp::RegisterPeer { ns, peer } => format!("register_peer {} {}", h(ns), h(peer)),
        AOp::GetPeers { ns } => format!("get_peers {}", h(ns)),
        AOp::HasNews { ns, .. } => format!("has_news {}", h(ns)),
    }
}

const N_CHANS: usize = 4;

/// The requests of one of two concurrent clients: operations that do not depend on the clock hook
/// (it is process-global) apart from local inserts, which all use the same clock reading.
pub fn gen_concurrent(rng: &mut Rng, uni: &Universe, stats: &mut Stats) -> Vec<AOp> {
    let docs: Vec<[u8; 32]> = uni.docs.iter().map(|d| d.0).collect();
    let n = 2 + rng.below(2);
    let mut h = Vec::new();
    for _ in 0..n {
        let ns = docs[rng.below(docs.len().min(2) as u64) as usize];
        let au = rng.below(uni.authors.len() as u64) as usize;
        let hash = if rng.chance(1, 2) { HASH_A } else { HASH_B };
        let len = if hash == HASH_A { 1 } else { 2 };
        stats.inc("concurrent_request");
        match rng.below(10) {
            0..=2 => h.push(AOp::Open { ns, sync: rng.chance(1, 2), sub: None }),
            3..=4 => h.push(AOp::Close { ns }),
            5 => h.push(AOp::GetState { ns }),
            6 => h.push(AOp::SetSync { ns, b: rng.chance(1, 2) }),
            7 => h.push(AOp::GetExact { ns, au, key: rng.pick(&[&b"a"[..], b"ab"]).to_vec(), ie: true }),
            _ => h.push(AOp::InsertLocal { ns, au, known: true, key: rng.pick(&[&b"a"[..], b"ab"]).to_vec(), hash, len, now: T0 + 7 }),
        }
    }
    h
}

/// C15: one document kept open with sync and a subscriber while its policy changes again and again;
/// after every change entries arrive by the single-entry path and by reconciliation, with keys the
/// successive policies decide differently. Every event's download flag must be what the policy stored
/// at that moment says.
fn gen_policy_history(rng: &mut Rng, uni: &Universe, stats: &mut Stats) -> Vec<AOp> {
    let doc = rng.below(uni.docs.len() as u64) as usize;
    let ns = uni.docs[doc].0;
    let w = World { ns: NamespaceSecret::from_bytes(&uni.docs[doc].1), authors: uni.authors.clone() };
    let mut h = vec![
        AOp::Import { ns, secret: if rng.chance(1, 2) { Some(uni.docs[doc].1) } else { None } },
        AOp::Open { ns, sync: true, sub: Some(rng.below(N_CHANS as u64) as usize) },
    ];
    let mut ts = T0;
    let mut entry = |rng: &mut Rng, ts: &mut u64| {
        *ts += 1;
        let au = rng.below(uni.authors.len() as u64) as usize;
        let hash = if rng.chance(1, 2) { HASH_A } else { HASH_B };
        crate::c03::sign(&w.ns, &w.authors[au], &gen_key(rng), hash, if hash == HASH_A { 1 } else { 2 }, *ts)
    };
    for _ in 0..2 + rng.below(5) {
        if rng.chance(4, 5) { h.push(AOp::SetPolicy { ns, p: gen_policy(rng) }); stats.inc("policy_change_while_open"); }
        for _ in 0..1 + rng.below(3) {
            if rng.chance(2, 3) {
                h.push(AOp::InsertRemote { ns, w: entry(rng, &mut ts), st: rng.below(3) as u8, now: T0 + 10 });
            } else {
                let values = (0..1 + rng.below(3)).map(|_| (entry(rng, &mut ts), rng.below(3) as u8)).collect();
                let x = iroh_docs::sync::RecordIdentifier::new(NamespaceId::from(&ns), uni.authors[0].id(), gen_key(rng));
                let m = WMessage { parts: vec![WPart::Item { x: x.as_ref().to_vec(), y: x.as_ref().to_vec(), values, have_local: true }] };
                h.push(AOp::SyncProcess { ns, m, now: T0 + 10 });
            }
        }
        if rng.chance(1, 6) { h.push(AOp::GetPolicy { ns }); }
        if rng.chance(1, 8) { h.push(AOp::Open { ns, sync: true, sub: None }); }
    }
    h
}

pub fn gen_history(pid: &str, rng: &mut Rng, uni: &Universe, stats: &mut Stats) -> Vec<AOp> {
    if pid == "C15" && rng.chance(2, 3) {
        return gen_policy_history(rng, uni, stats);
    }
    let mut h = Vec::new();
    let docs: Vec<[u8; 32]> = uni.docs.iter().map(|d| d.0).collect();
    for d in &uni.docs {
        if rng.chance(5, 6) {
            let write = rng.chance(5, 6);
            h.push(AOp::Import { ns: d.0, secret: if write { Some(d.1) } else { None } });
        }
    }
    let n = 10 + rng.below(30);
    let world_for = |doc: usize| World { ns: NamespaceSecret::from_bytes(&uni.docs[doc].1), authors: uni.authors.clone() };
    let foreign = NamespaceSecret::from_bytes(&rng.bytes32());
    for _ in 0..n {
        let doc = rng.below(docs.len() as u64) as usize;
        let ns = docs[doc];
        let au = rng.below(uni.authors.len() as u64) as usize;
        let key = gen_key(rng);
        let now = T0 + rng.below(6);
        let hash = if rng.chance(1, 2) { HASH_A } else { HASH_B };
        let len = if hash == HASH_A { 1 } else { 2 };
        let roll = rng.below(100);
        let c12 = pid != "C14";
        match roll {
            0..=11 => { stats.inc("open"); h.push(AOp::Open { ns, sync: rng.chance(1, 2), sub: if rng.chance(if c12 { 2 } else { 1 }, 4) { Some(rng.below(N_CHANS as u64) as usize) } else { None } }) }
            12..=19 => { stats.inc("close"); h.push(AOp::Close { ns }) }
            20..=23 => h.push(AOp::GetState { ns }),
            24..=28 => h.push(AOp::SetSync { ns, b: rng.chance(1, 2) }),
            29..=34 => { if c12 || rng.chance(1, 2) { h.push(AOp::Subscribe { ns, chan: rng.below(N_CHANS as u64) as usize }) } else { h.push(AOp::GetState { ns }) } }
            35..=37 => h.push(AOp::Unsubscribe { ns, chan: rng.below(N_CHANS as u64) as usize }),
            38 => { if c12 { h.push(AOp::DropReceiver { chan: rng.below(N_CHANS as u64) as usize }) } }
            39..=52 => { stats.inc("insert_local"); h.push(AOp::InsertLocal { ns, au, known: !rng.chance(1, 25), key, hash, len: if rng.chance(1, 30) { 0 } else { len }, now }) }
            53..=58 => { stats.inc("delete_prefix"); h.push(AOp::DeletePrefix { ns, au, known: !rng.chance(1, 25), key, now }) }
            59..=70 => {
                stats.inc("insert_remote");
                let w = world_for(doc);
                let t = gen_wire(rng, &w, &foreign, T0 + 10);
                let wire = if t.w.id.len() < 64 { crate::c03::sign(&w.ns, &w.authors[au], &key, hash, len, now) } else { t.w };
                h.push(AOp::InsertRemote { ns, w: wire, st: rng.below(3) as u8, now: T0 + 10 });
            }
            71..=73 => h.push(AOp::SyncInit { ns }),
            74..=80 => {
                stats.inc("sync_process");
                let w = world_for(doc);
                let mut values = Vec::new();
                for _ in 0..rng.below(5) {
                    let mut t = gen_wire(rng, &w, &foreign, T0 + 10);
                    while t.w.id.len() < 64 { t = gen_wire(rng, &w, &foreign, T0 + 10); }
                    values.push((t.w, rng.below(3) as u8));
                }
                let x = iroh_docs::sync::RecordIdentifier::new(NamespaceId::from(&ns), uni.authors[au].id(), gen_key(rng));
                let y = if rng.chance(1, 2) { x.clone() } else { iroh_docs::sync::RecordIdentifier::new(NamespaceId::from(&ns), uni.authors[au].id(), gen_key(rng)) };
                let m = WMessage { parts: vec![WPart::Item { x: x.as_ref().to_vec(), y: y.as_ref().to_vec(), values, have_local: true }] };
                h.push(AOp::SyncProcess { ns, m, now: T0 + 10 });
            }
            // C12: the policy changes while replicas are open and entries keep arriving
            81..=84 if c12 && rng.chance(2, 3) => {
                h.push(AOp::SetPolicy { ns, p: gen_policy(rng) });
                // ... and an entry arrives right afterwards
                if rng.chance(2, 3) {
                    let w = world_for(doc);
                    let wire = crate::c03::sign(&w.ns, &w.authors[au], &gen_key(rng), hash, len, now);
                    h.push(AOp::InsertRemote { ns, w: wire, st: rng.below(3) as u8, now: T0 + 10 });
                }
            }
            81..=84 => h.push(AOp::GetExact { ns, au, key, ie: rng.chance(1, 2) }),
            85..=88 => h.push(AOp::GetAll { ns }),
            89..=90 => { stats.inc("drop"); h.push(AOp::Drop { ns }) }
            91..=92 => h.push(AOp::Import { ns, secret: if rng.chance(2, 3) { uni.secret_of(&ns) } else { None } }),
            93 => h.push(AOp::ExportSecret { ns }),
            94..=95 => h.push(AOp::SetPolicy { ns, p: gen_policy(rng) }),
            96 => h.push(AOp::GetPolicy { ns }),
            97 => h.push(AOp::RegisterPeer { ns, peer: [rng.below(7) as u8 + 1; 32] }),
            98 => h.push(AOp::GetPeers { ns }),
            _ => h.push(AOp::HasNews { ns, heads: vec![(uni.authors[au].id().to_bytes(), now)] }),
        }
        // C12: an entry that was delivered before arrives again (gossip delivers once per neighbour, and
        // once more after a reconciliation): through the single-entry path
        if c12 && rng.chance(1, 7) {
            let mut earlier: Vec<([u8; 32], WEntry)> = Vec::new();
            for o in &h {
                match o {
                    AOp::InsertRemote { ns, w, .. } => earlier.push((*ns, w.clone())),
                    AOp::SyncProcess { ns, m, .. } => for p in &m.parts { if let WPart::Item { values, .. } = p { for (w, _) in values { earlier.push((*ns, w.clone())); } } },
                    _ => {}
                }
            }
            if !earlier.is_empty() {
                let (ns, w) = rng.pick(&earlier).clone();
                stats.inc("redelivery");
                h.push(AOp::InsertRemote { ns, w, st: rng.below(3) as u8, now: T0 + 10 });
            }
        }
    }
    h
}

pub fn run(pid: &str, seed: u64, n: usize, out: &Path, _thorough: bool) -> anyhow::Result<()> {
    let mut stats = Stats::default();
    let mut cw = CaseWriter::new(out, pid, "Check.Actor", 40)?;
    run_into(pid, seed, n, &mut cw, &mut stats, None)?;
    cw.flush()?;
    stats.add("evaluations", cw.total as u64);
    stats.write(out, pid)?;
    Ok(())
}

/// C12: a slow subscriber. Channel 0 is bounded (capacity 1) and is not read while two inserts are made:
/// the actor, having stored the second entry, waits for room in that channel. The writer of the second
/// insert stops waiting in that moment (its future is dropped). Then the channel is read. Every applied
/// entry must still be announced once on both subscriptions, and the subscriptions must survive.
async fn slow_subscriber_case(rng: &mut Rng, uni: &Universe, code: u64, wrap: Option<&str>) -> anyhow::Result<(String, String)> {
    use std::future::Future;
    let (ns, secret) = uni.docs[0];
    let mut ts = TestStore::new(false)?;
    let handle = SyncHandle::spawn(ts.store.take().unwrap(), None, "verif-slow".into());
    let mut author_ids = Vec::new();
    for a in &uni.authors { author_ids.push(handle.import_author(a.clone()).await?); }
    let (slow_tx, slow_rx) = async_channel::bounded::<Event>(1);
    let (fast_tx, fast_rx) = async_channel::unbounded::<Event>();
    let mut client = Client { handle, txs: vec![slow_tx, fast_tx], rxs: vec![Some(slow_rx), Some(fast_rx)], author_ids };
    let unknown = AuthorId::from(&[0x55u8; 32]);
    let mut ops: Vec<AOp> = vec![
        AOp::Import { ns, secret: Some(secret) },
        AOp::Open { ns, sync: true, sub: Some(0) },
        AOp::Subscribe { ns, chan: 1 },
    ];
    let keys: Vec<Vec<u8>> = vec![gen_key(rng), { let mut k = gen_key(rng); k.push(0x31); k }, { let mut k = gen_key(rng); k.push(0x32); k }];
    let au = rng.below(uni.authors.len() as u64) as usize;
    for (i, k) in keys.iter().enumerate() {
        ops.push(AOp::InsertLocal { ns, au, known: true, key: k.clone(), hash: HASH_A, len: 1, now: T0 + 1 + i as u64 });
    }
    let mut replies: Vec<String> = Vec::new();
    let mut deliveries: Vec<Vec<(usize, Event)>> = Vec::new();
    // setup and the first insert: awaited; only the fast channel is read afterwards
    for op in &ops[..4] {
        replies.push(client.apply(op, unknown).await?);
        let mut d = Vec::new();
        if let Some(rx) = &client.rxs[1] { while let Ok(ev) = rx.try_recv() { d.push((1usize, ev)); } }
        deliveries.push(d);
    }
    // the second insert: sent, the actor stores the entry and waits for room in channel 0; the writer gives up
    let cancelled_pos = 5usize; // position (from 1) of the second insert in the history
    {
        let h = client.handle.clone();
        let (a, k) = (client.author_ids[au], keys[1].clone());
        verif::set_clock(T0 + 2);
        let mut fut = Box::pin(h.insert_local(NamespaceId::from(&ns), a, k.into(), iroh_blobs::Hash::from_bytes(HASH_A), 1));
        let _ = std::future::poll_fn(|cx| std::task::Poll::Ready(fut.as_mut().poll(cx))).await;
        tokio::time::sleep(std::time::Duration::from_millis(60)).await;
        drop(fut);
    }
    replies.push("AOk".into());
    // now the slow channel is read until the actor has passed the second insert (a later request as barrier)
    let mut slow: Vec<Event> = Vec::new();
    {
        let hb = client.handle.clone();
        let mut barrier = Box::pin(async move { hb.get_state(NamespaceId::from(&ns)).await });
        loop {
            if let Some(rx) = &client.rxs[0] { while let Ok(ev) = rx.try_recv() { slow.push(ev); } }
            match tokio::time::timeout(std::time::Duration::from_millis(20), &mut barrier).await {
                Ok(_) => break,
                Err(_) => continue,
            }
        }
    }
    if let Some(rx) = &client.rxs[0] { while let Ok(ev) = rx.try_recv() { slow.push(ev); } }
    let mut d2: Vec<(usize, Event)> = Vec::new();
    if let Some(rx) = &client.rxs[1] { while let Ok(ev) = rx.try_recv() { d2.push((1usize, ev)); } }
    // the slow channel's events belong to the first and the second insert, in that order
    let mut slow_it = slow.into_iter();
    if let Some(ev) = slow_it.next() { deliveries[3].insert(0, (0usize, ev)); }
    let mut d2_all: Vec<(usize, Event)> = slow_it.map(|ev| (0usize, ev)).collect();
    d2_all.extend(d2);
    deliveries.push(d2_all);
    // the third insert: awaited, both channels read
    replies.push(client.apply(&ops[5], unknown).await?);
    deliveries.push(client.drain());
    let store = client.handle.shutdown().await;
    let mut fin = Vec::new();
    if let Ok(mut store) = store {
        for d in &uni.docs {
            let l = all_entries(&mut store, NamespaceId::from(&d.0))?;
            fin.push(format!("({}, {})", n256(&d.0), clist(&l, centry)));
        }
    }
    let hist: Vec<String> = ops.iter().zip(replies.iter()).zip(deliveries.iter())
        .map(|((op, r), d)| format!("({}, {}, {})", caop(uni, op), r, clist(d, |(c, ev)| format!("({}, {})", c, cevent(ev))))).collect();
    let coq = format!("({}mkCase {} [{}] [] [] [{}] true [{}])", if wrap.is_some() { "Actor." } else { "" }, code, hist.join("; "), fin.join("; "), cancelled_pos);
    let coq = match wrap { Some(w) => format!("({} {})", w, coq), None => coq };
    let json = format!("{{\"slow_subscriber_scenario\":true,\"events_per_step\":{:?}}}", deliveries.iter().map(|d| d.len()).collect::<Vec<_>>());
    Ok((coq, json))
}

/// The histories of `pid` (C12 or C14) written into an existing case file; `wrap` = constructor of the
/// enclosing case type, if the file belongs to another check (C15 runs C12-style histories for the
/// download flag of events).
pub fn run_into(pid: &str, seed: u64, n: usize, cw: &mut CaseWriter, stats_out: &mut Stats, wrap: Option<&str>) -> anyhow::Result<()> {
    let code: u64 = pid[1..].parse()?;
    let mut rng = Rng::new(seed ^ (0xAC70 + code));
    let mut stats = std::mem::take(stats_out);
    let mut distinct = std::collections::HashSet::new();
    let rt = tokio::runtime::Builder::new_multi_thread().worker_threads(2).enable_all().build()?;
    verif::set_sync_config(None);
    for i in 0..n {
        let uni = Universe::new(seed.wrapping_add((i % 4) as u64), 2, 1 + rng.below(3) as usize);
        let ops = gen_history(pid, &mut rng, &uni, &mut stats);
        let conc_ops: (Vec<AOp>, Vec<AOp>) = if pid == "C14" && rng.chance(1, 2) {
            (gen_concurrent(&mut rng, &uni, &mut stats), gen_concurrent(&mut rng, &uni, &mut stats))
        } else { (Vec::new(), Vec::new()) };
        let persistent = rng.chance(1, 6);
        // which close / set_sync requests of a C14 history are not waited for (one in five)
        let cancel_rolls: Vec<bool> = ops.iter().map(|_| pid == "C14" && rng.chance(1, 5)).collect();
        let mut ts = TestStore::new(persistent)?;
        let store = ts.store.take().unwrap();
        let (coq, json, interesting, not_waited) = rt.block_on(async {
            let handle = SyncHandle::spawn(store, None, "verif".into());
            let mut txs = Vec::new();
            let mut rxs = Vec::new();
            for _ in 0..N_CHANS {
                let (tx, rx) = async_channel::unbounded::<Event>();
                txs.push(tx);
                rxs.push(Some(rx));
            }
            let mut author_ids = Vec::new();
            for a in &uni.authors {
                author_ids.push(handle.import_author(a.clone()).await?);
            }
            let mut client = Client { handle, txs, rxs, author_ids };
            let unknown = AuthorId::from(&[0x55u8; 32]);
            let mut hist = Vec::new();
            let mut jh = Vec::new();
            let mut interesting = false;
            let mut cancelled: Vec<usize> = Vec::new();
            for (pos, op) in ops.iter().enumerate() {
                // C14: now and then the client stops waiting for a close / set_sync right after sending it
                let r = if pid == "C14" && matches!(op, AOp::Close { .. } | AOp::SetSync { .. }) && cancel_rolls[pos] {
                    match client.apply_cancelled(op).await? {
                        Some(r) => r,
                        None => { cancelled.push(pos + 1); "AOk".to_string() }
                    }
                } else {
                    client.apply(op, unknown).await?
                };
                let evs = client.drain();
                if !evs.is_empty() { interesting = true; }
                let mut by_chan: HashMap<usize, usize> = HashMap::new();
                for (c, _) in &evs { *by_chan.entry(*c).or_insert(0) += 1; }
                hist.push(format!("({}, {}, {})", caop(&uni, op), r, clist(&evs, |(c, ev)| format!("({}, {})", c, cevent(ev)))));
                jh.push(format!("[\"{}\",\"{}\",{}]", jaop(op), r.replace('"', "'").chars().take(80).collect::<String>(), evs.len()));
            }
            // two clients at once (C14): each awaits its own requests in order, the two run
            // concurrently; the replies must be explained by some interleaving
            let mut conc: Vec<String> = Vec::new();
            let mut jconc: Vec<String> = Vec::new();
            if pid == "C14" && !conc_ops.0.is_empty() {
                client.drain();
                verif::set_clock(T0 + 7);
                let mut c1 = Client { handle: client.handle.clone(), txs: Vec::new(), rxs: Vec::new(), author_ids: client.author_ids.clone() };
                let mut c2 = Client { handle: client.handle.clone(), txs: Vec::new(), rxs: Vec::new(), author_ids: client.author_ids.clone() };
                let (ops1, ops2) = (conc_ops.0.clone(), conc_ops.1.clone());
                // both futures are polled by this task (the interning table of the case writer is
                // per thread); the requests still interleave in the actor's inbox
                let f1 = async { let mut r = Vec::new(); for op in &ops1 { r.push(c1.apply(op, unknown).await); tokio::task::yield_now().await; } r };
                let f2 = async { let mut r = Vec::new(); for op in &ops2 { r.push(c2.apply(op, unknown).await); tokio::task::yield_now().await; } r };
                let (r1, r2) = tokio::join!(f1, f2);
                for (ops, rs) in [(&conc_ops.0, r1), (&conc_ops.1, r2)] {
                    let mut items = Vec::new();
                    let mut jitems = Vec::new();
                    for (op, r) in ops.iter().zip(rs) {
                        let r = r?;
                        items.push(format!("({}, {})", caop(&uni, op), r));
                        jitems.push(format!("[\"{}\",\"{}\"]", jaop(op), r.replace('"', "'").chars().take(60).collect::<String>()));
                    }
                    conc.push(format!("[{}]", items.join("; ")));
                    jconc.push(format!("[{}]", jitems.join(",")));
                }
                client.drain();
            } else {
                conc.push("[]".into());
                conc.push("[]".into());
            }
            // shutdown hands the store back; a request issued by another task at the same moment
            // (queued behind the shutdown request) must be answered, not left waiting forever
            let h2 = client.handle.clone();
            let some_doc = NamespaceId::from(&uni.docs[0].0);
            let (store, inflight) = tokio::join!(
                client.handle.shutdown(),
                tokio::time::timeout(std::time::Duration::from_secs(2), async move { h2.get_state(some_doc).await.is_ok() })
            );
            let mut store = store?;
            let inflight_answered = inflight.is_ok();
            let mut fin = Vec::new();
            for d in &uni.docs {
                let l = all_entries(&mut store, NamespaceId::from(&d.0))?;
                fin.push(format!("({}, {})", n256(&d.0), clist(&l, centry)));
            }
            drop(store);
            let coq = format!("({}mkCase {} [{}] {} {} [{}] {} [{}])", if wrap.is_some() { "Actor." } else { "" }, code, hist.join("; "), conc[0], conc[1], fin.join("; "), cbool(inflight_answered), cancelled.iter().map(|p| p.to_string()).collect::<Vec<_>>().join("; "));
            let coq = match wrap { Some(w) => format!("({} {})", w, coq), None => coq };
            let json = format!("{{\"store\":\"{}\",\"history\":[{}],\"two_concurrent_clients\":[{}],\"request_in_flight_at_shutdown_answered\":{},\"requests_not_waited_for\":{:?}}}", if persistent { "file" } else { "memory" }, jh.join(","), jconc.join(","), inflight_answered, cancelled);
            anyhow::Ok((coq, json, interesting, cancelled.len()))
        })?;
        stats.add("requests", ops.len() as u64);
        stats.add("requests_not_waited_for", not_waited as u64);
        if interesting && distinct.insert(coq.clone()) {
            stats.inc("distinct_nontrivial");
        }
        cw.push(coq, json)?;
    }
    if pid == "C12" {
        // a few scripted runs with a slow (bounded, unread) subscriber and a writer that gives up
        for i in 0..(n / 50).max(4) {
            let uni = Universe::new(seed.wrapping_add(5000 + i as u64), 2, 1 + rng.below(3) as usize);
            let (coq, json) = rt.block_on(slow_subscriber_case(&mut rng, &uni, code, wrap))?;
            stats.inc("slow_subscriber_scenarios");
            cw.push(coq, json)?;
        }
    }
    *stats_out = stats;
    Ok(())
}
