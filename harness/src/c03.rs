//! C03: tampered entries, singly and inside crafted reconciliation messages; events (C12 part).
use std::path::Path;

use iroh_docs::{
    sync::{Event, RecordIdentifier, SyncOutcome},
    verif, Author, ContentStatus, NamespaceSecret,
};

use crate::c01::{cmessage, cwentry};
use crate::c02::{self, Op, T0};
use crate::common::*;
use crate::wire::{decode_signed_entry_caught, WEntry, WMessage, WPart};

pub const MAXF: u64 = iroh_docs::sync::MAX_TIMESTAMP_FUTURE_SHIFT;
pub const FROM: [u8; 32] = [9u8; 32];

pub fn canon(w: &WEntry) -> Vec<u8> {
    let mut c = w.id.clone();
    c.extend_from_slice(&w.len.to_be_bytes());
    c.extend_from_slice(&w.hash);
    c.extend_from_slice(&w.ts.to_be_bytes());
    c
}

/// Do both signatures verify over the canonical bytes, with the keys named in the id?
pub fn sig_ok(w: &WEntry) -> bool {
    if w.id.len() < 64 {
        return false;
    }
    let nsb: [u8; 32] = w.id[..32].try_into().unwrap();
    let aub: [u8; 32] = w.id[32..64].try_into().unwrap();
    let (Ok(nk), Ok(ak)) = (iroh::PublicKey::from_bytes(&nsb), iroh::PublicKey::from_bytes(&aub)) else {
        return false;
    };
    let c = canon(w);
    let ns = iroh::Signature::from_bytes(&w.ns_sig);
    let au = iroh::Signature::from_bytes(&w.author_sig);
    nk.verify(&c, &ns).is_ok() && ak.verify(&c, &au).is_ok()
}

pub fn sign(ns: &NamespaceSecret, author: &Author, key: &[u8], hash: [u8; 32], len: u64, ts: u64) -> WEntry {
    let mut id = Vec::new();
    id.extend_from_slice(ns.id().as_bytes());
    id.extend_from_slice(author.id().as_bytes());
    id.extend_from_slice(key);
    let mut w = WEntry { author_sig: [0; 64], ns_sig: [0; 64], id, len, hash, ts };
    let c = canon(&w);
    w.ns_sig = ns.sign(&c).to_bytes();
    w.author_sig = author.sign(&c).to_bytes();
    w
}

pub struct Tamper {
    pub w: WEntry,
    pub kind: &'static str,
}

pub fn gen_wire(rng: &mut Rng, w: &World, foreign: &NamespaceSecret, now: u64) -> Tamper {
    let au = rng.below(w.authors.len() as u64) as usize;
    let key = gen_key(rng);
    let ts = T0 + rng.below(6);
    let marker = rng.chance(1, 4);
    let hash = if marker { empty_hash() } else if rng.chance(1, 2) { HASH_A } else { HASH_B };
    let len = if marker { 0 } else if hash == HASH_A { 1 } else { 2 };
    let base = sign(&w.ns, &w.authors[au], &key, hash, len, ts);
    let sibling = sign(&w.ns, &w.authors[au], &gen_key(rng), HASH_B, 2, ts + 1);
    let mut t = base.clone();
    let kind = match rng.below(25) {
        0..=5 => "valid",
        6 => { t.author_sig[rng.below(64) as usize] ^= 1 << rng.below(8); "flip_author_sig" }
        7 => { t.ns_sig[rng.below(64) as usize] ^= 1 << rng.below(8); "flip_ns_sig" }
        8 => { std::mem::swap(&mut t.author_sig, &mut t.ns_sig); "swap_sigs" }
        9 => { t.author_sig = sibling.author_sig; t.ns_sig = sibling.ns_sig; "sibling_sigs" }
        10 => {
            match rng.below(4) {
                0 => t.ts += 1,
                1 => t.len += 1,
                2 => t.hash[rng.below(32) as usize] ^= 0x40,
                _ => { if t.id.len() > 64 { let i = 64 + rng.below((t.id.len() - 64) as u64) as usize; t.id[i] ^= 1; } else { t.id.push(0x61); } }
            }
            "alter_content"
        }
        11 => { t = sign(foreign, &w.authors[au], &key, hash, len, ts); "foreign_namespace" }
        12 => {
            let other = Author::from_bytes(&rng.bytes32());
            t.id[32..64].copy_from_slice(other.id().as_bytes());
            "foreign_author_id"
        }
        13 => {
            // an id that is not a curve point (search a few candidates)
            let mut cand = rng.bytes32();
            for _ in 0..64 {
                if iroh::PublicKey::from_bytes(&cand).is_err() { break; }
                cand = rng.bytes32();
            }
            let which = if rng.chance(1, 2) { 0..32 } else { 32..64 };
            t.id[which].copy_from_slice(&cand);
            "non_curve_id"
        }
        14 | 15 => {
            let d = rng.below(3);
            t = sign(&w.ns, &w.authors[au], &key, hash, len, now + MAXF - 1 + d);
            "future_bound"
        }
        16 => { t = sign(&w.ns, &w.authors[au], &key, empty_hash(), 1 + rng.below(3), ts); "empty_hash_nonzero_len" }
        17 => { t = sign(&w.ns, &w.authors[au], &key, HASH_A, 0, ts); "zero_len_nonempty_hash" }
        18 => { let n = rng.below(64) as usize; t.id.truncate(n); "short_id" }
        20 | 21 => {
            // an id that only resembles the signer's: the first 8-24 bytes of the author (or
            // namespace) id are the signer's, the rest is not, and the entry is signed by the real
            // keys over exactly these bytes (a cache keyed by less than the whole id would be fooled)
            let keep = 8 + 8 * rng.below(3) as usize;
            let off = if rng.chance(3, 4) { 32 } else { 0 };
            for b in t.id[off + keep..off + 32].iter_mut() { *b = rng.below(256) as u8; }
            let c = canon(&t);
            t.ns_sig = w.ns.sign(&c).to_bytes();
            t.author_sig = w.authors[au].sign(&c).to_bytes();
            "id_resembles_signer"
        }
        19 => {
            // far beyond the bound: the ends of the u64 range and both sides of the sign bit
            let far = *rng.pick(&[u64::MAX, u64::MAX - 1, 1u64 << 63, (1u64 << 63) - 1, (1u64 << 63) + (1u64 << 62),
                                  (1u64 << 63) + now + MAXF + 1, now + (1u64 << 40), u64::MAX - now, now.wrapping_add(MAXF).wrapping_add(1u64 << 32)]);
            t = sign(&w.ns, &w.authors[au], &key, hash, len, far);
            "far_future"
        }
        // one signature copied into the other slot (a check that skips "the same signature twice" is fooled:
        // every writer holds the namespace key and could speak for any author)
        23 => { t.author_sig = t.ns_sig; "author_sig_is_copy_of_ns_sig" }
        24 => { t.ns_sig = t.author_sig; "ns_sig_is_copy_of_author_sig" }
        _ => { t.ts = 0; t = sign(&w.ns, &w.authors[au], &key, hash, len, 0); "ts_zero" }
    };
    Tamper { w: t, kind }
}

pub fn cevent(ev: &Event) -> String {
    match ev {
        Event::LocalInsert { entry, .. } => format!("(LocalInsert {})", centry(entry)),
        Event::RemoteInsert { entry, from, should_download, remote_content_status, .. } => format!(
            "(RemoteInsert {} {} {} {})",
            centry(entry),
            n256(from),
            cbool(*should_download),
            cstatus(*remote_content_status)
        ),
    }
}
pub fn cstatus(s: ContentStatus) -> u8 {
    match s {
        ContentStatus::Complete => 0,
        ContentStatus::Incomplete => 1,
        ContentStatus::Missing => 2,
    }
}

pub fn run(seed: u64, n: usize, out: &Path, _thorough: bool) -> anyhow::Result<()> {
    let mut rng = Rng::new(seed ^ 0xC03);
    let mut stats = Stats::default();
    let mut cw = CaseWriter::new(out, "C03", "Check.C03", 40)?;
    let mut distinct = std::collections::HashSet::new();
    let rt = rt();
    verif::set_sync_config(None);
    for i in 0..n {
        let n_auth = 1 + rng.below(3) as usize;
        let w = World::new(seed.wrapping_add((i % 5) as u64), n_auth);
        let foreign = NamespaceSecret::from_bytes(&rng.bytes32());
        let ops: Vec<Op> = (0..rng.below(8)).map(|_| c02::gen_op(&mut rng, &w, &mut stats)).collect();
        let persistent = rng.chance(1, 8);
        let (mut ts, results) = c02::build_state(&w, &ops, persistent)?;
        let before = all_entries(ts.s(), w.ns_id())?;
        let ns = w.ns_id();
        let mut steps: Vec<String> = Vec::new();
        let mut jsteps: Vec<String> = Vec::new();
        let mut interesting = false;
        let (tx, rx) = async_channel::unbounded::<Event>();
        let n_steps = 1 + rng.below(6);
        let mut crashed = false;
        for _ in 0..n_steps {
            if crashed { break; }
            let now = T0 + 10 + rng.below(3);
            verif::set_clock(now);
            let as_message = rng.chance(2, 5);
            let (step, jstep): (String, String);
            {
                let mut replica = ts.s().open_replica(&ns)?;
                verif::replica_subscribe(&mut replica, tx.clone());
                if !as_message {
                    let t = gen_wire(&mut rng, &w, &foreign, now);
                    stats.inc(&format!("tamper_{}", t.kind));
                    let bytes = t.w.encode();
                    if t.w.id.len() < 64 {
                        let r = match decode_signed_entry_caught(&bytes) {
                            None => { stats.inc("panics"); crashed = true; "(Err EPanic)".to_string() }
                            Some(Err(_)) => "(Err EDecode)".to_string(),
                            Some(Ok(e)) => {
                                let res = std::panic::catch_unwind(std::panic::AssertUnwindSafe(|| {
                                    rt.block_on(replica.insert_remote_entry(e, FROM, ContentStatus::Missing))
                                }));
                                match res {
                                    Ok(r) => cresult(&r),
                                    Err(_) => "(Err EPanic)".to_string(),
                                }
                            }
                        };
                        step = format!("(ShortId {})", r);
                        jstep = format!("{{\"short_id_len\":{},\"result\":\"{}\"}}", t.w.id.len(), r);
                    } else {
                        let ok = sig_ok(&t.w);
                        // a decoder that panics on these bytes is reported like a panic of the insert
                        let res = std::panic::catch_unwind(std::panic::AssertUnwindSafe(|| {
                            let e = decode_signed_entry_caught(&bytes).expect("the decoder panicked").expect("well-formed wire entry");
                            rt.block_on(replica.insert_remote_entry(e, FROM, ContentStatus::Missing))
                        }));
                        let (r_ok, r) = match &res {
                            Ok(r) => (r.is_ok(), cresult(r)),
                            Err(_) => { stats.inc("panics"); crashed = true; (false, "(Err EPanic)".to_string()) }
                        };
                        if ok && r_ok { interesting = true; }
                        step = format!("(Remote {} {} {} {})", cwentry(&t.w), cbool(ok), now, r);
                        jstep = format!(
                            "{{\"insert_remote\":\"{}\",\"key\":\"{}\",\"ts\":{},\"len\":{},\"hash\":\"{}\",\"sig_ok\":{},\"now\":{},\"result\":\"{}\"}}",
                            t.kind, hex::encode(&t.w.id[64..]), t.w.ts, t.w.len, hex::encode(&t.w.hash[..4]), ok, now, r
                        );
                    }
                } else {
                    // a crafted message: 1-2 item parts with valid and tampered values mixed, maybe a fingerprint part
                    let mut parts = Vec::new();
                    let mut coq_parts = Vec::new();
                    let mut kinds = Vec::new();
                    let n_parts = 1 + rng.below(2);
                    for _ in 0..n_parts {
                        let x = RecordIdentifier::new(ns, rng.pick(&w.authors).id(), gen_key(&mut rng));
                        let y = if rng.chance(1, 3) { x.clone() } else { RecordIdentifier::new(ns, rng.pick(&w.authors).id(), gen_key(&mut rng)) };
                        let mut values = Vec::new();
                        let mut cvals = Vec::new();
                        for _ in 0..rng.below(5) {
                            let mut t = gen_wire(&mut rng, &w, &foreign, now);
                            while t.w.id.len() < 64 { t = gen_wire(&mut rng, &w, &foreign, now); }
                            let st = rng.below(3) as u8;
                            let ok = sig_ok(&t.w);
                            kinds.push(t.kind);
                            stats.inc(&format!("tamper_{}", t.kind));
                            cvals.push(format!("({}, {})", cwentry(&t.w), st as u64 + if ok { 0 } else { 4 }));
                            values.push((t.w, st));
                        }
                        let have_local = rng.chance(1, 2);
                        coq_parts.push(format!("(PItem {} {} [{}] {})", crate::c01::crid(x.as_ref()), crate::c01::crid(y.as_ref()), cvals.join("; "), cbool(have_local)));
                        parts.push(WPart::Item { x: x.as_ref().to_vec(), y: y.as_ref().to_vec(), values, have_local });
                    }
                    let wm = WMessage { parts };
                    let mut oc = SyncOutcome::default();
                    // decoding is part of what is under test: a decoder panic is reported like a panic
                    // while processing
                    let res = std::panic::catch_unwind(std::panic::AssertUnwindSafe(|| {
                        let real = wm.to_real().expect("crafted message decodes");
                        rt.block_on(replica.sync_process_message(real, FROM, &mut oc))
                    }));
                    interesting = true;
                    stats.inc("crafted_messages");
                    let kinds_j = kinds.iter().map(|k| format!("\"{}\"", k)).collect::<Vec<_>>().join(",");
                    match res {
                        Err(_) => {
                            crashed = true;
                            stats.inc("panics");
                            step = format!("(Crash [{}] {})", coq_parts.join("; "), now);
                            jstep = format!("{{\"message_values\":[{}],\"now\":{},\"panicked\":true}}", kinds_j, now);
                        }
                        Ok(reply) => {
                            let reply = reply?;
                            let mut fp_ok = true;
                            let creply = match &reply {
                                None => "None".to_string(),
                                Some(r) => format!("(Some {})", cmessage(r, &mut replica, &mut fp_ok)?.0),
                            };
                            step = format!("(Msg [{}] {} {} {} {})", coq_parts.join("; "), now, creply, oc.num_recv, oc.num_sent);
                            jstep = format!("{{\"message_values\":[{}],\"now\":{},\"recv\":{},\"sent\":{}}}", kinds_j, now, oc.num_recv, oc.num_sent);
                        }
                    }
                }
            }
            if crashed {
                steps.push(format!("({}, [], [])", step));
                jsteps.push(jstep);
                break;
            }
            ts.s().close_replica(ns);
            let mut evs = Vec::new();
            while let Ok(ev) = rx.try_recv() {
                evs.push(cevent(&ev));
            }
            stats.add("events", evs.len() as u64);
            // reading the content back can itself panic when a malformed entry was stored
            let after = std::panic::catch_unwind(std::panic::AssertUnwindSafe(|| all_entries(ts.s(), ns)));
            match after {
                Ok(after) => {
                    let after = after?;
                    steps.push(format!("({}, [{}], {})", step, evs.join("; "), clist(&after, centry)));
                    jsteps.push(jstep);
                }
                Err(_) => {
                    stats.inc("panics");
                    steps.push(format!("({}, [{}], [])", step, evs.join("; ")));
                    steps.push("(Crash [] 0, [], [])".to_string());
                    jsteps.push(jstep);
                    jsteps.push("{\"reading_the_content_back_panicked\":true}".to_string());
                    break;
                }
            }
        }
        let coq = format!("(mkCase {} {} {} [{}])", n256(ns.as_bytes()), c02::cops(&w, &ops, &results), clist(&before, centry), steps.join("; "));
        let json = format!("{{\"store\":\"{}\",\"ops\":[{}],\"steps\":[{}]}}", if persistent { "file" } else { "memory" }, c02::jops(&ops), jsteps.join(","));
        if interesting && distinct.insert(coq.clone()) {
            stats.inc("distinct_nontrivial");
        }
        cw.push(coq, json)?;
    }
    cw.flush()?;
    stats.add("evaluations", cw.total as u64);
    stats.write(out, "C03")?;
    Ok(())
}
