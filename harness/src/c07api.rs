//! C07 one layer up: the client API (`DocsApi` / `Doc`, src/api) on a real node. Its handlers are thin
//! mappings onto the store handle: `import_namespace` = import + open, `Doc::close` = close,
//! `Doc::set_hash` = insert_local, `Doc::del` = delete_prefix. A scenario through the API is recorded as
//! the sequence of store-handle requests it must amount to, with the API's answers, and is compared with
//! the actor model and with the capability oracle (a document whose write secret was imported accepts
//! local writes, a read-only one refuses them).
use std::collections::HashMap;

use iroh::{endpoint::presets, Endpoint};
use iroh_docs::{api::Doc, protocol::Docs, verif, Capability, NamespaceId, NamespaceSecret};
use iroh_gossip::net::Gossip;

use crate::actorops::{caop, AOp};
use crate::c02::T0;
use crate::common::*;
use crate::storeops::Universe;

fn classify_api(e: &anyhow::Error) -> String {
    let s = format!("{e:#}");
    if s.contains("read only replica") || s.contains("read access only") {
        "(AErr (AInsert EReadOnly))".into()
    } else if s.contains("replica not open") {
        "(AErr ANotOpen)".into()
    } else if s.contains("empty entry") {
        "(AErr (AInsert EEntryIsEmpty))".into()
    } else if s.contains("newer entry exists") {
        "(AErr (AInsert ENewerExists))".into()
    } else {
        "(AErr AOther)".into()
    }
}

pub fn run_into(seed: u64, n: usize, cw: &mut CaseWriter, stats: &mut Stats, wrap: &str) -> anyhow::Result<()> {
    let mut rng = Rng::new(seed ^ 0xA707);
    let rt = tokio::runtime::Builder::new_multi_thread().worker_threads(2).enable_all().build()?;
    rt.block_on(async {
        let endpoint = Endpoint::bind(presets::Minimal).await?;
        let gossip = Gossip::builder().spawn(endpoint.clone());
        let blobs = iroh_blobs::store::mem::MemStore::new();
        let docs = Docs::memory().spawn(endpoint.clone(), (*blobs).clone(), gossip.clone()).await?;
        let api = docs.api().clone();
        for i in 0..n {
            // fresh documents and authors per scenario (one node serves them all)
            let uni = Universe::new(seed.wrapping_mul(7919).wrapping_add(i as u64), 2, 2);
            for a in &uni.authors { api.author_import(a.clone()).await?; }
            let mut handles: HashMap<[u8; 32], Vec<Doc>> = HashMap::new();
            let mut hist: Vec<String> = Vec::new();
            let mut jh: Vec<String> = Vec::new();
            let mut upgraded = false;
            let steps = 6 + rng.below(10);
            for step in 0..steps {
                let d = rng.below(2) as usize;
                let (ns, secret) = uni.docs[d];
                let au = rng.below(2) as usize;
                let key = gen_key(&mut rng);
                let now = T0 + step;
                verif::set_clock(now);
                // the first two steps are imports, so that there is something to write to
                match if step < 2 { 0 } else { rng.below(10) } {
                    0..=1 | 2 => {
                        // import (read or write), which also opens a handle
                        let write = rng.chance(1, 2);
                        let cap = if write { Capability::Write(NamespaceSecret::from_bytes(&secret)) } else { Capability::Read(NamespaceId::from(&ns)) };
                        let had_read_only = handles.get(&ns).map(|v| !v.is_empty()).unwrap_or(false);
                        match api.import_namespace(cap).await {
                            Ok(doc) => {
                                handles.entry(ns).or_default().push(doc);
                                let imp = AOp::Import { ns, secret: if write { Some(secret) } else { None } };
                                let open = AOp::Open { ns, sync: false, sub: None };
                                hist.push(format!("({}, AOk, [])", caop(&uni, &imp)));
                                hist.push(format!("({}, AOk, [])", caop(&uni, &open)));
                                jh.push(format!("\"import_namespace {} {}\"", hex::encode(&ns[..4]), if write { "write" } else { "read" }));
                                if write && had_read_only { upgraded = true; stats.inc("api_write_import_while_open"); }
                            }
                            Err(e) => anyhow::bail!("import_namespace failed: {e:#}"),
                        }
                    }
                    3 => {
                        if let Some(doc) = handles.get_mut(&ns).and_then(|v| v.pop()) {
                            doc.close().await?;
                            let left = handles.get(&ns).map(|v| v.len()).unwrap_or(0);
                            hist.push(format!("({}, (ABool {}), [])", caop(&uni, &AOp::Close { ns }), cbool(left == 0)));
                            jh.push(format!("\"close {}\"", hex::encode(&ns[..4])));
                        }
                    }
                    4..=7 => {
                        if let Some(doc) = handles.get(&ns).and_then(|v| v.last()) {
                            let hash = if rng.chance(1, 2) { HASH_A } else { HASH_B };
                            let len = if hash == HASH_A { 1 } else { 2 };
                            let r = doc.set_hash(uni.authors[au].id(), key.clone(), iroh_blobs::Hash::from_bytes(hash), len).await;
                            let rs = match &r { Ok(()) => "AOk".to_string(), Err(e) => classify_api(e) };
                            hist.push(format!("({}, {}, [])", caop(&uni, &AOp::InsertLocal { ns, au, known: true, key: key.clone(), hash, len, now }), rs));
                            jh.push(format!("\"set_hash {} key={} -> {}\"", hex::encode(&ns[..4]), hex::encode(&key), rs.replace('"', "'")));
                            stats.inc("api_insert");
                        }
                    }
                    _ => {
                        if let Some(doc) = handles.get(&ns).and_then(|v| v.last()) {
                            let r = doc.del(uni.authors[au].id(), key.clone()).await;
                            let rs = match &r { Ok(n) => format!("(ACount {})", n), Err(e) => classify_api(e) };
                            hist.push(format!("({}, {}, [])", caop(&uni, &AOp::DeletePrefix { ns, au, known: true, key: key.clone(), now }), rs));
                            jh.push(format!("\"del {} prefix={} -> {}\"", hex::encode(&ns[..4]), hex::encode(&key), rs.replace('"', "'")));
                        }
                    }
                }
            }
            // leave the documents closed
            for (_, v) in handles.drain() { for doc in v { let _ = doc.close().await; } }
            stats.inc("api_scenarios");
            if upgraded { stats.inc("distinct_nontrivial"); }
            let coq = format!("({} (Actor.mkCase 7 [{}] [] [] [] true []))", wrap, hist.join("; "));
            let json = format!("{{\"client_api_scenario\":[{}]}}", jh.join(","));
            cw.push(coq, json)?;
        }
        drop(docs);
        endpoint.close().await;
        anyhow::Ok(())
    })?;
    Ok(())
}
