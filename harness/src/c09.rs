//! C09: wire and storage encodings.
use std::path::Path;

use bytes::BytesMut;
use iroh_docs::{
    net::verif_codec::{codec_decode, codec_decode_eof, codec_encode, WireMessage},
    store::DownloadPolicy,
    sync::{Capability, ProtocolMessage, SignedEntry},
    verif, AuthorHeads, AuthorId, DocTicket, NamespaceId, NamespaceSecret,
};

use crate::c02::{self, Op};
use crate::common::*;
use crate::storeops::gen_policy;

fn catch<T>(f: impl FnOnce() -> T) -> Option<T> {
    std::panic::catch_unwind(std::panic::AssertUnwindSafe(f)).ok()
}

/// Feed `input` to the real decoder of `kind`; verdict 0 = Err, 1 = Ok(re-encoded), 2 = panic.
/// Decoded values are also *used* (accessors called), as the rest of the crate would.
fn decode_kind(kind: &str, input: &[u8]) -> (u8, Vec<u8>) {
    let r = catch(|| -> Option<Vec<u8>> {
        match kind {
            "KEntry" => {
                let e: SignedEntry = postcard::from_bytes(input).ok()?;
                let _ = (e.entry().namespace(), e.author_bytes(), e.key().len(), e.entry().id().to_byte_tuple());
                let _ = e.verify(&());
                Some(postcard::to_stdvec(&e).unwrap())
            }
            "KMessage" => {
                let m: ProtocolMessage = postcard::from_bytes(input).ok()?;
                Some(postcard::to_stdvec(&m).unwrap())
            }
            "KCodec" => {
                // through the frame decoder: prepend a correct length header
                let mut buf = BytesMut::new();
                buf.extend_from_slice(&(input.len() as u32).to_be_bytes());
                buf.extend_from_slice(input);
                let m = codec_decode(&mut buf).ok()??;
                let mut out = BytesMut::new();
                codec_encode(m, &mut out).unwrap();
                Some(out[4..].to_vec())
            }
            "KHeads" => {
                // the codec-level view: Vec<(u64, [u8;32])>; AuthorHeads::decode additionally merges duplicates
                let items: Vec<(u64, AuthorId)> = postcard::from_bytes(input).ok()?;
                let _ = AuthorHeads::decode(input).ok()?;
                Some(postcard::to_stdvec(&items).unwrap())
            }
            "KPolicy" => {
                let p: DownloadPolicy = postcard::from_bytes(input).ok()?;
                Some(postcard::to_stdvec(&p).unwrap())
            }
            _ => unreachable!(),
        }
    });
    match r {
        None => (2, vec![]),
        Some(None) => (0, vec![]),
        Some(Some(b)) => (1, b),
    }
}

fn corrupt(rng: &mut Rng, b: &[u8]) -> Vec<u8> {
    let mut v = b.to_vec();
    match rng.below(6) {
        0 if !v.is_empty() => { let i = rng.below(v.len() as u64) as usize; v[i] ^= 1 << rng.below(8); }
        1 if !v.is_empty() => { let i = rng.below(v.len() as u64) as usize; v[i] = *rng.pick(&[0u8, 0x7f, 0x80, 0xff, 1, 2, 3]); }
        2 if !v.is_empty() => { let n = rng.below(v.len() as u64) as usize; v.truncate(n); }
        3 => { let i = rng.below(v.len() as u64 + 1) as usize; v.insert(i, *rng.pick(&[0u8, 0x80, 0xff, 0x40])); }
        4 if !v.is_empty() => { let i = rng.below(v.len() as u64) as usize; v.remove(i); }
        _ => { let n = rng.below(40) as usize; v = (0..n).map(|_| rng.next() as u8).collect(); }
    }
    v
}

pub fn run(seed: u64, n: usize, out: &Path, thorough: bool) -> anyhow::Result<()> {
    let mut rng = Rng::new(seed ^ 0xC09);
    let mut stats = Stats::default();
    let mut cw = CaseWriter::new(out, "C09", "Check.C09", 250)?;
    let mut distinct = std::collections::HashSet::new();
    let mut push = |cw: &mut CaseWriter, stats: &mut Stats, coq: String, json: String, nontrivial: bool| -> anyhow::Result<()> {
        if nontrivial && distinct.insert(coq.clone()) {
            stats.inc("distinct_nontrivial");
        }
        cw.push(coq, json)
    };
    verif::set_sync_config(None);
    let now = c02::T0 + 10;

    // pinned encodings of the suite (signed entry, author, namespace secret)
    {
        let author = iroh_docs::Author::from_bytes(&[0xa1; 32]);
        let namespace = NamespaceSecret::from_bytes(&[0xb2; 32]);
        let record = iroh_docs::sync::Record::new(iroh_blobs::Hash::EMPTY, 0, 1_700_000_000_000_000u64);
        let signed = SignedEntry::from_parts(&namespace, &author, b"wire-format-test", record);
        let bytes = postcard::to_stdvec(&signed)?;
        let pinned = hex::decode("4b523f1b6d9b00a4779fc9f8f105a9e36f062ceb7d511b632905782042ad30acb6dd07bfced4ecd5f3aa58321e8ace63f48f988ed8461bfdcd8b0e902187a10e228ddc6998329b7faa64875fe80da36406ea8d87e3e57bb048323e9cb66c0b343b60c4e709fb978b878e37d0c362edfc06c8cdc774c8b29d94e48eaa06cca60f5055154f42065ea5a1bea05463826be2684eb92df92c100027aabaae57ca554207bc7cbcb5636375fa1d82434d466724d92377f53b980695dd49d26d0ce12205a5776972652d666f726d61742d7465737400af1349b9f5f9a1a6a0404dea36dcc9499bcb25c9adc112b7cc9a93cae41f32628080f9c0c1c48203")?;
        let a = postcard::to_stdvec(&author)?;
        let s = postcard::to_stdvec(&namespace)?;
        let ok = bytes == pinned && hex::encode(&a) == format!("20{}", "a1".repeat(32)) && hex::encode(&s) == format!("20{}", "b2".repeat(32));
        push(&mut cw, &mut stats, format!("(Enc KEntry {} {})", cbytes(&bytes), cbool(ok)), format!("{{\"pinned_encodings_ok\":{}}}", ok), true)?;
        stats.inc("pinned_checks");
    }

    for i in 0..n {
        let n_auth = 1 + rng.below(3) as usize;
        let w = World::new(seed.wrapping_add((i % 5) as u64), n_auth);
        // real messages from a real session
        let la = rng.below(10) as usize;
        let lb = rng.below(10) as usize;
        let ops_a: Vec<Op> = (0..la).map(|_| c02::gen_op(&mut rng, &w, &mut stats)).collect();
        let ops_b: Vec<Op> = (0..lb).map(|_| c02::gen_op(&mut rng, &w, &mut stats)).collect();
        let (mut sa, _) = c02::build_state(&w, &ops_a, false)?;
        let (mut sb, _) = c02::build_state(&w, &ops_b, false)?;
        verif::set_clock(now);
        let rt = rt();
        let mut msgs: Vec<ProtocolMessage> = Vec::new();
        {
            let mut ra = sa.s().open_replica(&w.ns_id())?;
            let mut rb = sb.s().open_replica(&w.ns_id())?;
            let mut oa = Default::default();
            let mut ob = Default::default();
            let mut m = ra.sync_initial_message()?;
            msgs.push(m.clone());
            let mut turn_b = true;
            for _ in 0..200 {
                let r = if turn_b { rt.block_on(rb.sync_process_message(m, [1; 32], &mut ob))? } else { rt.block_on(ra.sync_process_message(m, [2; 32], &mut oa))? };
                let Some(r) = r else { break };
                msgs.push(r.clone());
                m = r;
                turn_b = !turn_b;
            }
        }
        // codec-level messages of that session
        let mut frames: Vec<Vec<u8>> = Vec::new();   // payloads
        let mut wire: Vec<u8> = Vec::new();
        for (j, m) in msgs.iter().enumerate() {
            let wm = if j == 0 { WireMessage::Init { namespace: w.ns_id(), message: m.clone() } } else { WireMessage::Sync(m.clone()) };
            let mut buf = BytesMut::new();
            codec_encode(wm, &mut buf)?;
            frames.push(buf[4..].to_vec());
            wire.extend_from_slice(&buf);
        }
        if rng.chance(1, 4) {
            let mut buf = BytesMut::new();
            codec_encode(WireMessage::Abort(*rng.pick(&[iroh_docs::net::AbortReason::NotFound, iroh_docs::net::AbortReason::AlreadySyncing, iroh_docs::net::AbortReason::InternalServerError])), &mut buf)?;
            frames.push(buf[4..].to_vec());
            wire.extend_from_slice(&buf);
        }
        // (a) real encodings
        for m in msgs.iter().take(3) {
            let b = postcard::to_stdvec(m)?;
            let (v, re) = decode_kind("KMessage", &b);
            stats.inc("enc_message");
            push(&mut cw, &mut stats, format!("(Enc KMessage {} {})", cbytes(&b), cbool(v == 1 && re == b)), format!("{{\"enc\":\"message\",\"len\":{}}}", b.len()), true)?;
            for (e, _) in crate::wire::WMessage::of(m).parts.iter().flat_map(|p| match p { crate::wire::WPart::Item { values, .. } => values.clone(), _ => vec![] }).take(2) {
                let eb = e.encode();
                let (v, re) = decode_kind("KEntry", &eb);
                stats.inc("enc_entry");
                push(&mut cw, &mut stats, format!("(Enc KEntry {} {})", cbytes(&eb), cbool(v == 1 && re == eb)), format!("{{\"enc\":\"entry\",\"len\":{}}}", eb.len()), true)?;
                // (b) corrupted entries
                for _ in 0..(if thorough { 6 } else { 2 }) {
                    let c = corrupt(&mut rng, &eb);
                    let (v, re) = decode_kind("KEntry", &c);
                    stats.inc(&format!("dec_entry_verdict{}", v));
                    push(&mut cw, &mut stats, format!("(Dec KEntry {} {} {})", cbytes(&c), v, cbytes(&re)), format!("{{\"dec\":\"entry\",\"input\":\"{}\",\"verdict\":{}}}", hex::encode(&c), v), v == 1)?;
                }
            }
            for _ in 0..(if thorough { 6 } else { 2 }) {
                let c = corrupt(&mut rng, &b);
                let (v, re) = decode_kind("KMessage", &c);
                stats.inc(&format!("dec_message_verdict{}", v));
                push(&mut cw, &mut stats, format!("(Dec KMessage {} {} {})", cbytes(&c), v, cbytes(&re)), format!("{{\"dec\":\"message\",\"input\":\"{}\",\"verdict\":{}}}", hex::encode(&c), v), v == 1)?;
            }
        }
        for f in frames.iter().take(3) {
            let (v, re) = decode_kind("KCodec", f);
            stats.inc("enc_codec");
            push(&mut cw, &mut stats, format!("(Enc KCodec {} {})", cbytes(f), cbool(v == 1 && &re == f)), format!("{{\"enc\":\"codec\",\"len\":{}}}", f.len()), true)?;
            for _ in 0..2 {
                let c = corrupt(&mut rng, f);
                let (v, re) = decode_kind("KCodec", &c);
                stats.inc(&format!("dec_codec_verdict{}", v));
                push(&mut cw, &mut stats, format!("(Dec KCodec {} {} {})", cbytes(&c), v, cbytes(&re)), format!("{{\"dec\":\"codec\",\"input\":\"{}\",\"verdict\":{}}}", hex::encode(&c), v), v == 1)?;
            }
        }
        // (c) the stream, chunked at random positions; complete, truncated, or corrupted
        for variant in 0..4 {
            let mut data = wire.clone();
            let (complete, truncated) = match variant {
                0 => (true, false),
                1 => {
                    // anywhere; or (a third of the time) inside a length header: 1-3 bytes after a frame boundary
                    let mut cut = rng.below(data.len() as u64 + 1) as usize;
                    if rng.chance(1, 3) {
                        let k = rng.below(frames.len().max(1) as u64) as usize;
                        let boundary: usize = frames.iter().take(k).map(|f| 4 + f.len()).sum();
                        let c = boundary + 1 + rng.below(3) as usize;
                        if c < data.len() { cut = c; stats.inc("stream_cut_inside_header"); }
                    }
                    data.truncate(cut);
                    (cut == wire.len(), cut != wire.len())
                }
                2 => { data = corrupt(&mut rng, &data); if rng.chance(1, 3) { data.splice(0..0, [0x7f, 0xff, 0xff, 0xff]); } (false, false) }
                _ => {
                    // a length header that is a little too small or too large for its message
                    let mut pos = 0usize;
                    let k = rng.below(frames.len().max(1) as u64) as usize;
                    for f in frames.iter().take(k) { pos += 4 + f.len(); }
                    if pos + 4 <= data.len() {
                        let len = u32::from_be_bytes([data[pos], data[pos + 1], data[pos + 2], data[pos + 3]]);
                        let d = 1 + rng.below(3) as u32;
                        let new = if rng.chance(1, 2) { len.saturating_sub(d) } else { len + d };
                        data[pos..pos + 4].copy_from_slice(&new.to_be_bytes());
                    }
                    (false, false)
                }
            };
            let mut chunks: Vec<Vec<u8>> = Vec::new();
            let mut pos = 0;
            while pos < data.len() {
                let small = rng.chance(1, 3);
                let step = 1 + rng.below(if small { 3 } else { 200 }) as usize;
                let end = (pos + step).min(data.len());
                chunks.push(data[pos..end].to_vec());
                pos = end;
            }
            // (messages re-encoded, error, eof error, panicked, bytes left)
            let feed = |chunks: &[Vec<u8>]| -> anyhow::Result<(Vec<Vec<u8>>, bool, bool, bool, usize)> {
                let mut buf = BytesMut::new();
                let mut got: Vec<Vec<u8>> = Vec::new();
                let mut err = false;
                let mut panicked = false;
                'outer: for c in chunks {
                    buf.extend_from_slice(c);
                    loop {
                        match catch(|| codec_decode(&mut buf)) {
                            None => { panicked = true; break 'outer; }
                            Some(Err(_)) => { err = true; break 'outer; }
                            Some(Ok(None)) => break,
                            Some(Ok(Some(m))) => {
                                let mut o = BytesMut::new();
                                codec_encode(m, &mut o)?;
                                got.push(o[4..].to_vec());
                            }
                        }
                    }
                }
                // end of stream: tokio's default decode_eof reports leftover bytes as an error
                let eof_err = if err || panicked { false } else {
                    loop {
                        match catch(|| codec_decode_eof(&mut buf)) {
                            None => { panicked = true; break false; }
                            Some(Err(_)) => break true,
                            Some(Ok(None)) => break false,
                            Some(Ok(Some(_))) => continue,
                        }
                    }
                };
                Ok((got, err, eof_err, panicked, buf.len()))
            };
            let (got, err, eof_err, panicked, rest_len) = feed(&chunks)?;
            // the same bytes in one piece and byte by byte: the outcome must not depend on the chunking
            let whole = feed(&[data.clone()])?;
            let bytewise = feed(&data.iter().map(|b| vec![*b]).collect::<Vec<_>>())?;
            let same = |o: &(Vec<Vec<u8>>, bool, bool, bool, usize)| o.0 == got && o.1 == err && o.3 == panicked && (o.1 || (o.2 == eof_err && o.4 == rest_len));
            let chunk_indep = same(&whole) && same(&bytewise);
            if !chunk_indep { stats.inc("chunking_dependent"); }
            stats.inc(match variant { 0 => "stream_complete", 1 => "stream_truncated", 2 => "stream_corrupted", _ => "stream_header_tweaked" });
            stats.add("stream_chunks", chunks.len() as u64);
            if panicked { stats.inc("panics"); }
            let coq = format!(
                "(Stream {} {} {} {} {} {} {} {} {})",
                clist(&chunks, |c| cbytes(c)), clist(&frames, |f| cbytes(f)), cbool(complete), cbool(truncated),
                clist(&got, |g| cbytes(g)), cbool(err || panicked), cbool(eof_err), rest_len, cbool(chunk_indep)
            );
            push(&mut cw, &mut stats, coq, format!("{{\"stream\":{},\"bytes\":{},\"chunks\":{},\"decoded\":{},\"error\":{},\"eof_error\":{},\"panicked\":{},\"outcome_independent_of_chunking\":{},\"data\":\"{}\"}}", variant, data.len(), chunks.len(), got.len(), err, eof_err, panicked, chunk_indep, hex::encode(&data)), !got.is_empty())?;
        }
        // heads
        {
            let mut heads = AuthorHeads::default();
            for a in &w.authors { if rng.chance(2, 3) { heads.insert(a.id(), c02::T0 + rng.below(4)); } }
            for _ in 0..rng.below(4) { heads.insert(AuthorId::from(&rng.bytes32()), c02::T0 + rng.below(4)); }
            let limit = if rng.chance(1, 2) { None } else { Some(rng.below(200) as usize) };
            if let Ok(b) = heads.encode(limit) {
                let (v, re) = decode_kind("KHeads", &b);
                stats.inc("enc_heads");
                push(&mut cw, &mut stats, format!("(Enc KHeads {} {})", cbytes(&b), cbool(v == 1 && re == b)), format!("{{\"enc\":\"heads\",\"len\":{}}}", b.len()), true)?;
                let c = corrupt(&mut rng, &b);
                let (v, re) = decode_kind("KHeads", &c);
                push(&mut cw, &mut stats, format!("(Dec KHeads {} {} {})", cbytes(&c), v, cbytes(&re)), format!("{{\"dec\":\"heads\",\"input\":\"{}\",\"verdict\":{}}}", hex::encode(&c), v), v == 1)?;
            }
        }
        // policy
        {
            let p = gen_policy(&mut rng);
            let b = postcard::to_stdvec(&p)?;
            let (v, re) = decode_kind("KPolicy", &b);
            stats.inc("enc_policy");
            push(&mut cw, &mut stats, format!("(Enc KPolicy {} {})", cbytes(&b), cbool(v == 1 && re == b)), format!("{{\"enc\":\"policy\",\"len\":{}}}", b.len()), true)?;
            let c = corrupt(&mut rng, &b);
            let (v, re) = decode_kind("KPolicy", &c);
            push(&mut cw, &mut stats, format!("(Dec KPolicy {} {} {})", cbytes(&c), v, cbytes(&re)), format!("{{\"dec\":\"policy\",\"input\":\"{}\",\"verdict\":{}}}", hex::encode(&c), v), v == 1)?;
        }
        // capability raw form
        {
            let kind = rng.below(5) as u8;
            let bytes = rng.bytes32();
            let r = catch(|| Capability::from_raw(kind, &bytes));
            let (ok, writable, back) = match r {
                Some(Ok(c)) => { let (k, b) = c.raw(); (b == bytes || matches!(c, Capability::Write(_)), matches!(c, Capability::Write(_)), k) }
                _ => (false, false, 0),
            };
            push(&mut cw, &mut stats, format!("(CapRaw {} {} {} {})", kind, cbool(ok), cbool(writable), back), format!("{{\"cap_raw_kind\":{},\"ok\":{}}}", kind, ok), ok)?;
            stats.inc("cap_raw");
        }
        // tickets: round trip with >= 1 node, hostile strings and bytes, empty node list
        {
            let cap = if rng.chance(1, 2) { Capability::Write(w.ns.clone()) } else { Capability::Read(w.ns_id()) };
            let nodes: Vec<iroh::EndpointAddr> = (0..1 + rng.below(3)).map(|_| iroh::EndpointAddr::new(iroh::SecretKey::from_bytes(&rng.bytes32()).public())).collect();
            let t = DocTicket::new(cap.clone(), nodes.clone());
            let s = t.to_string();
            let back: Result<DocTicket, _> = s.parse();
            let rt_ok = match &back { Ok(b) => b.capability.raw() == cap.raw() && b.nodes == nodes, Err(_) => false };
            let mut hostile_panicked = false;
            for _ in 0..6 {
                let mut chars: Vec<char> = s.chars().collect();
                match rng.below(4) {
                    0 => { let i = rng.below(chars.len() as u64) as usize; chars[i] = *rng.pick(&['a', '0', '!', 'Z', '=', 'é']); }
                    1 => { let nn = rng.below(chars.len() as u64) as usize; chars.truncate(nn); }
                    2 => { chars.insert(0, 'x'); }
                    _ => { let i = rng.below(chars.len() as u64) as usize; chars.remove(i); }
                }
                let hs: String = chars.into_iter().collect();
                if catch(|| hs.parse::<DocTicket>().map(|t| t.nodes.len())).is_none() { hostile_panicked = true; }
                let raw = corrupt(&mut rng, &<DocTicket as iroh_tickets::Ticket>::encode_bytes(&t));
                if catch(|| <DocTicket as iroh_tickets::Ticket>::decode_bytes(&raw).map(|t| t.nodes.len())).is_none() { hostile_panicked = true; }
            }
            let empty = DocTicket::new(cap, vec![]);
            let empty_rejected = empty.to_string().parse::<DocTicket>().is_err();
            stats.inc("tickets");
            push(&mut cw, &mut stats, format!("(Ticket {} {} {})", cbool(rt_ok), cbool(hostile_panicked), cbool(empty_rejected)), format!("{{\"ticket_nodes\":{},\"roundtrip_ok\":{},\"panicked\":{}}}", nodes.len(), rt_ok, hostile_panicked), true)?;
        }
        // key texts: the Display form of real keys parses back; cut, corrupted, re-cased, over-long and
        // random texts give a key or an error, never a panic
        {
            let author = iroh_docs::Author::from_bytes(&rng.bytes32());
            let nsec = iroh_docs::NamespaceSecret::from_bytes(&rng.bytes32());
            // (type, strict, text form, bytes)
            let reals: Vec<(u8, bool, String, Vec<u8>)> = vec![
                (0, true, author.to_string(), author.to_bytes().to_vec()),
                (1, true, nsec.to_string(), nsec.to_bytes().to_vec()),
                (2, false, author.id().to_string(), author.id().to_bytes().to_vec()),
                (3, false, nsec.id().to_string(), nsec.id().to_bytes().to_vec()),
            ];
            let parse = |ty: u8, s: &str| -> (u8, Vec<u8>) {
                let s = s.to_string();
                let r = catch(move || -> Option<Vec<u8>> {
                    match ty {
                        0 => s.parse::<iroh_docs::Author>().ok().map(|k| k.to_bytes().to_vec()),
                        1 => s.parse::<iroh_docs::NamespaceSecret>().ok().map(|k| k.to_bytes().to_vec()),
                        2 => s.parse::<AuthorId>().ok().map(|k| k.to_bytes().to_vec()),
                        _ => s.parse::<NamespaceId>().ok().map(|k| k.to_bytes().to_vec()),
                    }
                });
                match r { None => (2, vec![]), Some(None) => (0, vec![]), Some(Some(b)) => (1, b) }
            };
            for (ty, strict, text, bytes) in &reals {
                let (v, out) = parse(*ty, text);
                stats.inc("key_text_real");
                push(&mut cw, &mut stats, format!("(KeyText {} {} {} {} {})", cbool(*strict), cbytes(text.as_bytes()), v, cbytes(&out), cbytes(bytes)), format!("{{\"key_text\":\"{}\",\"type\":{},\"verdict\":{}}}", text, ty, v), true)?;
                for _ in 0..3 {
                    let mut chars: Vec<char> = text.chars().collect();
                    let kind = rng.below(7);
                    match kind {
                        0 => { let nn = rng.below(chars.len() as u64 + 1) as usize; chars.truncate(nn); }
                        1 => { let nn = 2 * rng.below(32) as usize; chars.truncate(nn); }
                        2 => { let i = rng.below(chars.len() as u64) as usize; chars[i] = *rng.pick(&['g', 'G', ' ', 'F', 'A', '0', 'é', '/', ':', '@', '`']); }
                        3 => { chars = chars.into_iter().map(|c| c.to_ascii_uppercase()).collect(); }
                        4 => { for _ in 0..1 + rng.below(4) { chars.push(*rng.pick(&['0', 'a', 'f', 'x'])); } }
                        5 => { chars.clear(); }
                        _ => { let nn = rng.below(70) as usize; chars = (0..nn).map(|_| *rng.pick(&['0', '1', '9', 'a', 'f', 'A', 'F', 'g', '-'])).collect(); }
                    }
                    let hs: String = chars.into_iter().collect();
                    let (v, out) = parse(*ty, &hs);
                    stats.inc(&format!("key_text_hostile_kind{}", kind));
                    if v == 1 { stats.inc("key_text_hostile_accepted"); }
                    push(&mut cw, &mut stats, format!("(KeyText {} {} {} {} [])", cbool(*strict), cbytes(hs.as_bytes()), v, cbytes(&out)), format!("{{\"key_text_bytes_hex\":\"{}\",\"type\":{},\"verdict\":{}}}", hex::encode(hs.as_bytes()), ty, v), v == 1)?;
                }
            }
        }
        let _ = NamespaceId::from(&[0u8; 32]);
    }
    drop(push);
    cw.flush()?;
    stats.add("evaluations", cw.total as u64);
    stats.write(out, "C09")?;
    Ok(())
}
