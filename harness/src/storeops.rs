//! Store-level operation histories (several documents) for C07 C13 C15 C16 C17 C18.
#![allow(dead_code)]
use std::collections::HashSet;

use iroh_docs::{
    store::{DownloadPolicy, FilterKind, ImportNamespaceOutcome, OpenError},
    sync::{Capability, SignedEntry},
    verif, Author, AuthorHeads, AuthorId, NamespaceId, NamespaceSecret,
};

use crate::common::*;

#[derive(Clone)]
pub enum SOp {
    Import { ns: [u8; 32], secret: Option<[u8; 32]> },
    Open { ns: [u8; 32] },
    Close { ns: [u8; 32] },
    Remove { ns: [u8; 32] },
    Insert { ns: [u8; 32], au: usize, key: Vec<u8>, hash: [u8; 32], len: u64, now: u64 },
    Delete { ns: [u8; 32], au: usize, key: Vec<u8>, now: u64 },
    Remote { ns: [u8; 32], e: SignedEntry, sig_ok: bool, now: u64 },
    RawPut { e: SignedEntry },
    RegisterPeer { ns: [u8; 32], peer: [u8; 32] },
    GetPeers { ns: [u8; 32] },
    SetPolicy { ns: [u8; 32], policy: DownloadPolicy },
    GetPolicy { ns: [u8; 32] },
    Heads { ns: [u8; 32] },
    HasNews { ns: [u8; 32], heads: Vec<([u8; 32], u64)> },
    ContentHashes,
    ListNamespaces,
    GetAll { ns: [u8; 32] },
    Reopen,
    WipeReopen { latest: bool, bykey: bool },
    Query { ns: [u8; 32], q: crate::c05::Q },
    Matches { policy: DownloadPolicy, key: Vec<u8> },
    FilterText { f: FilterKind },
    FilterParse { text: Vec<u8> },
    HeadsEncode { heads: Vec<([u8; 32], u64)>, limit: Option<usize> },
}

#[derive(Clone, Debug, PartialEq)]
pub enum SRes {
    Import(&'static str),
    Unit,
    Fail,
    NotFound,
    Insert(String),
    Put(Option<usize>),
    Peers(Option<Vec<[u8; 32]>>),
    Policy(DownloadPolicy),
    Heads(Vec<([u8; 32], u64, Vec<u8>)>),
    News(u64),
    Hashes(Vec<[u8; 32]>),
    Namespaces(Vec<([u8; 32], bool)>),
    Entries(Vec<SignedEntry>),
    Bool(bool),
    Text(Vec<u8>, Option<FilterKind>),
    Filter(Option<FilterKind>),
    HeadItems(Vec<(u64, [u8; 32])>, usize),
    Panic,
    /// get_all succeeded but the store's fingerprint of the whole document is not the fingerprint of these entries
    BadFingerprint,
}

pub struct Machine {
    pub ts: TestStore,
    pub open: HashSet<[u8; 32]>,
    pub authors: Vec<Author>,
    pub wipes: usize,
}

pub fn cpolicy(p: &DownloadPolicy) -> String {
    let f = |fs: &Vec<FilterKind>| {
        clist(fs, |f| match f {
            FilterKind::Prefix(b) => format!("(FPrefix {})", cbytes(b)),
            FilterKind::Exact(b) => format!("(FExact {})", cbytes(b)),
        })
    };
    match p {
        DownloadPolicy::NothingExcept(fs) => format!("(NothingExcept {})", f(fs)),
        DownloadPolicy::EverythingExcept(fs) => format!("(EverythingExcept {})", f(fs)),
    }
}

impl Machine {
    pub fn new(persistent: bool, authors: Vec<Author>) -> anyhow::Result<Self> {
        Ok(Machine { ts: TestStore::new(persistent)?, open: HashSet::new(), authors, wipes: 0 })
    }

    fn with_replica<T>(
        &mut self,
        ns: [u8; 32],
        f: impl FnOnce(&mut iroh_docs::sync::Replica<'_>, &[Author]) -> T,
    ) -> Result<T, OpenError> {
        let id = NamespaceId::from(&ns);
        let was_open = self.open.contains(&ns);
        let authors = self.authors.clone();
        let r = {
            let mut replica = self.ts.s().open_replica(&id)?;
            f(&mut replica, &authors)
        };
        if !was_open {
            self.ts.s().close_replica(id);
        }
        Ok(r)
    }

    pub fn apply(&mut self, op: &SOp) -> anyhow::Result<SRes> {
        let rt = rt();
        Ok(match op {
            SOp::Import { ns, secret } => {
                let cap = match secret {
                    Some(s) => Capability::Write(NamespaceSecret::from_bytes(s)),
                    None => Capability::Read(NamespaceId::from(ns)),
                };
                assert_eq!(cap.id().as_bytes(), ns);
                match self.ts.s().import_namespace(cap)? {
                    ImportNamespaceOutcome::Inserted => SRes::Import("ImpInserted"),
                    ImportNamespaceOutcome::Upgraded => SRes::Import("ImpUpgraded"),
                    ImportNamespaceOutcome::NoChange => SRes::Import("ImpNoChange"),
                }
            }
            SOp::Open { ns } => match self.ts.s().load_replica_info(&NamespaceId::from(ns)) {
                Ok(_) => {
                    self.open.insert(*ns);
                    SRes::Unit
                }
                Err(OpenError::NotFound) => SRes::NotFound,
                Err(e) => return Err(e.into()),
            },
            SOp::Close { ns } => {
                self.ts.s().close_replica(NamespaceId::from(ns));
                self.open.remove(ns);
                SRes::Unit
            }
            SOp::Remove { ns } => match self.ts.s().remove_replica(&NamespaceId::from(ns)) {
                Ok(()) => SRes::Unit,
                Err(_) => SRes::Fail,
            },
            SOp::Insert { ns, au, key, hash, len, now } => {
                verif::set_clock(*now);
                match self.with_replica(*ns, |r, authors| {
                    rt.block_on(r.insert(key, &authors[*au], iroh_blobs::Hash::from_bytes(*hash), *len))
                }) {
                    Ok(r) => SRes::Insert(cresult(&r)),
                    Err(OpenError::NotFound) => SRes::NotFound,
                    Err(e) => return Err(e.into()),
                }
            }
            SOp::Delete { ns, au, key, now } => {
                verif::set_clock(*now);
                match self.with_replica(*ns, |r, authors| rt.block_on(r.delete_prefix(key, &authors[*au]))) {
                    Ok(r) => SRes::Insert(cresult(&r)),
                    Err(OpenError::NotFound) => SRes::NotFound,
                    Err(e) => return Err(e.into()),
                }
            }
            SOp::Remote { ns, e, now, .. } => {
                verif::set_clock(*now);
                match self.with_replica(*ns, |r, _| {
                    rt.block_on(r.insert_remote_entry(e.clone(), [0u8; 32], iroh_docs::ContentStatus::Missing))
                }) {
                    Ok(r) => SRes::Insert(cresult(&r)),
                    Err(OpenError::NotFound) => SRes::NotFound,
                    Err(e) => return Err(e.into()),
                }
            }
            SOp::RawPut { e } => {
                // any existing document works as the carrier: put() keys rows by the entry's own id
                let carrier = self
                    .ts
                    .s()
                    .list_namespaces()?
                    .next()
                    .expect("RawPut needs some document")?
                    .0;
                let e = e.clone();
                match self.with_replica(carrier.to_bytes(), |r, _| verif::store_put(r, e)) {
                    Ok(r) => SRes::Put(r?),
                    Err(e) => return Err(e.into()),
                }
            }
            SOp::RegisterPeer { ns, peer } => match self.ts.s().register_useful_peer(NamespaceId::from(ns), *peer) {
                Ok(()) => SRes::Unit,
                Err(_) => SRes::Fail,
            },
            SOp::GetPeers { ns } => SRes::Peers(self.ts.s().get_sync_peers(&NamespaceId::from(ns))?.map(|i| i.collect())),
            SOp::SetPolicy { ns, policy } => match self.ts.s().set_download_policy(&NamespaceId::from(ns), policy.clone()) {
                Ok(()) => SRes::Unit,
                Err(_) => SRes::Fail,
            },
            SOp::GetPolicy { ns } => SRes::Policy(self.ts.s().get_download_policy(&NamespaceId::from(ns))?),
            SOp::Heads { ns } => {
                let mut v = Vec::new();
                for r in self.ts.s().get_latest_for_each_author(NamespaceId::from(ns))? {
                    let (a, t, k) = r?;
                    v.push((a.to_bytes(), t, k.to_vec()));
                }
                SRes::Heads(v)
            }
            SOp::HasNews { ns, heads } => {
                let h: AuthorHeads = heads.iter().map(|(a, t)| (AuthorId::from(a), *t)).collect();
                SRes::News(self.ts.s().has_news_for_us(NamespaceId::from(ns), &h)?.map(|n| n.get()).unwrap_or(0))
            }
            SOp::ContentHashes => {
                let mut v = Vec::new();
                for h in self.ts.s().content_hashes()? {
                    v.push(*h?.as_bytes());
                }
                SRes::Hashes(v)
            }
            SOp::ListNamespaces => {
                let mut v = Vec::new();
                for r in self.ts.s().list_namespaces()? {
                    let (id, kind) = r?;
                    v.push((id.to_bytes(), matches!(kind, iroh_docs::CapabilityKind::Write)));
                }
                SRes::Namespaces(v)
            }
            SOp::GetAll { ns } => {
                let entries = all_entries(self.ts.s(), NamespaceId::from(ns))?;
                // the store's own fingerprint of the whole document (what a session starts with)
                // must be the fingerprint of exactly these entries
                let mut want = iroh_docs::verif::empty_fingerprint();
                for e in &entries {
                    let f = iroh_docs::verif::entry_fingerprint(e);
                    for i in 0..32 { want[i] ^= f[i]; }
                }
                let got = self.with_replica(*ns, |r, _| {
                    let x = iroh_docs::sync::RecordIdentifier::default();
                    iroh_docs::verif::store_get_fingerprint(r, x.clone(), x)
                });
                match got {
                    Ok(Ok(fp)) if fp != want => SRes::BadFingerprint,
                    _ => SRes::Entries(entries),
                }
            }
            SOp::Matches { policy, key } => {
                let id = iroh_docs::sync::RecordIdentifier::new(NamespaceId::from(&[1u8; 32]), AuthorId::from(&[2u8; 32]), key);
                let entry = iroh_docs::sync::Entry::new(id, iroh_docs::sync::Record::empty(1));
                SRes::Bool(policy.matches(&entry))
            }
            SOp::FilterText { f } => {
                let text = f.to_string();
                let back: Option<FilterKind> = text.parse().ok();
                SRes::Text(text.into_bytes(), back)
            }
            SOp::HeadsEncode { heads, limit } => {
                let h: AuthorHeads = heads.iter().map(|(a, t)| (AuthorId::from(a), *t)).collect();
                let lim = *limit;
                match std::panic::catch_unwind(std::panic::AssertUnwindSafe(|| h.encode(lim))) {
                    Err(_) => SRes::Panic,
                    Ok(Err(_)) => SRes::Fail,
                    Ok(Ok(bytes)) => {
                        // the items of the encoding, as its own decoder sees them before merging
                        let items: Vec<(u64, AuthorId)> = postcard::from_bytes(&bytes)?;
                        SRes::HeadItems(items.into_iter().map(|(t, a)| (t, a.to_bytes())).collect(), bytes.len())
                    }
                }
            }
            SOp::FilterParse { text } => {
                let t = String::from_utf8(text.clone()).expect("generator produces valid strings");
                SRes::Filter(t.parse::<FilterKind>().ok())
            }
            SOp::WipeReopen { latest, bykey } => {
                let path = self.ts.path().expect("WipeReopen needs a file store");
                self.ts.s().flush()?;
                drop(self.ts.store.take());
                {
                    // what a database written by an older version looks like: the derived tables are missing
                    let db = redb::Database::create(&path)?;
                    let tx = db.begin_write()?;
                    if *latest {
                        tx.delete_table(redb::TableDefinition::<u64, u64>::new("latest-by-author-1"))?;
                    }
                    if *bykey {
                        tx.delete_table(redb::TableDefinition::<u64, u64>::new("records-by-key-1"))?;
                    }
                    // ... or what an upgrade interrupted after table creation leaves behind: the
                    // derived tables exist and are empty (same names and types as store/fs/tables.rs)
                    self.wipes += 1;
                    if self.wipes % 2 == 0 {
                        if *latest {
                            let _ = tx.open_table(redb::TableDefinition::<(&[u8; 32], &[u8; 32]), (u64, &[u8])>::new("latest-by-author-1"))?;
                        }
                        if *bykey {
                            let _ = tx.open_table(redb::TableDefinition::<(&[u8; 32], &[u8], &[u8; 32]), ()>::new("records-by-key-1"))?;
                        }
                    }
                    // ... and every other time the write capabilities are where the first versions kept them:
                    // secrets in `namespaces-1` (start-up copies them into `namespaces-2` and deletes the old
                    // table); read-only capabilities did not exist then and stay where they are
                    if self.wipes % 2 == 1 {
                        let v2def = redb::TableDefinition::<&[u8; 32], (u8, &[u8; 32])>::new("namespaces-2");
                        let v1def = redb::TableDefinition::<&[u8; 32], &[u8; 32]>::new("namespaces-1");
                        let mut moved: Vec<([u8; 32], [u8; 32])> = Vec::new();
                        {
                            let v2 = tx.open_table(v2def)?;
                            for row in redb::ReadableTable::iter(&v2)? {
                                let (k, v) = row?;
                                let (kind, bytes) = v.value();
                                // kind 1 = write (the bytes are the secret)
                                if kind == 1 { moved.push((*k.value(), *bytes)); }
                            }
                        }
                        if !moved.is_empty() {
                            let mut v2 = tx.open_table(v2def)?;
                            let mut v1 = tx.open_table(v1def)?;
                            for (id, secret) in &moved {
                                v2.remove(id)?;
                                v1.insert(id, secret)?;
                            }
                        }
                    }
                    tx.commit()?;
                }
                self.ts.store = Some(iroh_docs::store::fs::Store::persistent(&path)?);
                self.open.clear();
                SRes::Unit
            }
            SOp::Query { ns, q } => {
                let l = self.ts.s().get_many(NamespaceId::from(ns), crate::c05::to_query(q))?.collect::<anyhow::Result<Vec<_>>>()?;
                SRes::Entries(l)
            }
            SOp::Reopen => {
                if self.ts.path().is_some() {
                    self.ts.s().flush()?;
                    self.ts.reopen()?;
                    self.open.clear();
                }
                SRes::Unit
            }
        })
    }
}

pub fn cfilter(f: &FilterKind) -> String {
    match f {
        FilterKind::Prefix(b) => format!("(FPrefix {})", cbytes(b)),
        FilterKind::Exact(b) => format!("(FExact {})", cbytes(b)),
    }
}
pub fn filter_bytes(f: &FilterKind) -> &[u8] {
    match f {
        FilterKind::Prefix(b) | FilterKind::Exact(b) => b,
    }
}

pub fn csop(authors: &[Author], op: &SOp) -> String {
    let au = |i: &usize| n256(authors[*i].id().as_bytes());
    match op {
        SOp::WipeReopen { latest, bykey } => format!("(SWipeReopen {} {})", cbool(*latest), cbool(*bykey)),
        SOp::Query { ns, q } => format!("(SQuery {} {})", n256(ns), crate::c05::cq(q)),
        SOp::Matches { policy, key } => format!("(SMatches {} {})", cpolicy(policy), cbytes(key)),
        SOp::FilterText { f } => format!("(SFilterText {} {})", cfilter(f), cbool(std::str::from_utf8(filter_bytes(f)).is_ok())),
        SOp::FilterParse { text } => format!("(SFilterParse {})", cbytes(text)),
        SOp::HeadsEncode { heads, limit } => format!("(SHeadsEncode {} {})", clist(heads, |(a, t)| format!("({}, {})", n256(a), t)), coption(*limit, |l| l.to_string())),
        SOp::Import { ns, secret } => format!("(SImport {} {})", n256(ns), coption(secret.as_ref(), |s| n256(s))),
        SOp::Open { ns } => format!("(SOpen {})", n256(ns)),
        SOp::Close { ns } => format!("(SClose {})", n256(ns)),
        SOp::Remove { ns } => format!("(SRemove {})", n256(ns)),
        SOp::Insert { ns, au: a, key, hash, len, now } => {
            format!("(SInsert {} {} {} {} {} {})", n256(ns), au(a), cbytes(key), n256(hash), len, now)
        }
        SOp::Delete { ns, au: a, key, now } => format!("(SDelete {} {} {} {})", n256(ns), au(a), cbytes(key), now),
        SOp::Remote { ns, e, sig_ok, now } => format!("(SRemote {} {} {} {})", n256(ns), centry(e), cbool(*sig_ok), now),
        SOp::RawPut { e } => format!("(SRawPut {})", centry(e)),
        SOp::RegisterPeer { ns, peer } => format!("(SRegisterPeer {} {})", n256(ns), n256(peer)),
        SOp::GetPeers { ns } => format!("(SGetPeers {})", n256(ns)),
        SOp::SetPolicy { ns, policy } => format!("(SSetPolicy {} {})", n256(ns), cpolicy(policy)),
        SOp::GetPolicy { ns } => format!("(SGetPolicy {})", n256(ns)),
        SOp::Heads { ns } => format!("(SHeads {})", n256(ns)),
        SOp::HasNews { ns, heads } => format!(
            "(SHasNews {} {})",
            n256(ns),
            clist(heads, |(a, t)| format!("({}, {})", n256(a), t))
        ),
        SOp::ContentHashes => "SContentHashes".into(),
        SOp::ListNamespaces => "SListNamespaces".into(),
        SOp::GetAll { ns } => format!("(SGetAll {})", n256(ns)),
        SOp::Reopen => "SReopen".into(),
    }
}

pub fn csres(r: &SRes) -> String {
    match r {
        SRes::Import(s) => format!("(RImport {})", s),
        SRes::Unit => "RUnit".into(),
        SRes::Fail => "RFail".into(),
        SRes::NotFound => "RNotFound".into(),
        SRes::Insert(s) => format!("(RInsert {})", s),
        SRes::Put(o) => format!("(RPut {})", coption(*o, |n| n.to_string())),
        SRes::Peers(o) => format!("(RPeers {})", coption(o.as_ref(), |l| clist(l, |p| n256(p)))),
        SRes::Policy(p) => format!("(RPolicy {})", cpolicy(p)),
        SRes::Heads(l) => format!("(RHeads {})", clist(l, |(a, t, k)| format!("({}, {}, {})", n256(a), t, cbytes(k)))),
        SRes::News(n) => format!("(RNews {})", n),
        SRes::Hashes(l) => format!("(RHashes {})", clist(l, |h| n256(h))),
        SRes::Namespaces(l) => format!("(RNamespaces {})", clist(l, |(n, w)| format!("({}, {})", n256(n), cbool(*w)))),
        SRes::Entries(l) => format!("(REntries {})", clist(l, centry)),
        SRes::Bool(b) => format!("(RBool {})", cbool(*b)),
        SRes::Text(t, back) => format!("(RText {} {})", cbytes(t), coption(back.as_ref(), cfilter)),
        SRes::Filter(f) => format!("(RFilter {})", coption(f.as_ref(), cfilter)),
        SRes::HeadItems(items, len) => format!("(RHeadItems {} {})", clist(items, |(t, a)| format!("({}, {})", t, n256(a))), len),
        SRes::Panic => "RPanic".into(),
        SRes::BadFingerprint => "RBadFingerprint".into(),
    }
}

fn h4(b: &[u8; 32]) -> String {
    hex::encode(&b[..4])
}
fn h4t(b: &[u8; 32]) -> String {
    format!("{}..{}", hex::encode(&b[..2]), hex::encode(&b[30..]))
}

pub fn jsop(op: &SOp) -> String {
    match op {
        SOp::Import { ns, secret } => format!("\"import {} {}\"", h4t(ns), if secret.is_some() { "write" } else { "read" }),
        SOp::Open { ns } => format!("\"open {}\"", h4t(ns)),
        SOp::Close { ns } => format!("\"close {}\"", h4t(ns)),
        SOp::Remove { ns } => format!("\"remove {}\"", h4t(ns)),
        SOp::Insert { ns, au, key, hash, len, now } => {
            format!("\"insert {} author#{} key={} hash={} len={} now={}\"", h4t(ns), au, hex::encode(key), h4(hash), len, now)
        }
        SOp::Delete { ns, au, key, now } => format!("\"delete_prefix {} author#{} key={} now={}\"", h4t(ns), au, hex::encode(key), now),
        SOp::Remote { ns, e, sig_ok, now } => format!(
            "\"insert_remote {} author={} key={} ts={} len={} hash={} sig_ok={} now={}\"",
            h4t(ns), h4(e.author_bytes().as_bytes()), hex::encode(e.key()), e.timestamp(), e.content_len(), h4(e.content_hash().as_bytes()), sig_ok, now
        ),
        SOp::RawPut { e } => format!(
            "\"raw_put ns={} author={} key={} ts={}\"",
            h4t(e.entry().namespace().as_bytes()), h4(e.author_bytes().as_bytes()), hex::encode(e.key()), e.timestamp()
        ),
        SOp::RegisterPeer { ns, peer } => format!("\"register_peer {} {}\"", h4t(ns), h4(peer)),
        SOp::GetPeers { ns } => format!("\"get_peers {}\"", h4t(ns)),
        SOp::SetPolicy { ns, policy } => format!("\"set_policy {} {}\"", h4t(ns), format!("{:?}", policy).replace('"', "'").replace('\\', "/")),
        SOp::GetPolicy { ns } => format!("\"get_policy {}\"", h4t(ns)),
        SOp::Heads { ns } => format!("\"heads {}\"", h4t(ns)),
        SOp::HasNews { ns, heads } => format!(
            "\"has_news {} [{}]\"",
            h4t(ns),
            heads.iter().map(|(a, t)| format!("{}@{}", h4(a), t)).collect::<Vec<_>>().join(" ")
        ),
        SOp::ContentHashes => "\"content_hashes\"".into(),
        SOp::ListNamespaces => "\"list_namespaces\"".into(),
        SOp::GetAll { ns } => format!("\"get_all {}\"", h4t(ns)),
        SOp::Reopen => "\"reopen\"".into(),
        SOp::WipeReopen { latest, bykey } => format!("\"delete tables (heads={}, by-key index={}) and reopen\"", latest, bykey),
        SOp::Query { ns, q } => format!("\"query {} {}\"", h4t(ns), format!("{:?}", q).replace('"', "'").replace('\\', "/")),
        SOp::Matches { policy, key } => format!("\"matches {} key={}\"", format!("{:?}", policy).replace('"', "'").replace('\\', "/"), hex::encode(key)),
        SOp::FilterText { f } => format!("\"filter_text {}\"", format!("{:?}", f).replace('"', "'").replace('\\', "/")),
        SOp::FilterParse { text } => format!("\"filter_parse hex:{}\"", hex::encode(text)),
        SOp::HeadsEncode { heads, limit } => format!("\"heads_encode [{}] limit={:?}\"", heads.iter().map(|(a, t)| format!("{}@{}", h4(a), t)).collect::<Vec<_>>().join(" "), limit),
    }
}
pub fn jsres(r: &SRes) -> String {
    match r {
        SRes::Entries(l) => format!("\"{} entries\"", l.len()),
        SRes::Hashes(l) => format!("\"{} hashes\"", l.len()),
        SRes::Heads(l) => format!("\"heads [{}]\"", l.iter().map(|(a, t, k)| format!("{}@{} key={}", h4(a), t, hex::encode(k))).collect::<Vec<_>>().join(" ")),
        SRes::Peers(l) => format!("\"peers {}\"", match l { None => "none".to_string(), Some(l) => l.iter().map(h4).collect::<Vec<_>>().join(" ") }),
        SRes::Namespaces(l) => format!("\"namespaces [{}]\"", l.iter().map(|(n, w)| format!("{}:{}", h4t(n), if *w { "w" } else { "r" })).collect::<Vec<_>>().join(" ")),
        other => format!("\"{}\"", format!("{:?}", other).replace('"', "'").replace('\\', "/")),
    }
}

/// A universe of documents and authors.
pub struct Universe {
    /// writable documents: (id, secret)
    pub docs: Vec<([u8; 32], [u8; 32])>,
    /// ids used read-only only (arbitrary bytes, neighbours in byte order)
    pub raw_docs: Vec<[u8; 32]>,
    pub authors: Vec<Author>,
}
impl Universe {
    pub fn new(seed: u64, n_docs: usize, n_authors: usize) -> Self {
        let mut rng = Rng::new(seed ^ 0xD0C5);
        let mut docs: Vec<([u8; 32], [u8; 32])> = (0..n_docs)
            .map(|_| {
                let s = rng.bytes32();
                (NamespaceSecret::from_bytes(&s).id().to_bytes(), s)
            })
            .collect();
        docs.sort();
        let mut authors: Vec<Author> = (0..n_authors).map(|_| Author::from_bytes(&rng.bytes32())).collect();
        authors.sort_by_key(|a| a.id().to_bytes());
        // neighbours of the first writable document in byte order, and carry cases
        let mut raw_docs = Vec::new();
        let base = docs[0].0;
        let mut up = base;
        incr(&mut up);
        let mut down = base;
        decr(&mut down);
        raw_docs.push(up);
        raw_docs.push(down);
        let mut ff = base;
        ff[31] = 0xff;
        raw_docs.push(ff);
        let mut ff2 = ff;
        incr(&mut ff2);
        raw_docs.push(ff2);
        raw_docs.push([0xff; 32]);
        raw_docs.push([0x00; 32]);
        raw_docs.sort();
        raw_docs.dedup();
        raw_docs.retain(|d| !docs.iter().any(|x| &x.0 == d));
        Universe { docs, raw_docs, authors }
    }
    pub fn all_ids(&self) -> Vec<[u8; 32]> {
        let mut v: Vec<[u8; 32]> = self.docs.iter().map(|d| d.0).collect();
        v.extend(self.raw_docs.iter().cloned());
        v.sort();
        v
    }
    pub fn secret_of(&self, id: &[u8; 32]) -> Option<[u8; 32]> {
        self.docs.iter().find(|d| &d.0 == id).map(|d| d.1)
    }
    /// a validly signed entry for a writable document
    pub fn signed(&self, doc: usize, author: usize, key: &[u8], hash: [u8; 32], len: u64, ts: u64) -> SignedEntry {
        signed_raw(&NamespaceSecret::from_bytes(&self.docs[doc].1), &self.authors[author], key, hash, len, ts)
    }
    /// an entry for an arbitrary namespace id (signatures do not verify; only usable through RawPut)
    pub fn unsigned(&self, ns: &[u8; 32], author: usize, key: &[u8], hash: [u8; 32], len: u64, ts: u64) -> SignedEntry {
        let e = self.signed(0, author, key, hash, len, ts);
        let mut w = crate::wire::WEntry::of(&e);
        w.id[..32].copy_from_slice(ns);
        crate::wire::decode_signed_entry(&w.encode()).unwrap()
    }
}
pub fn incr(b: &mut [u8; 32]) {
    for x in b.iter_mut().rev() {
        if *x != 255 {
            *x += 1;
            return;
        }
        *x = 0;
    }
}
pub fn decr(b: &mut [u8; 32]) {
    for x in b.iter_mut().rev() {
        if *x != 0 {
            *x -= 1;
            return;
        }
        *x = 255;
    }
}

pub fn gen_policy(rng: &mut Rng) -> DownloadPolicy {
    let n = rng.below(4);
    let fs: Vec<FilterKind> = (0..n)
        .map(|_| {
            let k = gen_key(rng);
            if rng.chance(1, 2) {
                FilterKind::Prefix(k.into())
            } else {
                FilterKind::Exact(k.into())
            }
        })
        .collect();
    if rng.chance(1, 2) {
        DownloadPolicy::NothingExcept(fs)
    } else {
        DownloadPolicy::EverythingExcept(fs)
    }
}

pub fn history_terms(authors: &[Author], h: &[(SOp, SRes)]) -> (String, String) {
    let coq = clist(h, |(o, r)| format!("({}, {})", csop(authors, o), csres(r)));
    let json = format!(
        "[{}]",
        h.iter().map(|(o, r)| format!("[{},{}]", jsop(o), jsres(r))).collect::<Vec<_>>().join(",")
    );
    (coq, json)
}
