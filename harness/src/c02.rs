//! C02: order-independent replica state. Operation sequences on a fresh replica.
use std::path::Path;

use iroh_docs::sync::SignedEntry;

use crate::common::*;

#[derive(Clone)]
pub enum Op {
    Insert { au: usize, key: Vec<u8>, hash: [u8; 32], len: u64, now: u64 },
    Delete { au: usize, key: Vec<u8>, now: u64 },
    Remote { e: SignedEntry, now: u64 },
}

pub const T0: u64 = 1_000_000;

pub fn gen_op(rng: &mut Rng, w: &World, stats: &mut Stats) -> Op {
    let au = rng.below(w.authors.len() as u64) as usize;
    let key = gen_key(rng);
    let ts = T0 + rng.below(6);
    let hash = if rng.chance(1, 2) { HASH_A } else { HASH_B };
    match rng.below(10) {
        0..=2 => {
            stats.inc("op_insert");
            // len is a function of the hash, except for a rare twin-len pair (known class D11)
            let len = if rng.chance(1, 60) { 3 } else if hash == HASH_A { 1 } else { 2 };
            Op::Insert { au, key, hash, len, now: ts }
        }
        3..=4 => {
            stats.inc("op_delete");
            Op::Delete { au, key, now: ts }
        }
        _ => {
            stats.inc("op_remote");
            let marker = rng.chance(1, 4);
            let e = if marker {
                w.signed(au, &key, empty_hash(), 0, ts)
            } else {
                let len = if rng.chance(1, 60) { 3 } else if hash == HASH_A { 1 } else { 2 };
                w.signed(au, &key, hash, len, ts)
            };
            Op::Remote { e, now: T0 + 10 }
        }
    }
}

/// The recorded twin-len history: same (author, key, timestamp, hash), different len.
pub fn twin_witness(w: &World) -> Vec<Op> {
    vec![
        Op::Remote { e: w.signed(0, b"", HASH_A, 1, T0 + 4), now: T0 + 10 },
        Op::Insert { au: 0, key: vec![], hash: HASH_A, len: 2, now: T0 + 4 },
    ]
}

pub fn cop(w: &World, op: &Op) -> String {
    match op {
        Op::Insert { au, key, hash, len, now } => format!(
            "(OpInsert {} {} {} {} {})",
            n256(w.authors[*au].id().as_bytes()),
            cbytes(key),
            n256(hash),
            len,
            now
        ),
        Op::Delete { au, key, now } => format!(
            "(OpDelete {} {} {})",
            n256(w.authors[*au].id().as_bytes()),
            cbytes(key),
            now
        ),
        Op::Remote { e, now } => format!("(OpRemote {} {})", centry(e), now),
    }
}
pub fn jop(op: &Op) -> String {
    match op {
        Op::Insert { au, key, hash, len, now } => format!(
            "{{\"op\":\"insert\",\"author\":{},\"key\":\"{}\",\"hash\":\"{}\",\"len\":{},\"now\":{}}}",
            au, hex::encode(key), hex::encode(&hash[..4]), len, now
        ),
        Op::Delete { au, key, now } => format!(
            "{{\"op\":\"delete_prefix\",\"author\":{},\"key\":\"{}\",\"now\":{}}}",
            au, hex::encode(key), now
        ),
        Op::Remote { e, now } => format!("{{\"op\":\"insert_remote\",\"entry\":{},\"now\":{}}}", jentry(e), now),
    }
}

pub type OpResult = Result<usize, iroh_docs::sync::InsertError>;

/// Run the ops on a fresh replica; returns the store (replica closed) and the per-op results.
pub fn build_state(w: &World, ops: &[Op], persistent: bool) -> anyhow::Result<(TestStore, Vec<OpResult>)> {
    let mut ts = TestStore::new(persistent)?;
    let results = build_state_on(&mut ts, w, ops, persistent)?;
    Ok((ts, results))
}

/// The same document built in a store that held it before: an earlier version of the document
/// (given by `earlier`) is created, its whole-range fingerprint is computed (as a session would),
/// the document is removed, and then the document is built as usual.
pub fn build_state_churned(w: &World, ops: &[Op], persistent: bool, earlier: &[Op]) -> anyhow::Result<(TestStore, Vec<OpResult>)> {
    let mut ts = TestStore::new(persistent)?;
    build_state_on(&mut ts, w, earlier, false)?;
    {
        let mut replica = ts.s().open_replica(&w.ns_id())?;
        let _ = replica.sync_initial_message()?;
    }
    ts.s().close_replica(w.ns_id());
    ts.s().remove_replica(&w.ns_id())?;
    let results = build_state_on(&mut ts, w, ops, persistent)?;
    Ok((ts, results))
}

pub fn build_state_on(ts: &mut TestStore, w: &World, ops: &[Op], persistent: bool) -> anyhow::Result<Vec<OpResult>> {
    let rt = rt();
    let mut results = Vec::new();
    {
        let mut replica = ts.s().new_replica(w.ns.clone())?;
        for op in ops {
            let r = match op {
                Op::Insert { au, key, hash, len, now } => {
                    iroh_docs::verif::set_clock(*now);
                    rt.block_on(replica.insert(key, &w.authors[*au], iroh_blobs::Hash::from_bytes(*hash), *len))
                }
                Op::Delete { au, key, now } => {
                    iroh_docs::verif::set_clock(*now);
                    rt.block_on(replica.delete_prefix(key, &w.authors[*au]))
                }
                Op::Remote { e, now } => {
                    iroh_docs::verif::set_clock(*now);
                    rt.block_on(replica.insert_remote_entry(e.clone(), [0u8; 32], iroh_docs::ContentStatus::Missing))
                }
            };
            results.push(r);
        }
    }
    ts.s().close_replica(w.ns_id());
    if persistent {
        ts.s().flush()?;
        ts.reopen()?;
    }
    Ok(results)
}

/// Run the ops on a fresh replica; returns per-op results and the final content.
pub fn run_ops(w: &World, ops: &[Op], persistent: bool) -> anyhow::Result<(Vec<OpResult>, Vec<SignedEntry>)> {
    let (mut ts, results) = build_state(w, ops, persistent)?;
    let fin = all_entries(ts.s(), w.ns_id())?;
    Ok((results, fin))
}

pub fn cops(w: &World, ops: &[Op], results: &[OpResult]) -> String {
    clist(ops.iter().zip(results), |(o, r)| format!("({}, {})", cop(w, o), cresult(r)))
}
pub fn jops(ops: &[Op]) -> String {
    ops.iter().map(jop).collect::<Vec<_>>().join(",")
}

pub fn case_terms(w: &World, ops: &[Op], results: &[OpResult], fin: &[SignedEntry], persistent: bool) -> (String, String) {
    let coq = format!(
        "(mkCase {} {} {})",
        n256(w.ns_id().as_bytes()),
        clist(ops.iter().zip(results), |(o, r)| format!("({}, {})", cop(w, o), cresult(r))),
        clist(fin, centry)
    );
    let json = format!(
        "{{\"store\":\"{}\",\"ops\":[{}],\"results\":[{}],\"final\":[{}]}}",
        if persistent { "file" } else { "memory" },
        ops.iter().map(jop).collect::<Vec<_>>().join(","),
        results.iter().map(|r| format!("\"{}\"", cresult(r))).collect::<Vec<_>>().join(","),
        fin.iter().map(jentry).collect::<Vec<_>>().join(",")
    );
    (coq, json)
}

pub fn run(seed: u64, n: usize, out: &Path, thorough: bool) -> anyhow::Result<()> {
    let mut rng = Rng::new(seed);
    let mut stats = Stats::default();
    let mut cw = CaseWriter::new(out, "C02", "Check.C02", 400)?;
    let mut distinct = std::collections::HashSet::new();
    for i in 0..n {
        let n_auth = 1 + rng.below(3) as usize;
        let w = World::new(seed.wrapping_add((i % 7) as u64), n_auth);
        let len = 1 + rng.below(if thorough { 14 } else { 10 }) as usize;
        let mut ops: Vec<Op> = (0..len).map(|_| gen_op(&mut rng, &w, &mut stats)).collect();
        if i == 0 {
            // corpus: the recorded twin-len finding (KNOWN_FINDINGS.txt) is re-demonstrated on every run
            ops = twin_witness(&w);
            stats.inc("corpus_cases");
        }
        // a third of the cases: permutation / duplication of the previous ops
        if rng.chance(1, 3) {
            let extra: Vec<Op> = ops.iter().filter(|o| matches!(o, Op::Remote { .. })).cloned().collect();
            ops.extend(extra);
            rng.shuffle(&mut ops);
            stats.inc("case_permuted_dup");
        }
        let persistent = rng.chance(if thorough { 1 } else { 1 }, 6);
        let (results, fin) = run_ops(&w, &ops, persistent)?;
        for r in &results {
            match r {
                Ok(0) => stats.inc("res_ok_0"),
                Ok(_) => stats.inc("res_ok_removed"),
                Err(e) => stats.inc(&format!("res_{}", insert_err(e))),
            }
        }
        stats.inc(if persistent { "store_file" } else { "store_memory" });
        stats.add("final_entries", fin.len() as u64);
        let (coq, json) = case_terms(&w, &ops, &results, &fin, persistent);
        // non-trivial: at least one entry was pruned or rejected as superseded
        let nontrivial = results.iter().any(|r| matches!(r, Ok(n) if *n > 0) || matches!(r, Err(iroh_docs::sync::InsertError::NewerEntryExists)));
        if nontrivial && distinct.insert(coq.clone()) {
            stats.inc("distinct_nontrivial");
        }
        cw.push(coq, json)?;
    }
    cw.flush()?;
    stats.add("evaluations", cw.total as u64);
    stats.add("shards", cw.shards as u64);
    stats.write(out, "C02")?;
    Ok(())
}
