//! C01 (and C08): complete reconciliation sessions between two real replicas.
use std::path::Path;

use iroh_docs::{
    sync::{ProtocolMessage, RecordIdentifier, Replica, SyncOutcome},
    verif,
};

use crate::c02::{self, Op};
use crate::common::*;
use crate::wire::{WEntry, WMessage, WPart};

pub fn rid_of(bytes: &[u8]) -> RecordIdentifier {
    assert!(bytes.len() >= 64, "short record identifier");
    let ns: [u8; 32] = bytes[..32].try_into().unwrap();
    let au: [u8; 32] = bytes[32..64].try_into().unwrap();
    RecordIdentifier::new(
        iroh_docs::NamespaceId::from(&ns),
        iroh_docs::AuthorId::from(&au),
        &bytes[64..],
    )
}

pub fn crid(bytes: &[u8]) -> String {
    let ns: [u8; 32] = bytes[..32].try_into().unwrap();
    let au: [u8; 32] = bytes[32..64].try_into().unwrap();
    format!("({}, {}, {})", n256(&ns), n256(&au), cbytes(&bytes[64..]))
}

pub fn cwentry(w: &WEntry) -> String {
    let ns: [u8; 32] = w.id[..32].try_into().unwrap();
    let au: [u8; 32] = w.id[32..64].try_into().unwrap();
    format!("(mkE {} {} {} {} {} {})", n256(&ns), n256(&au), cbytes(&w.id[64..]), w.ts, w.len, n256(&w.hash))
}

fn xor(a: &mut [u8; 32], b: &[u8; 32]) {
    for i in 0..32 {
        a[i] ^= b[i];
    }
}

/// Render a real message; fingerprints are replaced by the entry list they were computed
/// from (`sender`'s range at send time), after checking that the wire fingerprint is the real
/// fingerprint of that list.
pub fn cmessage(m: &ProtocolMessage, sender: &mut Replica<'_>, fp_ok: &mut bool) -> anyhow::Result<(String, String)> {
    let w = WMessage::of(m);
    let mut parts = Vec::new();
    let mut jparts = Vec::new();
    for p in &w.parts {
        match p {
            WPart::Fingerprint { x, y, fp } => {
                let pre = verif::store_get_range(sender, rid_of(x), rid_of(y))?;
                let mut acc = verif::empty_fingerprint();
                for e in &pre {
                    xor(&mut acc, &verif::entry_fingerprint(e));
                }
                if &acc != fp {
                    *fp_ok = false;
                }
                parts.push(format!(
                    "(PFp {} {} {})",
                    crid(x),
                    crid(y),
                    clist(&pre, |e| format!(
                        "({}, {}, {}, {}, {})",
                        n256(e.entry().namespace().as_bytes()),
                        n256(e.author_bytes().as_bytes()),
                        cbytes(e.key()),
                        e.timestamp(),
                        n256(e.content_hash().as_bytes())
                    ))
                ));
                jparts.push(format!("{{\"fp\":[\"{}\",\"{}\"],\"n\":{}}}", hex::encode(&x[64..]), hex::encode(&y[64..]), pre.len()));
            }
            WPart::Item { x, y, values, have_local } => {
                parts.push(format!(
                    "(PItem {} {} {} {})",
                    crid(x),
                    crid(y),
                    clist(values, |(e, st)| format!("({}, {})", cwentry(e), st)),
                    cbool(*have_local)
                ));
                jparts.push(format!(
                    "{{\"item\":[\"{}\",\"{}\"],\"values\":{},\"have_local\":{}}}",
                    hex::encode(&x[64..]),
                    hex::encode(&y[64..]),
                    values.len(),
                    have_local
                ));
            }
        }
    }
    Ok((format!("[{}]", parts.join("; ")), format!("[{}]", jparts.join(","))))
}

pub struct SessionRecord {
    pub init: String,
    pub transcript: Vec<String>,
    pub jtranscript: Vec<String>,
    pub oc_a: SyncOutcome,
    pub oc_b: SyncOutcome,
    pub fp_ok: bool,
    pub values: usize,
}

/// Run one complete session, A initiating.
pub fn run_session(ra: &mut Replica<'_>, rb: &mut Replica<'_>, max_msgs: usize) -> anyhow::Result<SessionRecord> {
    let rt = rt();
    let mut fp_ok = true;
    let mut oc_a = SyncOutcome::default();
    let mut oc_b = SyncOutcome::default();
    let init = ra.sync_initial_message()?;
    let (cinit, jinit) = cmessage(&init, ra, &mut fp_ok)?;
    let mut transcript = Vec::new();
    let mut jtranscript = vec![jinit];
    let mut values = 0;
    let mut msg = init;
    let mut turn_b = true;
    loop {
        if transcript.len() > max_msgs {
            // not terminated: the truncated transcript is reported as it is; its length alone
            // exceeds the bound the specification oracle demands
            break;
        }
        let reply = if turn_b {
            rt.block_on(rb.sync_process_message(msg, [1u8; 32], &mut oc_b))?
        } else {
            rt.block_on(ra.sync_process_message(msg, [2u8; 32], &mut oc_a))?
        };
        let Some(reply) = reply else { break };
        values += WMessage::of(&reply).parts.iter().map(|p| match p {
            WPart::Item { values, .. } => values.len(),
            _ => 0,
        }).sum::<usize>();
        let (c, j) = if turn_b { cmessage(&reply, rb, &mut fp_ok)? } else { cmessage(&reply, ra, &mut fp_ok)? };
        transcript.push(c);
        jtranscript.push(j);
        msg = reply;
        turn_b = !turn_b;
    }
    Ok(SessionRecord { init: cinit, transcript, jtranscript, oc_a, oc_b, fp_ok, values })
}

pub const CONFIGS: &[(usize, usize)] = &[
    (0, 2), (2, 2), (3, 2), (8, 2),
    (0, 3), (1, 3), (2, 3), (3, 4), (1, 5), (8, 5),
];

pub fn run(seed: u64, n: usize, out: &Path, thorough: bool, id: &str, module: &str) -> anyhow::Result<()> {
    let probes = id == "C08";
    let mut rng = Rng::new(seed ^ 0xC01);
    let mut stats = Stats::default();
    let mut cw = CaseWriter::new(out, id, module, 25)?;
    let mut distinct = std::collections::HashSet::new();
    for i in 0..n {
        // the receiving side's clock during the session: usually later than every entry; in a fifth of the
        // sessions a little behind the writers' clocks (entries up to 8 microseconds "in the future", far
        // inside the ten minutes every path accepts)
        let now = if rng.chance(1, 5) { stats.inc("session_clock_behind_writers"); c02::T0 - 3 } else { c02::T0 + 10 };
        let n_auth = 1 + rng.below(3) as usize;
        let w = World::new(seed.wrapping_add((i % 5) as u64), n_auth);
        let max_ops = if thorough { 30 } else { 16 };
        let la = rng.below(max_ops) as usize;
        let lb = rng.below(max_ops) as usize;
        let mut ops_a: Vec<Op> = (0..la).map(|_| c02::gen_op(&mut rng, &w, &mut stats)).collect();
        let mut ops_b: Vec<Op> = (0..lb).map(|_| c02::gen_op(&mut rng, &w, &mut stats)).collect();
        // sometimes the two replicas share a common history (nearly-equal sets are the common case in practice)
        if rng.chance(1, 3) {
            let shared: Vec<Op> = ops_a.iter().filter(|o| matches!(o, Op::Remote { .. })).cloned().collect();
            ops_b.extend(shared);
            stats.inc("case_shared_history");
        }
        if rng.chance(1, 10) {
            ops_a.clear();
            stats.inc("case_A_empty");
        }
        let mut cfg = if rng.chance(3, 5) { None } else { Some(*rng.pick(CONFIGS)) };
        if i == 0 {
            // corpus: the recorded twin-len finding (KNOWN_FINDINGS.txt) is re-demonstrated on every run
            ops_a = vec![Op::Remote { e: w.signed(0, b"a\xff", HASH_A, 2, c02::T0 + 5), now }];
            ops_b = vec![Op::Remote { e: w.signed(0, b"a\xff", HASH_A, 1, c02::T0 + 5), now }];
            cfg = None;
            stats.inc("corpus_cases");
        }
        let (pa, pb) = (rng.chance(1, 6), rng.chance(1, 6));
        // B initiates in half of the cases: swap roles
        if rng.chance(1, 2) {
            std::mem::swap(&mut ops_a, &mut ops_b);
        }
        verif::set_sync_config(None);
        // a fifth of the stores held (and dropped) an earlier version of the document before
        let churn_a = rng.chance(1, 5);
        let churn_b = rng.chance(1, 5);
        // the earlier version: a prefix of the own history, or what the other side holds now
        let ea: Vec<Op> = if rng.chance(1, 2) { ops_a[..rng.below(ops_a.len() as u64 + 1) as usize].to_vec() } else { ops_b.clone() };
        let eb: Vec<Op> = if rng.chance(1, 2) { ops_b[..rng.below(ops_b.len() as u64 + 1) as usize].to_vec() } else { ops_a.clone() };
        let (mut sa, res_a) = if churn_a { stats.inc("store_rebuilt_after_removal"); c02::build_state_churned(&w, &ops_a, pa, &ea)? } else { c02::build_state(&w, &ops_a, pa)? };
        let (mut sb, res_b) = if churn_b { stats.inc("store_rebuilt_after_removal"); c02::build_state_churned(&w, &ops_b, pb, &eb)? } else { c02::build_state(&w, &ops_b, pb)? };
        let foreign_a = add_foreign(&mut sa, &mut rng, &mut stats, &w)?;
        let foreign_b = add_foreign(&mut sb, &mut rng, &mut stats, &w)?;
        let a0 = all_entries(sa.s(), w.ns_id())?;
        let b0 = all_entries(sb.s(), w.ns_id())?;
        verif::set_clock(now);
        verif::set_sync_config(cfg);
        let eff = verif::default_sync_config();
        let mut panicked = false;
        let (rec, second) = {
            let mut ra = sa.s().open_replica(&w.ns_id())?;
            let mut rb = sb.s().open_replica(&w.ns_id())?;
            let r = std::panic::catch_unwind(std::panic::AssertUnwindSafe(|| -> anyhow::Result<_> {
                let rec = run_session(&mut ra, &mut rb, 4 * (a0.len() + b0.len()) + 64)?;
                let second = run_session(&mut ra, &mut rb, 4 * (a0.len() + b0.len()) + 64)?;
                Ok((rec, second))
            }));
            match r {
                Ok(Ok(r)) => r,
                // an error or a panic inside a session: reported with the inputs, never a harness failure
                Ok(Err(_)) | Err(_) => {
                    panicked = true;
                    let empty = || SessionRecord { init: "[]".into(), transcript: vec![], jtranscript: vec![], oc_a: Default::default(), oc_b: Default::default(), fp_ok: true, values: 0 };
                    (empty(), empty())
                }
            }
        };
        verif::set_sync_config(None);
        sa.s().close_replica(w.ns_id());
        sb.s().close_replica(w.ns_id());
        if pa { sa.s().flush()?; sa.reopen()?; }
        if pb { sb.s().flush()?; sb.reopen()?; }
        let a1 = all_entries(sa.s(), w.ns_id())?;
        let b1 = all_entries(sb.s(), w.ns_id())?;
        stats.inc(&format!("cfg_m{}_k{}", eff.0, eff.1));
        stats.inc(if pa || pb { "store_some_file" } else { "store_memory" });
        stats.add("messages", 1 + rec.transcript.len() as u64);
        stats.add("values_transferred", rec.values as u64);
        if panicked { stats.inc("panicked"); }
        let coq = format!(
            "(mkCase {} ({}, {}) {} {} {} {} {} {} {} {} [{}] {} {} ({}, {}) ({}, {}) {} {} {} {})",
            n256(w.ns_id().as_bytes()),
            eff.0, eff.1, now,
            c02::cops(&w, &ops_a, &res_a),
            c02::cops(&w, &ops_b, &res_b),
            clist(&foreign_a, centry),
            clist(&foreign_b, centry),
            clist(&a0, centry),
            clist(&b0, centry),
            rec.init,
            rec.transcript.join("; "),
            clist(&a1, centry),
            clist(&b1, centry),
            rec.oc_a.num_recv, rec.oc_a.num_sent, rec.oc_b.num_recv, rec.oc_b.num_sent,
            second.transcript.len(), second.values,
            cbool(rec.fp_ok && second.fp_ok),
            cbool(panicked)
        );
        let json = format!(
            "{{\"config\":[{},{}],\"stores\":[\"{}\",\"{}\"],\"A_ops\":[{}],\"B_ops\":[{}],\"A0\":[{}],\"B0\":[{}],\"messages\":[{}],\"A1\":[{}],\"B1\":[{}],\"A_recv_sent\":[{},{}],\"B_recv_sent\":[{},{}],\"second_session_replies\":{},\"panicked\":{}}}",
            eff.0, eff.1,
            if pa { "file" } else { "memory" }, if pb { "file" } else { "memory" },
            c02::jops(&ops_a), c02::jops(&ops_b),
            a0.iter().map(jentry).collect::<Vec<_>>().join(","),
            b0.iter().map(jentry).collect::<Vec<_>>().join(","),
            rec.jtranscript.join(","),
            a1.iter().map(jentry).collect::<Vec<_>>().join(","),
            b1.iter().map(jentry).collect::<Vec<_>>().join(","),
            rec.oc_a.num_recv, rec.oc_a.num_sent, rec.oc_b.num_recv, rec.oc_b.num_sent,
            second.transcript.len(), panicked
        );
        if rec.transcript.len() >= 2 && distinct.insert(coq.clone()) {
            stats.inc("distinct_nontrivial");
        }
        let coq = if probes { format!("(Session {})", coq) } else { coq };
        cw.push(coq, json)?;
        if probes {
            let (coq, json) = probe_case(&mut rng, &w, &mut stats)?;
            cw.push(coq, json)?;
        }
    }
    cw.flush()?;
    stats.add("evaluations", cw.total as u64);
    stats.write(out, id)?;
    Ok(())
}

/// Other documents in the same store (the tables are shared by all documents of a store): one or
/// two, each with one or two entries; their ids fall on either side of the synced document's.
pub fn add_foreign(ts: &mut TestStore, rng: &mut Rng, stats: &mut Stats, main: &World) -> anyhow::Result<Vec<iroh_docs::sync::SignedEntry>> {
    let rt = rt();
    let mut out = Vec::new();
    if rng.chance(1, 2) { return Ok(out); }
    for _ in 0..(1 + rng.below(2)) {
        let fw = World::new(rng.next(), 1);
        stats.inc(if fw.ns_id().as_bytes() > main.ns_id().as_bytes() { "foreign_doc_above" } else { "foreign_doc_below" });
        {
            let mut replica = ts.s().new_replica(fw.ns.clone())?;
            verif::set_clock(c02::T0 + 10);
            for j in 0..(1 + rng.below(2)) {
                let key: &[u8] = if j == 0 { b"a" } else { b"b" };
                let e = fw.signed(0, key, HASH_A, 1, c02::T0 + rng.below(5));
                let _ = rt.block_on(replica.insert_remote_entry(e.clone(), [0u8; 32], iroh_docs::ContentStatus::Missing));
                out.push(e);
            }
        }
        ts.s().close_replica(fw.ns_id());
    }
    Ok(out)
}

/// Direct probes of the store operations the reconciliation uses (C08).
pub fn probe_case(rng: &mut Rng, w: &World, stats: &mut Stats) -> anyhow::Result<(String, String)> {
    let len = rng.below(14) as usize;
    let ops: Vec<Op> = (0..len).map(|_| c02::gen_op(rng, w, stats)).collect();
    let persistent = rng.chance(1, 5);
    let (mut ts, results) = c02::build_state(w, &ops, persistent)?;
    let foreign = add_foreign(&mut ts, rng, stats, w)?;
    let all = all_entries(ts.s(), w.ns_id())?;
    let ns = w.ns_id();
    let mut replica = ts.s().open_replica(&ns)?;
    let first = verif::store_get_first(&mut replica)?;
    let foreign_ids: Vec<RecordIdentifier> = foreign.iter().map(|e| e.entry().id().clone()).collect();
    let mk_id = |rng: &mut Rng| -> RecordIdentifier {
        // ids of held entries, neighbours of them, and arbitrary (author, key) pairs incl. unknown authors;
        // a peer chooses the range ends freely: also ids that belong to another document of the store
        if !foreign_ids.is_empty() && rng.chance(1, 6) {
            return rng.pick(&foreign_ids).clone();
        }
        match rng.below(4) {
            0 if !all.is_empty() => rng.pick(&all).entry().id().clone(),
            1 => {
                let a = rng.pick(&w.authors).id();
                RecordIdentifier::new(ns, a, gen_key(rng))
            }
            2 => RecordIdentifier::new(ns, iroh_docs::AuthorId::from(rng.pick(&[[0u8; 32], [0xffu8; 32], [0x80u8; 32]])), gen_key(rng)),
            _ => {
                let a = rng.pick(&w.authors).id();
                RecordIdentifier::new(ns, a, gen_key(rng))
            }
        }
    };
    let mut ranges = Vec::new();
    let mut jr = Vec::new();
    for _ in 0..12 {
        let x = mk_id(rng);
        let y = if rng.chance(1, 6) { x.clone() } else { mk_id(rng) };
        let l = verif::store_get_range(&mut replica, x.clone(), y.clone())?;
        stats.inc(match x.cmp(&y) {
            std::cmp::Ordering::Less => "range_regular",
            std::cmp::Ordering::Equal => "range_all",
            std::cmp::Ordering::Greater => "range_wraparound",
        });
        if !l.is_empty() && l.len() < all.len() {
            stats.inc("distinct_nontrivial");
        }
        if jr.len() < 3 {
            jr.push(format!("{{\"x\":\"{}\",\"y\":\"{}\",\"n\":{}}}", hex::encode(x.key()), hex::encode(y.key()), l.len()));
        }
        ranges.push(format!("({}, {}, {})", crid(x.as_ref()), crid(y.as_ref()), clist(&l, centry)));
    }
    let mut parents = Vec::new();
    for _ in 0..6 {
        let a = rng.pick(&w.authors).id();
        let k = gen_key(rng);
        let l = verif::store_prefixes_of(&mut replica, &RecordIdentifier::new(ns, a, &k))?;
        stats.add("parents_found", l.len() as u64);
        parents.push(format!("({}, {}, {})", n256(a.as_bytes()), cbytes(&k), clist(&l, centry)));
    }
    let ra = rng.pick(&w.authors).id();
    let rk = gen_key(rng);
    let rts = c02::T0 + rng.below(7);
    let count = verif::store_remove_prefix_older(&mut replica, &RecordIdentifier::new(ns, ra, &rk), rts)?;
    stats.add("prefix_removed", count as u64);
    drop(replica);
    ts.s().close_replica(ns);
    let after = all_entries(ts.s(), ns)?;
    let coq = format!(
        "(Probe {} {} {} {} {} [{}] [{}] ({}, {}, {}, {}, {}))",
        n256(ns.as_bytes()),
        c02::cops(w, &ops, &results),
        clist(&foreign, centry),
        clist(&all, centry),
        crid(first.as_ref()),
        ranges.join("; "),
        parents.join("; "),
        n256(ra.as_bytes()), cbytes(&rk), rts, count, clist(&after, centry)
    );
    let json = format!(
        "{{\"probe\":true,\"ops\":[{}],\"all\":[{}],\"first_ranges\":[{}],\"remove_prefix\":{{\"key\":\"{}\",\"max_ts\":{},\"count\":{}}}}}",
        c02::jops(&ops),
        all.iter().map(jentry).collect::<Vec<_>>().join(","),
        jr.join(","),
        hex::encode(&rk), rts, count
    );
    Ok((coq, json))
}
