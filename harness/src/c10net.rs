//! C10, the outermost layer: `net::connect_and_sync` against `net::handle_connection` over two
//! real local endpoints, with local failures on either side. Both calls must return (success or a
//! reported error) within the watchdog; on success the counters mirror.
use std::time::Duration;

use iroh::{endpoint::presets, Endpoint};
use iroh_docs::{
    actor::{OpenOpts, SyncHandle},
    net::{connect_and_sync, handle_connection, AbortReason, AcceptOutcome},
    store::fs::Store,
    verif, NamespaceSecret,
};

use crate::c02::T0;
use crate::common::*;

/// what is done to a side before the session starts
#[derive(Clone, Copy, Debug, PartialEq)]
pub enum Local {
    Healthy,
    SyncDisabled,
    ReplicaClosed,
    ActorStopped,
    /// (accepting side only) the accept callback declines
    Decline,
    /// (initiating side only) the initiator vanishes in the middle of the session: its task is aborted and
    /// its endpoint closed right after the acceptor allowed the request
    Vanish,
    /// the store actor is shut down WHILE the session runs: the shutdown request is issued together
    /// with the session, so that requests of the session get queued behind it
    StopDuring,
}
fn local_n(l: Local) -> u8 {
    match l { Local::Healthy => 0, Local::SyncDisabled => 1, Local::ReplicaClosed => 2, Local::ActorStopped => 3, Local::Decline => 4, Local::StopDuring => 5, Local::Vanish => 6 }
}

async fn side(ns: &NamespaceSecret, author: &iroh_docs::Author, keys: &[&[u8]], failure: Local, gate: Option<std::sync::Arc<tokio::sync::Semaphore>>) -> anyhow::Result<SyncHandle> {
    // with a gate: the content-status callback (asked for every entry the actor sends) waits for a permit,
    // which holds the actor inside a request for as long as the test wants
    let cb: Option<iroh_docs::ContentStatusCallback> = gate.map(|g| {
        let f: iroh_docs::ContentStatusCallback = std::sync::Arc::new(move |_hash| {
            let g = g.clone();
            Box::pin(async move { if let Ok(p) = g.acquire().await { p.forget(); } iroh_docs::ContentStatus::Missing })
        });
        f
    });
    let sync = SyncHandle::spawn(Store::memory(), cb, "verif-net".into());
    sync.import_namespace(ns.clone().into()).await?;
    sync.import_author(author.clone()).await?;
    sync.open(ns.id(), OpenOpts::default().sync()).await?;
    verif::set_clock(T0 + 3);
    for k in keys {
        sync.insert_local(ns.id(), author.id(), bytes::Bytes::copy_from_slice(k), iroh_blobs::Hash::from_bytes(HASH_A), 1).await?;
    }
    match failure {
        Local::Healthy | Local::Decline | Local::StopDuring | Local::Vanish => {}
        Local::SyncDisabled => sync.set_sync(ns.id(), false).await?,
        Local::ReplicaClosed => { sync.close(ns.id()).await?; }
        Local::ActorStopped => { sync.shutdown().await?; }
    }
    Ok(sync)
}

/// One case; returns the Coq term and the JSON description.
pub async fn net_case(rng: &mut Rng, stats: &mut Stats) -> anyhow::Result<(String, String)> {
    let w = World::new(rng.next(), 1);
    let fa = *rng.pick(&[Local::Healthy, Local::Healthy, Local::SyncDisabled, Local::ReplicaClosed, Local::ActorStopped, Local::StopDuring, Local::Vanish, Local::Vanish]);
    let fb = *rng.pick(&[Local::Healthy, Local::Healthy, Local::Healthy, Local::SyncDisabled, Local::ReplicaClosed, Local::ActorStopped, Local::Decline, Local::StopDuring, Local::StopDuring]);
    let keys_a: Vec<&[u8]> = [&b"a"[..], b"b", b"c"][..rng.below(4) as usize].to_vec();
    let keys_b: Vec<&[u8]> = [&b"b"[..], b"d"][..rng.below(3) as usize].to_vec();
    let alice = side(&w.ns, &w.authors[0], &keys_a, fa, None).await?;
    // an acceptor that is shut down during the session holds at least one entry and has the gated callback
    let gate = if fb == Local::StopDuring { Some(std::sync::Arc::new(tokio::sync::Semaphore::new(0))) } else { None };
    let keys_b: Vec<&[u8]> = if fb == Local::StopDuring && keys_b.is_empty() { vec![&b"d"[..]] } else { keys_b };
    let bob = side(&w.ns, &w.authors[0], &keys_b, fb, gate.clone()).await?;
    // what holds the acceptor's actor: a reconciliation message of the initiator's whole (different) set
    let hold_msg = if fb == Local::StopDuring && !matches!(fa, Local::ActorStopped | Local::ReplicaClosed | Local::SyncDisabled) { alice.sync_initial_message(w.ns_id()).await.ok() } else { None };
    let alice_ep = Endpoint::bind(presets::Minimal).await?;
    let bob_ep = Endpoint::builder(presets::Minimal).alpns(vec![iroh_docs::ALPN.to_vec()]).bind().await?;
    let bob_addr = bob_ep.addr();
    verif::set_clock(T0 + 10);
    let decline = fb == Local::Decline;
    let stop_b = fb == Local::StopDuring;
    let id_b = w.ns_id();
    let allowed = std::sync::Arc::new(std::sync::atomic::AtomicBool::new(false));
    let (allowed_tx, allowed_rx) = tokio::sync::oneshot::channel::<()>();
    let allowed_tx = std::sync::Arc::new(std::sync::Mutex::new(Some(allowed_tx)));
    let accept_task = tokio::spawn({
        let bob_ep = bob_ep.clone();
        let bob = bob.clone();
        let gate = gate.clone();
        let hold_msg = hold_msg.clone();
        let allowed = allowed.clone();
        let allowed_tx = allowed_tx.clone();
        async move {
            let note_allowed = move || { allowed.store(true, std::sync::atomic::Ordering::SeqCst); if let Some(tx) = allowed_tx.lock().unwrap().take() { let _ = tx.send(()); } };
            let incoming = bob_ep.accept().await?;
            let conn = incoming.await.ok()?;
            if stop_b {
                // other requests keep the actor busy, the shutdown request is sent, and the session starts:
                // its requests queue up behind the shutdown
                let (b1, b2, b3) = (bob.clone(), bob.clone(), bob.clone());
                let gate = gate.clone().expect("gate");
                // 1. the actor is held inside a request (it waits in the content-status callback)
                let held = hold_msg.clone();
                let busy = tokio::spawn(async move {
                    match held {
                        Some(m) => { let _ = b1.sync_process_message(id_b, m, [9u8; 32], Default::default()).await; }
                        None => { for _ in 0..8 { let _ = b1.get_state(id_b).await; } }
                    }
                });
                tokio::time::sleep(Duration::from_millis(40)).await;
                // 2. the shutdown request is queued, 3. the session starts: its first request queues up behind it
                let stop = tokio::spawn(async move { let _ = b2.shutdown().await; });
                tokio::time::sleep(Duration::from_millis(20)).await;
                let na = note_allowed.clone();
                let sess = tokio::spawn(handle_connection(b3, conn, move |_ns, _peer| { na(); std::future::ready(AcceptOutcome::Allow) }, None));
                tokio::time::sleep(Duration::from_millis(60)).await;
                // 4. the actor is let go
                gate.add_permits(100_000);
                let r = sess.await.ok()?;
                let _ = busy.await; let _ = stop.await;
                return Some(r);
            }
            Some(handle_connection(bob, conn, move |_ns, _peer| { if !decline { note_allowed(); } std::future::ready(if decline { AcceptOutcome::Reject(AbortReason::AlreadySyncing) } else { AcceptOutcome::Allow }) }, None).await)
        }
    });
    let id = w.ns_id();
    let session = async {
        let c = if fa == Local::StopDuring {
            let (a1, a2) = (alice.clone(), alice.clone());
            let busy = async move { for _ in 0..8 { let _ = a1.get_state(id).await; } };
            let stop = async move { tokio::task::yield_now().await; let _ = a2.shutdown().await; };
            let (_, _, c) = tokio::join!(busy, stop, connect_and_sync(&alice_ep, &alice, id, bob_addr, None));
            c
        } else if fa == Local::Vanish {
            // the session starts; as soon as the acceptor has allowed it the initiator is gone
            let (ep2, a2) = (alice_ep.clone(), alice.clone());
            let t = tokio::spawn(async move { connect_and_sync(&ep2, &a2, id, bob_addr, None).await });
            let _ = tokio::time::timeout(Duration::from_secs(3), allowed_rx).await;
            t.abort();
            alice_ep.close().await;
            Err(iroh_docs::net::ConnectError::Close { error: anyhow::anyhow!("the initiator vanished") })
        } else {
            connect_and_sync(&alice_ep, &alice, id, bob_addr, None).await
        };
        let a = accept_task.await;
        (c, a)
    };
    let res = tokio::time::timeout(Duration::from_secs(6), session).await;
    alice_ep.close().await;
    bob_ep.close().await;
    // an error of the accepting side after it allowed the request: does it name the document?
    let mut err_unnamed_after_allow = false;
    let (hung, a_ok, b_ok, a_cnt, b_cnt, b_panicked) = match res {
        Err(_) => (true, false, false, (0, 0), (0, 0), false),
        Ok((c, a)) => {
            let (a_ok, a_cnt) = match &c { Ok(f) => (true, (f.outcome.num_recv, f.outcome.num_sent)), Err(_) => (false, (0, 0)) };
            let (b_ok, b_cnt, b_p) = match &a {
                Ok(Some(Ok(f))) => (true, (f.outcome.num_recv, f.outcome.num_sent), false),
                Ok(Some(Err(e))) => {
                    if allowed.load(std::sync::atomic::Ordering::SeqCst) && e.namespace().is_none() { err_unnamed_after_allow = true; }
                    (false, (0, 0), false)
                }
                Ok(_) => (false, (0, 0), false),
                Err(_) => (false, (0, 0), true),
            };
            (false, a_ok, b_ok, a_cnt, b_cnt, b_p)
        }
    };
    stats.inc("net_session");
    stats.inc(&format!("net_alice_{:?}_bob_{:?}", fa, fb));
    if hung { stats.inc("net_hung"); }
    let coq = format!(
        "(Net {} {} {} {} {} {} ({}, {}) ({}, {}) {})",
        local_n(fa), local_n(fb), cbool(hung), cbool(b_panicked), cbool(a_ok), cbool(b_ok), a_cnt.0, a_cnt.1, b_cnt.0, b_cnt.1, cbool(err_unnamed_after_allow)
    );
    let json = format!(
        "{{\"net_session\":true,\"initiator\":\"{:?}\",\"acceptor\":\"{:?}\",\"initiator_entries\":{},\"acceptor_entries\":{},\"hung\":{},\"acceptor_panicked\":{},\"initiator_ok\":{},\"acceptor_ok\":{},\"initiator_recv_sent\":[{},{}],\"acceptor_recv_sent\":[{},{}],\"acceptor_error_after_allow_names_no_document\":{}}}",
        fa, fb, keys_a.len(), keys_b.len(), hung, b_panicked, a_ok, b_ok, a_cnt.0, a_cnt.1, b_cnt.0, b_cnt.1, err_unnamed_after_allow
    );
    Ok((coq, json))
}
