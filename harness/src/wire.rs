//! Mirror types for the crate's wire formats (postcard), used to look inside protocol messages
//! and to craft hostile ones without any hook into the crate: everything goes through the
//! crate's own (de)serializers.
#![allow(dead_code)]
use serde::{Deserialize, Serialize};

use iroh_docs::sync::SignedEntry;

/// A signed entry in wire form. Field order follows `SignedEntry { signature { author,
/// namespace }, entry { id, record { len, hash, timestamp } } }`.
#[derive(Debug, Clone, PartialEq, Eq)]
pub struct WEntry {
    pub author_sig: [u8; 64],
    pub ns_sig: [u8; 64],
    pub id: Vec<u8>,
    pub len: u64,
    pub hash: [u8; 32],
    pub ts: u64,
}

pub fn put_varint(out: &mut Vec<u8>, mut v: u64) {
    loop {
        let b = (v & 0x7f) as u8;
        v >>= 7;
        if v == 0 {
            out.push(b);
            break;
        } else {
            out.push(b | 0x80);
        }
    }
}

pub struct Reader<'a>(pub &'a [u8]);
impl<'a> Reader<'a> {
    pub fn varint(&mut self) -> Option<u64> {
        let mut v: u64 = 0;
        for i in 0..10 {
            let b = *self.0.first()?;
            self.0 = &self.0[1..];
            v |= ((b & 0x7f) as u64) << (7 * i);
            if b & 0x80 == 0 {
                return Some(v);
            }
        }
        None
    }
    pub fn take(&mut self, n: usize) -> Option<&'a [u8]> {
        if self.0.len() < n {
            return None;
        }
        let (a, b) = self.0.split_at(n);
        self.0 = b;
        Some(a)
    }
    pub fn byte(&mut self) -> Option<u8> {
        Some(self.take(1)?[0])
    }
}

impl WEntry {
    pub fn encode_into(&self, out: &mut Vec<u8>) {
        out.extend_from_slice(&self.author_sig);
        out.extend_from_slice(&self.ns_sig);
        put_varint(out, self.id.len() as u64);
        out.extend_from_slice(&self.id);
        put_varint(out, self.len);
        out.extend_from_slice(&self.hash);
        put_varint(out, self.ts);
    }
    pub fn encode(&self) -> Vec<u8> {
        let mut v = Vec::new();
        self.encode_into(&mut v);
        v
    }
    pub fn read(r: &mut Reader) -> Option<WEntry> {
        let author_sig: [u8; 64] = r.take(64)?.try_into().ok()?;
        let ns_sig: [u8; 64] = r.take(64)?.try_into().ok()?;
        let n = r.varint()? as usize;
        let id = r.take(n)?.to_vec();
        let len = r.varint()?;
        let hash: [u8; 32] = r.take(32)?.try_into().ok()?;
        let ts = r.varint()?;
        Some(WEntry { author_sig, ns_sig, id, len, hash, ts })
    }
    pub fn of(e: &SignedEntry) -> WEntry {
        let bytes = postcard::to_stdvec(e).unwrap();
        let mut r = Reader(&bytes);
        let w = WEntry::read(&mut r).expect("mirror decode of a real entry");
        assert!(r.0.is_empty());
        w
    }
}

pub fn decode_signed_entry(bytes: &[u8]) -> Result<SignedEntry, postcard::Error> {
    postcard::from_bytes(bytes)
}

/// The same, with a panic of the decoder reported as `None` instead of unwinding into the harness.
pub fn decode_signed_entry_caught(bytes: &[u8]) -> Option<Result<SignedEntry, postcard::Error>> {
    std::panic::catch_unwind(|| postcard::from_bytes(bytes)).ok()
}

/// Mirror of `ranger::MessagePart<SignedEntry>`.
#[derive(Debug, Clone, PartialEq, Eq)]
pub enum WPart {
    Fingerprint { x: Vec<u8>, y: Vec<u8>, fp: [u8; 32] },
    Item { x: Vec<u8>, y: Vec<u8>, values: Vec<(WEntry, u8)>, have_local: bool },
}

/// Mirror of `ProtocolMessage`.
#[derive(Debug, Clone, PartialEq, Eq)]
pub struct WMessage {
    pub parts: Vec<WPart>,
}

impl WMessage {
    pub fn encode(&self) -> Vec<u8> {
        let mut out = Vec::new();
        put_varint(&mut out, self.parts.len() as u64);
        for p in &self.parts {
            match p {
                WPart::Fingerprint { x, y, fp } => {
                    put_varint(&mut out, 0);
                    put_varint(&mut out, x.len() as u64);
                    out.extend_from_slice(x);
                    put_varint(&mut out, y.len() as u64);
                    out.extend_from_slice(y);
                    out.extend_from_slice(fp);
                }
                WPart::Item { x, y, values, have_local } => {
                    put_varint(&mut out, 1);
                    put_varint(&mut out, x.len() as u64);
                    out.extend_from_slice(x);
                    put_varint(&mut out, y.len() as u64);
                    out.extend_from_slice(y);
                    put_varint(&mut out, values.len() as u64);
                    for (e, st) in values {
                        e.encode_into(&mut out);
                        put_varint(&mut out, *st as u64);
                    }
                    out.push(*have_local as u8);
                }
            }
        }
        out
    }
    pub fn decode(bytes: &[u8]) -> Option<WMessage> {
        let mut r = Reader(bytes);
        let n = r.varint()?;
        let mut parts = Vec::new();
        for _ in 0..n {
            let tag = r.varint()?;
            let xl = r.varint()? as usize;
            let x = r.take(xl)?.to_vec();
            let yl = r.varint()? as usize;
            let y = r.take(yl)?.to_vec();
            match tag {
                0 => {
                    let fp: [u8; 32] = r.take(32)?.try_into().ok()?;
                    parts.push(WPart::Fingerprint { x, y, fp });
                }
                1 => {
                    let m = r.varint()?;
                    let mut values = Vec::new();
                    for _ in 0..m {
                        let e = WEntry::read(&mut r)?;
                        let st = r.varint()? as u8;
                        values.push((e, st));
                    }
                    let have_local = r.byte()? != 0;
                    parts.push(WPart::Item { x, y, values, have_local });
                }
                _ => return None,
            }
        }
        if !r.0.is_empty() {
            return None;
        }
        Some(WMessage { parts })
    }
    pub fn of(m: &iroh_docs::sync::ProtocolMessage) -> WMessage {
        let bytes = postcard::to_stdvec(m).unwrap();
        WMessage::decode(&bytes).expect("mirror decode of a real message")
    }
    pub fn to_real(&self) -> Result<iroh_docs::sync::ProtocolMessage, postcard::Error> {
        postcard::from_bytes(&self.encode())
    }
}

#[derive(Serialize, Deserialize)]
struct Unused;
