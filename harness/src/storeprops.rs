//! Generators for the store-level properties C07 C13 C15 C16 C17.
use std::path::Path;

use crate::c02::T0;
use crate::common::*;
use crate::storeops::*;

fn dump(uni: &Universe) -> Vec<SOp> {
    let mut v = Vec::new();
    // the list of documents is read first and last: a removal bracketed by two dumps is then directly
    // preceded and directly followed by it (it is served from a cached read snapshot, which the removal
    // must not leave in place)
    v.push(SOp::ListNamespaces);
    for id in uni.all_ids() {
        v.push(SOp::GetAll { ns: id });
        v.push(SOp::Heads { ns: id });
        v.push(SOp::GetPeers { ns: id });
        v.push(SOp::GetPolicy { ns: id });
    }
    v.push(SOp::ContentHashes);
    v.push(SOp::ListNamespaces);
    v
}

fn gen_entry_op(rng: &mut Rng, uni: &Universe, doc: usize, stats: &mut Stats) -> SOp {
    let ns = uni.docs[doc].0;
    let au = rng.below(uni.authors.len() as u64) as usize;
    let key = gen_key(rng);
    let ts = T0 + rng.below(6);
    let hash = if rng.chance(1, 2) { HASH_A } else { HASH_B };
    let len = if hash == HASH_A { 1 } else { 2 };
    match rng.below(10) {
        0..=2 => {
            stats.inc("op_insert");
            SOp::Insert { ns, au, key, hash, len, now: ts }
        }
        3..=4 => {
            stats.inc("op_delete");
            SOp::Delete { ns, au, key, now: ts }
        }
        _ => {
            stats.inc("op_remote");
            let e = if rng.chance(1, 4) { uni.signed(doc, au, &key, empty_hash(), 0, ts) } else { uni.signed(doc, au, &key, hash, len, ts) };
            SOp::Remote { ns, e, sig_ok: true, now: T0 + 10 }
        }
    }
}

fn gen_heads(rng: &mut Rng, uni: &Universe) -> Vec<([u8; 32], u64)> {
    let mut v: Vec<([u8; 32], u64)> = Vec::new();
    for a in &uni.authors {
        if rng.chance(2, 3) {
            v.push((a.id().to_bytes(), T0 + rng.below(7)));
        }
    }
    if rng.chance(1, 3) {
        // an author we hold nothing of: news whatever its timestamp, zero included
        v.push(([0x42; 32], if rng.chance(1, 3) { 0 } else { T0 + rng.below(7) }));
    }
    if rng.chance(1, 8) {
        if let Some(h) = v.first_mut() { h.1 = 0; }
    }
    v.sort();
    v
}

pub fn gen_history(pid: &str, rng: &mut Rng, uni: &Universe, persistent: bool, stats: &mut Stats) -> Vec<SOp> {
    let mut h = Vec::new();
    let ids = uni.all_ids();
    let pick_id = |rng: &mut Rng| *rng.pick(&ids);
    let n = 8 + rng.below(22);
    // most histories start with some documents in place
    for (i, d) in uni.docs.iter().enumerate() {
        if rng.chance(3, 4) {
            let write = (pid != "C07" && pid != "C15" && pid != "C17") || rng.chance(1, 2);
            h.push(SOp::Import { ns: d.0, secret: if write { Some(d.1) } else { None } });
            let _ = i;
        }
    }
    if pid == "C16" || pid == "C17" || pid == "C15" {
        for r in &uni.raw_docs {
            if rng.chance(1, 2) {
                h.push(SOp::Import { ns: *r, secret: None });
            }
        }
    }
    for _ in 0..n {
        let doc = rng.below(uni.docs.len() as u64) as usize;
        let ns = uni.docs[doc].0;
        let roll = rng.below(100);
        match pid {
            "C07" => match roll {
                0..=19 => {
                    // mostly the documents of this history (upgrades and attempted downgrades), sometimes any id
                    let id = if rng.chance(3, 4) { ns } else { pick_id(rng) };
                    let secret = if rng.chance(1, 2) { uni.secret_of(&id) } else { None };
                    stats.inc(if secret.is_some() { "import_write" } else { "import_read" });
                    h.push(SOp::Import { ns: id, secret });
                }
                20..=64 => h.push(gen_entry_op(rng, uni, doc, stats)),
                65..=72 => h.push(SOp::Open { ns }),
                73..=80 => h.push(SOp::Close { ns }),
                81..=88 => h.push(SOp::ListNamespaces),
                89..=93 if persistent => h.push(SOp::Reopen),
                94..=96 => h.push(SOp::Remove { ns }),
                // an unrelated store call that is refused (the document does not exist): whatever it does to
                // the store's open transaction, capabilities imported before must stay
                97 => { stats.inc("refused_call"); h.push(SOp::SetPolicy { ns: [0xEE; 32], policy: Default::default() }); }
                _ => h.push(SOp::GetAll { ns }),
            },
            "C13" => match roll {
                0..=9 => {
                    // head sets with many equal timestamps, every limit around the sizes that matter
                    let (heads, limit) = if rng.chance(1, 12) {
                        // many authors: the length prefix of the encoded list grows from one to two
                        // bytes at 128 items; limits right around the size of the newest 128
                        stats.inc("heads_encode_128");
                        let n_heads = 128 + rng.below(10) as usize;
                        let heads: Vec<([u8; 32], u64)> = (0..n_heads).map(|i| { let mut a = [7u8; 32]; a[0] = (i / 200) as u8; a[1] = (i % 200) as u8; (a, T0 + rng.below(3)) }).collect();
                        let item = 35u64; // varint(T0..T0+2) = 3 bytes + 32
                        let around = 2 + item * 128;
                        (heads, Some((around + rng.below(6) - 3) as usize))
                    } else {
                        let n_heads = rng.below(7) as usize;
                        let mut heads: Vec<([u8; 32], u64)> = (0..n_heads).map(|_| ([rng.below(9) as u8 + 1; 32], T0 + rng.below(3))).collect();
                        heads.sort();
                        heads.dedup_by(|a, b| a.0 == b.0);
                        // every limit, zero included (even the empty list needs one byte)
                        let limit = match rng.below(4) { 0 => None, _ => Some(rng.below(40 * (n_heads as u64 + 1)) as usize) };
                        (heads, limit)
                    };
                    h.push(SOp::HeadsEncode { heads, limit });
                    stats.inc("heads_encode");
                }
                10..=59 => h.push(gen_entry_op(rng, uni, doc, stats)),
                60..=79 => {
                    h.push(SOp::GetAll { ns });
                    h.push(SOp::Heads { ns });
                    h.push(SOp::HasNews { ns, heads: gen_heads(rng, uni) });
                    stats.inc("heads_checked");
                }
                80..=85 => h.push(SOp::Remove { ns }),
                86..=91 => h.push(SOp::Import { ns, secret: uni.secret_of(&ns) }),
                92..=93 if persistent => h.push(SOp::Reopen),
                // the file as an older version left it: no head table; opening it rebuilds the heads
                94..=95 if persistent => { stats.inc("heads_rebuilt"); h.push(SOp::WipeReopen { latest: true, bykey: rng.chance(1, 3) }); }
                _ => h.push(SOp::Close { ns }),
            },
            "C15" => match roll {
                0..=9 => {
                    h.push(SOp::Matches { policy: gen_policy(rng), key: gen_key(rng) });
                    stats.inc("matches");
                }
                10..=17 => {
                    // colons and non-ASCII inside the text; key bytes that begin or end in white space (the text
                    // after the second colon IS the key: nothing may be trimmed)
                    let k = match rng.below(4) {
                        0 => b"a:b/\xc3\xa9:".to_vec(),
                        1 => { stats.inc("filter_whitespace_edged"); rng.pick(&[&b"notes "[..], b" ", b"\t", b"a\n", b" a", b"x\xe3\x80\x80", b"tab\t", b"\r\n", b" a ", b"\x0b", b"a\x0c"]).to_vec() }
                        _ => gen_key(rng),
                    };
                    let f = if rng.chance(1, 2) { iroh_docs::store::FilterKind::Prefix(k.into()) } else { iroh_docs::store::FilterKind::Exact(k.into()) };
                    h.push(SOp::FilterText { f });
                    stats.inc("filter_text");
                }
                18..=24 => {
                    h.push(SOp::FilterParse { text: gen_filter_text(rng) });
                    stats.inc("filter_parse");
                }
                25..=39 => {
                    let id = pick_id(rng);
                    h.push(SOp::SetPolicy { ns: id, policy: gen_policy(rng) });
                    stats.inc("set_policy");
                }
                40..=69 => h.push(SOp::GetPolicy { ns: pick_id(rng) }),
                70..=76 => h.push(SOp::Remove { ns: pick_id(rng) }),
                77..=86 => {
                    // (re-)import, also of a document held read-only so far: an upgrade must keep its settings
                    let id = if rng.chance(1, 2) { ns } else { pick_id(rng) };
                    h.push(SOp::Import { ns: id, secret: if rng.chance(3, 4) { uni.secret_of(&id) } else { None } });
                    if rng.chance(1, 2) { h.push(SOp::GetPolicy { ns: id }); }
                    stats.inc("import_in_policy_history");
                }
                87..=93 if persistent => h.push(SOp::Reopen),
                _ => h.push(gen_entry_op(rng, uni, doc, stats)),
            },
            "C17" => match roll {
                0..=54 => {
                    // two thirds of the registrations go to one document of the history, so that its list
                    // fills up; a third of those repeat a peer registered there before: the most recent one,
                    // the oldest one or any (move to the front without duplicating, at every list length)
                    let id = if rng.chance(2, 3) { uni.docs[0].0 } else { pick_id(rng) };
                    let earlier: Vec<[u8; 32]> = h.iter().filter_map(|o| match o { SOp::RegisterPeer { ns, peer } if *ns == id => Some(*peer), _ => None }).collect();
                    let peer = if !earlier.is_empty() && rng.chance(1, 3) {
                        match rng.below(3) { 0 => { stats.inc("reregister_most_recent"); *earlier.last().unwrap() } 1 => earlier[earlier.len().saturating_sub(5).min(earlier.len() - 1)], _ => *rng.pick(&earlier) }
                    } else { [rng.below(9) as u8 + 1; 32] };
                    h.push(SOp::RegisterPeer { ns: id, peer });
                    stats.inc("register_peer");
                }
                55..=79 => h.push(SOp::GetPeers { ns: pick_id(rng) }),
                80..=84 => h.push(SOp::Remove { ns: pick_id(rng) }),
                85..=92 => {
                    let id = pick_id(rng);
                    h.push(SOp::Import { ns: id, secret: uni.secret_of(&id) });
                }
                93..=97 if persistent => h.push(SOp::Reopen),
                _ => h.push(SOp::GetPeers { ns }),
            },
            _ /* C16 */ => match roll {
                0..=34 => h.push(gen_entry_op(rng, uni, doc, stats)),
                35..=49 => {
                    // rows in neighbouring namespaces (through the unvalidated put hook)
                    let id = pick_id(rng);
                    let au = rng.below(uni.authors.len() as u64) as usize;
                    let hash = if rng.chance(1, 2) { HASH_A } else { HASH_B };
                    let e = uni.unsigned(&id, au, &gen_key(rng), hash, 1, T0 + rng.below(6));
                    if !h.iter().any(|o| matches!(o, SOp::Import { .. })) {
                        h.push(SOp::Import { ns: uni.docs[0].0, secret: Some(uni.docs[0].1) });
                    }
                    h.push(SOp::RawPut { e });
                    stats.inc("raw_put");
                }
                50..=57 => h.push(SOp::RegisterPeer { ns: pick_id(rng), peer: [rng.below(7) as u8 + 1; 32] }),
                58..=64 => h.push(SOp::SetPolicy { ns: pick_id(rng), policy: gen_policy(rng) }),
                65..=70 => h.push(SOp::Open { ns: pick_id(rng) }),
                71..=76 => h.push(SOp::Close { ns: pick_id(rng) }),
                77..=88 => {
                    let id = pick_id(rng);
                    // a third of the removals are tried on a document that was just opened, and tried twice:
                    // the refusal must change nothing, not even what the next attempt is answered
                    let twice = rng.chance(1, 3);
                    if twice {
                        // (back to back: the dumps read the document's entries through a replica, which marks
                        // it open again)
                        h.push(SOp::Open { ns: id });
                        h.push(SOp::Remove { ns: id });
                        h.push(SOp::Remove { ns: id });
                        stats.inc("remove_while_open_twice");
                    }
                    h.extend(dump(uni));
                    h.push(SOp::Remove { ns: id });
                    h.extend(dump(uni));
                    stats.inc("remove_attempt");
                }
                89..=94 => {
                    let id = pick_id(rng);
                    h.push(SOp::Import { ns: id, secret: uni.secret_of(&id) });
                }
                95..=97 if persistent => h.push(SOp::Reopen),
                _ => h.push(SOp::ContentHashes),
            },
        }
    }
    // RawPut needs a carrier document that still exists: drop raw puts that would find none
    h.extend(dump(uni));
    h
}

fn dump18(uni: &Universe, queries: &[crate::c05::Q]) -> Vec<SOp> {
    let mut v = Vec::new();
    for d in &uni.docs {
        v.push(SOp::GetAll { ns: d.0 });
        v.push(SOp::Heads { ns: d.0 });
        for q in queries {
            v.push(SOp::Query { ns: d.0, q: q.clone() });
        }
    }
    v.push(SOp::ListNamespaces);
    v.push(SOp::ContentHashes);
    v
}

fn gen_history18(rng: &mut Rng, uni: &Universe, stats: &mut Stats) -> (Vec<SOp>, usize) {
    use crate::c05::{Q, KF};
    let mut h = Vec::new();
    for d in &uni.docs {
        h.push(SOp::Import { ns: d.0, secret: Some(d.1) });
    }
    // key-ordered and latest-per-key queries, asked before and after every reopen
    let w = World { ns: iroh_docs::NamespaceSecret::from_bytes(&uni.docs[0].1), authors: uni.authors.clone() };
    let mut queries: Vec<Q> = vec![
        Q { latest: false, by_key: true, author: None, key: KF::Any, limit: None, offset: 0, include_empty: true, desc: false },
        Q { latest: true, by_key: false, author: None, key: KF::Any, limit: None, offset: 0, include_empty: true, desc: false },
        Q { latest: true, by_key: false, author: None, key: KF::Any, limit: None, offset: 0, include_empty: false, desc: true },
    ];
    for _ in 0..4 {
        queries.push(crate::c05::gen_query(rng, &w, stats));
    }
    let dl = dump18(uni, &queries).len();
    let rounds = 1 + rng.below(3);
    for _ in 0..rounds {
        for _ in 0..rng.below(12) {
            let doc = rng.below(uni.docs.len() as u64) as usize;
            h.push(gen_entry_op(rng, uni, doc, stats));
        }
        if rng.chance(1, 6) {
            h.push(SOp::Remove { ns: uni.docs[0].0 });
            h.push(SOp::Import { ns: uni.docs[0].0, secret: Some(uni.docs[0].1) });
        }
        // 1-3 reopen cycles, the first possibly with derived tables deleted
        h.extend(dump18(uni, &queries));
        let (l, b) = match rng.below(5) { 0 => (false, false), 1 => (true, false), 2 => (false, true), _ => (true, true) };
        stats.inc(&format!("wipe_heads{}_index{}", l, b));
        h.push(SOp::WipeReopen { latest: l, bykey: b });
        h.extend(dump18(uni, &queries));
        for _ in 0..rng.below(3) {
            h.push(SOp::Reopen);
            h.extend(dump18(uni, &queries));
            stats.inc("plain_reopen");
        }
    }
    (h, dl)
}

/// The large store in a form the model evaluates in seconds: one entry per author, written in DESCENDING
/// author order (every table insert then happens at the front of the sorted lists), and a second, newer
/// entry under a smaller key only for the authors whose (document, author) pair sits around position 1024
/// of the table.
fn gen_history18_large_lean(rng: &mut Rng, uni: &Universe, stats: &mut Stats) -> (Vec<SOp>, usize) {
    let mut h = Vec::new();
    let (ns, secret) = uni.docs[0];
    h.push(SOp::Import { ns, secret: Some(secret) });
    let nsec = iroh_docs::NamespaceSecret::from_bytes(&secret);
    let n_authors = 1040 + rng.below(20) as usize;
    let mut authors: Vec<iroh_docs::Author> = (0..n_authors).map(|_| iroh_docs::Author::from_bytes(&rng.bytes32())).collect();
    authors.sort_by_key(|a| a.id().to_bytes());
    for idx in (0..n_authors).rev() {
        let a = &authors[idx];
        h.push(SOp::RawPut { e: signed_raw(&nsec, a, b"k", HASH_A, 1, T0 + 1) });
        if (1015..=1035).contains(&idx) {
            h.push(SOp::RawPut { e: signed_raw(&nsec, a, b"a", HASH_B, 2, T0 + 2) });
        }
    }
    stats.inc("large_store_histories");
    stats.add("large_store_authors", n_authors as u64);
    h.push(SOp::Heads { ns });
    h.push(SOp::WipeReopen { latest: true, bykey: false });
    h.push(SOp::Heads { ns });
    (h, 1)
}

fn gen_history18_large(rng: &mut Rng, uni: &Universe, stats: &mut Stats) -> (Vec<SOp>, usize) {
    let mut h = Vec::new();
    let (ns, secret) = uni.docs[0];
    h.push(SOp::Import { ns, secret: Some(secret) });
    let nsec = iroh_docs::NamespaceSecret::from_bytes(&secret);
    let n_authors = 1030 + rng.below(80) as usize;
    for _ in 0..n_authors {
        let a = iroh_docs::Author::from_bytes(&rng.bytes32());
        h.push(SOp::RawPut { e: signed_raw(&nsec, &a, b"b", HASH_A, 1, T0 + 1) });
        h.push(SOp::RawPut { e: signed_raw(&nsec, &a, b"a", HASH_B, 2, T0 + 2) });
    }
    stats.inc("large_store_histories");
    stats.add("large_store_authors", n_authors as u64);
    // the dump is the heads alone (one operation)
    h.push(SOp::Heads { ns });
    h.push(SOp::WipeReopen { latest: true, bykey: rng.chance(1, 2) });
    h.push(SOp::Heads { ns });
    h.push(SOp::Reopen);
    h.push(SOp::Heads { ns });
    (h, 1)
}

pub fn run(pid: &str, seed: u64, n: usize, out: &Path, _thorough: bool) -> anyhow::Result<()> {
    let code: u64 = pid[1..].parse()?;
    let mut rng = Rng::new(seed ^ (0x5700 + code));
    let mut stats = Stats::default();
    // C15 is also observed at the download flag of remote insert events: its case file mixes store
    // histories with histories through the store handle (Check/C15.v)
    let mixed = pid == "C15" || pid == "C07";
    let mut cw = CaseWriter::new(out, pid, match pid { "C15" => "Check.C15", "C07" => "Check.C07", _ => "Check.StoreProps" }, 50)?;
    let mut distinct = std::collections::HashSet::new();
    for i in 0..n {
        let uni = Universe::new(seed.wrapping_add((i % 4) as u64), 2 + (i % 2), 1 + rng.below(3) as usize);
        let persistent = pid == "C18" || rng.chance(1, 3);
        let mut dump_len = 0usize;
        let ops = if pid == "C18" && !_thorough && i == 7 {
            // the lean form of the large store for the quick tier (see gen_history18_large_lean)
            let (h, dl) = gen_history18_large_lean(&mut rng, &uni, &mut stats);
            dump_len = dl;
            h
        } else if pid == "C18" && _thorough && (i == 7 || i == 1507) {
            // a large store: more than a thousand (document, author) pairs, two entries each with the newer
            // one under the smaller key, then the head table is deleted and rebuilt (a rebuild that works in
            // batches, or keeps per-author state in something of bounded size, shows only at this volume);
            // evaluating the model on it takes minutes, so it is part of the thorough tier only (two histories)
            let (h, dl) = gen_history18_large(&mut rng, &uni, &mut stats);
            dump_len = dl;
            h
        } else if pid == "C18" {
            let (h, dl) = gen_history18(&mut rng, &uni, &mut stats);
            dump_len = dl;
            h
        } else {
            gen_history(pid, &mut rng, &uni, persistent, &mut stats)
        };
        let mut m = Machine::new(persistent, uni.authors.clone())?;
        let mut hist = Vec::new();
        // C17: the registration clock is the wall clock (there is no hook on that path, on purpose: the
        // way the timestamp is computed is part of what is checked); in a few histories the process
        // pauses before some registrations, so that consecutive registrations straddle second boundaries
        let mut pauses = if pid == "C17" && i % 67 == 3 { 4 } else { 0 };
        for op in ops {
            if pauses > 0 && matches!(op, SOp::RegisterPeer { .. }) {
                std::thread::sleep(std::time::Duration::from_millis(300));
                pauses -= 1;
                stats.inc("registrations_after_a_pause");
            }
            // a raw put needs some existing document as a carrier
            if matches!(op, SOp::RawPut { .. }) && m.ts.s().list_namespaces()?.next().is_none() {
                continue;
            }
            let r = m.apply(&op)?;
            hist.push((op, r));
        }
        stats.inc(if persistent { "store_file" } else { "store_memory" });
        stats.add("ops", hist.len() as u64);
        let (ch, jh) = history_terms(&uni.authors, &hist);
        let coq = if pid == "C18" {
            format!("(mkCase {} [{}] {})", code, dump_len, ch)
        } else {
            format!("(mkCase {} {} {})", code, clist(&uni.all_ids(), |i| n256(i)), ch)
        };
        let coq = if mixed { format!("({} (StoreProps.{})", if pid == "C15" { "St15" } else { "St07" }, &coq[1..]) } else { coq };
        let json = format!("{{\"store\":\"{}\",\"history\":{}}}", if persistent { "file" } else { "memory" }, jh);
        let interesting = hist.iter().any(|(o, r)| match (pid, o, r) {
            ("C07", SOp::Import { .. }, SRes::Import("ImpUpgraded")) => true,
            ("C13", SOp::HasNews { .. }, SRes::News(n)) => *n > 0,
            ("C15", SOp::GetPolicy { .. }, SRes::Policy(p)) => *p != Default::default(),
            ("C16", SOp::Remove { .. }, SRes::Unit) => true,
            ("C17", SOp::GetPeers { .. }, SRes::Peers(Some(l))) => l.len() >= 2,
            ("C18", SOp::Heads { .. }, SRes::Heads(l)) => !l.is_empty(),
            _ => false,
        });
        if interesting && distinct.insert(coq.clone()) {
            stats.inc("distinct_nontrivial");
        }
        cw.push(coq, json)?;
    }
    if pid == "C07" {
        // a tenth as many scenarios (at least 20) through the client API of a real node (src/api): the layer
        // applications use to import capabilities and write
        let before = cw.total;
        crate::c07api::run_into(seed ^ 0x07, (n / 10).max(20), &mut cw, &mut stats, "Api07")?;
        stats.add("api_histories", (cw.total - before) as u64);
    }
    if pid == "C15" {
        // a quarter as many histories through the store handle, generated as for C12 (policies change
        // while documents stay open, entries arrive right afterwards by either path)
        let before = cw.total;
        crate::actorops::run_into("C15", seed ^ 0x15, (n / 4).max(20), &mut cw, &mut stats, Some("Ev15"))?;
        stats.add("event_histories", (cw.total - before) as u64);
    }
    cw.flush()?;
    stats.add("evaluations", cw.total as u64);
    stats.write(out, pid)?;
    Ok(())
}

/// Filter strings: mostly well formed, with mutations (unknown kind / encoding, missing colon,
/// odd-length or non-hex digits, upper-case hex, colons inside the value).
pub fn gen_filter_text(rng: &mut Rng) -> Vec<u8> {
    let kind: &[u8] = match rng.below(8) { 0 => b"prefi", 1 => b"Exact", 2 => b"", 3..=5 => b"prefix", _ => b"exact" };
    let enc: &[u8] = match rng.below(8) { 0 => b"utf-8", 1 => b"HEX", 2 => b"", 3..=5 => b"hex", _ => b"utf8" };
    let val: Vec<u8> = match rng.below(7) {
        0 => b"6162".to_vec(),
        1 => b"616".to_vec(),
        2 => b"zz".to_vec(),
        3 => b"A1ff".to_vec(),
        4 => b"a:b:c".to_vec(),
        5 => b"".to_vec(),
        _ => b"00ff7f".to_vec(),
    };
    let mut t = Vec::new();
    t.extend_from_slice(kind);
    if !rng.chance(1, 12) { t.push(b':'); }
    t.extend_from_slice(enc);
    if !rng.chance(1, 12) { t.push(b':'); }
    t.extend_from_slice(&val);
    // white space around the whole string or at the end of the value (hex digits must not be preceded or
    // followed by anything; a utf8 value keeps it)
    match rng.below(10) {
        0 => t.push(b' '),
        1 => { t.insert(0, b' '); }
        2 => t.extend_from_slice(b"\n"),
        _ => {}
    }
    t
}
