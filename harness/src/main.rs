mod actorops;
mod c01;
mod c02;
mod c03;
mod c04;
mod c05;
mod c06;
mod c07api;
mod c09;
mod c10;
mod c10net;
mod c11;
mod common;
mod storeops;
mod storeprops;
mod wire;

fn main() -> anyhow::Result<()> {
    let args: Vec<String> = std::env::args().collect();
    if args.len() < 5 {
        eprintln!("usage: verif-harness <PROP> <seed> <n> <outdir> [thorough]");
        std::process::exit(2);
    }
    let prop = args[1].as_str();
    let seed: u64 = args[2].parse()?;
    let n: usize = args[3].parse()?;
    let out = std::path::PathBuf::from(&args[4]);
    let thorough = args.get(5).map(|s| s == "thorough").unwrap_or(false);
    match prop {
        "C01" => c01::run(seed, n, &out, thorough, "C01", "Check.C01"),
        "C02" => c02::run(seed, n, &out, thorough),
        "C07" | "C13" | "C15" | "C16" | "C17" | "C18" => storeprops::run(prop, seed, n, &out, thorough),
        "C06" => c06::run(seed, n, &out, thorough),
        "C09" => c09::run(seed, n, &out, thorough),
        "C10" => c10::run(seed, n, &out, thorough),
        "C11" => c11::run(seed, n, &out, thorough),
        "C12" | "C14" => actorops::run(prop, seed, n, &out, thorough),
        "C08" => c01::run(seed, n, &out, thorough, "C08", "Check.C08"),
        "C03" => c03::run(seed, n, &out, thorough),
        "C04" => c04::run(seed, n, &out, thorough),
        "C05" => c05::run(seed, n, &out, thorough),
        _ => anyhow::bail!("unknown property {prop}"),
    }
}
