//! C10: the session drivers (`run_alice`, `BobState`) against a scripted peer over an in-memory
//! duplex stream, with the store actor being closed / sync-disabled / shut down mid-session.
use std::path::Path;
use std::time::Duration;

use bytes::BytesMut;
use iroh_docs::{
    actor::SyncHandle,
    net::{
        verif_codec::{codec_decode, codec_encode, run_alice, BobState, WireMessage},
        AbortReason, AcceptError, AcceptOutcome, ConnectError,
    },
    sync::{Event, RecordIdentifier},
    verif, AuthorId, NamespaceId, NamespaceSecret,
};
use tokio::io::{AsyncReadExt, AsyncWriteExt};

use crate::actorops::{caop, AOp, Client};
use crate::c01::crid;
use crate::c02::T0;
use crate::c03::{gen_wire, sig_ok};
use crate::common::*;
use crate::storeops::Universe;
use crate::wire::{WMessage, WPart};

#[derive(Clone)]
enum Fin {
    Msg { init: bool, abort: Option<AbortReason>, ns: [u8; 32], m: WMessage },
    Bad(u8),
    Act(AOp),
    Shutdown,
}

fn reason_n(r: AbortReason) -> u8 {
    match r {
        AbortReason::NotFound => 0,
        AbortReason::AlreadySyncing => 1,
        AbortReason::InternalServerError => 2,
    }
}

fn cwmsg(m: &WMessage) -> String {
    let empty = verif::empty_fingerprint();
    let parts: Vec<String> = m.parts.iter().map(|p| match p {
        WPart::Item { x, y, values, have_local } => format!(
            "(PItem {} {} {} {})", crid(x), crid(y),
            clist(values, |(e, st)| format!("({}, {})", crate::c01::cwentry(e), *st as u64 + if sig_ok(e) { 0 } else { 4 })), cbool(*have_local)),
        WPart::Fingerprint { x, y, fp } => format!("(PFp {} {} {})", crid(x), crid(y), if *fp == empty { "[]" } else { "[(0, 0, [], 0, 0)]" }),
    }).collect();
    format!("[{}]", parts.join("; "))
}

fn cfin(uni: &Universe, f: &Fin) -> String {
    match f {
        Fin::Msg { init, abort, ns, m } => format!("(FMsg {} {} {} {})", cbool(*init), cbool(abort.is_some()), n256(ns), cwmsg(m)),
        Fin::Bad(_) => "FBad".into(),
        Fin::Act(o) => format!("(FAct {})", caop(uni, o)),
        Fin::Shutdown => "FShutdown".into(),
    }
}
fn jfin(f: &Fin) -> String {
    match f {
        Fin::Msg { init, abort, m, .. } => format!("\"{} values={}\"", if *init { "Init" } else if abort.is_some() { "Abort" } else { "Sync" }, m.parts.iter().map(|p| match p { WPart::Item { values, .. } => values.len(), _ => 0 }).sum::<usize>()),
        Fin::Bad(k) => format!("\"garbage#{}\"", k),
        Fin::Act(o) => format!("\"meanwhile: {}\"", crate::actorops::jaop(o)),
        Fin::Shutdown => "\"meanwhile: shutdown\"".into(),
    }
}

fn gen_message(rng: &mut Rng, uni: &Universe, doc: usize, with_fp: bool) -> WMessage {
    let ns = NamespaceId::from(&uni.docs[doc].0);
    let w = World { ns: NamespaceSecret::from_bytes(&uni.docs[doc].1), authors: uni.authors.clone() };
    let foreign = NamespaceSecret::from_bytes(&rng.bytes32());
    let mut parts = Vec::new();
    for _ in 0..1 + rng.below(2) {
        let au = rng.pick(&uni.authors).id();
        let x = RecordIdentifier::new(ns, au, gen_key(rng));
        let y = if rng.chance(1, 2) { x.clone() } else { RecordIdentifier::new(ns, au, gen_key(rng)) };
        if with_fp && rng.chance(1, 3) {
            parts.push(WPart::Fingerprint { x: x.as_ref().to_vec(), y: y.as_ref().to_vec(), fp: verif::empty_fingerprint() });
        } else {
            let mut values = Vec::new();
            for _ in 0..rng.below(4) {
                let mut t = gen_wire(rng, &w, &foreign, T0 + 10);
                while t.w.id.len() < 64 { t = gen_wire(rng, &w, &foreign, T0 + 10); }
                values.push((t.w, rng.below(3) as u8));
            }
            parts.push(WPart::Item { x: x.as_ref().to_vec(), y: y.as_ref().to_vec(), values, have_local: rng.chance(1, 2) });
        }
    }
    WMessage { parts }
}

/// values for the whole document plus an empty fingerprint over it: the receiver stores what is valid
/// and has to answer (its fingerprint of a non-empty document differs)
fn gen_busy_message(rng: &mut Rng, uni: &Universe, doc: usize) -> WMessage {
    let ns = NamespaceId::from(&uni.docs[doc].0);
    let w = World { ns: NamespaceSecret::from_bytes(&uni.docs[doc].1), authors: uni.authors.clone() };
    let foreign = NamespaceSecret::from_bytes(&rng.bytes32());
    let x = RecordIdentifier::new(ns, rng.pick(&uni.authors).id(), gen_key(rng));
    let mut values = Vec::new();
    for _ in 0..1 + rng.below(3) {
        let mut t = gen_wire(rng, &w, &foreign, T0 + 10);
        while t.w.id.len() < 64 { t = gen_wire(rng, &w, &foreign, T0 + 10); }
        values.push((t.w, rng.below(3) as u8));
    }
    WMessage { parts: vec![
        WPart::Item { x: x.as_ref().to_vec(), y: x.as_ref().to_vec(), values, have_local: true },
        WPart::Fingerprint { x: x.as_ref().to_vec(), y: x.as_ref().to_vec(), fp: verif::empty_fingerprint() },
    ] }
}

fn frame_bytes(f: &Fin) -> anyhow::Result<Vec<u8>> {
    Ok(match f {
        Fin::Msg { init, abort, ns, m } => {
            let wm = if let Some(r) = abort { WireMessage::Abort(*r) } else if *init { WireMessage::Init { namespace: NamespaceId::from(ns), message: m.to_real()? } } else { WireMessage::Sync(m.to_real()?) };
            let mut buf = BytesMut::new();
            codec_encode(wm, &mut buf)?;
            buf.to_vec()
        }
        Fin::Bad(0) => vec![0, 0, 0, 3, 0xff, 0xff, 0xff],          // well-framed garbage
        Fin::Bad(1) => vec![0x7f, 0xff, 0xff, 0xff, 1, 2, 3],        // oversized length header
        Fin::Bad(2) => vec![0, 0, 0, 9, 1, 2],                        // a frame cut short by the end of the stream
        Fin::Bad(3) => vec![0, 0],                                    // the stream ends inside a length header
        Fin::Bad(_) => {
            // an empty frame and, in the same write, a complete valid frame behind it: whatever the decoder
            // makes of the empty one, it must not report "need more data" while a whole frame is buffered
            let mut v = vec![0, 0, 0, 0];
            let mut buf = BytesMut::new();
            codec_encode(WireMessage::Abort(AbortReason::AlreadySyncing), &mut buf)?;
            v.extend_from_slice(&buf);
            v
        }
        _ => vec![],
    })
}

/// read one frame from the driver's output, if one arrives
async fn read_frame<R: tokio::io::AsyncRead + Unpin>(r: &mut R, buf: &mut BytesMut) -> Option<WireMessage> {
    loop {
        if let Ok(Some(m)) = codec_decode(buf) {
            return Some(m);
        }
        let mut tmp = [0u8; 4096];
        match r.read(&mut tmp).await {
            Ok(0) | Err(_) => return None,
            Ok(n) => buf.extend_from_slice(&tmp[..n]),
        }
    }
}

pub fn run(seed: u64, n: usize, out: &Path, _thorough: bool) -> anyhow::Result<()> {
    let mut rng = Rng::new(seed ^ 0xC10);
    let mut stats = Stats::default();
    let mut cw = CaseWriter::new(out, "C10", "Check.C10", 30)?;
    let mut distinct = std::collections::HashSet::new();
    let rt = tokio::runtime::Builder::new_multi_thread().worker_threads(3).enable_all().build()?;
    verif::set_sync_config(None);
    let peer = iroh::SecretKey::from_bytes(&[7u8; 32]).public();
    for i in 0..n {
        let uni = Universe::new(seed.wrapping_add((i % 4) as u64), 2, 1 + rng.below(2) as usize);
        let is_bob = rng.chance(3, 5);
        let doc = rng.below(2) as usize;
        let ns = uni.docs[doc].0;
        let now = T0 + 10;
        // setup: import, open (mostly with sync), a few entries
        let mut setup: Vec<AOp> = Vec::new();
        if rng.chance(9, 10) { setup.push(AOp::Import { ns, secret: Some(uni.docs[doc].1) }); }
        if rng.chance(9, 10) { setup.push(AOp::Open { ns, sync: rng.chance(5, 6), sub: None }); }
        for _ in 0..rng.below(5) {
            let hash = if rng.chance(1, 2) { HASH_A } else { HASH_B };
            setup.push(AOp::InsertLocal { ns, au: rng.below(uni.authors.len() as u64) as usize, known: true, key: gen_key(&mut rng), hash, len: if hash == HASH_A { 1 } else { 2 }, now: T0 + rng.below(6) });
        }
        // script
        let mut script: Vec<Fin> = Vec::new();
        let len = rng.below(6);
        let mut need_init = is_bob;
        for _ in 0..len {
            let roll = rng.below(100);
            if roll < 55 {
                let init = if is_bob { need_init && rng.chance(9, 10) || rng.chance(1, 10) } else { rng.chance(1, 12) };
                if init { need_init = false; }
                let target = if rng.chance(1, 8) { uni.docs[1 - doc].0 } else { ns };
                script.push(Fin::Msg { init, abort: None, ns: target, m: gen_message(&mut rng, &uni, doc, true) });
            } else if roll < 62 {
                script.push(Fin::Msg { init: false, abort: Some(*rng.pick(&[AbortReason::NotFound, AbortReason::AlreadySyncing, AbortReason::InternalServerError])), ns, m: WMessage { parts: vec![] } });
            } else if roll < 70 {
                let k = rng.below(5) as u8;
                script.push(Fin::Bad(k));
                break;
            } else if roll < 80 {
                script.push(Fin::Act(AOp::Close { ns }));
            } else if roll < 88 {
                script.push(Fin::Act(AOp::SetSync { ns, b: rng.chance(1, 3) }));
            } else if roll < 93 {
                script.push(Fin::Shutdown);
            } else {
                script.push(Fin::Act(AOp::Open { ns, sync: rng.chance(1, 2), sub: None }));
            }
        }
        // the handshake sent twice (same document, again with values) in a sixth of the accepting runs
        if is_bob && rng.chance(1, 6) {
            if let Some(pos) = script.iter().position(|f| matches!(f, Fin::Msg { init: true, abort: None, .. })) {
                // both handshakes carry values and a fingerprint that cannot match, so that the session
                // is still running (a reply is pending) when the second one arrives
                let target = match &script[pos] { Fin::Msg { ns, .. } => *ns, _ => unreachable!() };
                script[pos] = Fin::Msg { init: true, abort: None, ns: target, m: gen_busy_message(&mut rng, &uni, doc) };
                script.insert(pos + 1, Fin::Msg { init: true, abort: None, ns: target, m: gen_busy_message(&mut rng, &uni, doc) });
                stats.inc("script_double_init");
            }
        }
        let accept: Option<AbortReason> = if is_bob && rng.chance(1, 6) { Some(*rng.pick(&[AbortReason::NotFound, AbortReason::AlreadySyncing])) } else { None };

        if std::env::var("VERIF_DEBUG").is_ok() {
            eprintln!("case {} bob={} setup=[{}] script=[{}] accept={:?}", i, is_bob, setup.iter().map(crate::actorops::jaop).collect::<Vec<_>>().join("; "), script.iter().map(jfin).collect::<Vec<_>>().join(", "), accept);
        }
        let persistent = false;
        let mut ts = TestStore::new(persistent)?;
        let store = ts.store.take().unwrap();
        let res = rt.block_on(async {
            let handle = SyncHandle::spawn(store, None, "verif".into());
            let mut author_ids = Vec::new();
            for a in &uni.authors { author_ids.push(handle.import_author(a.clone()).await?); }
            let (tx, _rx) = async_channel::unbounded::<Event>();
            let mut client = Client { handle: handle.clone(), txs: vec![tx], rxs: vec![None], author_ids };
            let unknown = AuthorId::from(&[0x55u8; 32]);
            let mut hist = Vec::new();
            for op in &setup {
                let r = client.apply(op, unknown).await?;
                hist.push(format!("({}, {}, [])", caop(&uni, op), r));
            }
            let mut before = Vec::new();
            for d in &uni.docs {
                let was_open = client.get_all(&d.0).await?;
                before.push((d.0, was_open));
            }
            // contents before: read through a temporary open where needed
            let mut before_c = Vec::new();
            for (d, l) in &before {
                let l = match l { Some(l) => l.clone(), None => {
                    if handle.open(NamespaceId::from(d), Default::default()).await.is_ok() {
                        let l = client.get_all(d).await?.unwrap_or_default();
                        handle.close(NamespaceId::from(d)).await?;
                        l
                    } else { vec![] } } };
                before_c.push(format!("({}, {})", n256(d), clist(&l, centry)));
            }
            let init_preimage = client.get_all(&ns).await?.unwrap_or_default();
            verif::set_clock(now);

            let (peer_side, driver_side) = tokio::io::duplex(1 << 22);
            let (mut peer_r, mut peer_w) = tokio::io::split(peer_side);
            let (mut drv_r, mut drv_w) = tokio::io::split(driver_side);
            let h2 = handle.clone();
            let acc = accept;
            let task = tokio::spawn(async move {
                if is_bob {
                    let mut state = BobState::new(peer);
                    // the callback answers like the live engine's: the session's first request gets the
                    // scripted answer, any further request while that session runs is declined
                    let calls = std::sync::Arc::new(std::sync::atomic::AtomicUsize::new(0));
                    let r = state.run(&mut drv_w, &mut drv_r, h2, move |_ns, _peer| {
                        let k = calls.fetch_add(1, std::sync::atomic::Ordering::SeqCst);
                        async move {
                            if k > 0 { return AcceptOutcome::Reject(AbortReason::AlreadySyncing); }
                            match acc { Some(r) => AcceptOutcome::Reject(r), None => AcceptOutcome::Allow }
                        }
                    }).await;
                    let namespace = state.namespace();
                    let outcome = std::panic::catch_unwind(std::panic::AssertUnwindSafe(|| state.into_outcome())).ok();
                    let kind = match &r {
                        Ok(_) => "SOk".to_string(),
                        Err(AcceptError::Abort { reason, .. }) => format!("(SErrAbort {})", reason_n(*reason)),
                        Err(_) => "SErrSync".to_string(),
                    };
                    drop(drv_w);
                    (kind, namespace, outcome.map(|o| (o.num_recv, o.num_sent)))
                } else {
                    let r = run_alice(&mut drv_w, &mut drv_r, &h2, NamespaceId::from(&ns), peer).await;
                    let kind = match &r {
                        Ok(_) => "SOk".to_string(),
                        Err(ConnectError::RemoteAbort(_)) => "SErrRemoteAbort".to_string(),
                        Err(_) => "SErrSync".to_string(),
                    };
                    drop(drv_w);
                    (kind, None, r.ok().map(|o| (o.num_recv, o.num_sent)))
                }
            });
            // the scripted peer
            let mut inbuf = BytesMut::new();
            let mut sent: Vec<WireMessage> = Vec::new();
            let mut store_back = None;
            let mut hung = false;
            if !is_bob {
                // alice speaks first
                match tokio::time::timeout(Duration::from_secs(5), read_frame(&mut peer_r, &mut inbuf)).await {
                    Ok(Some(m)) => sent.push(m),
                    Ok(None) => {}
                    Err(_) => hung = true,
                }
            }
            for f in &script {
                if std::env::var("VERIF_DEBUG").is_ok() { eprintln!("  step {}", jfin(f)); }
                if task.is_finished() || hung { break; }
                match f {
                    Fin::Act(o) => {
                        // a request that never gets an answer (e.g. queued behind a shutdown) is a hang
                        match tokio::time::timeout(Duration::from_secs(3), client.apply(o, unknown)).await {
                            Ok(r) => { let _ = r?; }
                            Err(_) => { hung = true; }
                        }
                    }
                    Fin::Shutdown => {
                        if store_back.is_none() {
                            match tokio::time::timeout(Duration::from_secs(3), handle.shutdown()).await {
                                Ok(r) => store_back = Some(r?),
                                Err(_) => { hung = true; }
                            }
                        }
                    }
                    _ => {
                        let bytes = frame_bytes(f)?;
                        if peer_w.write_all(&bytes).await.is_err() { break; }
                        if matches!(f, Fin::Bad(2) | Fin::Bad(3)) { break; }
                        // the driver answers or finishes
                        match tokio::time::timeout(Duration::from_secs(5), read_frame(&mut peer_r, &mut inbuf)).await {
                            Ok(Some(m)) => sent.push(m),
                            Ok(None) => {}
                            Err(_) => { hung = true; }
                        }
                    }
                }
            }
            if std::env::var("VERIF_DEBUG").is_ok() { eprintln!("  script done"); }
            let _ = peer_w.shutdown().await;
            drop(peer_w);
            // whatever the driver still writes
            while let Ok(Some(m)) = tokio::time::timeout(Duration::from_secs(5), read_frame(&mut peer_r, &mut inbuf)).await {
                sent.push(m);
            }
            let (kind, namespace, outcome, panicked) = match tokio::time::timeout(Duration::from_secs(5), task).await {
                Ok(Ok((k, n, o))) => (k, n, o, false),
                Ok(Err(_join)) => ("SErrSync".to_string(), None, None, true),
                Err(_) => { hung = true; ("SErrSync".to_string(), None, None, false) }
            };
            if std::env::var("VERIF_DEBUG").is_ok() { eprintln!("  task joined"); }
            let mut store = match store_back {
                Some(s) => s,
                None => match tokio::time::timeout(Duration::from_secs(3), handle.shutdown()).await {
                    Ok(r) => r?,
                    Err(_) => anyhow::bail!("the final shutdown did not return"),
                },
            };
            let mut after_c = Vec::new();
            for d in &uni.docs {
                let l = all_entries(&mut store, NamespaceId::from(&d.0))?;
                after_c.push(format!("({}, {})", n256(&d.0), clist(&l, centry)));
            }
            drop(store);
            // render what the driver wrote
            let csent: Vec<String> = sent.iter().enumerate().map(|(j, m)| match m {
                WireMessage::Abort(_) => "None".to_string(),
                WireMessage::Sync(m) => format!("(Some {})", cwmsg(&WMessage::of(m))),
                WireMessage::Init { message, .. } => {
                    // alice's initial message: one fingerprint over everything she holds
                    let w = WMessage::of(message);
                    let _ = j;
                    match &w.parts[..] {
                        [WPart::Fingerprint { x, y, .. }] => format!("(Some [PFp {} {} {}])", crid(x), crid(y), clist(&init_preimage, |e| format!("({}, {}, {}, {}, {})", n256(e.entry().namespace().as_bytes()), n256(e.author_bytes().as_bytes()), cbytes(e.key()), e.timestamp(), n256(e.content_hash().as_bytes())))),
                        _ => format!("(Some {})", cwmsg(&w)),
                    }
                }
            }).collect();
            anyhow::Ok((hist, before_c, after_c, kind, namespace, outcome, csent, hung, panicked))
        })?;
        let (hist, before_c, after_c, kind, namespace, outcome, csent, hung, panicked) = res;
        stats.inc(if is_bob { "driver_bob" } else { "driver_alice" });
        stats.inc(&format!("result_{}", kind.replace(['(', ')', ' '], "")));
        if hung { stats.inc("hung"); }
        if panicked { stats.inc("panicked"); }
        if outcome.is_none() && is_bob { stats.inc("bob_outcome_unavailable"); }
        let coq = format!(
            "(Drv (mkCase {} [{}] {} {} {} {} {} {} {} [{}] [{}] [{}] {} {}))",
            cbool(is_bob), hist.join("; "), coption(accept, |r| reason_n(r).to_string()), n256(&ns), now,
            clist(&script, |f| cfin(&uni, f)), kind, coption(namespace, |n| n256(n.as_bytes())),
            coption(outcome, |(r, s)| format!("({}, {})", r, s)), csent.join("; "), before_c.join("; "), after_c.join("; "),
            cbool(hung), cbool(panicked)
        );
        let json = format!(
            "{{\"driver\":\"{}\",\"setup\":[{}],\"accept\":\"{:?}\",\"script\":[{}],\"result\":\"{}\",\"outcome\":\"{:?}\",\"frames_written\":{},\"hung\":{},\"panicked\":{}}}",
            if is_bob { "bob" } else { "alice" },
            setup.iter().map(|o| format!("\"{}\"", crate::actorops::jaop(o))).collect::<Vec<_>>().join(","),
            accept, script.iter().map(jfin).collect::<Vec<_>>().join(","), kind, outcome, csent.len(), hung, panicked
        );
        if !script.is_empty() && distinct.insert(coq.clone()) {
            stats.inc("distinct_nontrivial");
        }
        cw.push(coq, json)?;
    }
    // the outermost layer: connect_and_sync against handle_connection over real local endpoints
    let n_net = if _thorough { 120 } else { 20 };
    for _ in 0..n_net {
        let (coq, json) = rt.block_on(crate::c10net::net_case(&mut rng, &mut stats))?;
        if distinct.insert(coq.clone()) { stats.inc("distinct_nontrivial"); }
        cw.push(coq, json)?;
    }
    cw.flush()?;
    stats.add("evaluations", cw.total as u64);
    stats.write(out, "C10")?;
    Ok(())
}
