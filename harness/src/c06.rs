//! C06: crash images. After every operation, for every placement of the forced age-based
//! auto-commit inside it, the database file is copied without any flush, opened and read.
use std::path::Path;

use iroh_docs::{
    store::{fs::Store, Query, SortBy, SortDirection},
    sync::SignedEntry,
    verif, ContentStatus,
};

use crate::c02::T0;
use crate::common::*;

#[derive(Clone)]
enum COp {
    Remote(SignedEntry),
    Insert { au: usize, key: Vec<u8>, hash: [u8; 32], len: u64, now: u64 },
    Delete { au: usize, key: Vec<u8>, now: u64 },
    Flush,
    /// a read that goes through `snapshot()` / `snapshot_owned()`: 0 = list_namespaces, 1 = list_authors, 2 = get_many, 3 = content_hashes
    Snap(u8),
    /// a store call whose closure fails inside `modify()`: set_download_policy for a document that does not exist
    FailingModify,
    /// remove_replica of the (closed) document
    Remove,
    /// import_namespace of the document again
    Import,
}

fn gen_op(rng: &mut Rng, w: &World, stats: &mut Stats) -> COp {
    let au = rng.below(w.authors.len() as u64) as usize;
    // prefix-related keys so that inserts prune
    let key = rng.pick(&[&b""[..], b"a", b"ab", b"abc", b"b", b"a\xff", b"a\xff\xff"]).to_vec();
    let ts = T0 + rng.below(6);
    let hash = if rng.chance(1, 2) { HASH_A } else { HASH_B };
    let len = if hash == HASH_A { 1 } else { 2 };
    match rng.below(10) {
        0..=1 => { stats.inc("op_insert"); COp::Insert { au, key, hash, len, now: ts } }
        2..=3 => { stats.inc("op_delete"); COp::Delete { au, key, now: ts } }
        4 => { stats.inc("op_flush"); COp::Flush }
        5 => { stats.inc("op_snapshot_read"); COp::Snap(rng.below(4) as u8) }
        6 => { stats.inc("op_failing_modify"); COp::FailingModify }
        _ => {
            stats.inc("op_remote");
            if rng.chance(1, 4) { COp::Remote(w.signed(au, &key, empty_hash(), 0, ts)) } else { COp::Remote(w.signed(au, &key, hash, len, ts)) }
        }
    }
}

fn ccop(w: &World, o: &COp) -> String {
    match o {
        COp::Remote(e) => format!("(CRemote {})", centry(e)),
        COp::Insert { au, key, hash, len, now } => format!("(CInsert {} {} {} {} {})", n256(w.authors[*au].id().as_bytes()), cbytes(key), n256(hash), len, now),
        COp::Delete { au, key, now } => format!("(CDelete {} {} {})", n256(w.authors[*au].id().as_bytes()), cbytes(key), now),
        COp::Flush => "CFlush".into(),
        COp::Snap(_) => "CSnap".into(),
        COp::FailingModify => "CFailingModify".into(),
        COp::Remove => "CRemove".into(),
        COp::Import => "CImport".into(),
    }
}
fn jcop(o: &COp) -> String {
    match o {
        COp::Remote(e) => format!("{{\"insert_remote\":{}}}", jentry(e)),
        COp::Insert { au, key, hash, len, now } => format!("\"insert author#{} key={} hash={} len={} now={}\"", au, hex::encode(key), hex::encode(&hash[..3]), len, now),
        COp::Delete { au, key, now } => format!("\"delete_prefix author#{} key={} now={}\"", au, hex::encode(key), now),
        COp::Flush => "\"flush\"".into(),
        COp::Snap(k) => format!("\"{}\"", ["list_namespaces", "list_authors", "get_many", "content_hashes"][*k as usize]),
        COp::FailingModify => "\"set_download_policy on an unknown document (refused)\"".into(),
        COp::Remove => "\"remove_replica\"".into(),
        COp::Import => "\"import_namespace (again)\"".into(),
    }
}

/// import + open + flush: the namespace is durable, no transaction is open
fn fresh(w: &World, dir: &Path) -> anyhow::Result<Store> {
    let mut store = Store::persistent(dir.join("docs.redb"))?;
    store.import_namespace(w.ns.clone().into())?;
    store.flush()?;
    Ok(store)
}

fn apply(rt: &tokio::runtime::Runtime, store: &mut Store, w: &World, o: &COp) -> anyhow::Result<()> {
    match o {
        COp::Flush => store.flush()?,
        COp::Snap(0) => { let _ = store.list_namespaces()?.count(); }
        COp::Snap(1) => { let _ = store.list_authors()?.count(); }
        COp::Snap(2) => { let _ = store.get_many(w.ns_id(), Query::all())?.count(); }
        COp::Snap(_) => { let _ = store.content_hashes()?.count(); }
        COp::FailingModify => {
            let r = store.set_download_policy(&iroh_docs::NamespaceId::from(&[0xEEu8; 32]), iroh_docs::store::DownloadPolicy::default());
            anyhow::ensure!(r.is_err(), "set_download_policy on an unknown document succeeded");
        }
        COp::Remove => store.remove_replica(&w.ns_id())?,
        COp::Import => { store.import_namespace(w.ns.clone().into())?; }
        _ => {
            // the replica info is loaded without touching the store's transaction state twice:
            // open_replica calls tables() once; that call is part of the operation
            let mut replica = store.open_replica(&w.ns_id())?;
            match o {
                COp::Remote(e) => { verif::set_clock(T0 + 10); let _ = rt.block_on(replica.insert_remote_entry(e.clone(), [3u8; 32], ContentStatus::Missing)); }
                COp::Insert { au, key, hash, len, now } => { verif::set_clock(*now); let _ = rt.block_on(replica.insert(key, &w.authors[*au], iroh_blobs::Hash::from_bytes(*hash), *len)); }
                COp::Delete { au, key, now } => { verif::set_clock(*now); let _ = rt.block_on(replica.delete_prefix(key, &w.authors[*au])); }
                COp::Flush | COp::Snap(_) | COp::FailingModify | COp::Remove | COp::Import => unreachable!(),
            }
            drop(replica);
            store.close_replica(w.ns_id());
        }
    }
    Ok(())
}

struct Read {
    content: Vec<SignedEntry>,
    bykey: Vec<SignedEntry>,
    heads: Vec<([u8; 32], u64)>,
    exact_ok: bool,
    listed: bool,
}
fn read_all(store: &mut Store, w: &World) -> anyhow::Result<Read> {
    let ns = w.ns_id();
    let content = all_entries(store, ns)?;
    let bykey = store.get_many(ns, Query::all().include_empty().sort_by(SortBy::KeyAuthor, SortDirection::Asc))?.collect::<anyhow::Result<Vec<_>>>()?;
    let mut heads = Vec::new();
    for r in store.get_latest_for_each_author(ns)? {
        let (a, t, _) = r?;
        heads.push((a.to_bytes(), t));
    }
    let mut exact_ok = true;
    for e in &content {
        let got = store.get_exact(ns, e.author_bytes(), e.key(), true)?;
        if got.as_ref() != Some(e) { exact_ok = false; }
    }
    let listed = store.list_namespaces()?.filter_map(|r| r.ok()).any(|(id, _)| id == ns);
    Ok(Read { content, bykey, heads, exact_ok, listed })
}

pub fn run(seed: u64, n: usize, out: &Path, _thorough: bool) -> anyhow::Result<()> {
    let mut rng = Rng::new(seed ^ 0xC06);
    let mut stats = Stats::default();
    let mut cw = CaseWriter::new(out, "C06", "Check.C06", 10)?;
    let mut distinct = std::collections::HashSet::new();
    let rt = rt();
    for i in 0..n {
        let w = World::new(seed.wrapping_add((i % 5) as u64), 1 + rng.below(2) as usize);
        let len = 2 + rng.below(6) as usize;
        let mut ops: Vec<COp> = (0..len).map(|_| gen_op(&mut rng, &w, &mut stats)).collect();
        // a third of the histories remove the document and import it again somewhere (two store calls)
        if rng.chance(1, 3) {
            let at = rng.below(ops.len() as u64 + 1) as usize;
            ops.insert(at, COp::Import);
            ops.insert(at, COp::Remove);
            stats.inc("op_remove_and_reimport");
        }
        // live run: the states between complete operations
        let mut boundaries = Vec::new();
        let mut listed = Vec::new();
        {
            verif::force_aged_at(u64::MAX);
            let dir = tempfile::tempdir()?;
            let mut store = fresh(&w, dir.path())?;
            let r = read_all(&mut store, &w)?;
            boundaries.push(r.content); listed.push(r.listed);
            for o in &ops {
                apply(&rt, &mut store, &w, o)?;
                let r = read_all(&mut store, &w)?;
                boundaries.push(r.content); listed.push(r.listed);
            }
        }
        // crash runs
        let mut probes = Vec::new();
        let mut jprobes = Vec::new();
        for (k, _) in ops.iter().enumerate() {
            // how many age checks does operation k make? (measured in a dry run)
            let mut placements: Vec<Option<u64>> = vec![None];
            let checks = {
                verif::force_aged_at(u64::MAX);
                let dir = tempfile::tempdir()?;
                let mut store = fresh(&w, dir.path())?;
                for o in &ops[..k] { apply(&rt, &mut store, &w, o)?; }
                verif::force_aged_at(u64::MAX);   // resets the counter
                apply(&rt, &mut store, &w, &ops[k])?;
                verif::tx_calls()
            };
            for c in 0..checks { placements.push(Some(c)); }
            for pl in placements {
                verif::force_aged_at(u64::MAX);
                let dir = tempfile::tempdir()?;
                let mut store = fresh(&w, dir.path())?;
                for o in &ops[..k] { apply(&rt, &mut store, &w, o)?; }
                verif::force_aged_at(pl.unwrap_or(u64::MAX));
                apply(&rt, &mut store, &w, &ops[k])?;
                verif::force_aged_at(u64::MAX);
                // the crash: the file as it is now, no flush, no drop
                let img = dir.path().join("crash.redb");
                std::fs::copy(dir.path().join("docs.redb"), &img)?;
                let opened = std::panic::catch_unwind(std::panic::AssertUnwindSafe(|| Store::persistent(&img)));
                let (ok, read) = match opened {
                    Ok(Ok(mut s)) => match read_all(&mut s, &w) { Ok(r) => (true, Some(r)), Err(_) => (false, None) },
                    _ => (false, None),
                };
                stats.inc("crash_images");
                if pl.is_some() { stats.inc("forced_commit_placements"); }
                let r = read.unwrap_or(Read { content: vec![], bykey: vec![], heads: vec![], exact_ok: false, listed: false });
                if !r.content.is_empty() { stats.inc("nonempty_recovered"); }
                probes.push(format!(
                    "(mkProbe {} {} {} {} {} {} {} {})",
                    k, coption(pl, |c| c.to_string()), cbool(ok), clist(&r.content, centry), clist(&r.bykey, centry),
                    clist(&r.heads, |(a, t)| format!("({}, {})", n256(a), t)), cbool(r.exact_ok), cbool(r.listed)
                ));
                if jprobes.len() < 6 {
                    jprobes.push(format!("{{\"after_op\":{},\"forced_commit_at_check\":{},\"opened\":{},\"recovered_entries\":{}}}", k, pl.map(|c| c as i64).unwrap_or(-1), ok, r.content.len()));
                }
                drop(store);
            }
        }
        let coq = format!(
            "(Hist (mkCase {} {} {} {} [{}]))",
            n256(w.ns_id().as_bytes()), clist(&ops, |o| ccop(&w, o)), clist(&boundaries, |b| clist(b, centry)), clist(&listed, |b| cbool(*b).to_string()), probes.join("; ")
        );
        let json = format!("{{\"ops\":[{}],\"boundary_sizes\":[{}],\"first_probes\":[{}],\"n_probes\":{}}}",
            ops.iter().map(jcop).collect::<Vec<_>>().join(","),
            boundaries.iter().map(|b| b.len().to_string()).collect::<Vec<_>>().join(","),
            jprobes.join(","), probes.len());
        if distinct.insert(coq.clone()) { stats.inc("distinct_nontrivial"); }
        cw.push(coq, json)?;
    }
    // through the store handle: writes by every path (local insert, prefix deletion, single remote entry,
    // reconciliation message), an acknowledged flush_store, the file copied at once, the copy reopened
    let n_actor = (n / 10).max(12);
    let art = tokio::runtime::Builder::new_multi_thread().worker_threads(2).enable_all().build()?;
    for i in 0..n_actor {
        use crate::actorops::{AOp, Client};
        use crate::storeops::Universe;
        use crate::wire::{WMessage, WPart};
        let uni = Universe::new(seed.wrapping_add(1000 + i as u64), 1, 2);
        let (ns, secret) = uni.docs[0];
        let w = World { ns: iroh_docs::NamespaceSecret::from_bytes(&secret), authors: uni.authors.clone() };
        let dir = tempfile::tempdir()?;
        let path = dir.path().join("docs.redb");
        let store = Store::persistent(&path)?;
        let terms: Vec<(String, String)> = art.block_on(async {
            let handle = iroh_docs::actor::SyncHandle::spawn(store, None, "verif-c06".into());
            let mut author_ids = Vec::new();
            for a in &uni.authors { author_ids.push(handle.import_author(a.clone()).await?); }
            let mut client = Client { handle, txs: Vec::new(), rxs: Vec::new(), author_ids };
            let unknown = iroh_docs::AuthorId::from(&[0x55u8; 32]);
            client.apply(&AOp::Import { ns, secret: Some(secret) }, unknown).await?;
            client.apply(&AOp::Open { ns, sync: true, sub: None }, unknown).await?;
            client.handle.flush_store().await?;
            let mut out = Vec::new();
            let mut ts = T0;
            for _ in 0..2 + rng.below(4) {
                // one to three writes, all by the same path or mixed
                let same_path = if rng.chance(1, 2) { Some(rng.below(4)) } else { None };
                for _ in 0..1 + rng.below(3) {
                    ts += 1;
                    let au = rng.below(2) as usize;
                    let key = rng.pick(&[&b"a"[..], b"ab", b"b", b"a\xff", b""]).to_vec();
                    let hash = if rng.chance(1, 2) { HASH_A } else { HASH_B };
                    let len = if hash == HASH_A { 1 } else { 2 };
                    let op = match same_path.unwrap_or_else(|| rng.below(4)) {
                        0 => { stats.inc("actor_insert_local"); AOp::InsertLocal { ns, au, known: true, key, hash, len, now: ts } }
                        1 => { stats.inc("actor_delete_prefix"); AOp::DeletePrefix { ns, au, known: true, key, now: ts } }
                        2 => { stats.inc("actor_insert_remote"); AOp::InsertRemote { ns, w: crate::c03::sign(&w.ns, &w.authors[au], &key, hash, len, ts), st: 2, now: T0 + 100 } }
                        _ => {
                            stats.inc("actor_sync_message");
                            let x = iroh_docs::sync::RecordIdentifier::new(iroh_docs::NamespaceId::from(&ns), uni.authors[au].id(), b"");
                            let values = vec![(crate::c03::sign(&w.ns, &w.authors[au], &key, hash, len, ts), 2u8)];
                            AOp::SyncProcess { ns, m: WMessage { parts: vec![WPart::Item { x: x.as_ref().to_vec(), y: x.as_ref().to_vec(), values, have_local: true }] }, now: T0 + 100 }
                        }
                    };
                    let _ = client.apply(&op, unknown).await?;
                }
                // the acknowledged flush, then the "kill": the file as it is now
                client.handle.flush_store().await?;
                let img = dir.path().join("crash.redb");
                std::fs::copy(&path, &img)?;
                let expected = client.get_all(&ns).await?.unwrap_or_default();
                let (opened, recovered) = match std::panic::catch_unwind(std::panic::AssertUnwindSafe(|| Store::persistent(&img))) {
                    Ok(Ok(mut s)) => match all_entries(&mut s, iroh_docs::NamespaceId::from(&ns)) { Ok(l) => (true, l), Err(_) => (false, vec![]) },
                    _ => (false, vec![]),
                };
                let _ = std::fs::remove_file(&img);
                stats.inc("actor_flush_images");
                out.push((
                    format!("(ActorFlush {} {} {})", cbool(opened), clist(&expected, centry), clist(&recovered, centry)),
                    format!("{{\"through_store_handle\":true,\"held_at_flush\":{},\"in_the_file_after_kill\":{},\"opened\":{}}}", expected.len(), recovered.len(), opened),
                ));
            }
            let _ = client.handle.shutdown().await;
            anyhow::Ok(out)
        })?;
        for (coq, json) in terms { cw.push(coq, json)?; }
    }
    cw.flush()?;
    stats.add("evaluations", *stats.0.get("crash_images").unwrap_or(&0) + *stats.0.get("actor_flush_images").unwrap_or(&0));
    stats.add("histories", cw.total as u64);
    stats.write(out, "C06")?;
    Ok(())
}
