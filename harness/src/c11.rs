//! C11: the live actor's session coordination, driven step by step on two real actors.
use std::path::Path;

use iroh::{endpoint::presets, Endpoint, PublicKey};
use iroh_docs::{
    actor::SyncHandle,
    engine::{verif_live::{Node, Snapshot, TaskEnd}, SyncReason},
    net::{AbortReason, AcceptOutcome},
    store::fs::Store,
    NamespaceId,
};
use iroh_gossip::net::Gossip;

use crate::common::*;

#[derive(Clone, Copy, PartialEq, Debug)]
enum End { Run, Done(bool), Handled }

#[derive(Clone, Debug)]
enum Item {
    Req { from_hi: bool, reason: u8 },
    Reply { to_hi: bool, reason: u8 },
    Fail { x_hi: bool, reason: u8 },
    Sess { init_hi: bool, reason: u8, c: End, a: End },
}

fn reason_of(r: u8) -> SyncReason {
    match r { 0 => SyncReason::DirectJoin, 1 => SyncReason::NewNeighbor, 2 => SyncReason::SyncReport, _ => SyncReason::Resync }
}
fn reason_n(r: SyncReason) -> u8 {
    match r { SyncReason::DirectJoin => 0, SyncReason::NewNeighbor => 1, SyncReason::SyncReport => 2, SyncReason::Resync => 3 }
}
fn cnode(s: Snapshot) -> String {
    match s {
        Snapshot::NotSyncing => "(mkNode Idle false)".into(),
        Snapshot::Idle { resync } => format!("(mkNode Idle {})", cbool(resync)),
        Snapshot::Connect { reason, resync } => format!("(mkNode (RunC {}) {})", reason_n(reason), cbool(resync)),
        Snapshot::Accept { resync } => format!("(mkNode RunA {})", cbool(resync)),
    }
}

async fn make_node() -> anyhow::Result<Node> {
    let endpoint = Endpoint::bind(presets::Minimal).await?;
    let gossip = Gossip::builder().spawn(endpoint.clone());
    let blobs = iroh_blobs::store::mem::MemStore::new();
    let downloader = blobs.downloader(&endpoint);
    let sync = SyncHandle::spawn(Store::memory(), None, "verif".into());
    Node::new(sync, endpoint, gossip, (*blobs).clone(), downloader)
}

pub fn run(seed: u64, n: usize, out: &Path, thorough: bool) -> anyhow::Result<()> {
    let mut rng = Rng::new(seed ^ 0xC11);
    let mut stats = Stats::default();
    let mut cw = CaseWriter::new(out, "C11", "Check.C11", 100)?;
    let mut distinct = std::collections::HashSet::new();
    let rt = tokio::runtime::Builder::new_multi_thread().worker_threads(2).enable_all().build()?;
    rt.block_on(async {
        let mut n1 = make_node().await?;
        let mut n2 = make_node().await?;
        // hi = the node with the greater id
        if n1.id().as_bytes() < n2.id().as_bytes() { std::mem::swap(&mut n1, &mut n2); }
        let (mut hi, mut lo) = (n1, n2);
        let hi_id: PublicKey = hi.id();
        let lo_id: PublicKey = lo.id();
        for i in 0..n {
            // a fresh document per case: the coordination state is per (document, peer)
            let ns = NamespaceId::from(&rng.bytes32());
            hi.set_syncing(ns);
            lo.set_syncing(ns);
            let mut items: Vec<Item> = Vec::new();
            let mut steps: Vec<String> = Vec::new();
            let mut jsteps: Vec<String> = Vec::new();
            let len = if thorough { 6 + rng.below(30) } else { 4 + rng.below(14) };
            let mut nontrivial = false;
            for _ in 0..len {
                // choose an enabled transition
                let mut choices: Vec<(u8, usize)> = vec![(0, 0), (0, 0)];
                for (k, it) in items.iter().enumerate() {
                    match it {
                        Item::Req { .. } => { choices.push((1, k)); choices.push((1, k)); choices.push((2, k)); }
                        Item::Reply { .. } => { choices.push((3, k)); choices.push((3, k)); choices.push((2, k)); }
                        Item::Fail { .. } => { choices.push((8, k)); choices.push((8, k)); }
                        Item::Sess { c, a, .. } => {
                            if *c == End::Run { choices.push((4, k)); }
                            if *a == End::Run { choices.push((5, k)); }
                            if matches!(c, End::Done(_)) { choices.push((6, k)); choices.push((6, k)); }
                            if matches!(a, End::Done(_)) { choices.push((7, k)); choices.push((7, k)); }
                        }
                    }
                }
                let (kind, k) = *rng.pick(&choices);
                let trans: String;
                let jtrans: String;
                // dials made by the real handlers during this step
                hi.take_dials();
                lo.take_dials();
                match kind {
                    0 => {
                        let x_hi = rng.chance(1, 2);
                        let r = *rng.pick(&[0u8, 1, 2, 2, 3]);
                        let (node, peer) = if x_hi { (&mut hi, lo_id) } else { (&mut lo, hi_id) };
                        node.sync_with_peer(ns, peer, reason_of(r));
                        trans = format!("(TDial {} {})", cbool(x_hi), r);
                        jtrans = format!("dial by {} reason {:?}", if x_hi { "hi" } else { "lo" }, reason_of(r));
                        stats.inc("t_dial");
                    }
                    1 => {
                        let Item::Req { from_hi, reason } = items[k].clone() else { unreachable!() };
                        let (node, peer) = if from_hi { (&mut lo, hi_id) } else { (&mut hi, lo_id) };
                        let outcome = node.accept_sync_request(ns, peer);
                        match outcome {
                            AcceptOutcome::Allow => { items[k] = Item::Sess { init_hi: from_hi, reason, c: End::Run, a: End::Run }; nontrivial = true; stats.inc("accepted"); }
                            AcceptOutcome::Reject(AbortReason::AlreadySyncing) => {
                                items[k] = Item::Reply { to_hi: from_hi, reason };
                                // the declining accept task ends with Abort(AlreadySyncing): its handler must be a no-op
                                node.accept_finished(ns, peer, TaskEnd::AbortAlreadySyncing).await;
                                stats.inc("declined");
                            }
                            AcceptOutcome::Reject(_) => anyhow::bail!("unexpected reject reason"),
                        }
                        trans = format!("(TDeliver {})", k);
                        jtrans = format!("request #{} delivered", k);
                    }
                    2 => {
                        let (x, r) = match items[k].clone() { Item::Req { from_hi, reason } => (from_hi, reason), Item::Reply { to_hi, reason } => (to_hi, reason), _ => unreachable!() };
                        items[k] = Item::Fail { x_hi: x, reason: r };
                        trans = format!("(TLose {})", k);
                        jtrans = format!("request/reply #{} lost", k);
                        stats.inc("t_lose");
                    }
                    3 => {
                        let Item::Reply { to_hi, reason } = items[k].clone() else { unreachable!() };
                        items.remove(k);
                        let (node, peer) = if to_hi { (&mut hi, lo_id) } else { (&mut lo, hi_id) };
                        node.connect_finished(ns, peer, reason_of(reason), TaskEnd::AbortAlreadySyncing).await;
                        trans = format!("(TReply {})", k);
                        jtrans = format!("decline reply #{} delivered", k);
                        stats.inc("t_reply");
                    }
                    4 | 5 => {
                        let ok = rng.chance(3, 4);
                        if let Item::Sess { c, a, .. } = &mut items[k] {
                            if kind == 4 { *c = End::Done(ok); } else { *a = End::Done(ok); }
                        }
                        trans = format!("({} {})", if kind == 4 { "TEndC" } else { "TEndA" }, k);
                        jtrans = format!("session #{} {} end finishes ({})", k, if kind == 4 { "connect" } else { "accept" }, if ok { "ok" } else { "failed" });
                    }
                    6 | 7 => {
                        let Item::Sess { init_hi, reason, c, a } = items[k].clone() else { unreachable!() };
                        let (nc, na) = if kind == 6 { (End::Handled, a) } else { (c, End::Handled) };
                        if nc == End::Handled && na == End::Handled { items.remove(k); } else { items[k] = Item::Sess { init_hi, reason, c: nc, a: na }; }
                        if kind == 6 {
                            let End::Done(ok) = c else { unreachable!() };
                            let (node, peer) = if init_hi { (&mut hi, lo_id) } else { (&mut lo, hi_id) };
                            node.connect_finished(ns, peer, reason_of(reason), if ok { TaskEnd::Ok } else { TaskEnd::Failed }).await;
                        } else {
                            let End::Done(ok) = a else { unreachable!() };
                            let (node, peer) = if init_hi { (&mut lo, hi_id) } else { (&mut hi, lo_id) };
                            node.accept_finished(ns, peer, if ok { TaskEnd::Ok } else { TaskEnd::Failed }).await;
                        }
                        trans = format!("({} {})", if kind == 6 { "THandleC" } else { "THandleA" }, k);
                        jtrans = format!("handler for session #{} {} end", k, if kind == 6 { "connect" } else { "accept" });
                        stats.inc("t_handle");
                    }
                    _ => {
                        let Item::Fail { x_hi, reason } = items[k].clone() else { unreachable!() };
                        items.remove(k);
                        let (node, peer) = if x_hi { (&mut hi, lo_id) } else { (&mut lo, hi_id) };
                        // a lost connection, or the peer answering that it does not sync this document
                        let not_found = rng.chance(1, 3);
                        node.connect_finished(ns, peer, reason_of(reason), if not_found { TaskEnd::AbortNotFound } else { TaskEnd::Failed }).await;
                        trans = format!("(THandleFail {})", k);
                        jtrans = format!("handler for failed connect task #{} ({})", k, if not_found { "remote abort: not found" } else { "connection failed" });
                        stats.inc(if not_found { "t_handle_fail_not_found" } else { "t_handle_fail" });
                    }
                }
                // dials made: new requests go to the front (newest first), as in the model
                let mut newd: Vec<(bool, u8)> = Vec::new();
                for (_ns, _p, r) in hi.take_dials() { newd.push((true, reason_n(r))); }
                for (_ns, _p, r) in lo.take_dials() { newd.push((false, reason_n(r))); }
                for (x, r) in &newd { items.insert(0, Item::Req { from_hi: *x, reason: *r }); }
                let in_progress = items.iter().filter(|it| matches!(it, Item::Sess { c: End::Run, a: End::Run, .. })).count();
                let sh = hi.snapshot(ns, lo_id);
                let sl = lo.snapshot(ns, hi_id);
                steps.push(format!("(mkObs {} {} {} {} {} {})", trans, cnode(sh), cnode(sl), clist(&newd, |(x, r)| format!("({}, {})", cbool(*x), r)), in_progress, items.len()));
                jsteps.push(format!("[\"{}\",\"hi={:?}\",\"lo={:?}\",{}]", jtrans, sh, sl, items.len()).replace("{ ", "{").replace(" }", "}"));
            }
            // a document that is not being synced
            let other = NamespaceId::from(&rng.bytes32());
            let nf = matches!(hi.accept_sync_request(other, lo_id), AcceptOutcome::Reject(AbortReason::NotFound))
                && !hi.sync_with_peer(other, lo_id, SyncReason::DirectJoin);
            let coq = format!("(mkCase [{}] {})", steps.join("; "), cbool(nf));
            let json = format!("{{\"steps\":[{}],\"not_syncing_declined_as_not_found\":{}}}", jsteps.join(","), nf);
            if nontrivial && distinct.insert(coq.clone()) { stats.inc("distinct_nontrivial"); }
            stats.add("transitions", steps.len() as u64);
            cw.push(coq, json)?;
            let _ = i;
        }
        anyhow::Ok(())
    })?;
    cw.flush()?;
    stats.add("evaluations", cw.total as u64);
    stats.write(out, "C11")?;
    Ok(())
}
