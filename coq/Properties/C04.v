(** C04 — a swarm of replicas is eventually consistent despite loss, duplication and
    reordering. The abstract swarm: local writes ([EWrite]), arrival of an earlier accepted entry at
    any replica any number of times in any order ([EPut]: broadcast delivery, or one value moved by
    an aborted session), complete sessions ([ESync]: both ends = join, the specification of C01).
    PARTIAL: iroh-gossip, QUIC and task scheduling are abstracted as arbitrary delivery.
    The complete-session step is not an assumption any more: [C04_real_swarm_converges] is the
    convergence theorem for the swarm whose replicas are sorted lists, whose writes go through the
    ordered-map insert and whose sessions are runs of the reconciliation protocol itself
    ([list_session], any split factor >= 2, any maximal set size) — proved by showing that swarm set-equal, replica by replica
    and step by step, to the abstract one (C01's theorem at every [ESync]). *)
From ID Require Import Base.Bytes Model.Entry Model.Put Model.Ranger Proofs.SwarmFacts Proofs.RealSwarm.

(** no replica ever holds an entry that was not written (and accepted) by some replica; every
    accepted write stays present-or-dominated somewhere — for every interleaving *)
Theorem C04_swarm_invariant : forall U evs st,
  consistent U -> (forall x, In x (snd st) -> In x U) -> writes_in U evs ->
  legal (snd st) (fst st) evs -> Inv st -> Inv (run st evs) /\ (forall x, In x (snd (run st evs)) -> In x U).
Proof. exact swarm_invariant. Qed.

(** after a closing list of complete sessions, replica k holds the join of the starting contents
    of all replicas it has (transitively) heard of *)
Theorem C04_closing_knowledge : forall s0 W pairs,
  consistent W -> (forall i x, In x (sget s0 i) -> In x W) -> (forall i, reduced (sget s0 i)) ->
  Forall (fun p => fst p < length s0 /\ snd p < length s0)%nat pairs ->
  forall k, (k < length s0)%nat -> forall x,
    In x (sget (fst (sync_all (s0, W) pairs)) k)
    <-> in_reduce (flat_map (sget s0) (fold_left kstep pairs kinit k)) x.
Proof. exact closing_knowledge. Qed.

(** eventual consistency: once every replica has heard of every other one, every replica holds
    exactly the merge (reduce) of all accepted local writes *)
Theorem C04_swarm_converges : forall s0 W pairs,
  consistent W -> Inv (s0, W) -> (forall i, reduced (sget s0 i)) ->
  Forall (fun p => fst p < length s0 /\ snd p < length s0)%nat pairs ->
  forall k, (k < length s0)%nat ->
    (forall q, (q < length s0)%nat -> In q (fold_left kstep pairs kinit k)) ->
    forall x, In x (sget (fst (sync_all (s0, W) pairs)) k) <-> in_reduce W x.
Proof. exact swarm_converges. Qed.

(** the same with real sessions: after any history of writes, deliveries (lost, duplicated,
    reordered) and protocol sessions, a closing list of protocol sessions through which replica
    [k] hears of everybody leaves it with exactly the merge of all accepted writes *)
Theorem C04_real_swarm_converges : forall mss kf v, 2 <= kf -> forall U, consistent U -> (forall e, In e U -> v e MISSING = true) ->
  forall n evs pairs,
    writes_in U evs -> legal [] (repeat [] n) evs ->
    Forall (fun p => fst p < n /\ snd p < n)%nat pairs ->
    let st1 := rrun mss kf v (@pair swarm (list entry) (repeat [] n) []) evs in
    let st2 := rrun mss kf v st1 (map (fun p => ESync (fst p) (snd p)) pairs) in
    forall k, (k < n)%nat -> (forall q, (q < n)%nat -> In q (fold_left kstep pairs kinit k)) ->
    forall x, In x (sget (fst st2) k) <-> in_reduce (snd st1) x.
Proof. exact real_swarm_converges. Qed.

(** a concrete real swarm: three replicas, writes with a prefix deletion and an overwrite, a lost
    and a duplicated delivery, a mid-history session, then the sweep: all three hold the merge *)
Example C04_real_swarm_example :
  let w1 := mkE 1 2 [97; 98] 5 1 8 in let w2 := mkE 1 2 [97] 9 0 0 in
  let w3 := mkE 1 3 [99] 5 1 8 in let w4 := mkE 1 3 [99] 7 1 9 in
  let evs := [EWrite 0 w1; EWrite 1 w3; EPut 2 w1; EPut 2 w1; ESync 0 1; EWrite 2 w2; EWrite 0 w4]%nat in
  let pairs := [(2, 1); (1, 0); (0, 1); (1, 2)]%nat in
  let st1 := rrun 1 3 (fun _ _ => true) (@pair swarm (list entry) (repeat [] 3) []) evs in
  let st2 := rrun 1 3 (fun _ _ => true) st1 (map (fun p => ESync (fst p) (snd p)) pairs) in
  fst st2 = [[w2; w4]; [w2; w4]; [w2; w4]] /\ length (snd st1) = 4%nat.
Proof. vm_compute. split; reflexivity. Qed.

(** the premise is satisfiable: an up-then-down sweep of a three-replica path *)
Example C04_sweep_knowledge_path3 :
  let pairs := [(2, 1); (1, 0); (0, 1); (1, 2)]%nat in
  forall k, (k < 3)%nat -> forall q, (q < 3)%nat -> In q (fold_left kstep pairs kinit k).
Proof. exact sweep_knowledge_path3. Qed.

Print Assumptions C04_swarm_invariant.
Print Assumptions C04_closing_knowledge.
Print Assumptions C04_swarm_converges.
Print Assumptions C04_real_swarm_converges.
Print Assumptions C04_real_swarm_example.
Print Assumptions C04_sweep_knowledge_path3.
