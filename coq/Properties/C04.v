(** C04 — a swarm of replicas is eventually consistent despite loss, duplication and
    reordering. The abstract swarm: local writes ([EWrite]), arrival of an earlier accepted entry at
    any replica any number of times in any order ([EPut]: broadcast delivery, or one value moved by
    an aborted session), complete sessions ([ESync]: both ends = join, the specification of C01).
    PARTIAL: iroh-gossip, QUIC and task scheduling are abstracted as arbitrary delivery; the
    complete-session step uses C01's specification (whose completeness half is checked by
    correspondence, not yet proved). *)
From ID Require Import Model.Put Proofs.SwarmFacts.

(** no replica ever holds an entry that was not written (and accepted) by some replica; every
    accepted write stays present-or-dominated somewhere — for every interleaving *)
Theorem C04_swarm_invariant : forall U evs st,
  consistent U -> (forall x, In x (snd st) -> In x U) -> writes_in U evs ->
  legal (snd st) (fst st) evs -> Inv st -> Inv (run st evs) /\ (forall x, In x (snd (run st evs)) -> In x U).
Proof. exact swarm_invariant. Qed.

(** after a closing list of complete sessions, replica k holds the join of the starting contents
    of all replicas it has (transitively) heard of *)
Theorem C04_closing_knowledge : forall s0 W pairs,
  consistent W -> (forall i x, In x (sget s0 i) -> In x W) -> (forall i, reduced (sget s0 i)) ->
  Forall (fun p => fst p < length s0 /\ snd p < length s0)%nat pairs ->
  forall k, (k < length s0)%nat -> forall x,
    In x (sget (fst (sync_all (s0, W) pairs)) k)
    <-> in_reduce (flat_map (sget s0) (fold_left kstep pairs kinit k)) x.
Proof. exact closing_knowledge. Qed.

(** eventual consistency: once every replica has heard of every other one, every replica holds
    exactly the merge (reduce) of all accepted local writes *)
Theorem C04_swarm_converges : forall s0 W pairs,
  consistent W -> Inv (s0, W) -> (forall i, reduced (sget s0 i)) ->
  Forall (fun p => fst p < length s0 /\ snd p < length s0)%nat pairs ->
  forall k, (k < length s0)%nat ->
    (forall q, (q < length s0)%nat -> In q (fold_left kstep pairs kinit k)) ->
    forall x, In x (sget (fst (sync_all (s0, W) pairs)) k) <-> in_reduce W x.
Proof. exact swarm_converges. Qed.

(** the premise is satisfiable: an up-then-down sweep of a three-replica path *)
Example C04_sweep_knowledge_path3 :
  let pairs := [(2, 1); (1, 0); (0, 1); (1, 2)]%nat in
  forall k, (k < 3)%nat -> forall q, (q < 3)%nat -> In q (fold_left kstep pairs kinit k).
Proof. exact sweep_knowledge_path3. Qed.

Print Assumptions C04_swarm_invariant.
Print Assumptions C04_closing_knowledge.
Print Assumptions C04_swarm_converges.
Print Assumptions C04_sweep_knowledge_path3.
