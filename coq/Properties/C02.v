(** C02 — replica state is an order-independent function of the entries offered.
    Statements only; every proof is [exact] of a lemma proved elsewhere. *)
From ID Require Import Base.Bytes Model.Entry Model.Put Model.Tables Model.Bounds Model.FsStore Proofs.PutFacts Proofs.FsPutFacts.

(** The content after offering the entries of [l] (in this order, to an empty replica) is
    exactly the set of entries of [l] that no other entry of [l] dominates. *)
Theorem C02_content_is_reduce : forall l, consistent l ->
  forall x, In x (puts [] l) <-> in_reduce l x.
Proof. exact puts_is_reduce. Qed.

(** Hence permutations and duplications of the offers do not matter. *)
Theorem C02_order_independent : forall l1 l2,
  consistent l1 -> (forall a, In a l1 <-> In a l2) -> set_eq (puts [] l1) (puts [] l2).
Proof. exact puts_order_independent. Qed.

(** Kept exactly when no other offered entry by the same author at the key or a prefix of it
    (empty key and deletion markers included: [rel] does not look at the hash) is newer. *)
Theorem C02_kept_iff : forall l e, consistent l ->
  (In e (puts [] l) <-> In e l /\ ~ exists d, In d l /\ dom d e).
Proof. exact kept_iff. Qed.

(** One insert removes exactly the dominated entries, reports their number, keeps the rest. *)
Theorem C02_put_removes_exactly : forall S e S' n,
  put S e = (S', Inserted n) ->
  (forall c, (In c S /\ ~ In c S') -> In c S /\ rel e c = true) /\
  (forall c, In c S -> rel e c = true -> c <> e -> ~ In c S') /\
  n = nlen (filter (fun c => rel e c) S) /\
  (forall c, In c S -> rel e c = false -> In c S') /\
  In e S'.
Proof. exact put_removes_exactly. Qed.

(** Other authors, other namespaces and keys that do not start with the new key are untouched. *)
Theorem C02_put_untouched : forall S e c,
  e_author c <> e_author e \/ e_ns c <> e_ns e \/ is_prefix (e_key e) (e_key c) = false ->
  In c S -> In c (fst (put S e)).
Proof. exact put_other_author_untouched. Qed.

(** A rejected entry changes nothing, and rejection happens exactly when a held entry blocks. *)
Theorem C02_rejected_noop : forall S e S', put S e = (S', NotInserted) -> S' = S.
Proof. exact put_rejected_noop. Qed.
Theorem C02_rejected_iff : forall S e,
  snd (put S e) = NotInserted <-> exists p, In p S /\ rel p e = true.
Proof. exact put_rejected_iff. Qed.

Print Assumptions C02_content_is_reduce.
Print Assumptions C02_order_independent.
Print Assumptions C02_kept_iff.
Print Assumptions C02_put_removes_exactly.
Print Assumptions C02_put_untouched.
Print Assumptions C02_rejected_noop.
Print Assumptions C02_rejected_iff.

(** The same at the level of the database tables ([ranger::Store::put] of the redb store:
    parent lookups, the bounded prefix scan, three tables): every insert returns the outcome of
    the abstract [put] and leaves exactly the abstract content in the records table ... *)
Theorem C02_table_put_refines_put : forall EH T e, wf_records T -> wf_entry e ->
  snd (fs_put prefix_succ EH T e) = snd (put (recs T) e) /\
  (forall x, In x (recs (fst (fs_put prefix_succ EH T e))) <-> In x (fst (put (recs T) e))) /\
  wf_records (fst (fs_put prefix_succ EH T e)).
Proof. exact fs_put_refines. Qed.

(** ... so after any sequence of offers the records table holds exactly the non-dominated ones. *)
Theorem C02_table_content_is_reduce : forall EH l, Forall wf_entry l -> consistent l ->
  forall x, In x (recs (fs_puts EH empty_tables l)) <-> in_reduce l x.
Proof. exact fs_puts_content. Qed.

Print Assumptions C02_table_put_refines_put.
Print Assumptions C02_table_content_is_reduce.
