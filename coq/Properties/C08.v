(** C08 — the redb-backed store behaves like a plain ordered map under reconciliation. PARTIAL.
    Proved: the bounds behind every database range scan are exact (namespace scan = all rows of
    the namespace; author-prefix scan used by prefix removal = same author and key prefix), the
    effect of a message on the store is the same function for every store instance, and the
    ordered list instance holds the same set as the abstract store after every put.
    Not yet proved: [fs_get_range = filter range_contains] for the wrap-around shape and the
    transcript equality as a theorem; both are checked by the correspondence runs on every
    generated range and session. *)
From ID Require Import Base.Bytes Model.Entry Model.Tables Model.FsStore Model.Bounds Model.Ranger Model.Put Proofs.BoundsFacts Proofs.RangerFacts Proofs.FsPutFacts.

Theorem C08_namespace_scan_exact : forall ns n a k, n <= MAX256 ->
  in_bounds rid_cmp (fst (rb_namespace ns)) (snd (rb_namespace ns)) (n, a, k) = (n =? ns).
Proof. exact rb_namespace_exact. Qed.

Theorem C08_prefix_removal_bounds_exact : forall ns au p n a k,
  n <= MAX256 -> a <= MAX256 -> wf_bytes k ->
  in_bounds rid_cmp (fst (rb_author_prefix prefix_succ ns au p)) (snd (rb_author_prefix prefix_succ ns au p)) (n, a, k)
  = (n =? ns) && (a =? au) && is_prefix p k.
Proof. exact rb_author_prefix_exact. Qed.

Theorem C08_ordered_list_put_is_put : forall S e, set_eq (fst (om_put S e)) (fst (put S e)).
Proof. exact om_put_set. Qed.

Theorem C08_store_effect_any_instance : forall St (ops : store_ops St) mss k status_of v s m,
  fst (fst (process_message ops mss k status_of (fun _ e st => v e st) s m))
  = puts_ops ops s (valid_values v (message_values m)).
Proof. exact @process_message_store. Qed.

Print Assumptions C08_namespace_scan_exact.
Print Assumptions C08_prefix_removal_bounds_exact.
Print Assumptions C08_ordered_list_put_is_put.
Print Assumptions C08_store_effect_any_instance.

(** the parent lookups of the redb store (one point read per prefix of the key, the empty key
    included) return exactly the stored entries of the author whose key is a prefix *)
Theorem C08_parent_lookups_exact : forall EH T ns au k, rsorted (t_records T) ->
  forall e, In e (fs_prefixes_of EH T ns au k) <->
            In e (recs T) /\ e_ns e = ns /\ e_author e = au /\ is_prefix (e_key e) k = true.
Proof. exact parents_exact. Qed.

(** and the whole redb-store insert is the abstract insert (same outcome, same content) *)
Theorem C08_table_put_refines_put : forall EH T e, wf_records T -> wf_entry e ->
  snd (fs_put prefix_succ EH T e) = snd (put (recs T) e) /\
  (forall x, In x (recs (fst (fs_put prefix_succ EH T e))) <-> In x (fst (put (recs T) e))) /\
  wf_records (fst (fs_put prefix_succ EH T e)).
Proof. exact fs_put_refines. Qed.

Print Assumptions C08_parent_lookups_exact.
Print Assumptions C08_table_put_refines_put.
