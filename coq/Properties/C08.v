(** C08 — the redb-backed store behaves like a plain ordered map under reconciliation.
    Proved, over the table-level model of the store (one records table shared by all documents
    of the store, scanned through computed bounds): every range scan — plain, wrap-around, whole
    ring, with range ends anywhere, also inside other documents — returns exactly the ordered-map
    range of the document's own rows ([C08_range_scan_exact]; defect D14, repaired, was here);
    the insert is the ordered map's insert (same outcome, same removed count, same content); and
    hence processing ANY message has the same reply, the same announced entries and the same
    content afterwards as over the plain ordered list ([C08_message_processing_same]).
    That the real redb store and the in-memory store follow this table-level model is what the
    correspondence runs check (sessions and direct probes, on stores holding several documents). *)
From ID Require Import Base.Bytes Model.Entry Model.Tables Model.FsStore Model.Bounds Model.Ranger Model.Put Proofs.BoundsFacts Proofs.RangerFacts Proofs.FsPutFacts Proofs.ConvergeFacts Proofs.RangeFacts Proofs.RefineFacts Proofs.SessionRefine.

Theorem C08_namespace_scan_exact : forall ns n a k, n <= MAX256 ->
  in_bounds rid_cmp (fst (rb_namespace ns)) (snd (rb_namespace ns)) (n, a, k) = (n =? ns).
Proof. exact rb_namespace_exact. Qed.

Theorem C08_prefix_removal_bounds_exact : forall ns au p n a k,
  n <= MAX256 -> a <= MAX256 -> wf_bytes k ->
  in_bounds rid_cmp (fst (rb_author_prefix prefix_succ ns au p)) (snd (rb_author_prefix prefix_succ ns au p)) (n, a, k)
  = (n =? ns) && (a =? au) && is_prefix p k.
Proof. exact rb_author_prefix_exact. Qed.

Theorem C08_ordered_list_put_is_put : forall S e, set_eq (fst (om_put S e)) (fst (put S e)).
Proof. exact om_put_set. Qed.

Theorem C08_store_effect_any_instance : forall St (ops : store_ops St) mss k status_of v s m,
  fst (fst (process_message ops mss k status_of (fun _ e st => v e st) s m))
  = puts_ops ops s (valid_values v (message_values m)).
Proof. exact @process_message_store. Qed.

Print Assumptions C08_namespace_scan_exact.
Print Assumptions C08_prefix_removal_bounds_exact.
Print Assumptions C08_ordered_list_put_is_put.
Print Assumptions C08_store_effect_any_instance.

(** the parent lookups of the redb store (one point read per prefix of the key, the empty key
    included) return exactly the stored entries of the author whose key is a prefix *)
Theorem C08_parent_lookups_exact : forall EH T ns au k, rsorted (t_records T) ->
  forall e, In e (fs_prefixes_of EH T ns au k) <->
            In e (recs T) /\ e_ns e = ns /\ e_author e = au /\ is_prefix (e_key e) k = true.
Proof. exact parents_exact. Qed.

(** and the whole redb-store insert is the abstract insert (same outcome, same content) *)
Theorem C08_table_put_refines_put : forall EH T e, wf_records T -> wf_entry e ->
  snd (fs_put prefix_succ EH T e) = snd (put (recs T) e) /\
  (forall x, In x (recs (fst (fs_put prefix_succ EH T e))) <-> In x (fst (put (recs T) e))) /\
  wf_records (fst (fs_put prefix_succ EH T e)).
Proof. exact fs_put_refines. Qed.

Print Assumptions C08_parent_lookups_exact.
Print Assumptions C08_table_put_refines_put.

(** every range scan of the table-level store is the ordered-map range of the document's rows *)
Theorem C08_range_scan_exact : forall ns T x y, wf_records T ->
  fs_get_range ns T x y = rng (fs_all ns T) x y.
Proof. exact get_range_exact. Qed.

(** the insert, at the level of the document's ordered list *)
Theorem C08_insert_is_ordered_map_insert : forall EH ns T e, wf_records T -> wf_entry e -> e_ns e = ns ->
  fs_all ns (fst (fs_put prefix_succ EH T e)) = fst (om_put (fs_all ns T) e) /\
  snd (fs_put prefix_succ EH T e) = snd (om_put (fs_all ns T) e) /\
  wf_records (fst (fs_put prefix_succ EH T e)).
Proof. exact fs_put_is_om_put. Qed.

(** any message whose values are well formed (what the decoder guarantees): same reply, same
    announced entries, same content afterwards *)
Theorem C08_message_processing_same : forall EH ns mss k status_of v T m,
  wf_records T -> wf_message m -> (forall e st, v e st = true -> e_ns e = ns) ->
  let '(T', r1, i1) := process_message (fs_ops prefix_succ EH ns) mss k status_of (fun _ e st => v e st) T m in
  let '(S', r2, i2) := process_message om_ops mss k status_of (fun _ e st => v e st) (fs_all ns T) m in
  wf_records T' /\ S' = fs_all ns T' /\ r1 = r2 /\ i1 = i2.
Proof. exact table_store_is_ordered_map. Qed.

(** a whole session over two table-level stores = the session over the two ordered lists: the
    same transcript, and the final tables hold the final lists *)
Theorem C08_session_same : forall EH MAXF mss k now ns fuel TA TB ocA ocB m turn acc,
  wf_records TA -> wf_records TB -> wf_message m ->
  match session prefix_succ EH MAXF mss k fuel now ns ns TA TB ocA ocB m turn acc with
  | Some (TA', TB', _, _, tr) =>
      list_session mss k (vsync EH MAXF now ns) fuel (fs_all ns TA) (fs_all ns TB) m turn acc
        = Some (fs_all ns TA', fs_all ns TB', tr)
      /\ wf_records TA' /\ wf_records TB'
  | None => list_session mss k (vsync EH MAXF now ns) fuel (fs_all ns TA) (fs_all ns TB) m turn acc = None
  end.
Proof. exact table_session_is_list_session. Qed.

(** sensitivity (D14): the unclamped scan of the pinned tree returns another document's rows *)
Example C08_unclamped_range_leaks_refuted :
  let other := mkE 9 2 [115] 5 1 7 in
  let T := fs_entry_put (fs_entry_put empty_tables (mkE 1 2 [97] 5 1 7)) other in
  fs_get_range_gen false 1 T (9, 0, []) (9, 3, []) = [other] /\
  fs_get_range 1 T (9, 0, []) (9, 3, []) = [] /\
  rng (fs_all 1 T) (9, 0, []) (9, 3, []) = [].
Proof. exact unclamped_range_leaks_refuted. Qed.

Print Assumptions C08_range_scan_exact.
Print Assumptions C08_insert_is_ordered_map_insert.
Print Assumptions C08_message_processing_same.
Print Assumptions C08_session_same.
Print Assumptions C08_unclamped_range_leaks_refuted.
