(** C08 — the redb-backed store behaves like a plain ordered map under reconciliation. PARTIAL.
    Proved: the bounds behind every database range scan are exact (namespace scan = all rows of
    the namespace; author-prefix scan used by prefix removal = same author and key prefix), the
    effect of a message on the store is the same function for every store instance, and the
    ordered list instance holds the same set as the abstract store after every put.
    Not yet proved: [fs_get_range = filter range_contains] for the wrap-around shape and the
    transcript equality as a theorem; both are checked by the correspondence runs on every
    generated range and session. *)
From ID Require Import Model.Bounds Model.Ranger Model.Put Proofs.BoundsFacts Proofs.RangerFacts.

Theorem C08_namespace_scan_exact : forall ns n a k, n <= MAX256 ->
  in_bounds rid_cmp (fst (rb_namespace ns)) (snd (rb_namespace ns)) (n, a, k) = (n =? ns).
Proof. exact rb_namespace_exact. Qed.

Theorem C08_prefix_removal_bounds_exact : forall ns au p n a k,
  n <= MAX256 -> a <= MAX256 -> wf_bytes k ->
  in_bounds rid_cmp (fst (rb_author_prefix prefix_succ ns au p)) (snd (rb_author_prefix prefix_succ ns au p)) (n, a, k)
  = (n =? ns) && (a =? au) && is_prefix p k.
Proof. exact rb_author_prefix_exact. Qed.

Theorem C08_ordered_list_put_is_put : forall S e, set_eq (fst (om_put S e)) (fst (put S e)).
Proof. exact om_put_set. Qed.

Theorem C08_store_effect_any_instance : forall St (ops : store_ops St) mss k status_of v s m,
  fst (fst (process_message ops mss k status_of (fun _ e st => v e st) s m))
  = puts_ops ops s (valid_values v (message_values m)).
Proof. exact @process_message_store. Qed.

Print Assumptions C08_namespace_scan_exact.
Print Assumptions C08_prefix_removal_bounds_exact.
Print Assumptions C08_ordered_list_put_is_put.
Print Assumptions C08_store_effect_any_instance.
