(** C06 — flushed data survives; a crash never exposes a half-applied write.  PARTIAL:
    redb (atomic commit, recovery of a killed process to the last commit) is trusted; the model
    starts at "the reopened file shows the last committed state". *)
From ID Require Import Model.Tables Model.Commit Proofs.CommitFacts Check.C06 Proofs.CommitShape.

(** For every operation of the read-then-write-then-read shape, every placement of the age-based
    auto-commit among its steps and every crash point inside or right after it: the durable state
    is the durable state before the operation, the working state before it, or the working state
    after it. By induction over histories the durable state is always a state between two
    complete operations. *)
Theorem C06_op_durable_is_boundary : forall ms flags s,
  shaped ms -> length flags = length ms ->
  let steps := combine ms flags in
  let s_end := run_micro false s steps in
  forall x, In x (trace false s steps) \/ x = s_end ->
    c_durable x = c_durable s \/ c_durable x = c_working s \/ c_durable x = c_working s_end.
Proof. exact op_durable_is_boundary. Qed.

(** whole histories: whatever the operations (of that shape, explicit flushes included), wherever
    the auto-commit fires and wherever the process dies, the crash image is the working state at
    an operation boundary that is not older than the last flush *)
Theorem C06_history_crash_images : forall ops T,
  Forall (fun op => shaped (fst op) /\ length (snd op) = length (fst op)) ops ->
  crash_ok (mkC T T false) [T] ops.
Proof. exact history_from_flushed. Qed.
Check (eq_refl : crash_ok = fix crash_ok (s : cstate) (since : list tables) (ops : list (list micro * list bool)) : Prop :=
  match ops with
  | [] => True
  | (ms, fl) :: rest =>
      let steps := combine ms fl in
      let s' := run_micro false s steps in
      (forall x, In x (trace false s steps) -> In (c_durable x) (c_working s' :: since)) /\
      crash_ok s' (if is_flush ms then [c_working s'] else c_working s' :: since) rest
  end).

(** every operation kind the real store is compared on -- remote and local insert, prefix deletion,
    flush, snapshot reads, a refused store call, removal and re-import of the document -- has that
    shape, from whatever tables it starts; so the theorem above covers exactly the compared histories *)
Theorem C06_compared_operations_are_shaped : forall ns T o, shaped (micro_of ns T o).
Proof. exact micro_of_shaped. Qed.
Theorem C06_compared_histories_crash_ok : forall ns (ops : list (cop * list bool)) T (Ts : list tables),
  length Ts = length ops ->
  Forall (fun x => length (snd (fst x)) = length (micro_of ns (snd x) (fst (fst x)))) (combine ops Ts) ->
  crash_ok (mkC T T false) [T] (map (fun x => (micro_of ns (snd x) (fst (fst x)), snd (fst x))) (combine ops Ts)).
Proof. exact compared_histories_crash_ok. Qed.

(** a flush / snapshot makes the working state durable *)
Theorem C06_flush_makes_durable : forall mca s g,
  c_durable (micro_step mca s MCommit g) = c_working (micro_step mca s MCommit g) \/ c_write_open s = false.
Proof. exact flush_makes_durable. Qed.

(** sensitivity: if [modify] also checks the age (the pinned tree), a commit between the prune and
    the write of one insert makes a half-applied write durable (the durable entry is gone, the
    superseding one not there) *)
Example C06_mid_put_commit_refuted :
  let old := mkE 1 2 [97] 5 1 7 in
  let new := mkE 1 2 [97] 9 1 8 in
  let T := fs_entry_put empty_tables old in
  let s := mkC T T true in
  let ms := put_micro prefix_succ 0 T new in
  let flags := [false; false; true; false] in
  let D := c_durable (run_micro true s (combine ms flags)) in
  t_records D = [] /\ t_records T <> [] /\ t_records (c_working (run_micro true s (combine ms flags))) <> [].
Proof. exact mid_put_commit_refuted. Qed.

Print Assumptions C06_op_durable_is_boundary.
Print Assumptions C06_history_crash_images.
Print Assumptions C06_flush_makes_durable.
Print Assumptions C06_mid_put_commit_refuted.
Print Assumptions C06_compared_operations_are_shaped.
Print Assumptions C06_compared_histories_crash_ok.
