(** C10 — a sync session ends cleanly whatever the peer sends and whatever fails locally.
    PARTIAL: the model quantifies over finite frame lists (every stream ends); a peer that
    neither sends nor closes, and the async scheduling, are outside it. The drivers are total
    functions over the frame list, so every run ends in Ok or a reported error. *)
From ID Require Import Model.Session Proofs.SessionFacts Proofs.MirrorFacts Proofs.FsPutFacts.

(** whatever frames arrive, whatever the accept callback says, whenever the store actor fails
    (closed, sync disabled, shut down — [FAct] / [FShutdown] anywhere in the list), the accepting
    side can report its outcome *)
Theorem C10_bob_outcome_always_available : forall ks EH MF CAP mss split s accept from now frames,
  bo_outcome (snd (bob_run ks EH MF CAP mss split true s accept from now frames)) <> None.
Proof. exact bob_outcome_always_available. Qed.

(** a declined request changes nothing in the store: no call into the store actor is made *)
Theorem C10_declined_changes_nothing : forall ks EH MF CAP mss split s accept from now frames s' o reason,
  peer_only frames ->
  bob_run ks EH MF CAP mss split true s accept from now frames = (s', o) ->
  bo_result o = SErrAbort reason ->
  s' = s /\ bo_actor_calls o = 0 /\ bo_sent o = [None].
Proof. exact declined_changes_nothing. Qed.

(** the initiating side: success always carries an outcome *)
Theorem C10_alice_success_has_outcome : forall ks EH MF CAP mss split frames gone s ns from now prog sent calls,
  ao_result (snd (alice_loop ks EH MF CAP mss split gone s ns from now frames prog sent calls)) = SOk ->
  ao_outcome (snd (alice_loop ks EH MF CAP mss split gone s ns from now frames prog sent calls)) <> None.
Proof. exact alice_loop_ok. Qed.

(** on success the two sides' counts mirror each other: whenever both drivers succeed on an honest
    connection -- the initiator receives exactly the frames the acceptor wrote and vice versa --
    the initiator's (received, sent) is the acceptor's (sent, received); for any stores, any accept
    callback, either value of the progress-slot switch *)
Theorem C10_counts_mirror : forall ks EH MF CAP mss split keep sa sb ns accept fromA fromB now framesA framesB sa' sb' outA outB,
  alice_run ks EH MF CAP mss split sa ns fromA now framesA = (sa', outA) ->
  bob_run ks EH MF CAP mss split keep sb accept fromB now framesB = (sb', outB) ->
  peer_only framesA -> peer_only framesB ->
  ao_result outA = SOk -> bo_result outB = SOk ->
  msgs framesA = somes (bo_sent outB) ->
  msgs framesB = ao_sent outA ->
  exists r s, ao_outcome outA = Some (r, s) /\ bo_outcome outB = Some (s, r).
Proof. exact honest_session_mirror. Qed.

Example C10_counts_mirror_nonvacuous :
  exists framesA framesB sa sb sa' sb' outA outB,
    alice_run prefix_succ 7 600000000 5 1 2 sa 11 0 1000010 framesA = (sa', outA) /\
    bob_run prefix_succ 7 600000000 5 1 2 true sb (fun _ => None) 0 1000010 framesB = (sb', outB) /\
    peer_only framesA /\ peer_only framesB /\
    ao_result outA = SOk /\ bo_result outB = SOk /\
    msgs framesA = somes (bo_sent outB) /\ msgs framesB = ao_sent outA /\
    ao_outcome outA = Some (2, 3) /\ bo_outcome outB = Some (3, 2).
Proof. exact honest_session_example. Qed.

(** sensitivity: if the progress slot is left empty when the store actor fails (the pinned
    behaviour), the outcome is lost *)
Example C10_outcome_lost_if_slot_emptied :
  let frames := [FMsg true false 5 []] in
  bo_outcome (snd (bob_run prefix_succ 0 0 5 1 2 false (ainit empty_tables) (fun _ => None) 0 0 frames)) = None.
Proof. exact bob_outcome_refuted_when_slot_emptied. Qed.

Print Assumptions C10_bob_outcome_always_available.
Print Assumptions C10_declined_changes_nothing.
Print Assumptions C10_alice_success_has_outcome.
Print Assumptions C10_outcome_lost_if_slot_emptied.
Print Assumptions C10_counts_mirror.
Print Assumptions C10_counts_mirror_nonvacuous.
