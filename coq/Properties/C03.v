(** C03 — only authentic, well-formed, in-namespace, non-future entries are accepted.
    [valid ns now e sig_ok] = namespace equal, both signatures verify (over the canonical bytes,
    with the keys named in the id), timestamp at most MAX_TIMESTAMP_FUTURE_SHIFT ahead of the
    clock, and (hash = EMPTY <-> len = 0). Whether the signatures verify is an input of the
    model (computed by the harness with the real ed25519 over the model's canonical bytes). *)
From ID Require Import Model.Ranger Proofs.RangerFacts Proofs.ValidFacts.

(** single remote insert: anything stored / counted / announced is valid *)
Theorem C03_remote_result_cases : forall ks EH MAXF T now ns e ok from st,
  let '(T', r, evs) := replica_insert_remote ks EH MAXF T now ns (mkW e ok) from st in
  match r with
  | Ok _ => valid EH MAXF ns now e ok = true /\ exists sd, evs = [RemoteInsert e from sd st]
  | Err _ => T' = T /\ evs = []
  end.
Proof. exact remote_result_cases. Qed.

(** an invalid entry is an error that leaves the replica and its indexes unchanged *)
Theorem C03_remote_invalid_noop : forall ks EH MAXF T now ns e ok from st,
  valid EH MAXF ns now e ok = false ->
  exists er, replica_insert_remote ks EH MAXF T now ns (mkW e ok) from st = (T, Err er, []).
Proof. exact remote_invalid_noop. Qed.

(** the reconciliation path validates identically *)
Theorem C03_paths_agree : forall EH MAXF now ns T e st,
  sync_validate EH MAXF now ns T e st = valid EH MAXF ns now e (sig_bit_ok st).
Proof. exact paths_agree. Qed.

(** everything a reconciliation message inserts (and announces) was a valid value of it,
    at every position of every part of any message *)
Theorem C03_message_inserted_valid : forall ks EH MAXF mss k now ns T m p,
  In p (snd (process_message (fs_ops ks EH ns) mss k (fun _ => MISSING) (sync_validate EH MAXF now ns) T m)) ->
  In p (message_values m) /\ valid EH MAXF ns now (fst p) (sig_bit_ok (snd p)) = true.
Proof. exact message_inserted_valid. Qed.

(** ... and the rest of the message is still processed: the store effect of a message is the
    effect of putting its valid values, in order; invalid ones play no role *)
Theorem C03_rest_still_processed : forall St (ops : store_ops St) mss k status_of v s m,
  fst (fst (process_message ops mss k status_of (fun _ e st => v e st) s m))
  = puts_ops ops s (valid_values v (message_values m)).
Proof. exact @process_message_store. Qed.

(** the signed bytes (id, 8-byte big-endian len, 32-byte hash, 8-byte big-endian timestamp)
    determine every field: altering any field alters what the signatures are checked against *)
Theorem C03_canon_injective : forall id1 len1 h1 ts1 id2 len2 h2 ts2,
  length h1 = 32%nat -> length h2 = 32%nat ->
  len1 < 2 ^ 64 -> len2 < 2 ^ 64 -> ts1 < 2 ^ 64 -> ts2 < 2 ^ 64 ->
  canon id1 len1 h1 ts1 = canon id2 len2 h2 ts2 ->
  id1 = id2 /\ len1 = len2 /\ h1 = h2 /\ ts1 = ts2.
Proof. exact canon_injective. Qed.

Print Assumptions C03_remote_result_cases.
Print Assumptions C03_remote_invalid_noop.
Print Assumptions C03_paths_agree.
Print Assumptions C03_message_inserted_valid.
Print Assumptions C03_rest_still_processed.
Print Assumptions C03_canon_injective.
