(** C16 — removing a document erases it completely and only it. *)
From ID Require Import Model.StoreOps Model.Replica Proofs.StoreFacts Proofs.FsPutFacts Proofs.HashFacts Proofs.ReachFacts Proofs.ReachRebuild Proofs.SettingsFacts.

(** For all 32-byte ids (ids ending in 0xFF and the all-0xFF id included: their upper bound is
    computed by the fixed-width successor, [Unb] when it overflows), removal deletes from every
    table exactly the rows keyed by the document — rows of other documents stay, in order. *)
Theorem C16_remove_is_filter : forall T ns, wf_tables T ->
  let T' := remove_replica T ns in
  t_records T' = filter (fun r => negb (rid_ns (fst r) =? ns)) (t_records T) /\
  t_bykey T' = filter (fun r => negb (kid_ns (fst r) =? ns)) (t_bykey T) /\
  t_latest T' = filter (fun r => negb (fst (fst r) =? ns)) (t_latest T) /\
  t_namespaces T' = filter (fun r => negb (fst r =? ns)) (t_namespaces T) /\
  t_peers T' = filter (fun r => negb (fst r =? ns)) (t_peers T) /\
  t_policy T' = filter (fun r => negb (fst r =? ns)) (t_policy T) /\
  t_authors T' = t_authors T.
Proof. exact remove_replica_spec. Qed.

Theorem C16_remove_erases : forall T ns, wf_tables T ->
  let T' := remove_replica T ns in
  fs_all ns T' = [] /\ heads_of T' ns = [] /\ get_cap T' ns = None /\ peers_of T' ns = [] /\
  get_policy T' ns = default_policy /\
  (forall r, In r (t_records T') -> rid_ns (fst r) <> ns) /\
  (forall r, In r (t_bykey T') -> kid_ns (fst r) <> ns).
Proof. exact remove_erases. Qed.

Theorem C16_remove_only : forall T ns ns', wf_tables T -> ns' <> ns ->
  let T' := remove_replica T ns in
  filter (fun r => rid_ns (fst r) =? ns') (t_records T') = filter (fun r => rid_ns (fst r) =? ns') (t_records T) /\
  filter (fun r => kid_ns (fst r) =? ns') (t_bykey T') = filter (fun r => kid_ns (fst r) =? ns') (t_bykey T) /\
  filter (fun r => fst (fst r) =? ns') (t_latest T') = filter (fun r => fst (fst r) =? ns') (t_latest T) /\
  filter (fun r => fst r =? ns') (t_namespaces T') = filter (fun r => fst r =? ns') (t_namespaces T) /\
  filter (fun r => fst r =? ns') (t_peers T') = filter (fun r => fst r =? ns') (t_peers T) /\
  filter (fun r => fst r =? ns') (t_policy T') = filter (fun r => fst r =? ns') (t_policy T) /\
  t_authors T' = t_authors T.
Proof. exact remove_only. Qed.

(** removal is refused while the document is open, and then changes nothing *)
Theorem C16_refused_while_open : forall ks EH MF CAP s ns,
  mem ns (s_open s) = true -> store_step ks EH MF CAP s (SRemove ns) = (s, RFail).
Proof. intros. cbn. now rewrite H. Qed.

(** re-creating a removed document yields an empty document with fresh settings and exactly the
    imported capability *)
Theorem C16_recreate_empty : forall T ns c, wf_tables T ->
  let '(T', out) := import_namespace (remove_replica T ns) ns c in
  out = ImpInserted /\ get_cap T' ns = Some c /\
  fs_all ns T' = [] /\ heads_of T' ns = [] /\ peers_of T' ns = [] /\ get_policy T' ns = default_policy /\
  t_records T' = t_records (remove_replica T ns).
Proof. exact recreate_empty. Qed.

(** at all times the content hashes reported are exactly the hashes of the entries held in any
    document (one per held entry) *)
Theorem C16_content_hashes_exact : forall T, Forall wf_row (t_records T) ->
  forall h, In h (content_hashes T) <-> exists ns e, In e (fs_all ns T) /\ e_hash e = h.
Proof. exact content_hashes_exact. Qed.
Theorem C16_content_hashes_step : forall ks EH MF CAP s,
  store_step ks EH MF CAP s SContentHashes = (s, RHashes (content_hashes (s_tables s))).
Proof. exact content_hashes_step. Qed.

(** the hypotheses above hold in every reachable store: any history of entries offered (local
    inserts, deletion markers, remote entries, in any order), removals and (re-)imports *)
Theorem C16_reachable_stores_are_well_formed : forall EH l, Forall wf_dop l ->
  wf_tables (drun EH l) /\ Forall wf_row (t_records (drun EH l)).
Proof. exact reachable_well_formed. Qed.

(** a document that does not exist -- never imported, or removed and not imported again -- shows no
    settings, after every history of store operations (all 24 kinds, refused calls included) *)
Theorem C16_absent_documents_show_no_settings : forall ks EH MF CAP ops s, SettingsInv (s_tables s) ->
  let T := s_tables (fold_left (fun s o => fst (store_step ks EH MF CAP s o)) ops s) in
  forall ns, get_cap T ns = None ->
    get_policy T ns = default_policy /\ get_sync_peers T ns = None /\ peers_of T ns = [].
Proof. exact absent_documents_show_no_settings. Qed.
Example C16_empty_store_has_no_settings : SettingsInv empty_tables.
Proof. exact SettingsInv_empty. Qed.

Print Assumptions C16_remove_is_filter.
Print Assumptions C16_remove_erases.
Print Assumptions C16_remove_only.
Print Assumptions C16_refused_while_open.
Print Assumptions C16_recreate_empty.
Print Assumptions C16_content_hashes_exact.
Print Assumptions C16_content_hashes_step.
Print Assumptions C16_reachable_stores_are_well_formed.
Print Assumptions C16_absent_documents_show_no_settings.
Print Assumptions C16_empty_store_has_no_settings.
