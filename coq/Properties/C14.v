(** C14 — the store actor honours open/close counting and the sync switch.
    The model processes one request completely before the next; FIFO delivery of requests and
    the single-threaded loop are runtime facts outside the model (PARTIAL for concurrent clients:
    the correspondence runs drive one client, and two clients at once whose replies must admit an order). *)
From ID Require Import Model.Actor Proofs.ActorFacts Proofs.HandleFacts Proofs.DropFacts Proofs.FsPutFacts Proofs.ReachFacts Proofs.AckFacts.
From ID Require Import Model.Entry Model.Tables Model.StoreOps.

Theorem C14_closed_ops_fail_noop : forall ks EH MF CAP mss split s o ns,
  op_needs_open o = Some ns -> aget s ns = None ->
  astep ks EH MF CAP mss split s o = (s, AErr ANotOpen, []).
Proof. exact closed_ops_fail_noop. Qed.

Theorem C14_sync_gate : forall ks EH MF CAP mss split s o ns r,
  op_needs_sync o = Some ns -> aget s ns = Some r -> ar_sync r = false ->
  astep ks EH MF CAP mss split s o = (s, AErr ASyncOff, []).
Proof. exact sync_gate. Qed.

Theorem C14_open_adds_handle_sync_sticky : forall ks EH MF CAP mss split s ns sync sub r,
  aget s ns = Some r ->
  exists s', astep ks EH MF CAP mss split s (AOpen ns sync sub) = (s', AOk, []) /\
    exists r', aget s' ns = Some r' /\ ar_handles r' = ar_handles r + 1 /\ ar_sync r' = (ar_sync r || sync)
               /\ ar_writable r' = ar_writable r.
Proof. exact open_adds_handle. Qed.

Theorem C14_open_first_handle : forall ks EH MF CAP mss split s ns sync sub w,
  aget s ns = None -> writable (a_tables s) ns = Some w ->
  exists s', astep ks EH MF CAP mss split s (AOpen ns sync sub) = (s', AOk, []) /\
    exists r', aget s' ns = Some r' /\ ar_handles r' = 1 /\ ar_sync r' = sync /\ ar_writable r' = w.
Proof. exact open_first_handle. Qed.

Theorem C14_open_unknown_fails : forall ks EH MF CAP mss split s ns sync sub,
  aget s ns = None -> writable (a_tables s) ns = None ->
  astep ks EH MF CAP mss split s (AOpen ns sync sub) = (s, AErr ANotFound, []).
Proof. exact open_unknown_fails. Qed.

Theorem C14_close_reports_closed : forall ks EH MF CAP mss split s ns,
  exists s' b, astep ks EH MF CAP mss split s (AClose ns) = (s', ABool b, []) /\ (b = true <-> aget s' ns = None) /\
    match aget s ns with
    | Some r => if ar_handles r =? 1 then b = true
                else b = false /\ exists r', aget s' ns = Some r' /\ ar_handles r' = ar_handles r - 1 /\ ar_sync r' = ar_sync r
    | None => b = true
    end.
Proof. exact close_reports_closed. Qed.

(** every request, on every state: the handles held for every document move exactly as the abstract
    counter prescribes -- an acknowledged open adds one, a close or drop releases one while there is
    one, nothing else changes any document's count -- and an open document never has zero handles *)
Theorem C14_step_counts : forall ks EH MF CAP mss split s o, HPos s ->
  let '(s', r, _) := astep ks EH MF CAP mss split s o in
  (forall x, handles s' x = hstep (handles s) o r x) /\ HPos s'.
Proof. exact step_handles. Qed.

(** every history from a freshly spawned actor (any requests, any documents, any length): the
    handles are the counter of the acknowledged history, and the document is open -- usable --
    exactly while the counter is positive (closed: [C14_closed_ops_fail_noop]) *)
Theorem C14_history_counter : forall ks EH MF CAP mss split T ops,
  let '(s', tr) := arun ks EH MF CAP mss split (ainit T) ops in
  forall x, handles s' x = hcount_from (fun _ => 0) tr x /\
            (aget s' x = None <-> hcount_from (fun _ => 0) tr x = 0).
Proof. exact history_counter. Qed.

(** shutdown hands back a store containing every acknowledged write: for every history of requests
    (all 22 kinds, any documents, well-formed ids and keys) on any well-formed store, each acknowledged
    local insert, deletion or remote insert is in the final tables -- the entry itself or one that
    superseded it ([rel d e]) -- unless a later acknowledged drop removed its document *)
Theorem C14_acked_writes_in_final_store : forall EH MF CAP mss split T ops, SInv T -> Forall wf_aop ops ->
  let '(s', tr) := arun prefix_succ EH MF CAP mss split (ainit T) ops in
  forall tr1 o r tr2 e, tr = tr1 ++ (o, r) :: tr2 -> acked EH o r = Some e ->
    (exists d, In d (recs (a_tables s')) /\ rel d e = true) \/ In (ADrop (e_ns e), AOk) tr2.
Proof. exact shutdown_store_has_acked_writes. Qed.
(** the hypothesis is met by the empty store and kept by every request *)
Theorem C14_store_invariant_kept : forall EH MF CAP mss split s o, SInv (a_tables s) -> wf_aop o ->
  let '(s', r, _) := astep prefix_succ EH MF CAP mss split s o in result3 EH s o s' r.
Proof. exact step_covered. Qed.
Example C14_empty_store_well_formed : SInv empty_tables.
Proof. exact SInv_empty. Qed.

(** the store's open marker mirrors the actor's handles after every request, so a drop is refused with
    "not closed" exactly when another handle remains: a document that nobody else holds can always be
    dropped *)
Theorem C14_open_marker_mirrors_handles : forall ks EH MF CAP mss split s o,
  OpenInv s -> OpenInv (fst (fst (astep ks EH MF CAP mss split s o))).
Proof. exact step_open_inv. Qed.
Theorem C14_drop_refused_iff_another_handle : forall ks EH MF CAP mss split s ns, OpenInv s -> HPos s ->
  snd (fst (astep ks EH MF CAP mss split s (ADrop ns))) = AErr ANotClosed <-> 1 < handles s ns.
Proof. exact drop_refused_iff. Qed.

Print Assumptions C14_closed_ops_fail_noop.
Print Assumptions C14_sync_gate.
Print Assumptions C14_open_adds_handle_sync_sticky.
Print Assumptions C14_open_first_handle.
Print Assumptions C14_open_unknown_fails.
Print Assumptions C14_close_reports_closed.
Print Assumptions C14_step_counts.
Print Assumptions C14_history_counter.
Print Assumptions C14_acked_writes_in_final_store.
Print Assumptions C14_store_invariant_kept.
Print Assumptions C14_empty_store_well_formed.
Print Assumptions C14_open_marker_mirrors_handles.
Print Assumptions C14_drop_refused_iff_another_handle.
