(** C07 — write capability is required to author entries and is never lost. *)
From ID Require Import Model.StoreOps Model.Replica Proofs.StoreFacts Proofs.CapFacts.

(** no import (of any capability, for any document) downgrades a stored write capability *)
Theorem C07_import_keeps_write : forall T ns c ns0 sk,
  get_cap T ns0 = Some (Some sk) -> get_cap (fst (import_namespace T ns c)) ns0 = Some (Some sk).
Proof. exact import_keeps_write. Qed.

(** importing the write secret upgrades a read-only document *)
Theorem C07_import_upgrades : forall T ns sk, get_cap T ns = Some None ->
  get_cap (fst (import_namespace T ns (Some sk))) ns = Some (Some sk) /\ snd (import_namespace T ns (Some sk)) = ImpUpgraded.
Proof. exact import_upgrades. Qed.

(** importing a capability affects only the document it names *)
Theorem C07_import_touches_only_named : forall T ns c ns', ns <> ns' ->
  get_cap (fst (import_namespace T ns c)) ns' = get_cap T ns'.
Proof. exact import_touches_only_named. Qed.

(** a read-only replica never authors: local insert and delete are refused and change nothing *)
Theorem C07_readonly_insert_refused : forall ks EH MF T now ns au k h l,
  exists er, replica_insert ks EH MF T now ns false au k h l = (T, Err er, []).
Proof. exact readonly_insert_refused. Qed.
Theorem C07_readonly_delete_refused : forall ks EH MF T now ns au k,
  replica_delete_prefix ks EH MF T now ns false au k = (T, Err EReadOnly, []).
Proof. exact readonly_delete_refused. Qed.

(** entry writes never touch the capability table *)
Theorem C07_put_keeps_capabilities : forall ks EH T e, t_namespaces (fst (fs_put ks EH T e)) = t_namespaces T.
Proof. exact fs_put_namespaces. Qed.

(** over whole histories of store operations (imports of any capability for any document, opens,
    closes, reopen of the store with or without rebuilding derived tables, writes, removals of OTHER
    documents, ...): a stored write capability is never lost *)
Theorem C07_history_keeps_write : forall ks EH MF CAP ops s ns sk,
  Forall (fun o => o <> SRemove ns) ops ->
  get_cap (s_tables s) ns = Some (Some sk) ->
  get_cap (s_tables (fold_left (fun s o => fst (store_step ks EH MF CAP s o)) ops s)) ns = Some (Some sk).
Proof. exact history_keeps_write. Qed.

(** only import and removal touch the capability table at all *)
Theorem C07_step_keeps_capabilities : forall ks EH MF CAP s o, touches_caps o = false ->
  t_namespaces (s_tables (fst (store_step ks EH MF CAP s o))) = t_namespaces (s_tables s).
Proof. exact step_keeps_capabilities. Qed.

(** a read-only document in the store: local writes are refused and leave the whole store unchanged;
    remote entries are handled exactly as on a writable document *)
Theorem C07_readonly_store_refuses_local : forall ks EH MF CAP s ns, writable (s_tables s) ns = Some false ->
  (forall au k h l now, exists er, store_step ks EH MF CAP s (SInsert ns au k h l now) = (s, RInsert (Err er))) /\
  (forall au k now, store_step ks EH MF CAP s (SDelete ns au k now) = (s, RInsert (Err EReadOnly))).
Proof. exact readonly_store_refuses_local. Qed.
Theorem C07_remote_independent_of_capability : forall ks EH MF CAP s ns e ok now w,
  writable (s_tables s) ns = Some w ->
  store_step ks EH MF CAP s (SRemote ns e ok now) =
  (let '(T', r, _) := replica_insert_remote ks EH MF (s_tables s) now ns (mkW e ok) 0 0 in
   (mkS T' (s_open s) (s_clock s), RInsert r)).
Proof. exact remote_independent_of_capability. Qed.

Print Assumptions C07_import_keeps_write.
Print Assumptions C07_import_upgrades.
Print Assumptions C07_import_touches_only_named.
Print Assumptions C07_readonly_insert_refused.
Print Assumptions C07_readonly_delete_refused.
Print Assumptions C07_put_keeps_capabilities.
Print Assumptions C07_history_keeps_write.
Print Assumptions C07_step_keeps_capabilities.
Print Assumptions C07_readonly_store_refuses_local.
Print Assumptions C07_remote_independent_of_capability.
