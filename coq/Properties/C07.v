(** C07 — write capability is required to author entries and is never lost. *)
From ID Require Import Model.StoreOps Proofs.StoreFacts.

(** no import (of any capability, for any document) downgrades a stored write capability *)
Theorem C07_import_keeps_write : forall T ns c ns0 sk,
  get_cap T ns0 = Some (Some sk) -> get_cap (fst (import_namespace T ns c)) ns0 = Some (Some sk).
Proof. exact import_keeps_write. Qed.

(** importing the write secret upgrades a read-only document *)
Theorem C07_import_upgrades : forall T ns sk, get_cap T ns = Some None ->
  get_cap (fst (import_namespace T ns (Some sk))) ns = Some (Some sk) /\ snd (import_namespace T ns (Some sk)) = ImpUpgraded.
Proof. exact import_upgrades. Qed.

(** importing a capability affects only the document it names *)
Theorem C07_import_touches_only_named : forall T ns c ns', ns <> ns' ->
  get_cap (fst (import_namespace T ns c)) ns' = get_cap T ns'.
Proof. exact import_touches_only_named. Qed.

(** a read-only replica never authors: local insert and delete are refused and change nothing *)
Theorem C07_readonly_insert_refused : forall ks EH MF T now ns au k h l,
  exists er, replica_insert ks EH MF T now ns false au k h l = (T, Err er, []).
Proof. exact readonly_insert_refused. Qed.
Theorem C07_readonly_delete_refused : forall ks EH MF T now ns au k,
  replica_delete_prefix ks EH MF T now ns false au k = (T, Err EReadOnly, []).
Proof. exact readonly_delete_refused. Qed.

(** entry writes never touch the capability table *)
Theorem C07_put_keeps_capabilities : forall ks EH T e, t_namespaces (fst (fs_put ks EH T e)) = t_namespaces T.
Proof. exact fs_put_namespaces. Qed.

Print Assumptions C07_import_keeps_write.
Print Assumptions C07_import_upgrades.
Print Assumptions C07_import_touches_only_named.
Print Assumptions C07_readonly_insert_refused.
Print Assumptions C07_readonly_delete_refused.
Print Assumptions C07_put_keeps_capabilities.
