(** C12 — subscribers see exactly one event per entry that actually entered the replica. *)
From ID Require Import Model.Actor Model.Ranger Proofs.ActorFacts Proofs.ValidFacts Proofs.RangerFacts.

(** delivery: every event goes, in order, to every live subscription exactly once *)
Theorem C12_deliver_spec : forall s ns evs,
  snd (deliver s ns evs) = flat_map (fun ev => map (fun c => (c, ev)) (live_of s ns)) evs.
Proof. exact deliver_spec. Qed.

(** remote insert through the handle: one event per live subscription iff the entry was applied,
    carrying the entry, the providing peer, its content status; nothing when rejected *)
Theorem C12_remote_insert_events : forall ks EH MF CAP mss split s ns e ok from st now r,
  aget s ns = Some r -> ar_sync r = true ->
  let '(s', reply, d) := astep ks EH MF CAP mss split s (AInsertRemote ns e ok from st now) in
  match reply with
  | AOk => exists sd, d = map (fun c => (c, RemoteInsert e from sd st)) (live_of s ns)
                      /\ valid EH MF ns now e ok = true
  | _ => d = [] /\ a_tables s' = a_tables s
  end.
Proof. exact remote_insert_events. Qed.

(** the entries a reconciliation message announces are exactly those it inserted, and each was a
    valid value of the message (so invalid or superseded values announce nothing) *)
Theorem C12_message_events_are_inserted_valid_values : forall St (ops : store_ops St) mss k status_of v s m p,
  In p (snd (process_message ops mss k status_of (fun _ e st => v e st) s m)) ->
  In p (message_values m) /\ v (fst p) (snd p) = true.
Proof. exact @process_message_inserted. Qed.

(** unsubscribing a channel leaves the other channels' subscriptions as they were *)
Theorem C12_unsubscribe_isolated : forall c c' l, c <> c' ->
  filter (N.eqb c') (remove_n c l) = filter (N.eqb c') l.
Proof. exact filter_remove_other. Qed.

Print Assumptions C12_deliver_spec.
Print Assumptions C12_remote_insert_events.
Print Assumptions C12_message_events_are_inserted_valid_values.
Print Assumptions C12_unsubscribe_isolated.
