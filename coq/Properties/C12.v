(** C12 — subscribers see exactly one event per entry that actually entered the replica. *)
From ID Require Import Model.Actor Model.Ranger Model.Replica Proofs.ActorFacts Proofs.ValidFacts Proofs.RangerFacts.
From ID Require Import Proofs.FsPutFacts Proofs.RefineFacts Proofs.EventFacts Proofs.ReachFacts Proofs.AckFacts Proofs.FlagFacts.

(** delivery: every event goes, in order, to every live subscription exactly once *)
Theorem C12_deliver_spec : forall s ns evs,
  snd (deliver s ns evs) = flat_map (fun ev => map (fun c => (c, ev)) (live_of s ns)) evs.
Proof. exact deliver_spec. Qed.

(** remote insert through the handle: one event per live subscription iff the entry was applied,
    carrying the entry, the providing peer, its content status; nothing when rejected *)
Theorem C12_remote_insert_events : forall ks EH MF CAP mss split s ns e ok from st now r,
  aget s ns = Some r -> ar_sync r = true ->
  let '(s', reply, d) := astep ks EH MF CAP mss split s (AInsertRemote ns e ok from st now) in
  match reply with
  | AOk => exists sd, d = map (fun c => (c, RemoteInsert e from sd st)) (live_of s ns)
                      /\ valid EH MF ns now e ok = true
  | _ => d = [] /\ a_tables s' = a_tables s
  end.
Proof. exact remote_insert_events. Qed.

(** the entries a reconciliation message announces are exactly those it inserted, and each was a
    valid value of the message (so invalid or superseded values announce nothing) *)
Theorem C12_message_events_are_inserted_valid_values : forall St (ops : store_ops St) mss k status_of v s m p,
  In p (snd (process_message ops mss k status_of (fun _ e st => v e st) s m)) ->
  In p (message_values m) /\ v (fst p) (snd p) = true.
Proof. exact @process_message_inserted. Qed.

(** unsubscribing a channel leaves the other channels' subscriptions as they were *)
Theorem C12_unsubscribe_isolated : forall c c' l, c <> c' ->
  filter (N.eqb c') (remove_n c l) = filter (N.eqb c') l.
Proof. exact filter_remove_other. Qed.

(** a reconciliation message through the handle, on any well-formed store and for any message the
    decoder can produce: what the live subscriptions receive is [evs] once each, in order, where
    - every entry that entered the replica is in [evs] (deletion markers and all),
    - no entry is announced twice,
    - every announced entry was a validated value of the message that was not already superseded
      and is held (or superseded by a later value of the same message) afterwards, and the event
      carries the sender, the policy's verdict for the key and the value's content status *)
Theorem C12_reconciliation_events : forall EH MF CAP mss split s ns m from now r,
  aget s ns = Some r -> ar_sync r = true -> wf_records (a_tables s) -> wf_message m ->
  let '(s', _, d) := astep prefix_succ EH MF CAP mss split s (ASyncProcess ns m from now) in
  exists evs,
    d = flat_map (fun ev => map (fun c => (c, ev)) (live_of s ns)) evs /\
    (forall x, In x (fs_all ns (a_tables s')) -> In x (fs_all ns (a_tables s)) \/ In x (map ev_entry evs)) /\
    NoDup (map ev_entry evs) /\
    (forall ev, In ev evs ->
       exists e st, ev = RemoteInsert e from (policy_matches (get_policy (a_tables s) ns) (e_key e)) (st mod 4) /\
                    In (e, st) (message_values m) /\ sync_validate EH MF now ns (a_tables s) e st = true /\
                    ~ covered (fs_all ns (a_tables s)) e /\ covered (fs_all ns (a_tables s')) e).
Proof. exact actor_sync_events. Qed.

(** a local insert / deletion through the handle: one LocalInsert with the written entry per live
    subscription iff it was applied, nothing (and an unchanged store) otherwise *)
Theorem C12_local_insert_events : forall ks EH MF CAP mss split s ns au k h l now r,
  aget s ns = Some r ->
  let '(s', reply, d) := astep ks EH MF CAP mss split s (AInsertLocal ns au true k h l now) in
  match reply with
  | AOk => d = map (fun c => (c, LocalInsert (mkE ns au k now l h))) (live_of s ns)
  | _ => d = [] /\ a_tables s' = a_tables s
  end.
Proof. exact local_insert_events. Qed.
Theorem C12_local_delete_events : forall ks EH MF CAP mss split s ns au k now r,
  aget s ns = Some r ->
  let '(s', reply, d) := astep ks EH MF CAP mss split s (ADeletePrefix ns au true k now) in
  match reply with
  | ACount _ => d = map (fun c => (c, LocalInsert (mkE ns au k now 0 EH))) (live_of s ns)
  | _ => d = [] /\ a_tables s' = a_tables s
  end.
Proof. exact local_delete_events. Qed.

(** an entry that entered the replica is announced once and never again: every announced entry is held
    or superseded afterwards ([C12_reconciliation_events], last clause; [C14_store_invariant_kept] keeps
    "held or superseded" through every later request), and the re-delivery of an entry that is held or
    superseded -- the same entry from another neighbour, or after a reconciliation -- is refused,
    changes nothing and produces no event *)
Theorem C12_redelivery_is_silent : forall EH MF CAP mss split s ns e ok from st now,
  SInv (a_tables s) -> wf_entry e -> covered (recs (a_tables s)) e ->
  let '(s', r, d) := astep prefix_succ EH MF CAP mss split s (AInsertRemote ns e ok from st now) in
  d = [] /\ a_tables s' = a_tables s /\ r <> AOk.
Proof. exact redelivery_is_silent. Qed.

(** the hypotheses are met, and a deletion marker that arrives by reconciliation is announced: two
    subscriptions, one stored entry below the marker's key *)
Example C12_marker_by_reconciliation_is_announced :
  let stp := astep prefix_succ 7 600000000 5 1 2 in
  let s := fold_left (fun s o => fst (fst (stp s o)))
             [AImport 11 (Some 12); AOpen 11 true (Some 0); ASubscribe 11 3; AInsertLocal 11 15 true [97;97] 9 2 1000000]
             (ainit empty_tables) in
  let marker := mkE 11 15 [97] 1000005 0 7 in
  fs_all 11 (a_tables s) = [mkE 11 15 [97;97] 1000000 2 9] /\
  let '(s', reply, d) := stp s (ASyncProcess 11 [PItem (11,15,[]) (11,15,[]) [(marker, 2)] true] 6 1000010) in
  fs_all 11 (a_tables s') = [marker] /\
  d = [(0, RemoteInsert marker 6 true 2); (3, RemoteInsert marker 6 true 2)].
Proof. vm_compute. repeat split. Qed.

(** the download flag of a remote insert event through the store handle is exactly what the policy
    stored for the document says for the entry's key (single-entry path; for reconciliation messages
    the same is part of [C12_reconciliation_events]) *)
Theorem C12_remote_event_flag_is_policy : forall ks EH MF CAP mss split s ns e ok from st now r,
  aget s ns = Some r -> ar_sync r = true ->
  let '(s', reply, d) := astep ks EH MF CAP mss split s (AInsertRemote ns e ok from st now) in
  reply = AOk ->
  d = map (fun c => (c, RemoteInsert e from (policy_matches (get_policy (a_tables s) ns) (e_key e)) st)) (live_of s ns).
Proof. exact remote_insert_event_flag. Qed.

Print Assumptions C12_deliver_spec.
Print Assumptions C12_remote_insert_events.
Print Assumptions C12_message_events_are_inserted_valid_values.
Print Assumptions C12_unsubscribe_isolated.
Print Assumptions C12_reconciliation_events.
Print Assumptions C12_local_insert_events.
Print Assumptions C12_local_delete_events.
Print Assumptions C12_marker_by_reconciliation_is_announced.
Print Assumptions C12_redelivery_is_silent.
Print Assumptions C12_remote_event_flag_is_policy.
