(** C01 — pairwise reconciliation converges to the join.  PARTIAL.

    Full statement (kept visible; not proved here):
      for all reduced consistent A, B of one namespace, either initiator, every configuration
      with 2 <= split_factor: the session terminates within 2(|A|+|B|)+4 messages and leaves both
      sides holding [join A B].
    What is proved, for every message (hostile ones included), store content and configuration:
      - soundness of every step: after processing a message a replica holds exactly
        [reduce (valid values of the message ++ what it held)] — nothing else in the message
        (ranges, fingerprints, flags, order of values) influences the content;
      - a replica answers a fingerprint that equals its own with silence (second session);
      - the two sides' sent/received counters mirror each other after any complete session.
    Missing: delivery completeness (every entry of the join missing on one side is eventually
    offered to it) and the termination measure; both are exercised by the correspondence runs
    (final contents = join, message bound, silent second session on every generated pair). *)
From ID Require Import Model.Ranger Model.Put Proofs.RangerFacts.

Theorem C01_step_content_partial : forall mss k status_of v S m,
  reduced S -> consistent (valid_values v (message_values m) ++ S) ->
  forall x,
    In x (fst (fst (process_message om_ops mss k status_of (fun _ e st => v e st) S m)))
    <-> in_reduce (valid_values v (message_values m) ++ S) x.
Proof. exact process_message_content. Qed.

Theorem C01_store_effect_any_instance : forall St (ops : store_ops St) mss k status_of v s m,
  fst (fst (process_message ops mss k status_of (fun _ e st => v e st) s m))
  = puts_ops ops s (valid_values v (message_values m)).
Proof. exact @process_message_store. Qed.

Theorem C01_equal_fingerprint_silent : forall St (ops : store_ops St) mss k status_of validate sB x y fp,
  fp_of (so_range ops sB x y) = fp ->
  process_message ops mss k status_of validate sB [PFp x y fp] = (sB, None, []).
Proof. exact @equal_fingerprint_silent. Qed.

Theorem C01_counts_mirror : forall key_succ EH MAXF mss k fuel now nsA nsB TA TB TA' TB' ocA' ocB' tr,
  session key_succ EH MAXF mss k fuel now nsA nsB TA TB (mkOC 0 0) (mkOC 0 0)
          (initial_message (fs_ops key_succ EH nsA) TA) true [] = Some (TA', TB', ocA', ocB', tr) ->
  oc_sent ocA' = oc_recv ocB' /\ oc_recv ocA' = oc_sent ocB'.
Proof. exact session_counts_mirror_init. Qed.

Print Assumptions C01_step_content_partial.
Print Assumptions C01_store_effect_any_instance.
Print Assumptions C01_equal_fingerprint_silent.
Print Assumptions C01_counts_mirror.
