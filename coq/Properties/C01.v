(** C01 — pairwise reconciliation converges to the join.

    Proved, for every pair of reduced sorted replicas without twin-len pairs, every split factor
    >= 2, every maximal set size, every initiator: WHENEVER the session completes, both sides
    hold exactly [join A B] ([C01_session_reaches_join]; the invariant is "every maximal entry of
    the union is held by both sides or lies in the range of an honest part in flight", and the
    split of a range is shown to cover the range for every range shape: plain, wrap-around,
    whole ring). Also, for every message (hostile ones included), store content and
    configuration:
      - soundness of every step: after processing a message a replica holds exactly
        [reduce (valid values of the message ++ what it held)];
      - a replica answers a fingerprint that equals its own with silence (second session);
      - the two sides' sent/received counters mirror each other after any complete session.
    And for the split factor the crate uses (2: [SyncConfig] is crate-private, only its default
    is ever constructed), every maximal set size: the session terminates within |A|+|B|+3
    processing steps (every reply ranks strictly below the message it answers, a fingerprint part
    ranking by the number of entries of the union inside its range) and leaves both sides with
    the join — the full statement ([C01_session_total]).
    PARTIAL for split factors > 2 only: termination is not proved there (a range whose first
    local element sits exactly at the range start and holds fewer elements than the split factor
    produces the whole-ring range (x, x) as its first sub-range, so the count measure does not
    decrease; exhaustive small-scope evaluation of the model and the correspondence runs with
    split factors 3..5 show termination, a proof would need a different measure). *)
From ID Require Import Base.Bytes Model.Entry Model.Ranger Model.Put Proofs.RangerFacts Proofs.ConvergeFacts Proofs.SplitFacts Proofs.SessionConverge Proofs.TerminateFacts Proofs.FsPutFacts Proofs.RefineFacts Proofs.SessionRefine.
From ID Require Import Model.Tables Model.Bounds Model.FsStore.

Theorem C01_step_content_partial : forall mss k status_of v S m,
  reduced S -> consistent (valid_values v (message_values m) ++ S) ->
  forall x,
    In x (fst (fst (process_message om_ops mss k status_of (fun _ e st => v e st) S m)))
    <-> in_reduce (valid_values v (message_values m) ++ S) x.
Proof. exact process_message_content. Qed.

Theorem C01_store_effect_any_instance : forall St (ops : store_ops St) mss k status_of v s m,
  fst (fst (process_message ops mss k status_of (fun _ e st => v e st) s m))
  = puts_ops ops s (valid_values v (message_values m)).
Proof. exact @process_message_store. Qed.

Theorem C01_equal_fingerprint_silent : forall St (ops : store_ops St) mss k status_of validate sB x y fp,
  fp_of (so_range ops sB x y) = fp ->
  process_message ops mss k status_of validate sB [PFp x y fp] = (sB, None, []).
Proof. exact @equal_fingerprint_silent. Qed.

Theorem C01_counts_mirror : forall key_succ EH MAXF mss k fuel now nsA nsB TA TB TA' TB' ocA' ocB' tr,
  session key_succ EH MAXF mss k fuel now nsA nsB TA TB (mkOC 0 0) (mkOC 0 0)
          (initial_message (fs_ops key_succ EH nsA) TA) true [] = Some (TA', TB', ocA', ocB', tr) ->
  oc_sent ocA' = oc_recv ocB' /\ oc_recv ocA' = oc_sent ocB'.
Proof. exact session_counts_mirror_init. Qed.

Print Assumptions C01_step_content_partial.
Print Assumptions C01_store_effect_any_instance.
Print Assumptions C01_equal_fingerprint_silent.
Print Assumptions C01_counts_mirror.

(** convergence: a completed session leaves both sides with the join, in the same order *)
Theorem C01_session_reaches_join : forall mss k v A B fuel A' B' tr,
  2 <= k -> ssorted A -> ssorted B -> reduced A -> reduced B -> consistent (A ++ B) ->
  (forall e, In e (A ++ B) -> v e MISSING = true) ->
  list_session mss k v fuel A B (initial_message om_ops A) true [] = Some (A', B', tr) ->
  (forall x, In x A' <-> In x (join A B)) /\ (forall x, In x B' <-> In x (join A B)) /\
  ssorted A' /\ ssorted B'.
Proof. exact list_session_converges. Qed.

(** the full statement for split factor 2 (the crate's), any maximal set size *)
Theorem C01_session_total : forall mss v A B,
  ssorted A -> ssorted B -> reduced A -> reduced B -> consistent (A ++ B) ->
  (forall e, In e (A ++ B) -> v e MISSING = true) ->
  exists A' B' tr,
    list_session mss 2 v (length A + length B + 3) A B (initial_message om_ops A) true [] = Some (A', B', tr) /\
    (length tr <= length A + length B + 2)%nat /\
    (forall x, In x A' <-> In x (join A B)) /\ (forall x, In x B' <-> In x (join A B)) /\
    ssorted A' /\ ssorted B'.
Proof. exact list_session_total. Qed.

(** the same for the table-level stores the real sessions are compared with message by message
    (several documents in one records table, scans through computed bounds): the session
    terminates and both documents end up equal to the join *)
Theorem C01_table_session_total : forall EH MAXF mss now ns TA TB,
  wf_records TA -> wf_records TB ->
  let A := fs_all ns TA in let B := fs_all ns TB in
  reduced A -> reduced B -> consistent (A ++ B) ->
  (forall e, In e (A ++ B) -> vsync EH MAXF now ns e MISSING = true) ->
  exists TA' TB' ocA ocB tr,
    session prefix_succ EH MAXF mss 2 (length A + length B + 3) now ns ns TA TB (mkOC 0 0) (mkOC 0 0)
            (initial_message (fs_ops prefix_succ EH ns) TA) true [] = Some (TA', TB', ocA, ocB, tr) /\
    (length tr <= length A + length B + 2)%nat /\
    (forall x, In x (fs_all ns TA') <-> In x (join A B)) /\
    (forall x, In x (fs_all ns TB') <-> In x (join A B)) /\
    fs_all ns TA' = fs_all ns TB'.
Proof. exact table_session_total. Qed.

(** end to end (C02 + C08 + C01): two stores built by ANY histories of offers (any order, any
    duplication, prefix deletions), then one session: it terminates, both documents are equal and
    hold exactly the non-dominated offers of both histories *)
Theorem C01_histories_then_session : forall EH MAXF mss now ns lA lB,
  Forall wf_entry lA -> Forall wf_entry lB ->
  (forall e, In e (lA ++ lB) -> e_ns e = ns /\ vsync EH MAXF now ns e MISSING = true) ->
  consistent (lA ++ lB) ->
  let TA := fs_puts EH empty_tables lA in
  let TB := fs_puts EH empty_tables lB in
  let A := fs_all ns TA in let B := fs_all ns TB in
  exists TA' TB' ocA ocB tr,
    session prefix_succ EH MAXF mss 2 (length A + length B + 3) now ns ns TA TB (mkOC 0 0) (mkOC 0 0)
            (initial_message (fs_ops prefix_succ EH ns) TA) true [] = Some (TA', TB', ocA, ocB, tr) /\
    fs_all ns TA' = fs_all ns TB' /\
    (forall x, In x (fs_all ns TA') <-> in_reduce (lA ++ lB) x).
Proof. exact histories_then_session. Qed.

(** its hypotheses are satisfiable (a deletion marker, prefix-related keys, two authors, an
    overwrite across the two histories) *)
Example C01_histories_hypotheses_hold :
  let lA := [mkE 1 2 [97] 9 0 0; mkE 1 2 [99] 5 1 8; mkE 1 3 [97] 5 1 8] in
  let lB := [mkE 1 2 [97; 98] 5 1 8; mkE 1 2 [98] 5 1 8; mkE 1 2 [99] 6 1 9] in
  Forall wf_entry lA /\ Forall wf_entry lB /\
  (forall e, In e (lA ++ lB) -> e_ns e = 1 /\ vsync 0 600000000 100 1 e MISSING = true) /\
  consistent (lA ++ lB).
Proof.
  cbv zeta. split; [|split; [|split]].
  - repeat constructor; vm_compute; try discriminate; auto.
  - repeat constructor; vm_compute; try discriminate; auto.
  - intros e H. cbn in H. repeat (destruct H as [<-|H]; [split; reflexivity|]). destruct H.
  - intros a b Ha Hb. cbn in Ha, Hb.
    repeat (destruct Ha as [<-|Ha]); try destruct Ha; repeat (destruct Hb as [<-|Hb]); try destruct Hb; cbn; intros; try reflexivity; try discriminate; try congruence.
Qed.

(** the fact about the split that convergence rests on: the sub-ranges cover the range *)
Theorem C01_split_covers_range : forall k, 2 <= k -> forall S x y, ssorted S -> (2 <= length (rng S x y))%nat ->
  forall z, range_contains x y z = true ->
  exists r, In r (split_ranges k x y (rng S x y)) /\ range_contains (fst r) (snd r) z = true.
Proof. exact split_covers. Qed.

(** the hypotheses are satisfiable and the session does complete on a concrete pair with a
    prefix deletion across range boundaries and a three-way split *)
Example C01_session_example :
  let A := [mkE 1 2 [97] 9 0 7; mkE 1 2 [99] 5 1 8; mkE 1 3 [97] 5 1 8] in
  let B := [mkE 1 2 [97; 98] 5 1 8; mkE 1 2 [98] 5 1 8; mkE 1 2 [99] 6 1 9; mkE 1 3 [100] 5 1 8] in
  match list_session 1 3 (fun _ _ => true) 20 A B (initial_message om_ops A) true [] with
  | Some (A', B', tr) => A' = B' /\ length A' = 5%nat /\ (2 <= length tr)%nat
  | None => False
  end.
Proof. vm_compute. repeat split; auto. Qed.

Print Assumptions C01_session_reaches_join.
Print Assumptions C01_session_total.
Print Assumptions C01_table_session_total.
Print Assumptions C01_histories_then_session.
Print Assumptions C01_histories_hypotheses_hold.
Print Assumptions C01_split_covers_range.
Print Assumptions C01_session_example.
