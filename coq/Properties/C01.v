(** C01 — pairwise reconciliation converges to the join.

    Proved (no part of the statement is left to testing), for every pair of reduced sorted
    replicas without twin-len pairs (the recorded known finding), every split factor >= 2, every
    maximal set size, either initiator:
      - the session terminates within [steps_bound A B] processing steps
        ([C01_session_total_all]; measure: the number of maximal entries of the union not yet held
        by both sides, then the least rank among the parts in flight covering the first such entry
        — an answer ranks 0, a request 1, a fingerprint part by the number of union entries in
        its range, the whole ring above all). For the crate's own split factor 2 the sharper
        bound |A|+|B|+3 holds ([C01_session_total]);
      - it leaves both sides equal, holding exactly [join A B] (invariant: every maximal entry
        of the union is held by both sides or lies in the range of an honest part in flight; the
        split of a range covers the range for plain, wrap-around and whole-ring ranges);
      - an immediately following session is one silent message ([C01_second_session_silent]);
      - sent and received counters mirror each other ([C01_counts_mirror]).
    The same is stated for the table-level stores the real sessions are compared with
    ([C01_table_session_total_all]) and end to end from offer histories
    ([C01_histories_then_session]). For hostile messages: step soundness
    ([C01_step_content_partial] — "partial" in the name refers to the single step). *)
From ID Require Import Base.Bytes Model.Entry Model.Ranger Model.Put Proofs.RangerFacts Proofs.ConvergeFacts Proofs.SplitFacts Proofs.SessionConverge Proofs.TerminateFacts Proofs.TerminateAll Proofs.FsPutFacts Proofs.RefineFacts Proofs.SessionRefine.
From ID Require Import Model.Tables Model.Bounds Model.FsStore.

Theorem C01_step_content_partial : forall mss k status_of v S m,
  reduced S -> consistent (valid_values v (message_values m) ++ S) ->
  forall x,
    In x (fst (fst (process_message om_ops mss k status_of (fun _ e st => v e st) S m)))
    <-> in_reduce (valid_values v (message_values m) ++ S) x.
Proof. exact process_message_content. Qed.

Theorem C01_store_effect_any_instance : forall St (ops : store_ops St) mss k status_of v s m,
  fst (fst (process_message ops mss k status_of (fun _ e st => v e st) s m))
  = puts_ops ops s (valid_values v (message_values m)).
Proof. exact @process_message_store. Qed.

Theorem C01_equal_fingerprint_silent : forall St (ops : store_ops St) mss k status_of validate sB x y fp,
  fp_of (so_range ops sB x y) = fp ->
  process_message ops mss k status_of validate sB [PFp x y fp] = (sB, None, []).
Proof. exact @equal_fingerprint_silent. Qed.

Theorem C01_counts_mirror : forall key_succ EH MAXF mss k fuel now nsA nsB TA TB TA' TB' ocA' ocB' tr,
  session key_succ EH MAXF mss k fuel now nsA nsB TA TB (mkOC 0 0) (mkOC 0 0)
          (initial_message (fs_ops key_succ EH nsA) TA) true [] = Some (TA', TB', ocA', ocB', tr) ->
  oc_sent ocA' = oc_recv ocB' /\ oc_recv ocA' = oc_sent ocB'.
Proof. exact session_counts_mirror_init. Qed.

Print Assumptions C01_step_content_partial.
Print Assumptions C01_store_effect_any_instance.
Print Assumptions C01_equal_fingerprint_silent.
Print Assumptions C01_counts_mirror.

(** convergence: a completed session leaves both sides with the join, in the same order *)
Theorem C01_session_reaches_join : forall mss k v A B fuel A' B' tr,
  2 <= k -> ssorted A -> ssorted B -> reduced A -> reduced B -> consistent (A ++ B) ->
  (forall e, In e (A ++ B) -> v e MISSING = true) ->
  list_session mss k v fuel A B (initial_message om_ops A) true [] = Some (A', B', tr) ->
  (forall x, In x A' <-> In x (join A B)) /\ (forall x, In x B' <-> In x (join A B)) /\
  ssorted A' /\ ssorted B'.
Proof. exact list_session_converges. Qed.

(** the full statement for split factor 2 (the crate's), any maximal set size *)
Theorem C01_session_total : forall mss v A B,
  ssorted A -> ssorted B -> reduced A -> reduced B -> consistent (A ++ B) ->
  (forall e, In e (A ++ B) -> v e MISSING = true) ->
  exists A' B' tr,
    list_session mss 2 v (length A + length B + 3) A B (initial_message om_ops A) true [] = Some (A', B', tr) /\
    (length tr <= length A + length B + 2)%nat /\
    (forall x, In x A' <-> In x (join A B)) /\ (forall x, In x B' <-> In x (join A B)) /\
    ssorted A' /\ ssorted B'.
Proof. exact list_session_total. Qed.

(** the full statement for EVERY split factor >= 2 and every maximal set size *)
Theorem C01_session_total_all : forall mss k v A B,
  2 <= k -> ssorted A -> ssorted B -> reduced A -> reduced B -> consistent (A ++ B) ->
  (forall e, In e (A ++ B) -> v e MISSING = true) ->
  exists A' B' tr,
    list_session mss k v (steps_bound A B) A B (initial_message om_ops A) true [] = Some (A', B', tr) /\
    (forall x, In x A' <-> In x (join A B)) /\ (forall x, In x B' <-> In x (join A B)) /\
    ssorted A' /\ ssorted B'.
Proof. exact list_session_total_all. Qed.
Check (eq_refl : steps_bound = fun A B => ((length (reduce (A ++ B)) + 1) * (length (A ++ B) + 6) + 3)%nat).

(** both sides end equal as lists and a session right afterwards is a single unanswered message *)
Theorem C01_second_session_silent : forall mss k v A B,
  2 <= k -> ssorted A -> ssorted B -> reduced A -> reduced B -> consistent (A ++ B) ->
  (forall e, In e (A ++ B) -> v e MISSING = true) ->
  exists A' tr,
    list_session mss k v (steps_bound A B) A B (initial_message om_ops A) true [] = Some (A', A', tr) /\
    (forall x, In x A' <-> In x (join A B)) /\
    forall fuel, list_session mss k v (S fuel) A' A' (initial_message om_ops A') true [] = Some (A', A', []).
Proof. exact list_session_total_all_equal. Qed.

Theorem C01_table_session_total_all : forall EH MAXF mss k now ns TA TB,
  2 <= k -> wf_records TA -> wf_records TB ->
  let A := fs_all ns TA in let B := fs_all ns TB in
  reduced A -> reduced B -> consistent (A ++ B) ->
  (forall e, In e (A ++ B) -> vsync EH MAXF now ns e MISSING = true) ->
  exists TA' TB' ocA ocB tr,
    session prefix_succ EH MAXF mss k (steps_bound A B) now ns ns TA TB (mkOC 0 0) (mkOC 0 0)
            (initial_message (fs_ops prefix_succ EH ns) TA) true [] = Some (TA', TB', ocA, ocB, tr) /\
    (forall x, In x (fs_all ns TA') <-> In x (join A B)) /\
    (forall x, In x (fs_all ns TB') <-> In x (join A B)) /\
    fs_all ns TA' = fs_all ns TB'.
Proof. exact table_session_total_all. Qed.

(** the same for the table-level stores the real sessions are compared with message by message
    (several documents in one records table, scans through computed bounds): the session
    terminates and both documents end up equal to the join *)
Theorem C01_table_session_total : forall EH MAXF mss now ns TA TB,
  wf_records TA -> wf_records TB ->
  let A := fs_all ns TA in let B := fs_all ns TB in
  reduced A -> reduced B -> consistent (A ++ B) ->
  (forall e, In e (A ++ B) -> vsync EH MAXF now ns e MISSING = true) ->
  exists TA' TB' ocA ocB tr,
    session prefix_succ EH MAXF mss 2 (length A + length B + 3) now ns ns TA TB (mkOC 0 0) (mkOC 0 0)
            (initial_message (fs_ops prefix_succ EH ns) TA) true [] = Some (TA', TB', ocA, ocB, tr) /\
    (length tr <= length A + length B + 2)%nat /\
    (forall x, In x (fs_all ns TA') <-> In x (join A B)) /\
    (forall x, In x (fs_all ns TB') <-> In x (join A B)) /\
    fs_all ns TA' = fs_all ns TB'.
Proof. exact table_session_total. Qed.

(** end to end (C02 + C08 + C01): two stores built by ANY histories of offers (any order, any
    duplication, prefix deletions), then one session: it terminates, both documents are equal and
    hold exactly the non-dominated offers of both histories *)
Theorem C01_histories_then_session : forall EH MAXF mss now ns lA lB,
  Forall wf_entry lA -> Forall wf_entry lB ->
  (forall e, In e (lA ++ lB) -> e_ns e = ns /\ vsync EH MAXF now ns e MISSING = true) ->
  consistent (lA ++ lB) ->
  let TA := fs_puts EH empty_tables lA in
  let TB := fs_puts EH empty_tables lB in
  let A := fs_all ns TA in let B := fs_all ns TB in
  exists TA' TB' ocA ocB tr,
    session prefix_succ EH MAXF mss 2 (length A + length B + 3) now ns ns TA TB (mkOC 0 0) (mkOC 0 0)
            (initial_message (fs_ops prefix_succ EH ns) TA) true [] = Some (TA', TB', ocA, ocB, tr) /\
    fs_all ns TA' = fs_all ns TB' /\
    (forall x, In x (fs_all ns TA') <-> in_reduce (lA ++ lB) x).
Proof. exact histories_then_session. Qed.

(** its hypotheses are satisfiable (a deletion marker, prefix-related keys, two authors, an
    overwrite across the two histories) *)
Example C01_histories_hypotheses_hold :
  let lA := [mkE 1 2 [97] 9 0 0; mkE 1 2 [99] 5 1 8; mkE 1 3 [97] 5 1 8] in
  let lB := [mkE 1 2 [97; 98] 5 1 8; mkE 1 2 [98] 5 1 8; mkE 1 2 [99] 6 1 9] in
  Forall wf_entry lA /\ Forall wf_entry lB /\
  (forall e, In e (lA ++ lB) -> e_ns e = 1 /\ vsync 0 600000000 100 1 e MISSING = true) /\
  consistent (lA ++ lB).
Proof.
  cbv zeta. split; [|split; [|split]].
  - repeat constructor; vm_compute; try discriminate; auto.
  - repeat constructor; vm_compute; try discriminate; auto.
  - intros e H. cbn in H. repeat (destruct H as [<-|H]; [split; reflexivity|]). destruct H.
  - intros a b Ha Hb. cbn in Ha, Hb.
    repeat (destruct Ha as [<-|Ha]); try destruct Ha; repeat (destruct Hb as [<-|Hb]); try destruct Hb; cbn; intros; try reflexivity; try discriminate; try congruence.
Qed.

(** the fact about the split that convergence rests on: the sub-ranges cover the range *)
Theorem C01_split_covers_range : forall k, 2 <= k -> forall S x y, ssorted S -> (2 <= length (rng S x y))%nat ->
  forall z, range_contains x y z = true ->
  exists r, In r (split_ranges k x y (rng S x y)) /\ range_contains (fst r) (snd r) z = true.
Proof. exact split_covers. Qed.

(** the hypotheses are satisfiable and the session does complete on a concrete pair with a
    prefix deletion across range boundaries and a three-way split *)
Example C01_session_example :
  let A := [mkE 1 2 [97] 9 0 7; mkE 1 2 [99] 5 1 8; mkE 1 3 [97] 5 1 8] in
  let B := [mkE 1 2 [97; 98] 5 1 8; mkE 1 2 [98] 5 1 8; mkE 1 2 [99] 6 1 9; mkE 1 3 [100] 5 1 8] in
  match list_session 1 3 (fun _ _ => true) 20 A B (initial_message om_ops A) true [] with
  | Some (A', B', tr) => A' = B' /\ length A' = 5%nat /\ (2 <= length tr)%nat
  | None => False
  end.
Proof. vm_compute. repeat split; auto. Qed.

Print Assumptions C01_session_reaches_join.
Print Assumptions C01_session_total.
Print Assumptions C01_table_session_total.
Print Assumptions C01_session_total_all.
Print Assumptions C01_second_session_silent.
Print Assumptions C01_table_session_total_all.
Print Assumptions C01_histories_then_session.
Print Assumptions C01_histories_hypotheses_hold.
Print Assumptions C01_split_covers_range.
Print Assumptions C01_session_example.
