(** C11 — at most one sync session per peer and document, and the slot is always freed.
    The model: two nodes, the per-(document, peer) state machine of engine/state.rs, the decision
    rules of the completion handlers of engine/live.rs, and an UNBOUNDED multiset of in-flight
    requests, decline replies, sessions (two independently finishing ends) and failed connect tasks.
    Theorems hold for every schedule of every length (induction over transitions); which handler
    runs when (JoinSet / select! scheduling) is exactly what the schedule quantifier ranges over
    (PARTIAL: the runtime's scheduling itself is not derived). *)
From ID Require Import Model.Coord Proofs.CoordFacts.

Theorem C11_invariant_step : forall s t, Inv s -> Inv (cstep true s t).
Proof. exact inv_step. Qed.
Theorem C11_invariant_reachable : forall ts, Inv (crun true cinit ts).
Proof. exact inv_reachable. Qed.

(** never two sessions in progress at once (in progress = neither end has finished) *)
Theorem C11_mutual_exclusion : forall s, Inv s -> (sessions_in_progress s <= 1)%nat.
Proof. exact mutual_exclusion. Qed.

(** once no request, reply, session or completion is in flight, both nodes are ready *)
Theorem C11_quiescent_ready : forall s, Inv s -> items s = [] -> n_st (hi s) = Idle /\ n_st (lo s) = Idle.
Proof. exact quiescent_ready. Qed.

(** simultaneous dial: exactly one of the two requests is accepted *)
Theorem C11_simultaneous_dial_one_accepted : forall s rh rl,
  n_st (hi s) = RunC rh -> n_st (lo s) = RunC rl ->
  snd (accept s true) = true /\ snd (accept s false) = false.
Proof. exact simultaneous_dial_one_accepted. Qed.

(** a refused report of news leads to exactly one follow-up dial when the run finishes *)
Theorem C11_refused_report_one_followup : forall s x,
  n_st (get s x) <> Idle ->
  let s1 := dial s x R_REPORT in
  n_resync (get s1 x) = true /\ dials s1 = dials s /\
  let s2 := finish s1 x in
  dials s2 = (x, R_RESYNC) :: dials s /\ n_resync (get s2 x) = false /\ n_st (get s2 x) = RunC R_RESYNC.
Proof. exact refused_report_one_followup. Qed.

(** sensitivity: with the pinned handler (a decline is ignored) the pair can stay busy for ever *)
Example C11_quiescent_ready_refuted_pinned :
  let ts := [TDial true 2; TDial false 2; TDeliver 1; TReply 1; TLose 0; THandleFail 0]%N in
  let s := crun false cinit ts in
  items s = [] /\ n_st (hi s) = RunC 2 /\ n_st (lo s) = Idle.
Proof. exact quiescent_ready_refuted_pinned. Qed.

Print Assumptions C11_invariant_step.
Print Assumptions C11_invariant_reachable.
Print Assumptions C11_mutual_exclusion.
Print Assumptions C11_quiescent_ready.
Print Assumptions C11_simultaneous_dial_one_accepted.
Print Assumptions C11_refused_report_one_followup.
Print Assumptions C11_quiescent_ready_refuted_pinned.
