(** C15 — download policies persist and decide downloads exactly as specified. *)
From ID Require Import Model.StoreOps Proofs.StoreFacts Proofs.PolicyFacts Base.BytesFacts Proofs.CapFacts Proofs.SettingsFacts Model.Actor Model.Replica Proofs.ActorFacts Proofs.FlagFacts Proofs.EventFacts Proofs.FsPutFacts Proofs.RefineFacts.

Theorem C15_get_after_set : forall T ns p,
  get_policy (set_policy T (tbl_insert N.compare ns p (t_policy T))) ns = p.
Proof. exact policy_get_after_set. Qed.

Theorem C15_set_touches_only_named : forall T ns ns' p, ns <> ns' ->
  get_policy (set_policy T (tbl_insert N.compare ns p (t_policy T))) ns' = get_policy T ns'.
Proof. exact policy_get_other. Qed.

(** setting a policy for a document that does not exist fails and changes nothing *)
Theorem C15_set_requires_document : forall ks EH MF CAP s ns p,
  get_cap (s_tables s) ns = None -> store_step ks EH MF CAP s (SSetPolicy ns p) = (s, RFail).
Proof. intros. cbn. now rewrite H. Qed.

Theorem C15_matches_everything_except : forall fs k,
  policy_matches (EverythingExcept fs) k = negb (existsb (fun f => fmatch f k) fs).
Proof. exact matches_spec_everything. Qed.
Theorem C15_matches_nothing_except : forall fs k,
  policy_matches (NothingExcept fs) k = existsb (fun f => fmatch f k) fs.
Proof. exact matches_spec_nothing. Qed.
Theorem C15_prefix_filter : forall p k, fmatch (FPrefix p) k = is_prefix p k.
Proof. exact fmatch_prefix. Qed.
Theorem C15_exact_filter : forall p k, fmatch (FExact p) k = true <-> p = k.
Proof. exact fmatch_exact. Qed.
(** [is_prefix p k] is "k starts with the bytes of p" *)
Theorem C15_is_prefix_meaning : forall p k, is_prefix p k = true <-> exists s, k = p ++ s.
Proof. exact is_prefix_app. Qed.

(** filters survive their textual form, for every notion of valid UTF-8 the printer may use *)
Theorem C15_filter_text_roundtrip : forall (u : bool) (f : filter_kind),
  wf_bytes (match f with FPrefix b | FExact b => b end) ->
  filter_parse (filter_display u f) = Some f.
Proof. exact filter_text_roundtrip. Qed.

(** the download policy (like every per-document setting) survives reopening the store, with or without a
    rebuild of the derived tables *)
Theorem C15_survives_reopen : forall ks EH MF CAP s o, (o = SReopen \/ exists l b, o = SWipeReopen l b) ->
  let T' := s_tables (fst (store_step ks EH MF CAP s o)) in
  forall ns, get_sync_peers T' ns = get_sync_peers (s_tables s) ns /\
             get_policy T' ns = get_policy (s_tables s) ns /\
             get_cap T' ns = get_cap (s_tables s) ns.
Proof. exact reopen_keeps_settings. Qed.

(** once set, a document's policy is returned unchanged after any history of other store operations
    (24 kinds: writes, other documents' settings and removals, reopen with or without rebuilt tables,
    refused calls, ...): only setting it again or removing the document changes it *)
Theorem C15_history_keeps_policy : forall ks EH MF CAP ops s ns,
  Forall (fun o => (forall p, o <> SSetPolicy ns p) /\ o <> SRemove ns) ops ->
  get_policy (s_tables (fold_left (fun s o => fst (store_step ks EH MF CAP s o)) ops s)) ns = get_policy (s_tables s) ns.
Proof. exact history_keeps_policy. Qed.

(** the download flag of a remote insert event through the store handle is exactly what the policy
    stored for the document says for the entry's key (single-entry path; for reconciliation messages
    the same is part of [C12_reconciliation_events]) *)
Theorem C15_remote_event_flag_is_policy : forall ks EH MF CAP mss split s ns e ok from st now r,
  aget s ns = Some r -> ar_sync r = true ->
  let '(s', reply, d) := astep ks EH MF CAP mss split s (AInsertRemote ns e ok from st now) in
  reply = AOk ->
  d = map (fun c => (c, RemoteInsert e from (policy_matches (get_policy (a_tables s) ns) (e_key e)) st)) (live_of s ns).
Proof. exact remote_insert_event_flag. Qed.

Print Assumptions C15_get_after_set.
Print Assumptions C15_set_touches_only_named.
Print Assumptions C15_set_requires_document.
Print Assumptions C15_matches_everything_except.
Print Assumptions C15_matches_nothing_except.
Print Assumptions C15_prefix_filter.
Print Assumptions C15_exact_filter.
Print Assumptions C15_is_prefix_meaning.
Print Assumptions C15_filter_text_roundtrip.
Print Assumptions C15_survives_reopen.
Print Assumptions C15_history_keeps_policy.
Print Assumptions C15_remote_event_flag_is_policy.
