(** C09 — wire and storage encodings round-trip; hostile bytes never crash a decoder.
    The model decoders are total Gallina functions (a value or None, for every byte list); that
    the REAL decoders never panic is what the correspondence runs supply (PARTIAL for that
    clause). Round trips and the frame-stream theorem are proved for all well-formed values. *)
From ID Require Import Model.Codecs Proofs.PostcardFacts Proofs.CodecFacts Proofs.StreamFacts Proofs.KeyTextFacts.
From ID Require Import Base.Bytes Model.Entry Model.Bounds Model.Codecs Proofs.FsPutFacts Proofs.IdFacts.

Theorem C09_varint_roundtrip : forall v, v < 2 ^ 64 -> roundtrips enc_varint dec_varint_u64 v.
Proof. exact varint_u64_roundtrip. Qed.
Theorem C09_signed_entry_roundtrip : forall e, wf_wentry e -> roundtrips enc_wentry dec_wentry e.
Proof. exact wentry_roundtrip. Qed.
Theorem C09_protocol_message_roundtrip : forall m, wf_wmessage m -> roundtrips enc_wmessage dec_wmessage m.
Proof. exact wmessage_roundtrip. Qed.
Theorem C09_codec_message_roundtrip : forall c, wf_cmsg c -> roundtrips enc_cmsg dec_cmsg c.
Proof. exact cmsg_roundtrip. Qed.
Theorem C09_heads_roundtrip : forall l, Forall wf_head l -> U64 (N.of_nat (length l)) -> roundtrips enc_heads dec_heads l.
Proof. exact heads_roundtrip. Qed.
Theorem C09_policy_roundtrip : forall p,
  Forall (fun f => U64 (N.of_nat (length (filter_bytes f)))) (policy_filters p) ->
  U64 (N.of_nat (length (policy_filters p))) -> roundtrips enc_policy dec_policy p.
Proof. exact policy_roundtrip. Qed.
Theorem C09_capability_raw_roundtrip : forall W R c, W <> R ->
  cap_from_raw W R (fst (cap_raw W R c)) (snd (cap_raw W R c)) = Some c.
Proof. exact cap_raw_roundtrip. Qed.

(** Every sequence of sync-protocol messages survives encode-then-decode unchanged however the
    byte stream is chunked ... *)
Theorem C09_frame_stream : forall max ms chunks,
  Forall (sendable max) ms -> concat chunks = stream_of ms ->
  feed_chunks max [] chunks = (ms, [], false).
Proof. exact frame_stream. Qed.
(** ... a truncated stream yields a prefix of what was sent and "need more data", never a bogus
    message ... *)
Theorem C09_frame_stream_truncated : forall max ms chunks tl,
  Forall (sendable max) ms -> concat chunks ++ tl = stream_of ms ->
  exists ms1 ms2 rest, ms = ms1 ++ ms2 /\ feed_chunks max [] chunks = (ms1, rest, false).
Proof. exact frame_stream_truncated. Qed.
(** ... with the exact account of the buffer: what was fed is the frames of the delivered messages
    followed by [rest]; [rest] is empty or a strict prefix of the next frame (so also 1-3 bytes of a
    length header); at end of stream an error is reported exactly when the cut was not at a frame
    boundary *)
Theorem C09_truncated_stream_rest : forall max ms chunks tl,
  Forall (sendable max) ms -> concat chunks ++ tl = stream_of ms ->
  exists ms1 ms2 rest, ms = ms1 ++ ms2 /\ feed_chunks max [] chunks = (ms1, rest, false) /\
    concat chunks = stream_of ms1 ++ rest /\
    (match ms2 with
     | [] => rest = []
     | m :: _ => exists k, (k < length (frame (enc_cmsg m)))%nat /\ rest = firstn k (frame (enc_cmsg m))
     end) /\
    (eof_error rest = true <-> concat chunks <> stream_of ms1).
Proof. exact frame_stream_truncated_rest. Qed.
Theorem C09_truncated_frame_needs_more : forall max payload k,
  N.of_nat (length payload) <= max -> N.of_nat (length payload) < 2 ^ 32 ->
  (k < length (frame payload))%nat -> frame_decode max (firstn k (frame payload)) = NeedMore.
Proof. exact truncated_needs_more. Qed.
(** ... and an oversized frame is an error. *)
Theorem C09_oversize_is_error : forall max hd rest,
  length hd = 4%nat -> max < be32_val hd -> frame_decode max (hd ++ rest) = FrameErr.
Proof. exact oversize_is_error. Qed.

(** the pinned encoding of a signed entry (the suite's snapshot) decodes to the expected fields
    and re-encodes to the same bytes *)
Definition snapshot : bytes := [75; 82; 63; 27; 109; 155; 0; 164; 119; 159; 201; 248; 241; 5; 169; 227; 111; 6; 44; 235; 125; 81; 27; 99; 41; 5; 120; 32; 66; 173; 48; 172; 182; 221; 7; 191; 206; 212; 236; 213; 243; 170; 88; 50; 30; 138; 206; 99; 244; 143; 152; 142; 216; 70; 27; 253; 205; 139; 14; 144; 33; 135; 161; 14; 34; 141; 220; 105; 152; 50; 155; 127; 170; 100; 135; 95; 232; 13; 163; 100; 6; 234; 141; 135; 227; 229; 123; 176; 72; 50; 62; 156; 182; 108; 11; 52; 59; 96; 196; 231; 9; 251; 151; 139; 135; 142; 55; 208; 195; 98; 237; 252; 6; 200; 205; 199; 116; 200; 178; 157; 148; 228; 142; 170; 6; 204; 166; 15; 80; 85; 21; 79; 66; 6; 94; 165; 161; 190; 160; 84; 99; 130; 107; 226; 104; 78; 185; 45; 249; 44; 16; 0; 39; 170; 186; 174; 87; 202; 85; 66; 7; 188; 124; 188; 181; 99; 99; 117; 250; 29; 130; 67; 77; 70; 103; 36; 217; 35; 119; 245; 59; 152; 6; 149; 221; 73; 210; 109; 12; 225; 34; 5; 165; 119; 105; 114; 101; 45; 102; 111; 114; 109; 97; 116; 45; 116; 101; 115; 116; 0; 175; 19; 73; 185; 245; 249; 161; 166; 160; 64; 77; 234; 54; 220; 201; 73; 155; 203; 37; 201; 173; 193; 18; 183; 204; 154; 147; 202; 228; 31; 50; 98; 128; 128; 249; 192; 193; 196; 130; 3].
Example C09_pinned_signed_entry :
  match dec_wentry snapshot with
  | Some (e, []) => enc_wentry e = snapshot /\ we_len e = 0 /\ we_ts e = 1700000000000000
                    /\ skipn 64 (we_id e) = [119; 105; 114; 101; 45; 102; 111; 114; 109; 97; 116; 45; 116; 101; 115; 116] /\ we_hash e = [175; 19; 73; 185; 245; 249; 161; 166; 160; 64; 77; 234; 54; 220; 201; 73; 155; 203; 37; 201; 173; 193; 18; 183; 204; 154; 147; 202; 228; 31; 50; 98]
  | _ => False
  end.
Proof. vm_compute. repeat split; reflexivity. Qed.

Print Assumptions C09_varint_roundtrip.
Print Assumptions C09_signed_entry_roundtrip.
Print Assumptions C09_protocol_message_roundtrip.
Print Assumptions C09_codec_message_roundtrip.
Print Assumptions C09_heads_roundtrip.
Print Assumptions C09_policy_roundtrip.
Print Assumptions C09_capability_raw_roundtrip.
Print Assumptions C09_frame_stream.
Print Assumptions C09_frame_stream_truncated.
Print Assumptions C09_truncated_frame_needs_more.
Print Assumptions C09_oversize_is_error.
Print Assumptions C09_pinned_signed_entry.

(** the bridge to the store theorems, which treat 32-byte identifiers and hashes as numbers: for
    byte strings of equal length the byte-wise order (the order of the database keys) is the order
    of the big-endian values, the value determines the bytes, 32 bytes stay within [MAX256] *)
Theorem C09_byte_order_is_numeric_order : forall a b, wf_bytes a -> wf_bytes b -> length a = length b ->
  (lex_lt a b = true <-> be a < be b).
Proof. exact be_lex. Qed.
Theorem C09_value_determines_bytes : forall a b, wf_bytes a -> wf_bytes b -> length a = length b -> be a = be b -> a = b.
Proof. exact be_inj. Qed.
Theorem C09_32_bytes_within_bound : forall b, wf_bytes b -> length b = 32%nat -> be b <= MAX256.
Proof. exact be32_max. Qed.

(** ... and what the entry decoder yields is well formed in the sense those theorems require
    (32-byte ids, byte keys), whatever bytes it is fed *)
Theorem C09_decoded_entries_well_formed : forall b w r, wf_bytes b -> dec_wentry b = Some (w, r) ->
  wf_entry (we_entry w) /\ wf_bytes r.
Proof. exact dec_wentry_wf. Qed.

(** the text form of author and namespace keys: the 64 hex digits of a 32-byte key parse back to exactly
    its bytes, and only a text of exactly 64 characters is a key (a cut, empty or over-long text is an
    error) *)
Theorem C09_key_text_roundtrip : forall b, length b = 32%nat -> Forall (fun x => (x < 256)%N) b ->
  key_of_text (hex_encode b) = Some b.
Proof. exact key_text_roundtrip. Qed.
Theorem C09_key_text_length : forall t b, key_of_text t = Some b -> length t = 64%nat /\ length b = 32%nat.
Proof. exact key_text_length. Qed.

Print Assumptions C09_byte_order_is_numeric_order.
Print Assumptions C09_value_determines_bytes.
Print Assumptions C09_32_bytes_within_bound.
Print Assumptions C09_decoded_entries_well_formed.
Print Assumptions C09_truncated_stream_rest.
Print Assumptions C09_key_text_roundtrip.
Print Assumptions C09_key_text_length.
