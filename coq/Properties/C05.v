(** C05 — queries return exactly the entries the query describes.
    Proved: the iterator model of a query ([run_query]: index selection, computed bounds, stale
    index rows, direction, filters, latest-per-key, offset and limit) yields exactly the
    declarative reading [query_spec] over the document's entries, for every well-formed table
    state (records sorted; the by-key index lists every record and may list more) and every
    query; that invariant holds after every history of inserts; and every range bound a query
    path scans is exact for all 32-byte ids and all byte-string keys including 0xFF-edged ones.
    Statements only. *)
From ID Require Import Base.Bytes Model.Entry Model.Tables Model.Bounds Model.FsStore Model.Query Proofs.BoundsFacts Proofs.FsPutFacts Proofs.QueryFacts.

Theorem C05_namespace_bounds_exact : forall ns n a k, n <= MAX256 ->
  in_bounds rid_cmp (fst (rb_namespace ns)) (snd (rb_namespace ns)) (n, a, k) = (n =? ns).
Proof. exact rb_namespace_exact. Qed.

Theorem C05_author_prefix_bounds_exact : forall ns au p n a k,
  n <= MAX256 -> a <= MAX256 -> wf_bytes k ->
  in_bounds rid_cmp (fst (rb_author_prefix prefix_succ ns au p)) (snd (rb_author_prefix prefix_succ ns au p)) (n, a, k)
  = (n =? ns) && (a =? au) && is_prefix p k.
Proof. exact rb_author_prefix_exact. Qed.

Theorem C05_author_exact_bounds_exact : forall ns au x n a k,
  in_bounds rid_cmp (fst (rb_author_key prefix_succ ns au (KExact x))) (snd (rb_author_key prefix_succ ns au (KExact x))) (n, a, k)
  = (n =? ns) && (a =? au) && bytes_eqb x k.
Proof. exact rb_author_exact_exact. Qed.

Theorem C05_author_any_bounds_exact : forall ns au n a k,
  n <= MAX256 -> a <= MAX256 -> wf_bytes k ->
  in_bounds rid_cmp (fst (rb_author_key prefix_succ ns au KAny)) (snd (rb_author_key prefix_succ ns au KAny)) (n, a, k)
  = (n =? ns) && (a =? au).
Proof. exact rb_author_any_exact. Qed.

Theorem C05_bykey_prefix_bounds_exact : forall ns p n k a,
  n <= MAX256 -> wf_bytes k ->
  in_bounds kid_cmp (fst (kb_new prefix_succ ns (KPrefix p))) (snd (kb_new prefix_succ ns (KPrefix p))) (n, k, a)
  = (n =? ns) && is_prefix p k.
Proof. exact kb_prefix_exact. Qed.

Theorem C05_bykey_exact_bounds_exact : forall ns x n k a, a <= MAX256 ->
  in_bounds kid_cmp (fst (kb_new prefix_succ ns (KExact x))) (snd (kb_new prefix_succ ns (KExact x))) (n, k, a)
  = (n =? ns) && bytes_eqb x k.
Proof. exact kb_exact_exact. Qed.

Theorem C05_bykey_namespace_bounds_exact : forall ns n k a, n <= MAX256 ->
  in_bounds kid_cmp (fst (kb_namespace ns)) (snd (kb_namespace ns)) (n, k, a) = (n =? ns).
Proof. exact kb_namespace_exact. Qed.

(** sensitivity: with the carry-increment bound of the pinned tree the statement is false *)
Example C05_inc_carry_refuted :
  let p := [97; 255] in let k := [98] in
  is_prefix p k = false /\
  in_bounds rid_cmp (fst (rb_author_prefix inc_carry 1 2 p)) (snd (rb_author_prefix inc_carry 1 2 p)) (1, 2, k) = true.
Proof. exact rb_author_prefix_inc_carry_refuted. Qed.

(** the window: skip the offset, truncate to the limit -- for every u64 value of either (the model
    counts down in [N] along the list; a limit of 2^64-1 is an ordinary value) *)
Theorem C05_window_is_skipn_firstn : forall q l,
  window q l = let l' := skipn (N.to_nat (q_offset q)) l in
               match q_limit q with Some n => firstn (N.to_nat n) l' | None => l' end.
Proof. exact window_spec. Qed.

Print Assumptions C05_namespace_bounds_exact.
Print Assumptions C05_author_prefix_bounds_exact.
Print Assumptions C05_author_exact_bounds_exact.
Print Assumptions C05_author_any_bounds_exact.
Print Assumptions C05_bykey_prefix_bounds_exact.
Print Assumptions C05_bykey_exact_bounds_exact.
Print Assumptions C05_bykey_namespace_bounds_exact.
Print Assumptions C05_inc_carry_refuted.

(** the iterator = the declarative reading, for every query *)
Theorem C05_query_is_its_specification : forall EH ns T q, wf_records T -> wf_index T ->
  run_query prefix_succ EH T ns q = query_spec EH (fs_all ns T) q.
Proof. exact run_query_is_spec. Qed.

(** ... in every state reachable by inserts (prefix deletions leave stale index rows behind) *)
Theorem C05_queries_exact_after_any_inserts : forall EH ns l q, Forall wf_entry l ->
  let T := fs_puts EH empty_tables l in
  run_query prefix_succ EH T ns q = query_spec EH (fs_all ns T) q.
Proof. exact queries_exact_after_puts. Qed.

Check (eq_refl : wf_index = fun T =>
  ksorted (t_bykey T) /\ Forall wf_krow (t_bykey T) /\
  forall n a k v, In ((n, a, k), v) (t_records T) -> In ((n, k, a), tt) (t_bykey T)).

Print Assumptions C05_query_is_its_specification.
Print Assumptions C05_queries_exact_after_any_inserts.
Print Assumptions C05_window_is_skipn_firstn.
