(** C18 — opening an older database rebuilds derived tables exactly; reopening is a no-op. *)
From ID Require Import Model.StoreOps Model.Query Proofs.MigrateFacts Proofs.FsPutFacts Proofs.QueryFacts Proofs.RebuildFacts Proofs.ReachFacts Proofs.ReachRebuild.

(** a rebuilt head table holds per (namespace, author) exactly the greatest timestamp among that
    author's records, for every content of the records table (multi-document, ties, markers) *)
Theorem C18_migrate_heads_exact : forall T, t_latest T = [] -> t_records T <> [] ->
  forall ns au,
    head_ts (t_latest (migrate_latest T)) ns au =
    match rows_of (t_records T) ns au with [] => None | rows => Some (max_list rows) end.
Proof. exact migrate_heads_exact. Qed.

(** a rebuilt by-key index lists exactly the (namespace, key, author) triples of the records *)
Theorem C18_migrate_index_exact : forall T, t_bykey T = [] ->
  forall ns k au, In ((ns, k, au), tt) (t_bykey (migrate_bykey T)) <-> exists v, In ((ns, au, k), v) (t_records T).
Proof. exact migrate_index_exact. Qed.

(** opening an up-to-date database changes nothing; opening twice is opening once *)
Theorem C18_open_uptodate_noop : forall T, t_latest T <> [] -> t_bykey T <> [] -> open_store T = T.
Proof. exact open_uptodate_noop. Qed.
Theorem C18_open_idempotent : forall T, open_store (open_store T) = open_store T.
Proof. exact open_idempotent. Qed.

Theorem C18_reopen_many : forall n T, Nat.iter (S n) open_store T = open_store T.
Proof. exact open_many. Qed.

(** the key stored with a rebuilt head is the key of one of that author's records at exactly that
    timestamp *)
Theorem C18_rebuilt_head_names_a_record : forall T, t_latest T = [] ->
  forall ns au t k, tbl_get pair_cmp (ns, au) (t_latest (migrate_latest T)) = Some (t, k) ->
    exists l h, In ((ns, au, k), (t, l, h)) (t_records T).
Proof. exact migrate_heads_key. Qed.

(** End to end. [wf_records], [wf_index] and [HInv] are the invariants of a store that maintained its
    derived tables all along (next theorem: they hold after every history). On such a store, deleting
    the head table, the index or both and opening: same records, same content of every document, the
    same answer to EVERY query (key-ordered, author-ordered, latest-per-key, any filter, limit, offset,
    direction), the same head timestamp for every (document, author); a rebuilt head names a record. *)
Theorem C18_rebuilt_as_maintained : forall EH T l b, wf_records T -> wf_index T -> HInv T ->
  let T1 := open_store (wipe l b T) in
  t_records T1 = t_records T /\
  (forall ns, fs_all ns T1 = fs_all ns T) /\
  (forall ns q, run_query prefix_succ EH T1 ns q = run_query prefix_succ EH T ns q) /\
  (forall ns au, head_of T1 ns au = head_of T ns au) /\
  (t_latest (wipe l b T) = [] -> forall ns au t k, tbl_get pair_cmp (ns, au) (t_latest T1) = Some (t, k) ->
     exists len h, In ((ns, au, k), (t, len, h)) (t_records T)).
Proof. exact rebuilt_as_maintained. Qed.

Theorem C18_rebuilt_after_any_history : forall EH hist l b, Forall wf_entry hist ->
  let T := fs_puts EH empty_tables hist in
  let T1 := open_store (wipe l b T) in
  (forall ns, fs_all ns T1 = fs_all ns T) /\
  (forall ns q, run_query prefix_succ EH T1 ns q = run_query prefix_succ EH T ns q) /\
  (forall ns au, head_of T1 ns au = head_of T ns au).
Proof. exact rebuilt_after_any_history. Qed.

(** ... and after any history that also removes and re-creates documents *)
Theorem C18_rebuilt_in_every_reachable_store : forall EH hist l b, Forall wf_dop hist ->
  let T := drun EH hist in
  let T1 := open_store (wipe l b T) in
  (forall ns, fs_all ns T1 = fs_all ns T) /\
  (forall ns q, run_query prefix_succ EH T1 ns q = run_query prefix_succ EH T ns q) /\
  (forall ns au, head_of T1 ns au = head_of T ns au).
Proof. exact rebuilt_in_every_reachable_store. Qed.

(** Two documents, one author in both, a deletion marker, and two entries of one author at the same
    (greatest) timestamp written greater key first: the rebuilt head carries the same timestamp but
    the other key -- which of the tied entries a head names is history, not content. *)
Example C18_rebuild_with_ties :
  let hist := [mkE 1 5 [98] 10 1 3; mkE 1 5 [97] 10 1 4; mkE 2 5 [97;98] 7 1 3; mkE 2 5 [97] 9 0 77; mkE 1 6 [99] 8 2 3] in
  let T := fs_puts 77 empty_tables hist in
  let T1 := open_store (wipe true true T) in
  Forall wf_entry hist /\
  t_latest T  = [((1, 5), (10, [97])); ((1, 6), (8, [99])); ((2, 5), (9, [97]))] /\
  t_latest T1 = [((1, 5), (10, [98])); ((1, 6), (8, [99])); ((2, 5), (9, [97]))] /\
  fs_all 2 T1 = [mkE 2 5 [97] 9 0 77].
Proof.
  split; [apply wf_entryb_ok; vm_compute; reflexivity|]. vm_compute. repeat split.
Qed.

Print Assumptions C18_migrate_heads_exact.
Print Assumptions C18_migrate_index_exact.
Print Assumptions C18_open_uptodate_noop.
Print Assumptions C18_open_idempotent.
Print Assumptions C18_reopen_many.
Print Assumptions C18_rebuilt_head_names_a_record.
Print Assumptions C18_rebuilt_as_maintained.
Print Assumptions C18_rebuilt_after_any_history.
Print Assumptions C18_rebuild_with_ties.
Print Assumptions C18_rebuilt_in_every_reachable_store.
