(** C18 — opening an older database rebuilds derived tables exactly; reopening is a no-op. *)
From ID Require Import Model.StoreOps Proofs.MigrateFacts.

(** a rebuilt head table holds per (namespace, author) exactly the greatest timestamp among that
    author's records, for every content of the records table (multi-document, ties, markers) *)
Theorem C18_migrate_heads_exact : forall T, t_latest T = [] -> t_records T <> [] ->
  forall ns au,
    head_ts (t_latest (migrate_latest T)) ns au =
    match rows_of (t_records T) ns au with [] => None | rows => Some (max_list rows) end.
Proof. exact migrate_heads_exact. Qed.

(** a rebuilt by-key index lists exactly the (namespace, key, author) triples of the records *)
Theorem C18_migrate_index_exact : forall T, t_bykey T = [] ->
  forall ns k au, In ((ns, k, au), tt) (t_bykey (migrate_bykey T)) <-> exists v, In ((ns, au, k), v) (t_records T).
Proof. exact migrate_index_exact. Qed.

(** opening an up-to-date database changes nothing; opening twice is opening once *)
Theorem C18_open_uptodate_noop : forall T, t_latest T <> [] -> t_bykey T <> [] -> open_store T = T.
Proof. exact open_uptodate_noop. Qed.
Theorem C18_open_idempotent : forall T, open_store (open_store T) = open_store T.
Proof. exact open_idempotent. Qed.

Print Assumptions C18_migrate_heads_exact.
Print Assumptions C18_migrate_index_exact.
Print Assumptions C18_open_uptodate_noop.
Print Assumptions C18_open_idempotent.
