(** C13 — author heads and news detection.  PARTIAL (first instalment).
    Proved: what [has_news_for] counts. Not yet proved here: that the head table always holds the
    maximum timestamp per author (checked against the real store by the correspondence runs),
    and the size-limited encoding. *)
From ID Require Import Model.StoreOps Proofs.HeadsFacts.

Theorem C13_has_news_counts : forall theirs ours,
  has_news theirs ours = N.of_nat (length (filter (is_news ours) theirs)).
Proof. exact has_news_counts. Qed.

Theorem C13_no_news_iff : forall theirs ours,
  has_news theirs ours = 0 <->
  forall a t, In (a, t) theirs -> exists t', head_lookup a ours = Some t' /\ t <= t'.
Proof. exact no_news_iff. Qed.

Print Assumptions C13_has_news_counts.
Print Assumptions C13_no_news_iff.
