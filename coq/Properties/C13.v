(** C13 — author heads and news detection.
    Proved: the head table holds the per-author maximum after every history of inserts (any
    timestamp order), what [has_news_for] counts, and the size-limited encoding. *)
From ID Require Import Base.Bytes Model.Entry Model.Put Model.Tables Model.Bounds Model.FsStore Model.StoreOps Model.Heads Proofs.HeadsFacts Proofs.MigrateFacts Proofs.FsPutFacts Proofs.HeadKeyFacts Proofs.ReachFacts Proofs.ReachRebuild.

Theorem C13_has_news_counts : forall theirs ours,
  has_news theirs ours = N.of_nat (length (filter (is_news ours) theirs)).
Proof. exact has_news_counts. Qed.

Theorem C13_no_news_iff : forall theirs ours,
  has_news theirs ours = 0 <->
  forall a t, In (a, t) theirs -> exists t', head_lookup a ours = Some t' /\ t <= t'.
Proof. exact no_news_iff. Qed.

(** without a size limit every author is encoded (the encoded items are exactly the heads) *)
Theorem C13_encode_nolimit_all : forall heads, heads_encode_items false heads None = newest_first heads.
Proof. exact encode_nolimit_all. Qed.
Theorem C13_encoded_items_are_the_heads : forall heads t a, In (t, a) (newest_first heads) <-> In (a, t) heads.
Proof. exact newest_first_In. Qed.

(** under a limit (that admits at least the empty list) the encoding never exceeds it, keeps a
    newest-first prefix, and the prefix is maximal *)
Theorem C13_encode_limit : forall heads L,
  items_size [] <= L ->
  let sorted := newest_first heads in
  let items := heads_encode_items false heads (Some L) in
  items_size items <= L /\
  exists k, items = firstn k sorted /\
            match nth_error sorted k with Some nxt => L < items_size (items ++ [nxt]) | None => True end.
Proof. exact encode_limit. Qed.

(** a rebuilt head table holds the per-author maximum (shared with C18) *)
Theorem C13_rebuilt_heads_are_maxima : forall T, t_latest T = [] -> t_records T <> [] ->
  forall ns au,
    head_ts (t_latest (migrate_latest T)) ns au =
    match rows_of (t_records T) ns au with [] => None | rows => Some (max_list rows) end.
Proof. exact migrate_heads_exact. Qed.

(** sensitivity: re-keying the heads by timestamp (the pinned tree) loses an author *)
Example C13_encode_distinct_ts_refuted :
  let heads := [(2, 7); (3, 7)] in
  heads_encode_items true heads None = [(7, 3)] /\ heads_encode_items false heads None = [(7, 3); (7, 2)].
Proof. exact encode_distinct_ts_refuted. Qed.

(** the key reported with a head: after every history of inserts the head of (document, author)
    names an entry that is held -- that author's, at the head's timestamp, under the head's key *)
Theorem C13_head_names_a_held_entry : forall EH l, Forall wf_entry l ->
  forall ns au t k, head_row (fs_puts EH empty_tables l) ns au = Some (t, k) ->
    exists w, In w (recs (fs_puts EH empty_tables l)) /\ of_author ns au w /\ e_ts w = t /\ e_key w = k.
Proof. exact head_keys_exact. Qed.
Theorem C13_insert_keeps_head_key : forall EH T e, wf_records T -> wf_entry e -> KInv T -> KInv (fst (fs_put prefix_succ EH T e)).
Proof. exact fs_put_head_key. Qed.

(** ... and in every reachable store, removal and re-creation of documents included (where the stale
    heads of defect D6 lived): heads are maxima of what is held and name held entries *)
Theorem C13_heads_in_every_reachable_store : forall EH l, Forall wf_dop l ->
  HInv (drun EH l) /\ KInv (drun EH l).
Proof. exact reachable_heads. Qed.

Print Assumptions C13_has_news_counts.
Print Assumptions C13_encode_nolimit_all.
Print Assumptions C13_encoded_items_are_the_heads.
Print Assumptions C13_encode_limit.
Print Assumptions C13_rebuilt_heads_are_maxima.
Print Assumptions C13_encode_distinct_ts_refuted.
Print Assumptions C13_no_news_iff.

(** the head table after any history of inserts: the recorded head of an author is the timestamp
    of one of that author's entries now held, no entry of the author now held is newer, and an
    author without a head has no entry *)
Theorem C13_heads_are_maxima : forall EH l, Forall wf_entry l -> HInv (fs_puts EH empty_tables l).
Proof. exact heads_exact. Qed.
Theorem C13_insert_keeps_heads : forall EH T e, wf_records T -> wf_entry e -> HInv T -> HInv (fst (fs_put prefix_succ EH T e)).
Proof. exact fs_put_heads. Qed.
Check (eq_refl : HInv = fun T => forall ns au,
    match head_of T ns au with
    | Some t => (exists w, In w (recs T) /\ of_author ns au w /\ e_ts w = t) /\
                (forall x, In x (recs T) -> of_author ns au x -> e_ts x <= t)
    | None => forall x, In x (recs T) -> ~ of_author ns au x
    end).
Print Assumptions C13_heads_are_maxima.
Print Assumptions C13_insert_keeps_heads.
Print Assumptions C13_head_names_a_held_entry.
Print Assumptions C13_insert_keeps_head_key.
Print Assumptions C13_heads_in_every_reachable_store.
