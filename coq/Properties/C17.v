(** C17 — the useful-peer list is a bounded most-recently-used list.
    Specification (per document, oldest first): registering [p] turns the list [ps] into
    [lastn cap (without p ps ++ [p])]. [get_sync_peers] returns its reverse. *)
From ID Require Import Model.StoreOps Proofs.PeersFacts Proofs.CapFacts Proofs.SettingsFacts.

(** Any sequence of registrations for an existing document with strictly increasing clock
    readings (here: consecutive), starting from any state that satisfies the table invariant
    (in particular the empty table): the stored peers are the iterated specification, the
    invariant and the bound are maintained, and no other document or table is touched. *)
Theorem C17_peers_mru : forall cap ps T ns clock,
  1 <= cap -> get_cap T ns <> None -> vinv clock (peers_of T ns) -> N.of_nat (length (peers_of T ns)) <= cap ->
  exists T', register_all cap T ns clock ps = Some T'
    /\ map snd (peers_of T' ns) = fold_left (lru_step (N.to_nat cap)) ps (map snd (peers_of T ns))
    /\ vinv (clock + N.of_nat (length ps)) (peers_of T' ns)
    /\ N.of_nat (length (peers_of T' ns)) <= cap
    /\ (forall ns', ns <> ns' -> peers_of T' ns' = peers_of T ns')
    /\ same_but_peers T T'.
Proof. exact peers_mru. Qed.

(** the specification step yields at most [cap] distinct peers with [p] as the most recent *)
Theorem C17_spec_step_props : forall cap ps p, (1 <= cap)%nat -> NoDup ps ->
  (length (lru_step cap ps p) <= cap)%nat /\ NoDup (lru_step cap ps p) /\ last (lru_step cap ps p) p = p
  /\ In p (lru_step cap ps p).
Proof. exact lru_step_props. Qed.

Theorem C17_get_sync_peers_is_reverse : forall T ns,
  get_sync_peers T ns = match rev (map snd (peers_of T ns)) with [] => None | l => Some l end.
Proof. exact get_sync_peers_spec. Qed.

Theorem C17_register_unknown_fails : forall cap T ns p now,
  get_cap T ns = None -> register_useful_peer cap T ns p now = None.
Proof. exact register_unknown_fails. Qed.

(** the hypotheses are inhabited: the empty table of an existing document *)
Example C17_nonvacuous :
  let T := set_namespaces empty_tables [(7, None)] in
  get_cap T 7 <> None /\ vinv 1 (peers_of T 7) /\ N.of_nat (length (peers_of T 7)) <= 5.
Proof. vm_compute. repeat split; try discriminate; repeat constructor. Qed.

(** the peer list (like every per-document setting) survives reopening the store, with or without a
    rebuild of the derived tables *)
Theorem C17_survives_reopen : forall ks EH MF CAP s o, (o = SReopen \/ exists l b, o = SWipeReopen l b) ->
  let T' := s_tables (fst (store_step ks EH MF CAP s o)) in
  forall ns, get_sync_peers T' ns = get_sync_peers (s_tables s) ns /\
             get_policy T' ns = get_policy (s_tables s) ns /\
             get_cap T' ns = get_cap (s_tables s) ns.
Proof. exact reopen_keeps_settings. Qed.

(** a document's peer list is what the registrations for THIS document made it: any history of other
    store operations (registrations and removals of other documents, writes, reopen, refused calls)
    leaves it as it was *)
Theorem C17_history_keeps_peers : forall ks EH MF CAP ops s ns,
  Forall (fun o => (forall p, o <> SRegisterPeer ns p) /\ o <> SRemove ns) ops ->
  get_sync_peers (s_tables (fold_left (fun s o => fst (store_step ks EH MF CAP s o)) ops s)) ns = get_sync_peers (s_tables s) ns.
Proof. exact history_keeps_peers. Qed.

Print Assumptions C17_peers_mru.
Print Assumptions C17_spec_step_props.
Print Assumptions C17_get_sync_peers_is_reverse.
Print Assumptions C17_register_unknown_fails.
Print Assumptions C17_nonvacuous.
Print Assumptions C17_survives_reopen.
Print Assumptions C17_history_keeps_peers.
