(** Specification oracles for the store-level properties, evaluated on the implementation's own
    answers (no model state involved), and the shared case format.
      prop code: 7 = C07, 13 = C13, 15 = C15, 16 = C16, 17 = C17, 18 = C18 *)
From ID Require Export Check.Store.

Record case := mkCase { c_prop : N; c_ids : list N; c_hist : list (sop * sres) }.

Definition assoc_get {V} (k : N) (l : list (N * V)) : option V :=
  match find (fun p => fst p =? k) l with Some p => Some (snd p) | None => None end.
Definition assoc_del {V} (k : N) (l : list (N * V)) : list (N * V) := filter (fun p => negb (fst p =? k)) l.
(** keeps the list ascending by key *)
Fixpoint assoc_set {V} (k : N) (v : V) (l : list (N * V)) : list (N * V) :=
  match l with
  | [] => [(k, v)]
  | (k', v') :: r => if k <? k' then (k, v) :: l else if k =? k' then (k, v) :: r else (k', v') :: assoc_set k v r
  end.

(** documents that exist / are open, registrations and policies, tracked from the history *)
Record track := mkTr {
  tr_caps : list (N * bool);            (* existing documents (ascending) and whether writable *)
  tr_open : list N;
  tr_regs : list (N * list N);          (* successful peer registrations, newest first *)
  tr_pol : list (N * policy) }.
Definition tr0 := mkTr [] [] [] [].

Definition track_step (t : track) (o : sop) (r : sres) : track :=
  match o, r with
  | SImport ns c, RImport _ =>
      let w := match assoc_get ns (tr_caps t), c with
               | Some true, _ => true
               | _, Some _ => true
               | _, None => false
               end in
      mkTr (assoc_set ns w (tr_caps t)) (tr_open t) (tr_regs t) (tr_pol t)
  | SOpen ns, RUnit => mkTr (tr_caps t) (ns :: tr_open t) (tr_regs t) (tr_pol t)
  | SClose ns, _ => mkTr (tr_caps t) (filter (fun x => negb (x =? ns)) (tr_open t)) (tr_regs t) (tr_pol t)
  | SReopen, _ => mkTr (tr_caps t) [] (tr_regs t) (tr_pol t)
  | SRemove ns, RUnit => mkTr (assoc_del ns (tr_caps t)) (tr_open t) (assoc_del ns (tr_regs t)) (assoc_del ns (tr_pol t))
  | SRegisterPeer ns p, RUnit =>
      let old := match assoc_get ns (tr_regs t) with Some l => l | None => [] end in
      mkTr (tr_caps t) (tr_open t) (assoc_set ns (p :: old) (tr_regs t)) (tr_pol t)
  | SSetPolicy ns p, RUnit => mkTr (tr_caps t) (tr_open t) (tr_regs t) (assoc_set ns p (tr_pol t))
  | _, _ => t
  end.

Fixpoint dedup (l : list N) : list N :=
  match l with
  | [] => []
  | x :: r => x :: filter (fun y => negb (y =? x)) (dedup r)
  end.

Definition is_readonly_err (r : sres) : bool :=
  match r with RInsert (Err EReadOnly) => true | _ => false end.
Definition is_notfound (r : sres) : bool := match r with RNotFound => true | _ => false end.

(** ---- C07: capabilities ---- *)
Definition c07_ok (t : track) (o : sop) (r : sres) : bool :=
  match o, r with
  | SImport ns c, RImport out =>
      match assoc_get ns (tr_caps t), c, out with
      | None, _, ImpInserted => true
      | Some false, Some _, ImpUpgraded => true
      | Some false, None, ImpNoChange => true
      | Some true, _, ImpNoChange => true
      | _, _, _ => false
      end
  | SInsert ns _ _ _ _ _, r =>
      match assoc_get ns (tr_caps t) with
      | None => is_notfound r
      | Some false => match r with RInsert (Err EReadOnly) | RInsert (Err EEntryIsEmpty) => true | _ => false end
      | Some true => negb (is_readonly_err r) && negb (is_notfound r)
      end
  | SDelete ns _ _ _, r =>
      match assoc_get ns (tr_caps t) with
      | None => is_notfound r
      | Some false => is_readonly_err r
      | Some true => negb (is_readonly_err r) && negb (is_notfound r)
      end
  | SRemote ns e ok now, r =>
      match assoc_get ns (tr_caps t) with
      | None => is_notfound r
      | Some _ =>
          (* a valid, current remote entry is stored or superseded, whatever the capability *)
          negb (is_readonly_err r)
          && (negb (ok && (e_ns e =? ns) && validate_empty EHASH e && (e_ts e <=? now + MAXF))
              || match r with RInsert (Ok _) | RInsert (Err ENewerExists) => true | _ => false end)
      end
  | SListNamespaces, RNamespaces l => list_eqb nb_eqb l (tr_caps t)
  | _, _ => true
  end.

(** ---- C17: useful peers ---- *)
Definition c17_ok (t : track) (o : sop) (r : sres) : bool :=
  match o, r with
  | SRegisterPeer ns p, r =>
      match assoc_get ns (tr_caps t), r with
      | Some _, RUnit => true
      | None, RFail => true
      | _, _ => false
      end
  | SGetPeers ns, RPeers l =>
      let regs := match assoc_get ns (tr_regs t) with Some l => l | None => [] end in
      let expect := firstn (N.to_nat P_PEERS_PER_DOC_CACHE_SIZE) (dedup regs) in
      option_eqb (list_eqb N.eqb) l (match expect with [] => None | _ => Some expect end)
  | _, _ => true
  end.

(** ---- C15: download policy (store part) ---- *)
Definition c15_ok (t : track) (o : sop) (r : sres) : bool :=
  match o, r with
  | SSetPolicy ns p, r =>
      match assoc_get ns (tr_caps t), r with
      | Some _, RUnit => true
      | None, RFail => true
      | _, _ => false
      end
  | SGetPolicy ns, RPolicy p =>
      policy_eqb p (match assoc_get ns (tr_pol t) with Some q => q | None => default_policy end)
  | SMatches (EverythingExcept fs) k, RBool b => Bool.eqb b (negb (existsb (fun f => fmatch f k) fs))
  | SMatches (NothingExcept fs) k, RBool b => Bool.eqb b (existsb (fun f => fmatch f k) fs)
  | SFilterText f _, RText _ back => option_eqb fk_eqb back (Some f)     (* survives its textual form *)
  | _, _ => true
  end.

(** ---- C13: heads and news ---- *)
Fixpoint heads_spec (l : list entry) : list (N * N) :=   (* l ascending by author *)
  match l with
  | [] => []
  | e :: r =>
      match heads_spec r with
      | (a, t) :: hs => if a =? e_author e then (a, N.max t (e_ts e)) :: hs else (e_author e, e_ts e) :: (a, t) :: hs
      | [] => [(e_author e, e_ts e)]
      end
  end.
Definition news_spec (theirs ours : list (N * N)) : N :=
  N.of_nat (length (filter (fun h => match assoc_get (fst h) ours with
                                     | Some t => t <? snd h
                                     | None => true
                                     end) theirs)).
(** the encode clause: without a limit every author is kept; under a limit the encoding does not
    exceed it and holds a newest-first prefix that is maximal (one more would not fit) *)
Definition encode_ok (heads : list (N * N)) (limit : option N) (items : list (N * N)) (len : N) : bool :=
  let sorted := newest_first heads in
  match limit with
  | None => list_eqb nn_eqb items sorted
  | Some L =>
      (len <=? N.max L 1)
      && list_eqb nn_eqb items (firstn (length items) sorted)
      && match nth_error sorted (length items) with
         | Some nxt => L <? items_size (items ++ [nxt])
         | None => true
         end
  end.
Fixpoint c13_encodes (h : list (sop * sres)) : bool :=
  match h with
  | [] => true
  | (SHeadsEncode heads limit, RHeadItems items len) :: rest => encode_ok heads limit items len && c13_encodes rest
  (* nothing at all fits: an error, never an over-long encoding *)
  | (SHeadsEncode _ (Some L), RFail) :: rest => (L <? items_size []) && c13_encodes rest
  | (SHeadsEncode _ _, _) :: _ => false
  | _ :: rest => c13_encodes rest
  end.

(** adjacent observation pairs: (GetAll ns ; Heads ns) and (Heads ns ; HasNews ns) *)
Fixpoint c13_pairs (h : list (sop * sres)) : bool :=
  match h with
  | [] => true
  | (o1, r1) :: rest =>
      (match o1, r1, rest with
       | SGetAll ns, REntries l, (SHeads ns', RHeads hd) :: _ =>
           negb (ns =? ns')
           || (list_eqb nn_eqb (map fst hd) (heads_spec l)
               (* the head names an entry that is held: this author's, at this timestamp, under this key
                  (which one of several at the same timestamp is not specified) *)
               && forallb (fun h => let '(a, t, k) := h in
                             existsb (fun e => (e_author e =? a) && (e_ts e =? t) && bytes_eqb (e_key e) k) l) hd)
       | SHeads ns, RHeads ours, (SHasNews ns' theirs, RNews n) :: _ =>
           negb (ns =? ns') || (n =? news_spec theirs (map fst ours))
       | _, _, _ => true
       end) && c13_pairs rest
  end.

(** ---- C16: removal. The harness brackets every removal by two full dumps:
         dump = ListNamespaces; for each id (ascending): GetAll, Heads, GetPeers, GetPolicy; then
         ContentHashes, ListNamespaces (the list of documents directly before and after the removal) ---- *)
Definition obs_empty (r : sres) : bool :=
  match r with
  | REntries [] | RHeads [] | RPeers None => true
  | RPolicy p => policy_eqb p default_policy
  | _ => false
  end.
Definition op_ns (o : sop) : option N :=
  match o with
  | SGetAll ns | SHeads ns | SGetPeers ns | SGetPolicy ns => Some ns
  | _ => None
  end.
Fixpoint insert_n (x : N) (l : list N) : list N :=
  match l with [] => [x] | y :: r => if x <=? y then x :: l else y :: insert_n x r end.
Definition sort_n (l : list N) : list N := fold_right insert_n [] l.
Definition dump_hashes_ok (d : list (sop * sres)) : bool :=
  let held := flat_map (fun p => match snd p with REntries l => map e_hash l | _ => [] end) d in
  forallb (fun p => match snd p with RHashes hs => list_eqb N.eqb (sort_n hs) (sort_n held) | _ => true end) d.
Definition c16_dumps_ok (ns : N) (before after : list (sop * sres)) : bool :=
  Nat.eqb (length before) (length after)
  && forallb (fun ba =>
       let '((o1, r1), (o2, r2)) := ba in
       match op_ns o2 with
       | Some n => if n =? ns then obs_empty r2 else sres_eqb r1 r2
       | None =>
           match r1, r2 with
           | RNamespaces l1, RNamespaces l2 => list_eqb nb_eqb (filter (fun p => negb (fst p =? ns)) l1) l2
           | _, _ => true
           end
       end) (combine before after)
  && dump_hashes_ok after && dump_hashes_ok before.
Fixpoint c16_scan (dl : nat) (t : track) (h : list (sop * sres)) (prev : list (sop * sres)) : bool :=
  match h with
  | [] => true
  | (o, r) :: rest =>
      (match o, r with
       | SRemove ns, RUnit =>
           negb (existsb (N.eqb ns) (tr_open t))
           (* the removal of an existing document is bracketed by two dumps; removing a document that
              does not exist is an acknowledged no-op the histories do not bracket *)
           && match assoc_get ns (tr_caps t) with
              | None => true
              | Some _ => c16_dumps_ok ns (rev (firstn dl prev)) (firstn dl rest)
              end
       | SRemove ns, RFail => existsb (N.eqb ns) (tr_open t)
       | SRemove _, _ => false
       | _, _ => true
       end) && c16_scan dl (track_step t o r) rest ((o, r) :: prev)
  end.

(** ---- C18: the harness brackets every (wipe-and-)reopen by two identical dumps (contents,
         heads, key-ordered and latest-per-key queries); the answers must not change ---- *)
(** after a rebuild of the head table the head's key may be another of the author's entries at the same
    (greatest) timestamp -- a store that maintained its heads all along could hold either, depending on
    the order of arrival; that the key names a held entry is checked by [c13_pairs] *)
Definition c18_res_same (rebuilt_heads : bool) (a b : sres) : bool :=
  match a, b with
  | RHeads x, RHeads y => if rebuilt_heads then list_eqb nn_eqb (map fst x) (map fst y) else sres_eqb a b
  | _, _ => sres_eqb a b
  end.
Definition c18_same (rebuilt_heads : bool) (before after : list (sop * sres)) : bool :=
  Nat.eqb (length before) (length after)
  && forallb (fun ba => c18_res_same rebuilt_heads (snd (fst ba)) (snd (snd ba))) (combine before after).
Fixpoint c18_scan (dl : nat) (h : list (sop * sres)) (prev : list (sop * sres)) : bool :=
  match h with
  | [] => true
  | (o, r) :: rest =>
      (match o with
       | SWipeReopen l _ =>
           match r with RUnit => c18_same l (rev (firstn dl prev)) (firstn dl rest) | _ => false end
       | SReopen =>
           match r with RUnit => c18_same false (rev (firstn dl prev)) (firstn dl rest) | _ => false end
       | _ => true
       end) && c18_scan dl rest ((o, r) :: prev)
  end.

Fixpoint scan (ok : track -> sop -> sres -> bool) (t : track) (h : list (sop * sres)) : bool :=
  match h with
  | [] => true
  | (o, r) :: rest => ok t o r && scan ok (track_step t o r) rest
  end.

(** a document that does not exist (never imported, or removed and not imported again) shows no
    settings at any time -- whatever refused calls were made on it in between *)
Definition c16_absent_ok (t : track) (o : sop) (r : sres) : bool :=
  match o with
  | SGetPolicy ns | SGetPeers ns =>
      match assoc_get ns (tr_caps t) with
      | None => obs_empty r
      | Some _ => true
      end
  | _ => true
  end.

Definition spec_ok (c : case) : bool :=
  let h := c_hist c in
  if c_prop c =? 7 then scan c07_ok tr0 h
  else if c_prop c =? 13 then c13_pairs h && c13_encodes h
  else if c_prop c =? 15 then scan c15_ok tr0 h
  else if c_prop c =? 16 then c16_scan (4 * length (c_ids c) + 3) tr0 h [] && scan c16_absent_ok tr0 h
                              && forallb (fun p => match snd p with RBadFingerprint => false | _ => true end) h
  else if c_prop c =? 17 then scan c17_ok tr0 h
  else if c_prop c =? 18 then c18_scan (N.to_nat (nth 0 (c_ids c) 0)) h [] && c13_pairs h
  else true.

Definition check (c : case) : N :=
  bit (negb (run_store sinit (c_hist c))) 1 + bit (negb (spec_ok c)) 2.
