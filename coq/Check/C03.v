(** Correspondence check for C03 (and the event part of C12): tampered entries offered singly
    and inside crafted reconciliation messages. *)
From ID Require Export Check.C01.

Definition event_eqb (a b : event) : bool :=
  match a, b with
  | LocalInsert x, LocalInsert y => entry_eqb x y
  | RemoteInsert x f d s, RemoteInsert y f' d' s' => entry_eqb x y && (f =? f') && Bool.eqb d d' && (s =? s')
  | _, _ => false
  end.

Inductive step :=
  | Remote (e : entry) (sig_ok : bool) (now : N) (r : result)                 (* insert_remote_entry *)
  | Msg (m : message) (now : N) (reply : option message) (recv sent : N)      (* sync_process_message *)
  | ShortId (r : result)                                                      (* an id shorter than 64 bytes *)
  | Crash (m : message) (now : N).                                            (* the implementation panicked while processing m *)

Record case := mkCase {
  c_ns : N;
  c_ops : list (C02.op * result);
  c_before : list entry;
  c_steps : list (step * list event * list entry) }.   (* step, events seen, content after *)

Definition FROM : N := 0x0909090909090909090909090909090909090909090909090909090909090909.

(** what C03 demands of an entry that is accepted *)
Definition valid (ns now : N) (e : entry) (sig_ok : bool) : bool :=
  (e_ns e =? ns) && sig_ok && (e_ts e <=? now + MAXF) && validate_empty EHASH e.

Definition ev_entry (ev : event) : entry := match ev with LocalInsert e | RemoteInsert e _ _ _ => e end.

Fixpoint run_model (ns : N) (T : tables) (steps : list (step * list event * list entry)) : bool :=
  match steps with
  | [] => true
  | (st, evs, after) :: rest =>
      match st with
      | Remote e ok now r =>
          let '(T', r', evs') := replica_insert_remote KS EHASH MAXF T now ns (mkW e ok) FROM MISSING in
          result_eqb r r' && list_eqb event_eqb evs evs' && list_eqb entry_eqb (fs_all ns T') after
          && run_model ns T' rest
      | Msg m now reply recv sent =>
          let '(T', reply', oc, evs') := sync_process KS EHASH MAXF P_MAX_SET_SIZE P_SPLIT_FACTOR T now ns FROM (mkOC 0 0) m in
          option_eqb msg_eqb reply reply' && (oc_recv oc =? recv) && (oc_sent oc =? sent)
          && list_eqb event_eqb evs evs' && list_eqb entry_eqb (fs_all ns T') after
          && run_model ns T' rest
      | ShortId r => result_eqb r (Err EDecode) && run_model ns T rest
      | Crash _ _ => false
      end
  end.

(** specification on the implementation's own observations *)
Fixpoint abs_puts (S : list entry) (vs : list (entry * N)) (ns now : N) : list entry * list (entry * N) :=
  match vs with
  | [] => (S, [])
  | (e, st) :: r =>
      if valid ns now e (sig_bit_ok st) then
        match put S e with
        | (S', Inserted _) => let '(S'', ins) := abs_puts S' r ns now in (S'', (e, st) :: ins)
        | (S', NotInserted) => abs_puts S' r ns now
        end
      else abs_puts S r ns now
  end.

Fixpoint run_spec (ns : N) (S : list entry) (steps : list (step * list event * list entry)) : bool :=
  match steps with
  | [] => true
  | (st, evs, after) :: rest =>
      (match st with
       | Remote e ok now r =>
           if valid ns now e ok then
             (* a valid entry is applied or superseded, exactly as the abstract put says *)
             match put S e with
             | (S', Inserted n) => result_eqb r (Ok n) && set_eqb after S'
                                   && match evs with [RemoteInsert e' _ _ _] => entry_eqb e e' | _ => false end
             | (_, NotInserted) => result_eqb r (Err ENewerExists) && set_eqb after S
                                   && match evs with [] => true | _ => false end
             end
           else
             (* an invalid entry: error, nothing stored, nothing announced *)
             match r with Err _ => true | Ok _ => false end && set_eqb after S
             && match evs with [] => true | _ => false end
       | Msg m now reply recv sent =>
           let vs := flat_map part_values (filter is_item m) in
           let '(S', ins) := abs_puts S vs ns now in
           set_eqb after S'
           && list_eqb entry_eqb (map ev_entry evs) (map fst ins)
           && (recv =? N.of_nat (length (flat_map part_values m)))
       | ShortId r => match r with Err EDecode => true | _ => false end && set_eqb after S
       | Crash _ _ => false
       end) && run_spec ns after rest
  end.

Definition check (c : case) : N :=
  let '(ok, T) := C02.run_fs (c_ns c) empty_tables (c_ops c) in
  let m1 := list_eqb entry_eqb (fs_all (c_ns c) T) (c_before c) && run_model (c_ns c) T (c_steps c) in
  let m2 := run_spec (c_ns c) (c_before c) (c_steps c) in
  bit (negb m1) 1 + bit (negb m2) 2
  + bit (has_twin (c_before c ++ flat_map (fun s => match fst (fst s) with
                                            | Remote e _ _ _ => [e]
                                            | Msg m _ _ _ _ => map fst (flat_map part_values m)
                                            | ShortId _ => []
                                            | Crash m _ => map fst (flat_map part_values m) end) (c_steps c))) 4.
