(** Correspondence check for C06: the database image left by a crash after every operation,
    under every placement of the age-based auto-commit inside that operation, reopened and read
    back — against the micro-step commit model, and against the set of states the live store
    passed through between complete operations. *)
From ID Require Export Check.C03 Model.Commit Check.StoreProps.

Inductive cop :=
  | CRemote (e : entry)                     (* insert_remote_entry of a valid entry *)
  | CInsert (au : N) (k : bytes) (hash len now : N)
  | CDelete (au : N) (k : bytes) (now : N)
  | CFlush
  | CSnap                                  (* a read through snapshot() / snapshot_owned(): list_namespaces, list_authors, get_many, content_hashes *)
  | CFailingModify                         (* a store call refused inside modify(): set_download_policy for a document that does not exist *)
  | CRemove                                (* remove_replica of the (closed) document: one modify() over six tables *)
  | CImport.                               (* import_namespace of the document again *)

Record probe := mkProbe {
  p_op : N;                                 (* crash right after operation number p_op (from 0) ... *)
  p_forced : option N;                      (* ... with the auto-commit forced at this age-check (counted within the operation) *)
  p_opened : bool;                          (* the copied image opened *)
  p_content : list entry;                   (* get_many(all, include_empty) by author *)
  p_bykey : list entry;                     (* the same through the by-key index *)
  p_heads : list (N * N);
  p_exact_ok : bool;                        (* get_exact agrees for every entry read *)
  p_listed : bool }.                        (* list_namespaces names the document *)

Record hcase := mkCase {
  c_ns : N;
  c_ops : list cop;
  c_boundaries : list (list entry);         (* live content after 0, 1, 2, ... complete operations *)
  c_listed : list bool;                     (* ... and whether the document is listed there *)
  c_probes : list probe }.

Definition entry_of (ns : N) (o : cop) : option entry :=
  match o with
  | CRemote e => Some e
  | CInsert au k h l now => Some (mkE ns au k now l h)
  | CDelete au k now => Some (mkE ns au k now 0 EHASH)
  | CFlush | CSnap | CFailingModify | CRemove | CImport => None
  end.
(** local writes do not read the download policy afterwards *)
Definition micro_of (ns : N) (T : tables) (o : cop) : list micro :=
  match o with
  | CFlush | CSnap => [MCommit]
  | CFailingModify => [MModify (fun T => T)]     (* the closure fails: nothing is written, the transaction stays open *)
  | CRemove => [MModify (fun T => remove_replica T ns)]
  | CImport => [MModify (fun T => fst (import_namespace T ns (Some 0)))]
  | CRemote e => MTables (* open_replica *) :: put_micro KS EHASH T e
  | _ => match entry_of ns o with
         | Some e => MTables (* open_replica *) ::
                     match put_micro KS EHASH T e with
                     | [a; b; c; _] => [a; b; c]
                     | l => l
                     end
         | None => []
         end
  end.

(** run the micro-steps of one operation; the age check that fires is the [forced]-th one made
    while a write transaction is open (that is what the hook counts) *)
Fixpoint run_forced (s : cstate) (ms : list micro) (forced : option N) (count : N) : cstate :=
  match ms with
  | [] => s
  | m :: r =>
      let checks := match m with MTables => c_write_open s | _ => false end in
      let aged := checks && match forced with Some n => n =? count | None => false end in
      run_forced (micro_step false s m aged) r forced (if checks then count + 1 else count)
  end.

Fixpoint run_ops (ns : N) (s : cstate) (ops : list cop) : cstate :=
  match ops with
  | [] => s
  | o :: r => run_ops ns (run_forced s (micro_of ns (c_working s) o) None 0) r
  end.

Definition model_probe (ns : N) (s0 : cstate) (ops : list cop) (p : probe) : tables :=
  let before := firstn (N.to_nat (p_op p)) ops in
  let s := run_ops ns s0 before in
  match nth_error ops (N.to_nat (p_op p)) with
  | Some o => c_durable (run_forced s (micro_of ns (c_working s) o) (p_forced p) 0)
  | None => c_durable s
  end.

(** index of the boundary right after the last explicit flush among operations 0..i (0 if none) *)
Fixpoint last_flush (ops : list cop) (i : nat) (pos : nat) (acc : nat) : nat :=
  match ops with
  | [] => acc
  | o :: r => if Nat.ltb i pos then acc
              else last_flush r i (S pos) (match o with CFlush => S pos | _ => acc end)
  end.

Definition heads_of_content (l : list entry) : list (N * N) := heads_spec l.

Definition check_history (c : hcase) : N :=
  let ns := c_ns c in
  (* the store after import + open + flush: the namespace row is durable *)
  let T0 := set_namespaces empty_tables [(ns, Some 0)] in
  let s0 := mkC T0 T0 false in
  let m1 := forallb (fun p =>
              let D := model_probe ns s0 (c_ops c) p in
              p_opened p && list_eqb entry_eqb (fs_all ns D) (p_content p)
              && list_eqb nn_eqb (heads_of D ns) (p_heads p)
              && Bool.eqb (p_listed p) (match get_cap D ns with Some _ => true | None => false end)) (c_probes c) in
  let m2 := forallb (fun p =>
              p_opened p && p_exact_ok p
              (* a state the live store passed through between two complete operations, not later than the crash *)
              (* ... and not earlier than the last flush (flushed data survives) *)
              && existsb (fun b => list_eqb entry_eqb (fst b) (p_content p) && Bool.eqb (snd b) (p_listed p))
                         (skipn (last_flush (c_ops c) (N.to_nat (p_op p)) 0 0)
                                (firstn (S (S (N.to_nat (p_op p)))) (combine (c_boundaries c) (c_listed c))))
              (* a document that is not listed shows nothing at all *)
              && (p_listed p || match p_content p, p_heads p, p_bykey p with [], [], [] => true | _, _, _ => false end)
              (* the tables agree with each other *)
              && set_eqb (p_bykey p) (p_content p)
              && list_eqb nn_eqb (p_heads p) (heads_of_content (p_content p))) (c_probes c) in
  bit (negb m1) 1 + bit (negb m2) 2.

(** through the store handle: what the actor has acknowledged before an acknowledged [flush_store] is in
    the file when the process is killed right afterwards (the file is copied after the flush returned,
    before anything else touches the store; [expected] is what the live store holds at that moment) *)
Inductive case :=
  | Hist (c : hcase)
  | ActorFlush (opened : bool) (expected recovered : list entry).

Definition check (c : case) : N :=
  match c with
  | Hist c => check_history c
  | ActorFlush opened expected recovered =>
      bit (negb (opened && set_eqb expected recovered)) 2
  end.
