(** Shared executable helpers for the correspondence checks (evaluated with vm_compute on the
    cases the Rust harness writes). *)
From ID Require Export Params Model.Replica.

Definition KS := prefix_succ.           (* the key-successor the crate's bounds.rs implements *)
Definition EHASH := P_EMPTY_HASH.
Definition MAXF := P_MAX_TIMESTAMP_FUTURE_SHIFT.

Fixpoint list_eqb {A} (eqb : A -> A -> bool) (a b : list A) : bool :=
  match a, b with
  | [], [] => true
  | x :: a', y :: b' => eqb x y && list_eqb eqb a' b'
  | _, _ => false
  end.
Definition option_eqb {A} (eqb : A -> A -> bool) (a b : option A) : bool :=
  match a, b with Some x, Some y => eqb x y | None, None => true | _, _ => false end.

Definition subset_b (a b : list entry) : bool := forallb (fun x => existsb (entry_eqb x) b) a.
Definition set_eqb (a b : list entry) : bool := subset_b a b && subset_b b a.

Definition err_eqb (a b : err) : bool :=
  match a, b with
  | EEntryIsEmpty, EEntryIsEmpty | EClosed, EClosed | EReadOnly, EReadOnly
  | EInvalidNamespace, EInvalidNamespace | EBadSignature, EBadSignature | EFuture, EFuture
  | EInvalidEmpty, EInvalidEmpty | ENewerExists, ENewerExists | EStore, EStore
  | EDecode, EDecode | EPanic, EPanic => true
  | _, _ => false
  end.
Definition result_eqb (a b : result) : bool :=
  match a, b with
  | Ok n, Ok m => n =? m
  | Err x, Err y => err_eqb x y
  | _, _ => false
  end.

(** indices (from 0) and codes of the cases whose code is non-zero *)
Fixpoint failing_from {C} (f : C -> N) (i : N) (l : list C) : list (N * N) :=
  match l with
  | [] => []
  | c :: r => let code := f c in
              if code =? 0 then failing_from f (i + 1) r else (i, code) :: failing_from f (i + 1) r
  end.
Definition failing {C} (f : C -> N) (l : list C) : list (N * N) := failing_from f 0 l.

Definition bit (b : bool) (w : N) : N := if b then w else 0.
