(** Correspondence check for C10: the real session drivers over an in-memory duplex stream with
    a scripted peer, against the session model on top of the actor model. *)
From ID Require Export Check.Actor Model.Session.

Record dcase := mkCase {
  c_bob : bool;                                   (* which driver is the real one *)
  c_setup : list (aop * ares * deliveries);       (* requests that bring the actor into its state *)
  c_accept : option N;                            (* bob: the accept callback rejects with this reason *)
  c_ns : N;                                       (* alice: the document she syncs *)
  c_now : N;
  c_frames : list fin;                            (* what the scripted peer does *)
  c_result : sres_kind;
  c_namespace : option N;
  c_outcome : option (N * N);                     (* None = asking for the outcome panicked *)
  c_sent : list (option message);                 (* frames the real driver wrote *)
  c_before : list (N * list entry);               (* document contents before / after *)
  c_after : list (N * list entry);
  c_hung : bool;
  c_panicked : bool }.

Definition FROM_PEER : N := 0x0909090909090909090909090909090909090909090909090909090909090909.

Definition kind_eqb (a b : sres_kind) : bool :=
  match a, b with
  | SOk, SOk | SErrSync, SErrSync | SErrRemoteAbort, SErrRemoteAbort => true
  | SErrAbort x, SErrAbort y => x =? y
  | _, _ => false
  end.
Definition oc_eqb (a b : option (N * N)) : bool := option_eqb (fun x y => (fst x =? fst y) && (snd x =? snd y)) a b.

Definition session_values (l : list (option message)) : N :=
  fold_left (fun a m => a + match m with Some m => value_count m | None => 0 end) l 0.

Definition check_driver (c : dcase) : N :=
  let '(bad, s) := run_actor (ainit empty_tables) (c_setup c) 1 in
  let content s := forallb (fun p => list_eqb entry_eqb (fs_all (fst p) (a_tables s)) (snd p)) in
  let m1 :=
    (bad =? 0) && content s (c_before c) &&
    if c_bob c then
      let '(s', o) := bob_run KS EHASH MAXF P_PEERS_PER_DOC_CACHE_SIZE P_MAX_SET_SIZE P_SPLIT_FACTOR true
                              s (fun _ => c_accept c) FROM_PEER (c_now c) (c_frames c) in
      kind_eqb (bo_result o) (c_result c) && option_eqb N.eqb (bo_namespace o) (c_namespace c)
      && oc_eqb (bo_outcome o) (c_outcome c)
      && list_eqb (option_eqb msg_eqb) (bo_sent o) (c_sent c) && content s' (c_after c)
    else
      let '(s', o) := alice_run KS EHASH MAXF P_PEERS_PER_DOC_CACHE_SIZE P_MAX_SET_SIZE P_SPLIT_FACTOR
                                s (c_ns c) FROM_PEER (c_now c) (c_frames c) in
      kind_eqb (ao_result o) (c_result c)
      && (match ao_result o with SOk => oc_eqb (ao_outcome o) (c_outcome c) | _ => true end)
      && list_eqb (option_eqb msg_eqb) (map Some (ao_sent o)) (c_sent c) && content s' (c_after c) in
  (* the property on the implementation's own observations *)
  let m2 :=
    negb (c_hung c) && negb (c_panicked c)
    && (negb (c_bob c) || match c_outcome c with Some _ => true | None => false end)       (* bob can always report *)
    (* ... and once the request named a document, the report names it (the engine frees the
       per-document slot by it), whatever failed afterwards *)
    && (negb (c_bob c) || match c_frames c, c_result c with
                          (* declined: no slot is held for this request, so the report must not name the
                             document -- the engine frees the slot of whatever report names it, and that
                             slot belongs to the session that made this request be declined (C11) *)
                          | _, SErrAbort _ => match c_namespace c with None => true | Some _ => false end
                          | FMsg true _ n _ :: _, _ => option_eqb N.eqb (c_namespace c) (Some n)
                          | _, _ => true
                          end)
    && (match c_result c with
        | SErrAbort _ => list_eqb final_eqb (c_before c) (c_after c)                          (* declined: nothing changed *)
        | SOk => match c_outcome c with
                 | Some (_, snt) => snt =? session_values (if c_bob c then c_sent c else tl (c_sent c))
                 | None => false
                 end
        | _ => true
        end) in
  bit (negb m1) 1 + bit (negb m2) 2.

(** the outermost layer: [connect_and_sync] against [handle_connection] over two real endpoints;
    what is done to a side beforehand: 0 nothing, 1 sync disabled, 2 replica closed, 3 actor
    stopped, 4 (acceptor) the accept callback declines, 5 the actor is shut down while the session runs
    (the shutdown request is issued together with the session) *)
Inductive case :=
  | Drv (d : dcase)
  | Net (initiator acceptor : N) (hung acceptor_panicked initiator_ok acceptor_ok : bool)
        (initiator_recv_sent acceptor_recv_sent : N * N)
        (acceptor_error_after_allow_names_no_document : bool).

Definition check (c : case) : N :=
  match c with
  | Drv d => check_driver d
  | Net fa fb hung bp aok bok ac bc unnamed =>
      let healthy := (fa =? 0) && (fb =? 0) in
      (* 5 = the actor is shut down while the session runs: the session may still complete before it *)
      let surely_broken := negb ((fa =? 0) || (fa =? 5)) || negb ((fb =? 0) || (fb =? 5)) in
      (* 6 = the initiator vanishes right after the acceptor allowed the request *)
      let m2 :=
        negb hung && negb bp                                   (* both calls return, nobody panics *)
        (* once the request was allowed the slot for (document, peer) is held: whatever fails afterwards,
           the accepting side's report names the document (the engine frees the slot by it) *)
        && negb unnamed
        && (negb healthy || (aok && bok))                      (* nothing wrong on either side: both succeed *)
        && (negb (aok && bok) || negb surely_broken)           (* both succeed only if nothing was wrong *)
        && (negb (aok && bok) || ((snd ac =? fst bc) && (fst ac =? snd bc))) in   (* counters mirror *)
      bit (negb m2) 2
  end.
