(** Correspondence check for C05: queries on the real store against the iterator model and the
    declarative specification. *)
From ID Require Export Check.C02 Model.Query.

Record case := mkCase {
  c_ns : N;
  c_ops : list (C02.op * result);          (* history that builds the state *)
  c_all : list entry;                      (* the implementation's content (all, include_empty) *)
  c_queries : list (query * list entry);   (* query and the implementation's answer *)
  c_exact : list (N * bytes * bool * option entry) }.   (* get_exact(author,key,include_empty) *)

Definition check (c : case) : N :=
  let '(ok1, T) := C02.run_fs (c_ns c) empty_tables (c_ops c) in
  let m1 := forallb (fun qr => list_eqb entry_eqb (run_query KS EHASH T (c_ns c) (fst qr)) (snd qr)) (c_queries c)
            && forallb (fun x => let '(a, k, ie, r) := x in
                                 option_eqb entry_eqb (fs_get_exact EHASH T (c_ns c) a k ie) r) (c_exact c) in
  let m2 := forallb (fun qr => list_eqb entry_eqb (query_spec EHASH (c_all c) (fst qr)) (snd qr)
                               && (negb (q_latest (fst qr)) || q_include_empty (fst qr) || true)) (c_queries c)
            && forallb (fun x => let '(a, k, ie, r) := x in
                         option_eqb entry_eqb
                           (match filter (fun e => (e_author e =? a) && bytes_eqb (e_key e) k
                                                   && (ie || negb (is_marker EHASH e))) (c_all c) with
                            | e :: _ => Some e | [] => None end) r) (c_exact c) in
  bit (negb m1) 1 + bit (negb m2) 2.
