(** Correspondence check for C01 / C08: a complete reconciliation session between two real
    replicas against the session of the model (table-level store), against the same algorithm
    over a plain ordered list (reference ordered map), and against the specification
    (both ends = join of the starting sets, mirrored counters, bounded length, silent second
    session). *)
From ID Require Export Check.C02 Model.Ranger.

Record case := mkCase {
  c_nsid : N;
  c_cfg : N * N;                           (* max_set_size, split_factor *)
  c_now : N;
  c_opsA : list (C02.op * result);         (* histories that build the two states *)
  c_opsB : list (C02.op * result);
  c_foreignA : list entry;                 (* entries of other documents held in the same store *)
  c_foreignB : list entry;
  c_A0 : list entry;                       (* contents before the session (implementation) *)
  c_B0 : list entry;
  c_init : message;                        (* A's initial message *)
  c_transcript : list message;             (* replies: B, A, B, ... *)
  c_A1 : list entry;                       (* contents after the session *)
  c_B1 : list entry;
  c_ocA : N * N;                           (* (num_recv, num_sent) *)
  c_ocB : N * N;
  c_second_msgs : N;                       (* second session: number of replies, values moved *)
  c_second_values : N;
  c_fp_ok : bool;                          (* every wire fingerprint = real fingerprint of its recorded entry list *)
  c_panicked : bool }.

Definition pv_eqb (a b : entry * N) : bool := entry_eqb (fst a) (fst b) && (snd a =? snd b).
Definition part_eqb (p q : part) : bool :=
  match p, q with
  | PFp x y f, PFp x' y' f' => rid_eqb x x' && rid_eqb y y' && fp_eqb f f'
  | PItem x y v h, PItem x' y' v' h' => rid_eqb x x' && rid_eqb y y' && list_eqb pv_eqb v v' && Bool.eqb h h'
  | _, _ => false
  end.
Definition msg_eqb (a b : message) : bool := list_eqb part_eqb a b.

(** the ordered-list session (same driver, other store instance): [Model.Ranger.list_session]
    with the validation of the sync path *)
Definition om_valid (now ns : N) (e : entry) (st : N) : bool :=
  validate_empty EHASH e && match validate_entry MAXF now ns (mkW e (sig_bit_ok st)) false with None => true | Some _ => false end.
Definition om_session (cfg : N * N) (fuel : nat) (now ns : N) :=
  list_session (fst cfg) (snd cfg) (om_valid now ns) fuel.

Definition total_values (ms : list message) : N := fold_left (fun a m => a + value_count m) ms 0.

(** code: 1 = model (table-level store) differs; 2 = specification violated by the
    implementation; 4 = twin-len pair among the starting entries (known class D11);
    8 = the ordered-list reference differs from the implementation (C08) *)
Definition check (c : case) : N :=
  let ns := c_nsid c in
  let '(okA, TA) := C02.run_fs ns empty_tables (c_opsA c) in
  let '(okB, TB) := C02.run_fs ns empty_tables (c_opsB c) in
  let TA := fold_left (fun T e => fst (fs_put KS EHASH T e)) (c_foreignA c) TA in
  let TB := fold_left (fun T e => fst (fs_put KS EHASH T e)) (c_foreignB c) TB in
  let fuel := (4 * (length (c_A0 c) + length (c_B0 c)) + 16)%nat in
  let init := initial_message (fs_ops KS EHASH ns) TA in
  let m1 :=
    match session KS EHASH MAXF (fst (c_cfg c)) (snd (c_cfg c)) fuel (c_now c) ns ns TA TB (mkOC 0 0) (mkOC 0 0) init true [] with
    | None => false
    | Some (TA', TB', ocA, ocB, tr) =>
        msg_eqb init (c_init c) && list_eqb msg_eqb tr (c_transcript c)
        && list_eqb entry_eqb (fs_all ns TA') (c_A1 c) && list_eqb entry_eqb (fs_all ns TB') (c_B1 c)
        && (oc_recv ocA =? fst (c_ocA c)) && (oc_sent ocA =? snd (c_ocA c))
        && (oc_recv ocB =? fst (c_ocB c)) && (oc_sent ocB =? snd (c_ocB c))
    end in
  let m8 :=
    let init' := initial_message om_ops (c_A0 c) in
    match om_session (c_cfg c) fuel (c_now c) ns (c_A0 c) (c_B0 c) init' true [] with
    | None => false
    | Some (SA, SB, tr) =>
        msg_eqb init' (c_init c) && list_eqb msg_eqb tr (c_transcript c)
        && list_eqb entry_eqb SA (c_A1 c) && list_eqb entry_eqb SB (c_B1 c)
    end in
  let j := join (c_A0 c) (c_B0 c) in
  let nmsgs := N.of_nat (S (length (c_transcript c))) in
  let m2 :=
    negb (c_panicked c) && c_fp_ok c
    && set_eqb (c_A1 c) j && set_eqb (c_B1 c) j && list_eqb entry_eqb (c_A1 c) (c_B1 c)
    && (snd (c_ocA c) =? fst (c_ocB c)) && (fst (c_ocA c) =? snd (c_ocB c))
    && (fst (c_ocA c) + fst (c_ocB c) =? total_values (c_transcript c))
    && (nmsgs <=? 2 * (nlen (c_A0 c) + nlen (c_B0 c)) + 4)
    && (c_second_msgs c =? 0) && (c_second_values c =? 0) in
  bit (negb (okA && okB && m1)) 1 + bit (negb m2) 2 + bit (has_twin (c_A0 c ++ c_B0 c)) 4 + bit (negb m8) 8.
