(** Correspondence check for C08: (a) sessions — the real transcript against the same algorithm
    over a plain ordered list; (b) direct probes of the store operations reconciliation uses
    (range scans of the three shapes, first key, parent lookup, prefix removal) against the
    table-level model and against the ordered-map definitions. *)
From ID Require Export Check.C01.

Inductive case :=
  | Session (c : C01.case)
  | Probe (ns : N) (ops : list (C02.op * result)) (foreign : list entry) (all : list entry) (first : rid)
          (ranges : list (rid * rid * list entry))            (* get_range x y *)
          (parents : list (N * bytes * list entry))           (* prefixes_of (author, key) *)
          (removal : N * bytes * N * N * list entry).         (* remove_prefix_filtered author key ts<=bound -> count, content after *)

Definition check (c : case) : N :=
  match c with
  | Session s =>
      let code := C01.check s in
      bit (N.testbit code 0) 1 + bit (N.testbit code 3 || negb (c_fp_ok s)) 2 + bit (N.testbit code 2) 4
  | Probe ns ops foreign all first ranges parents removal =>
      let '(ok, T) := C02.run_fs ns empty_tables ops in
      let T := fold_left (fun T e => fst (fs_put KS EHASH T e)) foreign T in
      let '(rau, rkey, rts, rcount, rafter) := removal in
      let '(T', n') := fs_remove_prefix_filtered KS T ns rau rkey (fun e => e_ts e <=? rts) in
      let m1 :=
        list_eqb entry_eqb (fs_all ns T) all
        && rid_eqb (fs_get_first ns T) first
        && forallb (fun r => let '(x, y, l) := r in list_eqb entry_eqb (fs_get_range ns T x y) l) ranges
        && forallb (fun p => let '(a, k, l) := p in list_eqb entry_eqb (fs_prefixes_of EHASH T ns a k) l) parents
        && (n' =? rcount) && list_eqb entry_eqb (fs_all ns T') rafter in
      let m2 :=
        rid_eqb (so_first om_ops all) first
        && forallb (fun r => let '(x, y, l) := r in list_eqb entry_eqb (so_range om_ops all x y) l) ranges
        && forallb (fun p => let '(a, k, l) := p in
                     set_eqb (filter (fun e => (e_author e =? a) && is_prefix (e_key e) k) all) l
                     && forallb (fun e => true) l) parents
        && (let gone := filter (fun e => (e_author e =? rau) && is_prefix rkey (e_key e) && (e_ts e <=? rts)) all in
            (nlen gone =? rcount)
            && list_eqb entry_eqb (filter (fun e => negb ((e_author e =? rau) && is_prefix rkey (e_key e) && (e_ts e <=? rts))) all) rafter) in
      bit (negb m1) 1 + bit (negb m2) 2
  end.
