(** Correspondence check for C02: the real replica (results per operation, final content)
    against (1) the table-level model, (2) the abstract [put] / [reduce] specification. *)
From ID Require Export Check.Common.

Inductive op :=
  | OpInsert (au : N) (k : bytes) (hash len now : N)
  | OpDelete (au : N) (k : bytes) (now : N)
  | OpRemote (e : entry) (now : N).

Record case := mkCase {
  c_ns : N;
  c_ops : list (op * result);     (* operation and what the implementation answered *)
  c_final : list entry }.          (* get_many(all, include_empty) of the implementation *)

(** (1) table-level model *)
Definition step_fs (ns : N) (T : tables) (o : op) : tables * result :=
  match o with
  | OpInsert au k h l now => fst (replica_insert KS EHASH MAXF T now ns true au k h l)
  | OpDelete au k now => fst (replica_delete_prefix KS EHASH MAXF T now ns true au k)
  | OpRemote e now => fst (replica_insert_remote KS EHASH MAXF T now ns (mkW e true) 0 0)
  end.
Fixpoint run_fs (ns : N) (T : tables) (ops : list (op * result)) : bool * tables :=
  match ops with
  | [] => (true, T)
  | (o, r) :: rest =>
      let '(T', r') := step_fs ns T o in
      let '(ok, Tf) := run_fs ns T' rest in
      (result_eqb r r' && ok, Tf)
  end.

(** (2) abstract specification: the entry each operation offers, if it is a valid offer *)
Definition offered (ns : N) (o : op) : option entry + err :=
  match o with
  | OpInsert au k h l now =>
      if (l =? 0) || (h =? EHASH) then inr EEntryIsEmpty else inl (Some (mkE ns au k now l h))
  | OpDelete au k now => inl (Some (mkE ns au k now 0 EHASH))
  | OpRemote e now =>
      if negb (validate_empty EHASH e) then inr EInvalidEmpty
      else if negb (e_ns e =? ns) then inr EInvalidNamespace
      else if now + MAXF <? e_ts e then inr EFuture
      else inl (Some e)
  end.
Fixpoint run_abs (ns : N) (S : list entry) (ops : list (op * result)) : bool * list entry * list entry :=
  match ops with
  | [] => (true, S, [])
  | (o, r) :: rest =>
      match offered ns o with
      | inr er => let '(ok, Sf, off) := run_abs ns S rest in (result_eqb r (Err er) && ok, Sf, off)
      | inl None => run_abs ns S rest
      | inl (Some e) =>
          let '(S', out) := put S e in
          let r' := match out with NotInserted => Err ENewerExists | Inserted n => Ok n end in
          let '(ok, Sf, off) := run_abs ns S' rest in
          (result_eqb r r' && ok, Sf, e :: off)
      end
  end.

(** code: 1 = implementation differs from the table-level model; 2 = implementation differs
    from the abstract put / its final content is not [reduce] of the valid offers;
    4 = the offers contain a twin-len pair (known-finding class D11) *)
Definition check (c : case) : N :=
  let '(ok1, T) := run_fs (c_ns c) empty_tables (c_ops c) in
  let m1 := ok1 && list_eqb entry_eqb (fs_all (c_ns c) T) (c_final c) in
  let '(ok2, Sf, off) := run_abs (c_ns c) [] (c_ops c) in
  let m2 := ok2 && set_eqb Sf (c_final c) && set_eqb (reduce off) (c_final c) in
  bit (negb m1) 1 + bit (negb m2) 2 + bit (has_twin off) 4.
