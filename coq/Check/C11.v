(** Correspondence check for C11: schedules of dial / deliver / lose / finish / handle steps
    applied to two real live actors (dials recorded, not performed; session results synthetic)
    against the coordination model, with the property's clauses evaluated on the implementation's
    own observations. *)
From ID Require Export Model.Coord Check.Common.

Record obs := mkObs {
  o_trans : trans;
  o_hi : node;                      (* the two nodes' (state, resync) after the step *)
  o_lo : node;
  o_new_dials : list (bool * N);    (* dials made by this step, oldest first *)
  o_in_progress : N;                (* sessions with both ends running, from the implementation-driven bookkeeping *)
  o_in_flight : N }.                (* requests, replies, sessions, failed tasks still pending *)

Record case := mkCase { c_steps : list obs; c_notfound_ok : bool }.

Definition cst_eqb (a b : cst) : bool :=
  match a, b with
  | Idle, Idle | RunA, RunA => true
  | RunC x, RunC y => x =? y
  | _, _ => false
  end.
Definition node_eqb (a b : node) : bool := cst_eqb (n_st a) (n_st b) && Bool.eqb (n_resync a) (n_resync b).
Definition dial_eqb (a b : bool * N) : bool := Bool.eqb (fst a) (fst b) && (snd a =? snd b).

(** the invariant behind the theorems, as a boolean (also checked on every model state visited) *)
Definition pend_c (x : bool) (l : list item) : nat :=
  length (filter (fun it => match it with
                            | IReq y _ | IReply y _ | IFail y _ => Bool.eqb x y
                            | ISess y _ c _ => Bool.eqb x y && match c with EHandled => false | _ => true end
                            end) l).
Definition pend_a (x : bool) (l : list item) : nat :=
  length (filter (fun it => match it with
                            | ISess y _ _ a => Bool.eqb x (negb y) && match a with EHandled => false | _ => true end
                            | _ => false
                            end) l).
Definition is_idle (n : node) := match n_st n with Idle => true | _ => false end.
Definition is_runc (n : node) := match n_st n with RunC _ => true | _ => false end.
Definition is_runa (n : node) := match n_st n with RunA => true | _ => false end.
Definition inv_b (s : cstate) : bool :=
  let l := items s in
  Nat.leb (pend_c false l + pend_a false l) 1
  && Bool.eqb (is_idle (lo s)) (Nat.eqb (pend_c false l + pend_a false l) 0)
  && Bool.eqb (is_runc (lo s)) (Nat.eqb (pend_c false l) 1)
  && Bool.eqb (is_runa (lo s)) (Nat.eqb (pend_a false l) 1)
  && (negb (is_runc (hi s)) || Nat.leb 1 (pend_c true l))
  && (negb (is_runa (hi s)) || Nat.leb 1 (pend_a true l)).

Fixpoint run_model (s : cstate) (steps : list obs) : bool :=
  match steps with
  | [] => true
  | o :: rest =>
      let s' := cstep true s (o_trans o) in
      let newd := rev (firstn (length (dials s') - length (dials s)) (dials s')) in
      node_eqb (hi s') (o_hi o) && node_eqb (lo s') (o_lo o) && list_eqb dial_eqb newd (o_new_dials o)
      && (N.of_nat (sessions_in_progress s') =? o_in_progress o) && (N.of_nat (length (items s')) =? o_in_flight o)
      && inv_b s' && run_model s' rest
  end.

(** "a refused report leads to exactly one follow-up dial": a Resync dial made by a handler (not by
    the schedule's own dial step) needs the node's resync flag set before the step and finds it
    cleared afterwards, and there is at most one per step and node *)
Fixpoint resync_rule (ph pl : bool) (steps : list obs) : bool :=
  match steps with
  | [] => true
  | o :: rest =>
      let own x := match o_trans o with TDial y 3 => if Bool.eqb x y then 1%nat else 0%nat | _ => 0%nat end in
      let made x := (length (filter (fun d => Bool.eqb (fst d) x && (snd d =? 3)) (o_new_dials o)) - own x)%nat in
      let ok x before after :=
        match made x with
        | O => true
        | S O => before && negb after
        | _ => false
        end in
      ok true ph (n_resync (o_hi o)) && ok false pl (n_resync (o_lo o))
      && resync_rule (n_resync (o_hi o)) (n_resync (o_lo o)) rest
  end.

Definition check (c : case) : N :=
  let m1 := run_model cinit (c_steps c) in
  let m2 := c_notfound_ok c && resync_rule false false (c_steps c)
            && forallb (fun o => (o_in_progress o <=? 1)
                                 && (negb (o_in_flight o =? 0) || (is_idle (o_hi o) && is_idle (o_lo o)))) (c_steps c) in
  bit (negb m1) 1 + bit (negb m2) 2.
