(** Correspondence check shared by the store-level properties (C07 C13 C15 C16 C17 C18):
    a history of store operations with the implementation's answers, replayed on the model;
    plus per-property specification oracles computed from the implementation's own answers. *)
From ID Require Export Check.C01 Model.StoreOps.

Definition step := store_step KS EHASH MAXF P_PEERS_PER_DOC_CACHE_SIZE.

Definition fk_eqb (a b : filter_kind) : bool :=
  match a, b with
  | FPrefix x, FPrefix y | FExact x, FExact y => bytes_eqb x y
  | _, _ => false
  end.
Definition policy_eqb (a b : policy) : bool :=
  match a, b with
  | NothingExcept x, NothingExcept y | EverythingExcept x, EverythingExcept y => list_eqb fk_eqb x y
  | _, _ => false
  end.
Definition nn_eqb (a b : N * N) : bool := (fst a =? fst b) && (snd a =? snd b).
Definition nb_eqb (a b : N * bool) : bool := (fst a =? fst b) && Bool.eqb (snd a) (snd b).
Definition imp_eqb (a b : import_outcome) : bool :=
  match a, b with
  | ImpInserted, ImpInserted | ImpUpgraded, ImpUpgraded | ImpNoChange, ImpNoChange => true
  | _, _ => false
  end.
Definition sres_eqb (a b : sres) : bool :=
  match a, b with
  | RImport x, RImport y => imp_eqb x y
  | RUnit, RUnit | RFail, RFail | RNotFound, RNotFound => true
  | RInsert x, RInsert y => result_eqb x y
  | RPut x, RPut y => option_eqb N.eqb x y
  | RPeers x, RPeers y => option_eqb (list_eqb N.eqb) x y
  | RPolicy x, RPolicy y => policy_eqb x y
  | RHeads x, RHeads y => list_eqb (fun a b => nn_eqb (fst a) (fst b) && bytes_eqb (snd a) (snd b)) x y
  | RNews x, RNews y => x =? y
  | RHashes x, RHashes y => list_eqb N.eqb x y
  | RNamespaces x, RNamespaces y => list_eqb nb_eqb x y
  | REntries x, REntries y => list_eqb entry_eqb x y
  | RBool x, RBool y => Bool.eqb x y
  | RText t b, RText t' b' => bytes_eqb t t' && option_eqb fk_eqb b b'
  | RFilter x, RFilter y => option_eqb fk_eqb x y
  | RHeadItems x n, RHeadItems y m => list_eqb nn_eqb x y && (n =? m)
  | _, _ => false
  end.

Fixpoint run_store (s : sstate) (h : list (sop * sres)) : bool :=
  match h with
  | [] => true
  | (o, r) :: rest => let '(s', r') := step s o in sres_eqb r r' && run_store s' rest
  end.

(** number of the first operation (from 1) on which model and implementation differ; 0 = none *)
Fixpoint first_diff (s : sstate) (h : list (sop * sres)) (i : N) : N :=
  match h with
  | [] => 0
  | (o, r) :: rest => let '(s', r') := step s o in if sres_eqb r r' then first_diff s' rest (i + 1) else i
  end.
