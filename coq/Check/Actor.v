(** Correspondence check for C14 (open/close counting, sync switch, sequential replies) and C12
    (events) through the asynchronous store handle: every reply and every event delivery of a
    request history against the actor model, plus oracles on the implementation's own answers. *)
From ID Require Export Check.C03 Check.StoreProps Model.Actor.

Definition astep' := astep KS EHASH MAXF P_PEERS_PER_DOC_CACHE_SIZE P_MAX_SET_SIZE P_SPLIT_FACTOR.

Record case := mkCase {
  c_prop : N;                                       (* 14 or 12 *)
  c_hist : list (aop * ares * deliveries);
  c_conc1 : list (aop * ares);                      (* then two clients at once, each awaiting its own requests in order *)
  c_conc2 : list (aop * ares);
  c_final : list (N * list entry);                  (* store handed back by shutdown: content per document *)
  c_inflight_answered : bool;                       (* a request in flight when shutdown is requested gets an answer (not: waits forever) *)
  c_cancelled : list N }.                           (* positions (from 1) in [c_hist] of requests whose caller stopped waiting right after
                                                       sending them (the future was dropped): the reply recorded there is a placeholder;
                                                       the request still counts -- it was issued, the actor must carry it out *)

Definition aerr_eqb (a b : aerr) : bool :=
  match a, b with
  | ANotOpen, ANotOpen | ASyncOff, ASyncOff | ANotFound, ANotFound | ANotClosed, ANotClosed
  | AAuthorMissing, AAuthorMissing | AOther, AOther => true
  | AInsert x, AInsert y => err_eqb x y
  | _, _ => false
  end.
Definition ares_eqb (a b : ares) : bool :=
  match a, b with
  | AOk, AOk => true
  | AErr x, AErr y => aerr_eqb x y
  | ABool x, ABool y => Bool.eqb x y
  | AState s n h, AState s' n' h' => Bool.eqb s s' && (n =? n') && (h =? h')
  | ACount x, ACount y => x =? y
  | AMsg x, AMsg y => msg_eqb x y
  | AReply m r s, AReply m' r' s' => option_eqb msg_eqb m m' && (r =? r') && (s =? s')
  | AEntry x, AEntry y => option_eqb entry_eqb x y
  | AEntries x, AEntries y => list_eqb entry_eqb x y
  | APolicy x, APolicy y => policy_eqb x y
  | APeers x, APeers y => option_eqb (list_eqb N.eqb) x y
  | ANews x, ANews y => x =? y
  | _, _ => false
  end.
Definition deliv_eqb (a b : N * event) : bool := (fst a =? fst b) && event_eqb (snd a) (snd b).
(** deliveries are compared per channel (the harness drains channel by channel) *)
Definition chan_events (c : N) (d : deliveries) : list event := map snd (filter (fun p => fst p =? c) d).
Definition deliveries_eqb (a b : deliveries) : bool :=
  let chans := map fst (a ++ b) in
  forallb (fun c => list_eqb event_eqb (chan_events c a) (chan_events c b)) chans.

Fixpoint run_actor_c (canc : list N) (s : astate) (h : list (aop * ares * deliveries)) (i : N) : N * astate :=
  match h with
  | [] => (0, s)
  | (o, r, d) :: rest =>
      let '(s', r', d') := astep' s o in
      if (existsb (N.eqb i) canc || ares_eqb r r') && deliveries_eqb d d' then run_actor_c canc s' rest (i + 1) else (i, s)
  end.
Definition run_actor := run_actor_c [].

(** ---- C14 oracle: handles and the sync switch, tracked from the acknowledged requests ---- *)
Record tr14 := mkT14 { t_h : list (N * N); t_sync : list (N * bool) }.
Definition get_h (t : tr14) ns := match StoreProps.assoc_get ns (t_h t) with Some h => h | None => 0 end.
Definition get_sync (t : tr14) ns := match StoreProps.assoc_get ns (t_sync t) with Some b => b | None => false end.
Definition set_h (t : tr14) ns h :=
  if h =? 0 then mkT14 (StoreProps.assoc_del ns (t_h t)) (StoreProps.assoc_del ns (t_sync t))
  else mkT14 (StoreProps.assoc_set ns h (t_h t)) (t_sync t).
Definition set_sync (t : tr14) ns b := mkT14 (t_h t) (StoreProps.assoc_set ns b (t_sync t)).

Definition needs_open (o : aop) : option N :=
  match o with
  | AGetState ns | ASetSync ns _ | ASubscribe ns _ | AUnsubscribe ns _
  | AInsertLocal ns _ true _ _ _ _ | ADeletePrefix ns _ true _ _
  | AInsertRemote ns _ _ _ _ _ | ASyncInit ns | ASyncProcess ns _ _ _
  | AGetExact ns _ _ _ | AGetAll ns | AExportSecret ns | AGetPeers ns => Some ns
  | _ => None
  end.
Definition needs_sync (o : aop) : option N :=
  match o with
  | AInsertRemote ns _ _ _ _ _ | ASyncInit ns | ASyncProcess ns _ _ _ => Some ns
  | _ => None
  end.
Definition is_err (r : ares) (e : aerr) : bool := match r with AErr x => aerr_eqb x e | _ => false end.

Definition c14_ok (t : tr14) (o : aop) (r : ares) (d : deliveries) : bool :=
  (match needs_open o with
   | Some ns => if get_h t ns =? 0 then is_err r ANotOpen && match d with [] => true | _ => false end
                else negb (is_err r ANotOpen)
   | None => true
   end)
  && (match needs_sync o with
      | Some ns => if (0 <? get_h t ns) then
                     if get_sync t ns then negb (is_err r ASyncOff)
                     else is_err r ASyncOff && match d with [] => true | _ => false end
                   else true
      | None => true
      end)
  && (match o, r with
      | AClose ns, ABool b => Bool.eqb b (get_h t ns <=? 1)
      | AClose _, _ => false
      | AGetState ns, AState s _ h => (h =? get_h t ns) && Bool.eqb s (get_sync t ns)
      (* a document that another handle still holds stays usable: dropping it is refused *)
      | ADrop ns, AOk => get_h t ns <=? 1
      (* ... and a document that nobody else holds can always be dropped: "not closed" needs another handle *)
      | ADrop ns, AErr ANotClosed => 1 <? get_h t ns
      | _, _ => true
      end).
Definition tr14_step (t : tr14) (o : aop) (r : ares) : tr14 :=
  match o, r with
  | AOpen ns sync _, AOk => let t' := set_h t ns (get_h t ns + 1) in set_sync t' ns (get_sync t ns || sync)
  | AClose ns, _ => if get_h t ns =? 0 then t else set_h t ns (get_h t ns - 1)
  | ADrop ns, _ => if get_h t ns =? 0 then t else set_h t ns (get_h t ns - 1)
  | ASetSync ns b, AOk => set_sync t ns b
  | _, _ => t
  end.
(** a request whose caller stopped waiting has no recorded reply: the oracle does not judge it, but
    it was issued and counts for everything that follows (a close releases its handle, a switch of
    the sync flag of an open document takes effect) *)
Definition reply_of_cancelled (t : tr14) (o : aop) (r : ares) : ares :=
  match o with
  | ASetSync ns _ => if 0 <? get_h t ns then AOk else AErr ANotOpen
  | _ => r
  end.
Fixpoint scan14_c (canc : list N) (t : tr14) (h : list (aop * ares * deliveries)) (i : N) : bool :=
  match h with
  | [] => true
  | (o, r, d) :: rest =>
      if existsb (N.eqb i) canc
      then scan14_c canc (tr14_step t o (reply_of_cancelled t o r)) rest (i + 1)
      else c14_ok t o r d && scan14_c canc (tr14_step t o r) rest (i + 1)
  end.
Definition scan14 (t : tr14) (h : list (aop * ares * deliveries)) : bool := scan14_c [] t h 1.

(** every acknowledged local write is in the store handed back by shutdown, or superseded there *)
Definition acked (h : list (aop * ares * deliveries)) : list entry :=
  flat_map (fun x => match x with
                     | (AInsertLocal ns au true k hs l now, AOk, _) => [mkE ns au k now l hs]
                     | (ADeletePrefix ns au true k now, ACount _, _) => [mkE ns au k now 0 EHASH]
                     | (AInsertRemote ns e _ _ _ _, AOk, _) => [e]
                     | _ => []
                     end) h.
Definition removed_docs (h : list (aop * ares * deliveries)) : list N :=
  flat_map (fun x => match x with (ADrop ns, AOk, _) => [ns] | _ => [] end) h.
Definition shutdown_ok (c : case) : bool :=
  let all := flat_map snd (c_final c) in
  forallb (fun e => existsb (N.eqb (e_ns e)) (removed_docs (c_hist c))
                    || existsb (fun d => rel d e) all) (acked (c_hist c)).

(** ---- C12 oracle: subscriptions tracked from acknowledged requests; one event per applied
         entry on each live subscription, none for failed requests; download flag = policy ---- *)
Record tr12 := mkT12 { t_subs : list (N * list N); t_dead : list N; t_pol : list (N * policy); t14 : tr14 }.
Definition subs_of (t : tr12) ns := match StoreProps.assoc_get ns (t_subs t) with Some l => l | None => [] end.
Definition live_subs (t : tr12) ns := filter (fun c => negb (existsb (N.eqb c) (t_dead t))) (subs_of t ns).
Definition tr12_step (t : tr12) (o : aop) (r : ares) : tr12 :=
  let t14' := tr14_step (t14 t) o r in
  let closes ns := (get_h (t14 t) ns =? 1) in
  let with_subs ns l := mkT12 (StoreProps.assoc_set ns l (t_subs t)) (t_dead t) (t_pol t) t14' in
  match o, r with
  | AOpen ns _ (Some c), AOk => with_subs ns (subs_of t ns ++ [c])
  | ASubscribe ns c, AOk => with_subs ns (subs_of t ns ++ [c])
  | AUnsubscribe ns c, AOk => with_subs ns (filter (fun x => negb (x =? c)) (subs_of t ns))
  | AClose ns, _ => if closes ns then with_subs ns [] else mkT12 (t_subs t) (t_dead t) (t_pol t) t14'
  (* a dropped document loses its download policy with everything else (C16) *)
  | ADrop ns, AOk => mkT12 (StoreProps.assoc_set ns [] (t_subs t)) (t_dead t) (StoreProps.assoc_del ns (t_pol t)) t14'
  | ADrop ns, _ => if closes ns then with_subs ns [] else mkT12 (t_subs t) (t_dead t) (t_pol t) t14'
  | ADropReceiver c, _ => mkT12 (t_subs t) (c :: t_dead t) (t_pol t) t14'
  | ASetPolicy ns p, AOk => mkT12 (t_subs t) (t_dead t) (StoreProps.assoc_set ns p (t_pol t)) t14'
  | _, _ => mkT12 (t_subs t) (t_dead t) (t_pol t) t14'
  end.
Definition pol_of (t : tr12) ns := match StoreProps.assoc_get ns (t_pol t) with Some p => p | None => default_policy end.
Definition expect_one (t : tr12) (ns : N) (ev : event) (d : deliveries) : bool :=
  deliveries_eqb d (map (fun c => (c, ev)) (live_subs t ns)).
Fixpoint every_kth_aux (k i : nat) (l : list event) : list event :=
  match l with
  | [] => []
  | x :: r => match i with O => x :: every_kth_aux k (pred k) r | S j => every_kth_aux k j r end
  end.
Definition every_kth (k : nat) (l : list event) : list event := every_kth_aux k 0 l.
Definition c12_ok (t : tr12) (o : aop) (r : ares) (d : deliveries) : bool :=
  match o, r with
  | AInsertLocal ns au true k hs l now, AOk => expect_one t ns (LocalInsert (mkE ns au k now l hs)) d
  | ADeletePrefix ns au true k now, ACount _ => expect_one t ns (LocalInsert (mkE ns au k now 0 EHASH)) d
  | AInsertRemote ns e _ from st _, AOk =>
      expect_one t ns (RemoteInsert e from (policy_matches (pol_of t ns) (e_key e)) st) d
  | ASyncProcess ns m from now, AReply _ _ _ =>
      (* every live subscription sees the same sequence; every announced entry is a value of the
         message, tagged with the sender, its status, and the policy's verdict *)
      let vs := flat_map part_values m in
      let live := live_subs t ns in
      let mult c := length (filter (N.eqb c) live) in
      (* a channel subscribed k times sees every event k times in a row *)
      let base := match live with c0 :: _ => every_kth (mult c0) (chan_events c0 d) | [] => [] end in
      forallb (fun c => list_eqb event_eqb (chan_events c d) (flat_map (fun ev => repeat ev (mult c)) base)) live
      && forallb (fun cd => existsb (N.eqb (fst cd)) (live_subs t ns)
                           && match snd cd with
                              | RemoteInsert e f sd st =>
                                  (f =? from) && Bool.eqb sd (policy_matches (pol_of t ns) (e_key e))
                                  && existsb (fun v => entry_eqb (fst v) e && ((snd v) mod 4 =? st)) vs
                              | _ => false
                              end) d
  | _, _ => match d with [] => true | _ => false end
  end.
Fixpoint scan12 (t : tr12) (h : list (aop * ares * deliveries)) : bool :=
  match h with
  | [] => true
  | (o, r, d) :: rest => c12_ok t o r d && scan12 (tr12_step t o r) rest
  end.

(** one event per APPLIED entry: an entry that is in the store handed back by shutdown, and that the
    whole history carries exactly once -- in this reconciliation message -- was applied by this very
    request, so every live subscription must have been told about it then (whatever kind of entry it
    is: deletion markers included) *)
Definition carried12 (x : aop * ares) : list entry :=
  match x with
  | (ASyncProcess _ m _ _, AReply _ _ _) => map fst (flat_map part_values m)
  | (AInsertRemote _ e _ _ _ _, AOk) => [e]
  | (AInsertLocal ns au true k hs l now, AOk) => [mkE ns au k now l hs]
  | (ADeletePrefix ns au true k now, ACount _) => [mkE ns au k now 0 EHASH]
  | _ => []
  end.
Definition announces (e : entry) (ev : event) : bool :=
  match ev with RemoteInsert e' _ _ _ => entry_eqb e e' | _ => false end.
Definition applied_announced (fin all : list entry) (t : tr12) (o : aop) (r : ares) (d : deliveries) : bool :=
  match o, r with
  | ASyncProcess ns m _ _, AReply _ _ _ =>
      forallb (fun v => let e := fst v in
                 negb (existsb (entry_eqb e) fin)
                 || negb (Nat.eqb (length (filter (entry_eqb e) all)) 1)
                 || forallb (fun c => existsb (announces e) (chan_events c d)) (live_subs t ns))
              (flat_map part_values m)
  | _, _ => true
  end.
Fixpoint scan12a (fin all : list entry) (t : tr12) (h : list (aop * ares * deliveries)) : bool :=
  match h with
  | [] => true
  | (o, r, d) :: rest => applied_announced fin all t o r d && scan12a fin all (tr12_step t o r) rest
  end.

(** exactly one event per entry that ENTERED the replica: an entry that was announced is held or
    superseded from then on, so it cannot enter -- and must not be announced -- a second time, unless the
    document was removed in between (re-delivery of an entry already held, by either path, is a
    rejected offer) *)
Definition event_entry (ev : event) : entry := match ev with LocalInsert e => e | RemoteInsert e _ _ _ => e end.
Fixpoint scan12b (seen : list entry) (h : list (aop * ares * deliveries)) : bool :=
  match h with
  | [] => true
  | (o, r, d) :: rest =>
      let evs := map (fun cd => event_entry (snd cd)) d in
      forallb (fun e => negb (existsb (entry_eqb e) seen)) evs
      && scan12b (match o, r with
                  | ADrop ns, AOk => filter (fun e => negb (e_ns e =? ns)) seen
                  | _, _ => seen ++ evs
                  end) rest
  end.

(** ---- C07 through the client API: capabilities tracked from the acknowledged imports; a document whose
         write secret was imported accepts local writes, a read-only one refuses them ---- *)
Fixpoint scan07a (caps : list (N * bool)) (h : list (aop * ares * deliveries)) : bool :=
  match h with
  | [] => true
  | (o, r, _) :: rest =>
      let writable ns := StoreProps.assoc_get ns caps in
      (match o with
       | AInsertLocal ns _ true _ _ _ _ | ADeletePrefix ns _ true _ _ =>
           match writable ns with
           | Some true => negb (is_err r (AInsert EReadOnly))
           | Some false => match r with AOk | ACount _ => false | _ => true end
           | None => true
           end
       | _ => true
       end)
      && scan07a (match o, r with
                  | AImport ns c, AOk =>
                      let w := match writable ns, c with Some true, _ => true | _, Some _ => true | _, None => false end in
                      StoreProps.assoc_set ns w caps
                  | ADrop ns, AOk => StoreProps.assoc_del ns caps
                  | _, _ => caps
                  end) rest
  end.

Definition final_eqb (a b : N * list entry) : bool := (fst a =? fst b) && list_eqb entry_eqb (snd a) (snd b).

(** replies only (the concurrent phase does not look at event deliveries) *)
Fixpoint run_replies (s : astate) (h : list (aop * ares)) : option astate :=
  match h with
  | [] => Some s
  | (o, r) :: rest => let '(s', r', _) := astep' s o in if ares_eqb r r' then run_replies s' rest else None
  end.
(** all interleavings of two request sequences that keep each sequence's order *)
Fixpoint merges (fuel : nat) (a b : list (aop * ares)) : list (list (aop * ares)) :=
  match fuel with
  | O => []
  | S f =>
      match a, b with
      | [], _ => [b]
      | _, [] => [a]
      | x :: a', y :: b' => map (cons x) (merges f a' b) ++ map (cons y) (merges f a b')
      end
  end.

Definition check (c : case) : N :=
  let '(bad, s) := run_actor_c (c_cancelled c) (ainit empty_tables) (c_hist c) 1 in
  let final_ok s := forallb (fun p => list_eqb entry_eqb (fs_all (fst p) (a_tables s)) (snd p)) (c_final c) in
  (* linearizability of the concurrent phase: some interleaving explains every reply and the store handed back *)
  let lin := existsb (fun il => match run_replies s il with Some s2 => final_ok s2 | None => false end)
                     (merges (S (length (c_conc1 c) + length (c_conc2 c))) (c_conc1 c) (c_conc2 c)) in
  let m1 := (bad =? 0) && lin in
  let acks := c_hist c ++ map (fun p => (fst p, snd p, [])) (c_conc1 c ++ c_conc2 c) in
  let c' := mkCase (c_prop c) acks [] [] (c_final c) (c_inflight_answered c) [] in
  let m2 := if c_prop c =? 14 then scan14_c (c_cancelled c) (mkT14 [] []) (c_hist c) 1 && shutdown_ok c' && c_inflight_answered c
                                   (* the sequential part agrees with the model, the concurrent replies admit no order *)
                                   && ((negb (bad =? 0)) || lin)
            else if c_prop c =? 7 then scan07a [] (c_hist c)
            else scan12 (mkT12 [] [] [] (mkT14 [] [])) (c_hist c)
                 && scan12a (flat_map snd (c_final c)) (flat_map (fun x => carried12 (fst (fst x), snd (fst x))) acks)
                            (mkT12 [] [] [] (mkT14 [] [])) (c_hist c)
                 && scan12b [] (c_hist c) in
  bit (negb m1) 1 + bit (negb m2) 2.
