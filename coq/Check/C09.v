(** Correspondence check for C09: bytes produced by the real encoders decode in the model and
    re-encode to the same bytes; arbitrary and corrupted bytes fed to the real decoders give the
    model's verdict (and, when accepted, the model's re-encoding of the decoded value); frame
    streams in arbitrary chunkings. *)
From ID Require Export Check.Common Model.Codecs.

Inductive kind := KEntry | KMessage | KCodec | KHeads | KPolicy.

Inductive case :=
  | Enc (k : kind) (real : bytes) (real_roundtrip : bool)
  | Dec (k : kind) (input : bytes) (verdict : N) (reenc : bytes)     (* 0 = Err, 1 = Ok, 2 = panic *)
  | Stream (chunks : list bytes) (sent : list bytes) (complete : bool) (truncated : bool)
           (got : list bytes) (err : bool) (eof_err : bool) (rest_len : N) (chunk_indep : bool)
  | CapRaw (kindb : N) (ok : bool) (writable : bool) (back_kind : N)
  | Ticket (roundtrip_ok : bool) (hostile_panicked : bool) (empty_nodes_rejected : bool)
  (* a text fed to the FromStr of a key type: verdict 0 = Err, 1 = Ok (out = the key's bytes), 2 = panic.
     strict: secret-key types (every 32 bytes are a key); otherwise a public-key type, which may also
     refuse 32 bytes that are no curve point. orig: non-empty when the text is the Display form of a
     real key with these bytes *)
  | KeyText (strict : bool) (text : bytes) (verdict : N) (out : bytes) (orig : bytes).

Definition recode (k : kind) (b : bytes) : option (bytes * bytes) :=
  match k with
  | KEntry => match dec_wentry b with Some (v, r) => Some (enc_wentry v, r) | None => None end
  | KMessage => match dec_wmessage b with Some (v, r) => Some (enc_wmessage v, r) | None => None end
  | KCodec => match dec_cmsg b with Some (v, r) => Some (enc_cmsg v, r) | None => None end
  | KHeads => match dec_heads b with Some (v, r) => Some (enc_heads v, r) | None => None end
  | KPolicy => match dec_policy b with Some (v, r) => Some (enc_policy v, r) | None => None end
  end.

Fixpoint is_prefix_list (a b : list bytes) : bool :=
  match a, b with
  | [], _ => true
  | x :: a', y :: b' => bytes_eqb x y && is_prefix_list a' b'
  | _, _ => false
  end.

Definition check (c : case) : N :=
  match c with
  | Enc k real rt =>
      let m1 := match recode k real with Some (b, []) => bytes_eqb b real | _ => false end in
      bit (negb m1) 1 + bit (negb rt) 2
  | Dec k input verdict reenc =>
      let m1 := match recode k input with
                | None => verdict =? 0
                | Some (b, _) => (verdict =? 1) && bytes_eqb b reenc
                end in
      bit (negb m1) 1 + bit (verdict =? 2) 2
  | Stream chunks sent complete truncated got err eof_err rest_len chunk_indep =>
      let '(ms, rest, e) := feed_chunks P_MAX_MESSAGE_SIZE [] chunks in
      let m1 := list_eqb bytes_eqb (map enc_cmsg ms) got && Bool.eqb e err && (N.of_nat (length rest) =? rest_len)
                && Bool.eqb eof_err (negb e && eof_error rest) in
      (* a complete stream of sent messages yields exactly them; a truncated one a prefix of them
         and "need more" (an error only at end of stream), never another message *)
      let m2 := if complete then list_eqb bytes_eqb got sent && negb err && (rest_len =? 0) && negb eof_err
                else if truncated then is_prefix_list got sent && negb err
                                       && Bool.eqb eof_err (negb (rest_len =? 0))
                else true in
      (* whatever the bytes, the outcome is the same for the stream in one piece and byte by byte *)
      bit (negb m1) 1 + bit (negb (m2 && chunk_indep)) 2
  | CapRaw kindb ok writable back =>
      let m := cap_from_raw P_CAP_WRITE P_CAP_READ kindb [] in
      let m1 := match m with
                | Some (w, _) => ok && Bool.eqb w writable && (fst (cap_raw P_CAP_WRITE P_CAP_READ (w, [])) =? back)
                | None => negb ok
                end in
      bit (negb m1) 1
  | Ticket rt panicked empty_rejected => bit (negb rt || panicked || negb empty_rejected) 2
  | KeyText strict text verdict out orig =>
      let m1 := match key_of_text text with
                | None => verdict =? 0
                | Some b => if strict then (verdict =? 1) && bytes_eqb b out
                            else (verdict =? 0) || ((verdict =? 1) && bytes_eqb b out)
                end in
      let m2 := match orig with
                | [] => true
                | _ => (verdict =? 1) && bytes_eqb out orig && bytes_eqb text (hex_encode orig)
                end in
      bit (negb m1 && negb (verdict =? 2)) 1 + bit ((verdict =? 2) || negb m2) 2
  end.
