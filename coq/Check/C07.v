(** Correspondence check for C07: the store-level histories (capability imports, opens, closes, reopen,
    write attempts) and scenarios through the client API of a real node (src/api: import_namespace,
    Doc::close, Doc::set_hash, Doc::del), recorded as the store-handle requests they amount to and checked
    against the actor model and the capability oracle of [Check.Actor]. *)
From ID Require Export Check.StoreProps Check.Actor.

Inductive case :=
  | St07 (c : StoreProps.case)
  | Api07 (c : Actor.case).

Definition check (c : case) : N :=
  match c with
  | St07 c => StoreProps.check c
  | Api07 c => Actor.check c
  end.
