(** Correspondence check for C15: the store-level histories (policy get/set, matches, filter text)
    and, because the property is also observed at [should_download] of remote insert events,
    histories through the store handle in which policies change while documents stay open and
    entries keep arriving by both paths (checked as for C12: every event's download flag is what
    the stored policy says for its key). *)
From ID Require Export Check.StoreProps Check.Actor.

Inductive case :=
  | St15 (c : StoreProps.case)
  | Ev15 (c : Actor.case).

Definition check (c : case) : N :=
  match c with
  | St15 c => StoreProps.check c
  | Ev15 c => Actor.check c
  end.
