(** Correspondence check for C04: a swarm of real replicas under local writes (skewed clocks),
    unreliable delivery of written entries, sessions cut short at any message, restarts, and a
    closing round of complete sessions along a spanning tree (up then down) — against the model
    replicas, and against the specification (every final content = reduce of all accepted local
    writes; nothing foreign is ever held). *)
From ID Require Export Check.C01.

Inductive sev :=
  | SwWrite (i : N) (o : C02.op) (r : result)          (* local insert / delete at replica i *)
  | SwDeliver (j : N) (e : entry) (now : N) (r : result) (* an earlier written entry reaches j (insert_remote) *)
  | SwSession (i j : N) (cut : option N) (now : N)     (* i initiates with j; cut = stop after that many messages *)
  | SwRestart (i : N)
  | SwObserve (i : N) (content : list entry).          (* the implementation's content of replica i now *)

Record case := mkCase { c_ns : N; c_n : N; c_events : list sev }.

Definition nth_tables (l : list tables) (i : N) : tables := nth (N.to_nat i) l empty_tables.
Fixpoint set_nth {A} (l : list A) (i : nat) (x : A) : list A :=
  match l, i with
  | [], _ => []
  | _ :: r, O => x :: r
  | y :: r, S k => y :: set_nth r k x
  end.

(** a session that stops after [budget] processed messages (None = run to the end) *)
Fixpoint session_cut (fuel : nat) (budget : option N) (now ns : N) (TA TB : tables) (m : message) (turn_b : bool)
  : tables * tables :=
  match fuel with
  | O => (TA, TB)
  | S f =>
      match budget with
      | Some 0 => (TA, TB)
      | _ =>
          let budget' := match budget with Some k => Some (k - 1) | None => None end in
          if turn_b then
            let '(TB', reply, _, _) := sync_process KS EHASH MAXF P_MAX_SET_SIZE P_SPLIT_FACTOR TB now ns 0 (mkOC 0 0) m in
            match reply with None => (TA, TB') | Some r => session_cut f budget' now ns TA TB' r false end
          else
            let '(TA', reply, _, _) := sync_process KS EHASH MAXF P_MAX_SET_SIZE P_SPLIT_FACTOR TA now ns 0 (mkOC 0 0) m in
            match reply with None => (TA', TB) | Some r => session_cut f budget' now ns TA' TB r true end
      end
  end.

Fixpoint run_model (ns : N) (reps : list tables) (evs : list sev) : bool :=
  match evs with
  | [] => true
  | ev :: rest =>
      match ev with
      | SwWrite i o r =>
          let '(T', r') := C02.step_fs ns (nth_tables reps i) o in
          result_eqb r r' && run_model ns (set_nth reps (N.to_nat i) T') rest
      | SwDeliver j e now r =>
          let '(T', r', _) := replica_insert_remote KS EHASH MAXF (nth_tables reps j) now ns (mkW e true) 0 MISSING in
          result_eqb r r' && run_model ns (set_nth reps (N.to_nat j) T') rest
      | SwSession i j cut now =>
          let TA := nth_tables reps i in let TB := nth_tables reps j in
          let fuel := (4 * (length (t_records TA) + length (t_records TB)) + 16)%nat in
          let '(TA', TB') := session_cut fuel cut now ns TA TB (initial_message (fs_ops KS EHASH ns) TA) true in
          run_model ns (set_nth (set_nth reps (N.to_nat i) TA') (N.to_nat j) TB') rest
      | SwRestart _ => run_model ns reps rest
      | SwObserve i content => list_eqb entry_eqb (fs_all ns (nth_tables reps i)) content && run_model ns reps rest
      end
  end.

(** specification, on the implementation's observations only *)
Definition accepted_writes (ns : N) (evs : list sev) : list entry :=
  flat_map (fun ev => match ev with
                      | SwWrite _ o (Ok _) => match C02.offered ns o with inl (Some e) => [e] | _ => [] end
                      | _ => []
                      end) evs.
Definition observations (evs : list sev) : list (N * list entry) :=
  flat_map (fun ev => match ev with SwObserve i c => [(i, c)] | _ => [] end) evs.
(** the last observation of every replica *)
Definition final_of (n : N) (evs : list sev) : list (list entry) :=
  map (fun i => match find (fun p => fst p =? i) (rev (observations evs)) with Some p => snd p | None => [] end)
      (nseq n).

Definition check (c : case) : N :=
  let W := accepted_writes (c_ns c) (c_events c) in
  let m1 := run_model (c_ns c) (repeat empty_tables (N.to_nat (c_n c))) (c_events c) in
  let m2 := forallb (fun p => subset_b (snd p) W) (observations (c_events c))               (* nothing foreign, ever *)
            && forallb (fun f => set_eqb f (reduce W)) (final_of (c_n c) (c_events c)) in      (* eventual consistency *)
  bit (negb m1) 1 + bit (negb m2) 2 + bit (has_twin W) 4.
