(** C06: with the age check only where an operation starts reading, the durable state is always
    a state between two complete operations; a flush makes the working state durable. *)
From Coq Require Import Lia.
From ID Require Import Base.Bytes Model.Entry Model.Tables Model.StoreOps Model.Commit.

Definition is_tables (m : micro) : Prop := match m with MTables => True | _ => False end.
Definition is_modify (m : micro) : Prop := match m with MModify _ => True | _ => False end.

(** the shape of every store operation in the crate: reads, then the writes, then reads; or a
    commit (flush / snapshot) *)
Inductive shaped : list micro -> Prop :=
  | shaped_rw pre mods post :
      Forall is_tables pre -> Forall is_modify mods -> Forall is_tables post -> shaped (pre ++ mods ++ post)
  | shaped_commit : shaped [MCommit].

(** all intermediate states of a run *)
Fixpoint trace (mca : bool) (s : cstate) (ms : list (micro * bool)) : list cstate :=
  match ms with
  | [] => []
  | (m, aged) :: r => let s' := micro_step mca s m aged in s' :: trace mca s' r
  end.
Lemma run_micro_app mca s a b : run_micro mca s (a ++ b) = run_micro mca (run_micro mca s a) b.
Proof. revert s; induction a as [|[m g] a IH]; intros s; cbn; auto. Qed.
Lemma trace_app mca s a b : trace mca s (a ++ b) = trace mca s a ++ trace mca (run_micro mca s a) b.
Proof. revert s; induction a as [|[m g] a IH]; intros s; cbn; auto. now rewrite IH. Qed.

Lemma tables_phase ms : Forall (fun p : micro * bool => is_tables (fst p)) ms ->
  forall s, c_working (run_micro false s ms) = c_working s /\
            (c_durable (run_micro false s ms) = c_durable s \/ c_durable (run_micro false s ms) = c_working s) /\
            forall x, In x (trace false s ms) -> c_working x = c_working s /\ (c_durable x = c_durable s \/ c_durable x = c_working s).
Proof.
  induction ms as [|[m g] ms IH]; intros F s; cbn [run_micro trace].
  - split; [|split]; auto. intros y [].
  - inversion F as [|? ? Hm Hms]; subst. specialize (IH Hms).
    destruct m; cbn in Hm; try contradiction.
    set (s' := micro_step false s MTables g).
    assert (W : c_working s' = c_working s) by (unfold s', micro_step; destruct (c_write_open s && g); reflexivity).
    assert (D : c_durable s' = c_durable s \/ c_durable s' = c_working s)
      by (unfold s', micro_step; destruct (c_write_open s && g); cbn; auto).
    destruct (IH s') as (W' & D' & T'). rewrite W in *.
    split; [|split]; auto.
    + destruct D' as [D'|D']; [rewrite D'; exact D | now right].
    + intros y [<-|Hy]; [auto|]. destruct (T' y Hy) as [Wy Dy]. split; auto.
      destruct Dy as [Dy|Dy]; [rewrite Dy; exact D | now right].
Qed.

Lemma modify_phase ms : Forall (fun p : micro * bool => is_modify (fst p)) ms ->
  forall s, c_durable (run_micro false s ms) = c_durable s /\
            forall x, In x (trace false s ms) -> c_durable x = c_durable s.
Proof.
  induction ms as [|[m g] ms IH]; intros F s; cbn [run_micro trace].
  - split; auto. intros x [].
  - inversion F as [|? ? Hm Hms]; subst. specialize (IH Hms).
    destruct m; cbn in Hm; try contradiction.
    set (s' := micro_step false s (MModify f) g).
    assert (D : c_durable s' = c_durable s) by reflexivity.
    destruct (IH s') as (D' & T'). rewrite D in *. split; auto.
    intros x [<-|Hx]; auto.
Qed.

Lemma combine_app {A B} (a1 a2 : list A) (b1 b2 : list B) : length a1 = length b1 ->
  combine (a1 ++ a2) (b1 ++ b2) = combine a1 b1 ++ combine a2 b2.
Proof.
  revert b1; induction a1 as [|x a1 IH]; intros [|y b1] L; cbn in *; try discriminate; auto.
  f_equal. apply IH. lia.
Qed.

(** One operation: whatever the age checks do, and wherever the process dies, the durable state
    is the durable state before the operation, or the working state before it, or the working
    state after it — never a state in the middle of its writes. *)
Theorem op_durable_is_boundary ms flags s :
  shaped ms -> length flags = length ms ->
  let steps := combine ms flags in
  let s_end := run_micro false s steps in
  forall x, In x (trace false s steps) \/ x = s_end ->
    c_durable x = c_durable s \/ c_durable x = c_working s \/ c_durable x = c_working s_end.
Proof.
  intros SH L steps s_end.
  destruct SH as [pre mods post P M Q|].
  - assert (SPLIT : exists f1 f2 f3, flags = f1 ++ f2 ++ f3 /\ length f1 = length pre /\ length f2 = length mods /\ length f3 = length post).
    { exists (firstn (length pre) flags), (firstn (length mods) (skipn (length pre) flags)),
             (skipn (length mods) (skipn (length pre) flags)).
      rewrite !app_length in L. repeat split.
      - now rewrite !firstn_skipn.
      - rewrite firstn_length. lia.
      - rewrite firstn_length, skipn_length. lia.
      - rewrite !skipn_length. lia. }
    destruct SPLIT as (f1 & f2 & f3 & -> & L1 & L2 & L3).
    assert (C : steps = combine pre f1 ++ combine mods f2 ++ combine post f3).
    { unfold steps. rewrite combine_app by auto. f_equal. now rewrite combine_app by auto. }
    assert (FP : forall (l : list micro) (f : list bool) (P0 : micro -> Prop), Forall P0 l -> Forall (fun p => P0 (fst p)) (combine l f)).
    { intros l f P0 H. revert f. induction H as [|a l Ha Hl IH]; intros [|b f]; cbn; constructor; auto. }
    set (s1 := run_micro false s (combine pre f1)).
    set (s2 := run_micro false s1 (combine mods f2)).
    destruct (tables_phase _ (FP _ f1 _ P) s) as (W1 & D1 & T1). fold s1 in W1, D1.
    destruct (modify_phase _ (FP _ f2 _ M) s1) as (D2 & T2). fold s2 in D2.
    destruct (tables_phase _ (FP _ f3 _ Q) s2) as (W3 & D3 & T3).
    assert (E : s_end = run_micro false s2 (combine post f3)).
    { unfold s_end. rewrite C, !run_micro_app. reflexivity. }
    rewrite <- E in W3, D3.
    intros x [Hx| ->].
    + rewrite C, !trace_app in Hx. fold s1 in Hx. fold s2 in Hx.
      apply in_app_or in Hx. destruct Hx as [Hx|Hx]; [destruct (T1 x Hx) as [_ [H|H]]; auto|].
      apply in_app_or in Hx. destruct Hx as [Hx|Hx].
      * rewrite (T2 x Hx). destruct D1; auto.
      * destruct (T3 x Hx) as [Wx [H|H]].
        -- rewrite H, D2. destruct D1; auto.
        -- right. right. rewrite H. symmetry. exact W3.
    + destruct D3 as [H|H].
      * rewrite H, D2. destruct D1; auto.
      * right. right. rewrite H. symmetry. exact W3.
  - destruct flags as [|g [|g2 fl]]; cbn in L; try discriminate.
    unfold steps, s_end. cbn. intros x [[<-|[]]| ->]; destruct (c_write_open s); cbn; auto.
Qed.

(** a flush (or snapshot) makes everything written so far durable *)
Theorem flush_makes_durable mca s g : c_durable (micro_step mca s MCommit g) = c_working (micro_step mca s MCommit g)
                                       \/ c_write_open s = false.
Proof. cbn. destruct (c_write_open s); cbn; auto. Qed.

(** sensitivity: when [modify] also checks the age (pinned tree) the durable state can be a
    half-applied write: here a put of a newer entry at the same key, the commit firing between the
    prune and the write; the durable table is empty although the older entry was durable *)
Example mid_put_commit_refuted :
  let old := mkE 1 2 [97] 5 1 7 in
  let new := mkE 1 2 [97] 9 1 8 in
  let T := fs_entry_put empty_tables old in
  let s := mkC T T true in
  let ms := put_micro prefix_succ 0 T new in
  let flags := [false; false; true; false] in
  let D := c_durable (run_micro true s (combine ms flags)) in
  t_records D = [] /\ t_records T <> [] /\ t_records (c_working (run_micro true s (combine ms flags))) <> [].
Proof. vm_compute. repeat split; discriminate. Qed.

(** ---- whole histories: the crash image is a state between two operations, not older than
         the last flush ---- *)
Definition is_flush (ms : list micro) : bool := match ms with [MCommit] => true | _ => false end.

(** [since]: the working states at the operation boundaries since the last flush (newest first) *)
Fixpoint crash_ok (s : cstate) (since : list tables) (ops : list (list micro * list bool)) : Prop :=
  match ops with
  | [] => True
  | (ms, fl) :: rest =>
      let steps := combine ms fl in
      let s' := run_micro false s steps in
      (forall x, In x (trace false s steps) -> In (c_durable x) (c_working s' :: since)) /\
      crash_ok s' (if is_flush ms then [c_working s'] else c_working s' :: since) rest
  end.

Definition settled_c (s : cstate) : Prop := c_write_open s = false -> c_durable s = c_working s.

Lemma micro_step_settled s m g : settled_c s -> settled_c (micro_step false s m g).
Proof.
  unfold settled_c. intros H. destruct m; cbn.
  - destruct (c_write_open s && g); cbn; discriminate.
  - discriminate.
  - destruct (c_write_open s) eqn:O; cbn; auto.
Qed.
Lemma run_micro_settled ms : forall s, settled_c s -> settled_c (run_micro false s ms).
Proof. induction ms as [|[m g] ms IH]; intros s H; cbn; auto. apply IH. now apply micro_step_settled. Qed.

Theorem history_crash_images ops : forall s since,
  Forall (fun op => shaped (fst op) /\ length (snd op) = length (fst op)) ops ->
  settled_c s -> In (c_durable s) since -> In (c_working s) since ->
  crash_ok s since ops.
Proof.
  induction ops as [|[ms fl] ops IH]; intros s since F ST D W; cbn [crash_ok]; auto.
  inversion F as [|? ? [SH L] F']; subst. cbn [fst snd] in *.
  set (steps := combine ms fl). set (s' := run_micro false s steps).
  pose proof (op_durable_is_boundary ms fl s SH L) as B. cbv zeta in B. fold steps in B. fold s' in B.
  assert (ST' : settled_c s') by (apply run_micro_settled; auto).
  split.
  - intros x Hx. destruct (B x (or_introl Hx)) as [E|[E|E]]; rewrite E; [now right|now right|now left].
  - destruct (is_flush ms) eqn:FL.
    + (* an explicit flush: afterwards durable = working *)
      destruct ms as [|[| |] [|m2 r]]; try discriminate.
      destruct fl as [|g [|g2 r]]; cbn in L; try discriminate.
      assert (E : c_durable s' = c_working s').
      { unfold s', steps. cbn. destruct (c_write_open s) eqn:O; cbn; auto. }
      apply IH; auto; rewrite ?E; now left.
    + apply IH; auto.
      * destruct (B s' (or_intror eq_refl)) as [E|[E|E]]; rewrite E; [now right|now right|now left].
      * now left.
Qed.

(** the usual start: a store that was just flushed *)
Corollary history_from_flushed ops T :
  Forall (fun op => shaped (fst op) /\ length (snd op) = length (fst op)) ops ->
  crash_ok (mkC T T false) [T] ops.
Proof. intros F. apply history_crash_images; auto; [intros _; reflexivity|now left|now left]. Qed.
