(** C13: the key stored with a head. In every store reached by a history of inserts the head of
    (document, author) names an entry that is held: the author's, at the head's timestamp, under the
    head's key. *)
From Coq Require Import Lia.
From ID Require Import Base.Bytes Model.Entry Model.Tables Model.Bounds Model.FsStore Model.Ranger
  Proofs.TblFacts Proofs.EntryFacts Proofs.PutFacts Proofs.FsPutFacts.

Definition head_row (T : tables) (ns au : N) : option (N * bytes) := tbl_get pair_cmp (ns, au) (t_latest T).

Definition KInv (T : tables) : Prop :=
  forall ns au t k, head_row T ns au = Some (t, k) ->
    exists w, In w (recs T) /\ of_author ns au w /\ e_ts w = t /\ e_key w = k.

Lemma KInv_empty : KInv empty_tables.
Proof. intros ns au t k H. discriminate. Qed.

Lemma head_row_entry_put T e ns au :
  head_row (fs_entry_put T e) ns au =
  if (ns =? e_ns e) && (au =? e_author e)
  then Some (match head_row T ns au with
             | Some (t0, k0) => if t0 <=? e_ts e then (e_ts e, e_key e) else (t0, k0)
             | None => (e_ts e, e_key e)
             end)
  else head_row T ns au.
Proof.
  unfold head_row, fs_entry_put. cbn [t_latest set_records set_bykey set_latest].
  destruct (N.eqb_spec ns (e_ns e)) as [->|N1]; [destruct (N.eqb_spec au (e_author e)) as [->|N2]|]; cbn [andb].
  - destruct (tbl_get pair_cmp (e_ns e, e_author e) (t_latest T)) as [[t0 k0]|] eqn:G.
    + destruct (t0 <=? e_ts e); cbn [t_latest set_latest set_bykey set_records].
      * now rewrite (tbl_get_insert_same pair_cmp pair_cmp_eq).
      * now rewrite G.
    + cbn [t_latest set_latest set_bykey set_records]. now rewrite (tbl_get_insert_same pair_cmp pair_cmp_eq).
  - destruct (tbl_get pair_cmp (e_ns e, e_author e) (t_latest T)) as [[t0 k0]|]; [destruct (t0 <=? e_ts e)|]; cbn [t_latest set_latest set_bykey set_records]; auto;
      rewrite (tbl_get_insert_other pair_cmp pair_cmp_eq); auto; congruence.
  - destruct (tbl_get pair_cmp (e_ns e, e_author e) (t_latest T)) as [[t0 k0]|]; [destruct (t0 <=? e_ts e)|]; cbn [t_latest set_latest set_bykey set_records]; auto;
      rewrite (tbl_get_insert_other pair_cmp pair_cmp_eq); auto; congruence.
Qed.

Theorem fs_put_head_key EH T e : wf_records T -> wf_entry e -> KInv T -> KInv (fst (fs_put prefix_succ EH T e)).
Proof.
  intros W We KI.
  destruct (fs_put_refines EH T e W We) as (OUT & C & _).
  unfold fs_put, put in *.
  destruct (existsb (fun p => val_leb e p) (fs_prefixes_of EH T (e_ns e) (e_author e) (e_key e))) eqn:E1;
    destruct (existsb (fun p => rel p e) (recs T)) eqn:E2; cbn [fst snd] in *; try discriminate; auto.
  destruct (fs_remove_prefix_filtered prefix_succ T (e_ns e) (e_author e) (e_key e) (fun c => val_leb c e)) as [T1 n] eqn:RM.
  cbn [fst snd] in *.
  assert (L1 : t_latest T1 = t_latest T).
  { pose proof (remove_keeps_latest T (e_ns e) (e_author e) (e_key e) (fun c => val_leb c e)) as H. now rewrite RM in H. }
  assert (MEM : forall x, In x (recs (fs_entry_put T1 e)) <-> x = e \/ (In x (recs T) /\ rel e x = false)).
  { intros x. rewrite (C x). cbn [In]. rewrite filter_In, Bool.negb_true_iff. split; intros [H|H]; auto. }
  intros ns au t k. rewrite head_row_entry_put.
  assert (H1 : head_row T1 ns au = head_row T ns au) by (unfold head_row; now rewrite L1).
  rewrite H1. specialize (KI ns au).
  assert (KEEP : forall w, In w (recs T) -> (e_ts e < e_ts w \/ ~ of_author (e_ns e) (e_author e) w) -> In w (recs (fs_entry_put T1 e))).
  { intros w Iw H. apply MEM. right. split; auto. destruct (rel e w) eqn:R; auto.
    apply rel_spec in R. destruct R as (A1 & A2 & _ & V). apply val_leb_spec in V.
    destruct H as [H|H]; [lia|]. exfalso. apply H. split; congruence. }
  destruct ((ns =? e_ns e) && (au =? e_author e)) eqn:SAME.
  - apply andb_true_iff in SAME. destruct SAME as [S1 S2]. apply N.eqb_eq in S1, S2. subst ns au.
    intros H. inversion H as [H']; clear H.
    destruct (head_row T (e_ns e) (e_author e)) as [[t0 k0]|].
    + destruct (N.leb_spec t0 (e_ts e)) as [LE|GT]; inversion H'; subst.
      * exists e. repeat split; auto. apply MEM. now left.
      * destruct (KI t k eq_refl) as (w & Iw & Ow & Tw & Kw). exists w. repeat split; auto; try apply Ow.
        apply KEEP; auto. left. lia.
    + inversion H'; subst. exists e. repeat split; auto. apply MEM. now left.
  - intros H. destruct (KI t k H) as (w & Iw & Ow & Tw & Kw). exists w. repeat split; auto; try apply Ow.
    apply KEEP; auto. right. intros [O1 O2]. destruct Ow as [P1 P2].
    apply andb_false_iff in SAME. destruct SAME as [S|S]; apply N.eqb_neq in S; congruence.
Qed.

Theorem head_keys_exact EH l : Forall wf_entry l -> KInv (fs_puts EH empty_tables l).
Proof.
  intros F. unfold fs_puts.
  assert (G : forall l T, wf_records T -> KInv T -> Forall wf_entry l ->
              KInv (fold_left (fun T e => fst (fs_put prefix_succ EH T e)) l T)).
  { clear. induction l as [|e l IH]; intros T W H F; cbn; auto. inversion F; subst.
    apply IH; auto.
    - now destruct (fs_put_refines EH T e W H2) as (_ & _ & W').
    - now apply fs_put_head_key. }
  apply G; auto using wf_records_empty, KInv_empty.
Qed.
