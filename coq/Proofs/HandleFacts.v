(** C14: open/close counting over whole request histories. The number of handles the actor holds for
    a document is the abstract counter "acknowledged opens minus releases (close or drop) while
    positive"; the document is usable exactly while that counter is positive. *)
From Coq Require Import Lia.
From ID Require Import Base.Bytes Model.Entry Model.Tables Model.Replica Model.Ranger Model.StoreOps
  Model.Actor Proofs.ActorFacts.

Definition hstep (c : N -> N) (o : aop) (r : ares) : N -> N :=
  fun x =>
    match o, r with
    | AOpen ns _ _, AOk => if x =? ns then c x + 1 else c x
    | AClose ns, _ | ADrop ns, _ => if x =? ns then c x - 1 else c x
    | _, _ => c x
    end.

Section Handles.
  Variable ks : bytes -> option bytes.
  Variables EH MF CAP mss split : N.
  Notation step := (astep ks EH MF CAP mss split).

  Definition handles (s : astate) (ns : N) : N :=
    match aget s ns with Some r => ar_handles r | None => 0 end.
  Definition HPos (s : astate) : Prop := forall ns r, aget s ns = Some r -> 1 <= ar_handles r.

  Lemma find_filter_other (l : list (N * areplica)) x ns : x <> ns ->
    find (fun p => fst p =? x) (filter (fun p => negb (fst p =? ns)) l) = find (fun p => fst p =? x) l.
  Proof.
    intros NE. induction l as [|[k v] l IH]; cbn [filter find fst]; auto.
    destruct (N.eqb_spec k ns) as [->|N1]; cbn [negb].
    - destruct (N.eqb_spec ns x); [congruence|exact IH].
    - cbn [find fst]. destruct (k =? x); auto.
  Qed.

  Lemma aget_aset s ns r x : aget (with_open s (aset s ns r)) x = if x =? ns then Some r else aget s x.
  Proof.
    unfold aget, with_open, aset. cbn [a_open find fst].
    destruct (N.eqb_spec x ns) as [->|NE]; [now rewrite N.eqb_refl|].
    destruct (N.eqb_spec ns x); [congruence|]. now rewrite find_filter_other.
  Qed.
  Lemma aget_adel s ns x : find (fun p => fst p =? x) (adel s ns) = if x =? ns then None else find (fun p => fst p =? x) (a_open s).
  Proof.
    destruct (N.eqb_spec x ns) as [->|NE]; [apply aget_adel_same|]. unfold adel. now apply find_filter_other.
  Qed.

  Lemma deliver_handles s ns evs x : handles (fst (deliver s ns evs)) x = handles s x.
  Proof.
    unfold deliver. destruct (aget s ns) as [r|] eqn:G; [|reflexivity]. destruct evs; [reflexivity|].
    cbn [fst]. unfold handles. rewrite aget_aset. destruct (N.eqb_spec x ns) as [->|]; auto. now rewrite G.
  Qed.
  Lemma deliver_hpos s ns evs : HPos s -> HPos (fst (deliver s ns evs)).
  Proof.
    intros H. unfold deliver. destruct (aget s ns) as [r|] eqn:G; [|exact H]. destruct evs; [exact H|].
    cbn [fst]. intros x r'. rewrite aget_aset. destruct (N.eqb_spec x ns) as [->|]; [|apply H].
    intros E. inversion E; subst. cbn. now apply (H ns r).
  Qed.

  Lemma aclose_handles s ns x : HPos s ->
    handles (fst (aclose s ns)) x = if x =? ns then handles s x - 1 else handles s x.
  Proof.
    intros H. unfold aclose. destruct (aget s ns) as [r|] eqn:G.
    - destruct (N.eqb_spec (ar_handles r) 1) as [E1|N1]; cbn [fst].
      + unfold handles, aget. cbn [a_open]. rewrite aget_adel. fold (aget s x).
        destruct (N.eqb_spec x ns) as [->|]; auto. rewrite G. lia.
      + unfold handles. rewrite aget_aset. destruct (N.eqb_spec x ns) as [->|]; auto. rewrite G. reflexivity.
    - cbn [fst]. unfold handles, aget. cbn [a_open]. fold (aget s x).
      destruct (N.eqb_spec x ns) as [->|]; auto. rewrite G. reflexivity.
  Qed.
  Lemma aclose_hpos s ns : HPos s -> HPos (fst (aclose s ns)).
  Proof.
    intros H. unfold aclose. destruct (aget s ns) as [r|] eqn:G.
    - destruct (N.eqb_spec (ar_handles r) 1) as [E1|N1]; cbn [fst].
      + intros x r'. unfold aget. cbn [a_open]. rewrite aget_adel. fold (aget s x).
        destruct (x =? ns); [discriminate|apply H].
      + intros x r'. rewrite aget_aset. destruct (N.eqb_spec x ns) as [->|]; [|apply H].
        intros E. inversion E; subst. cbn. specialize (H ns r G). lia.
    - cbn [fst]. exact H.
  Qed.

  Definition same (s s' : astate) : Prop := (forall x, handles s' x = handles s x) /\ HPos s'.

  Lemma same_refl s : HPos s -> same s s.
  Proof. split; auto. Qed.
  Lemma same_open s s' : a_open s' = a_open s -> HPos s -> same s s'.
  Proof. intros E H. split; [intros x; unfold handles, aget; now rewrite E|]. intros x r. unfold aget. rewrite E. apply H. Qed.
  Lemma same_aset s ns r r' : aget s ns = Some r -> ar_handles r' = ar_handles r -> HPos s ->
    same s (with_open s (aset s ns r')).
  Proof.
    intros G E H. split.
    - intros x. unfold handles. rewrite aget_aset. destruct (N.eqb_spec x ns) as [->|]; auto. now rewrite G.
    - intros x r0. rewrite aget_aset. destruct (N.eqb_spec x ns) as [->|]; [|apply H].
      intros E0. inversion E0; subst. rewrite E. now apply (H ns r).
  Qed.
  Lemma same_deliver s T ns evs : HPos s -> same s (fst (deliver (with_tables s T) ns evs)).
  Proof.
    intros H. split; [intros x; now rewrite deliver_handles|]. apply deliver_hpos. exact H.
  Qed.
  Lemma same_trans s1 s2 s3 : same s1 s2 -> same s2 s3 -> same s1 s3.
  Proof. intros [A1 B1] [A2 B2]. split; auto. intros x. now rewrite A2, A1. Qed.

  Theorem step_handles s o : HPos s ->
    let '(s', r, _) := step s o in (forall x, handles s' x = hstep (handles s) o r x) /\ HPos s'.
  Proof.
    intros H. destruct o; cbn [astep].
    - (* open *)
      destruct (aget s ns) as [r|] eqn:G.
      + split.
        * intros x. unfold handles at 1. rewrite aget_aset. cbn [hstep]. destruct (N.eqb_spec x ns) as [->|]; auto.
          unfold handles. now rewrite G.
        * intros x r0. rewrite aget_aset. destruct (N.eqb_spec x ns) as [->|]; [|apply H].
          intros E0. inversion E0; subst. cbn. lia.
      + destruct (writable (a_tables s) ns) as [w|]; [|split; [intros x; reflexivity|exact H]].
        change (mkA (a_tables s) (add_n ns (a_store_open s)) (a_clock s)
                    (aset s ns (mkAR 1 sync match sub with Some c => [c] | None => [] end w)) (a_dead s))
          with (with_open (mkA (a_tables s) (add_n ns (a_store_open s)) (a_clock s) (a_open s) (a_dead s))
                          (aset s ns (mkAR 1 sync match sub with Some c => [c] | None => [] end w))).
        split.
        * intros x. unfold handles at 1.
          change (aset s ns) with (aset (mkA (a_tables s) (add_n ns (a_store_open s)) (a_clock s) (a_open s) (a_dead s)) ns).
          rewrite aget_aset. cbn [hstep]. destruct (N.eqb_spec x ns) as [->|]; [|reflexivity].
          unfold handles. rewrite G. reflexivity.
        * intros x r0.
          change (aset s ns) with (aset (mkA (a_tables s) (add_n ns (a_store_open s)) (a_clock s) (a_open s) (a_dead s)) ns).
          rewrite aget_aset. destruct (N.eqb_spec x ns) as [->|]; [|apply H].
          intros E0. inversion E0; subst. cbn. lia.
    - (* close *)
      pose proof (aclose_handles s ns) as AH. pose proof (aclose_hpos s ns H) as AP.
      destruct (aclose s ns) as [s' b]. cbn [fst] in *. split; [intros x; rewrite AH; auto|exact AP].
    - (* get state *) destruct (aget s ns); split; auto; intros x; reflexivity.
    - (* set sync *)
      destruct (aget s ns) as [r|] eqn:G; [|split; auto; intros x; reflexivity].
      apply (same_aset s ns r); auto.
    - destruct (aget s ns) as [r|] eqn:G; [|split; auto; intros x; reflexivity]. apply (same_aset s ns r); auto.
    - destruct (aget s ns) as [r|] eqn:G; [|split; auto; intros x; reflexivity]. apply (same_aset s ns r); auto.
    - (* drop receiver *) apply (same_open s); auto.
    - (* insert local *)
      destruct (negb known_author); [split; auto; intros x; reflexivity|].
      destruct (aget s ns) as [r|] eqn:G; [|split; auto; intros x; reflexivity].
      destruct (replica_insert _ _ _ _ _ _ _ _ _ _ _) as [[T' res] evs].
      pose proof (same_deliver s T' ns evs H) as SD. destruct (deliver (with_tables s T') ns evs) as [s' d]. exact SD.
    - destruct (negb known_author); [split; auto; intros x; reflexivity|].
      destruct (aget s ns) as [r|] eqn:G; [|split; auto; intros x; reflexivity].
      destruct (replica_delete_prefix _ _ _ _ _ _ _ _ _) as [[T' res] evs].
      pose proof (same_deliver s T' ns evs H) as SD. destruct (deliver (with_tables s T') ns evs) as [s' d]. exact SD.
    - destruct (aget s ns) as [r|] eqn:G; [|split; auto; intros x; reflexivity].
      destruct (negb (ar_sync r)); [split; auto; intros x; reflexivity|].
      destruct (replica_insert_remote _ _ _ _ _ _ _ _ _) as [[T' res] evs].
      pose proof (same_deliver s T' ns evs H) as SD. destruct (deliver (with_tables s T') ns evs) as [s' d]. exact SD.
    - destruct (aget s ns) as [r|] eqn:G; [|split; auto; intros x; reflexivity].
      destruct (negb (ar_sync r)); split; auto; intros x; reflexivity.
    - destruct (aget s ns) as [r|] eqn:G; [|split; auto; intros x; reflexivity].
      destruct (negb (ar_sync r)); [split; auto; intros x; reflexivity|].
      destruct (sync_process _ _ _ _ _ _ _ _ _ _ _) as [[[T' reply] oc] evs].
      pose proof (same_deliver s T' ns evs H) as SD. destruct (deliver (with_tables s T') ns evs) as [s' d]. exact SD.
    - destruct (aget s ns); split; auto; intros x; reflexivity.
    - destruct (aget s ns); split; auto; intros x; reflexivity.
    - (* drop *)
      pose proof (aclose_handles s ns) as AH. pose proof (aclose_hpos s ns H) as AP.
      destruct (aclose s ns) as [s1 b]. cbn [fst] in *.
      destruct (mem ns (a_store_open s1)); (split; [intros x; cbn [hstep]; rewrite <- AH; auto; reflexivity|exact AP]).
    - (* import *)
      destruct (import_namespace (a_tables s) ns secret) as [T' out].
      destruct out; try (apply (same_open s); auto).
      destruct (aget (with_tables s T') ns) as [r|] eqn:G; [|apply (same_open s); auto].
      apply (same_trans s (with_tables s T')); [apply same_open; auto|].
      apply (same_aset (with_tables s T') ns r); auto.
    - destruct (aget s ns); split; auto; intros x; reflexivity.
    - destruct (get_cap (a_tables s) ns); [apply (same_open s); auto|split; auto; intros x; reflexivity].
    - split; auto; intros x; reflexivity.
    - destruct (register_useful_peer _ _ _ _ _); apply (same_open s); auto.
    - destruct (aget s ns); split; auto; intros x; reflexivity.
    - split; auto; intros x; reflexivity.
  Qed.

  (** whole histories *)
  Fixpoint arun (s : astate) (ops : list aop) : astate * list (aop * ares) :=
    match ops with
    | [] => (s, [])
    | o :: rest => let '(s', r, _) := step s o in let '(s'', tr) := arun s' rest in (s'', (o, r) :: tr)
    end.
  Definition hcount_from (c : N -> N) (tr : list (aop * ares)) : N -> N :=
    fold_left (fun c p => hstep c (fst p) (snd p)) tr c.

  Lemma hcount_ext tr : forall c c', (forall x, c x = c' x) -> forall x, hcount_from c tr x = hcount_from c' tr x.
  Proof.
    induction tr as [|[o r] tr IH]; intros c c' E x; cbn [hcount_from fold_left]; auto.
    apply IH. intros y. unfold hstep. cbn [fst snd]. destruct o; rewrite ?E; auto; destruct r; rewrite ?E; auto.
  Qed.

  Theorem history_handles ops : forall s, HPos s ->
    let '(s', tr) := arun s ops in
    (forall x, handles s' x = hcount_from (handles s) tr x) /\ HPos s'.
  Proof.
    induction ops as [|o ops IH]; intros s H; cbn [arun]; [split; auto; intros x; reflexivity|].
    pose proof (step_handles s o H) as ST. destruct (step s o) as [[s1 r] d]. destruct ST as [E1 H1].
    specialize (IH s1 H1). destruct (arun s1 ops) as [s2 tr]. destruct IH as [E2 H2]. split; auto.
    intros x. rewrite E2. cbn [hcount_from fold_left fst snd]. apply hcount_ext. exact E1.
  Qed.

  Lemma HPos_init T : HPos (ainit T).
  Proof. intros ns r. unfold aget. cbn. discriminate. Qed.

  (** from a freshly spawned actor: the handles held for a document are the abstract counter of the
      acknowledged history, and the document is open exactly while the counter is positive *)
  Corollary history_counter T ops :
    let '(s', tr) := arun (ainit T) ops in
    forall x, handles s' x = hcount_from (fun _ => 0) tr x /\
              (aget s' x = None <-> hcount_from (fun _ => 0) tr x = 0).
  Proof.
    pose proof (history_handles ops (ainit T) (HPos_init T)) as HH.
    destruct (arun (ainit T) ops) as [s' tr]. destruct HH as [E P]. intros x.
    assert (E0 : handles s' x = hcount_from (fun _ => 0) tr x).
    { rewrite E. apply hcount_ext. intros y. reflexivity. }
    split; auto. rewrite <- E0. unfold handles. destruct (aget s' x) as [r|] eqn:G.
    - specialize (P x r G). split; [discriminate|lia].
    - split; auto.
  Qed.
End Handles.
