(** C15 / C12: the download flag of a single remote insert is what the stored policy says for the key. *)
From Coq Require Import Lia.
From ID Require Import Base.Bytes Model.Entry Model.Tables Model.Bounds Model.FsStore Model.Replica Model.Ranger
  Model.StoreOps Model.Actor Proofs.TblFacts Proofs.ActorFacts Proofs.EventFacts.

Lemma fs_put_policy ks EH T e : t_policy (fst (fs_put ks EH T e)) = t_policy T.
Proof.
  unfold fs_put. destruct (existsb _ _); cbn [fst]; auto.
  unfold fs_remove_prefix_filtered. destruct (tbl_extract_if _ _ _ _ _) as [r n]. cbn [fst].
  unfold fs_entry_put. cbn. destruct (tbl_get pair_cmp _ _) as [[ts kk]|]; [destruct (ts <=? e_ts e)|]; reflexivity.
Qed.

Theorem remote_insert_event_flag ks EH MF CAP mss split s ns e ok from st now r :
  aget s ns = Some r -> ar_sync r = true ->
  let '(s', reply, d) := astep ks EH MF CAP mss split s (AInsertRemote ns e ok from st now) in
  reply = AOk ->
  d = map (fun c => (c, RemoteInsert e from (policy_matches (get_policy (a_tables s) ns) (e_key e)) st)) (live_of s ns).
Proof.
  intros G SY. cbn [astep]. rewrite G, SY. cbn [negb].
  unfold replica_insert_remote, insert_entry. cbn [w_entry].
  destruct (negb (validate_empty EH e)); [rewrite deliver_nil; discriminate|].
  destruct (validate_entry MF now ns (mkW e ok) false); [rewrite deliver_nil; discriminate|].
  pose proof (fs_put_policy ks EH (a_tables s) e) as PP.
  destruct (fs_put ks EH (a_tables s) e) as [T' [|n]]; cbn [fst] in PP; [rewrite deliver_nil; discriminate|].
  pose proof (deliver_spec (with_tables s T') ns [RemoteInsert e from (policy_matches (get_policy T' ns) (e_key e)) st]) as DS.
  destruct (deliver (with_tables s T') ns _) as [s' d]. cbn [snd] in DS. intros _.
  rewrite DS. cbn [flat_map]. rewrite app_nil_r. unfold get_policy. now rewrite PP.
Qed.
