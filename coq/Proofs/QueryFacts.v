(** C05: the iterator model of a query ([run_query]: index selection, computed bounds, stale
    index rows, direction, filters, latest-per-key, offset/limit) yields exactly the declarative
    reading [query_spec] over the document's entries — for every well-formed table state and
    every query. *)
From Coq Require Import Lia Sorted.
From ID Require Import Base.Bytes Base.BytesFacts Model.Entry Model.Put Model.Tables Model.Bounds
  Model.FsStore Model.Query Proofs.EntryFacts Proofs.BoundsFacts Proofs.TblFacts Proofs.SortedTbl
  Proofs.FsPutFacts Proofs.ConvergeFacts Proofs.RangeFacts Proofs.RefineFacts.

(** ---- insertion sort against a strict order ---- *)
Section Sort.
  Variable lt : entry -> entry -> bool.
  Hypothesis lt_irrefl : forall a, lt a a = false.
  Hypothesis lt_trans : forall a b c, lt a b = true -> lt b c = true -> lt a c = true.

  Definition lsorted (l : list entry) : Prop := StronglySorted (fun a b => lt a b = true) l.

  Lemma insert_In e l y : In y (insert_by lt e l) <-> y = e \/ In y l.
  Proof.
    induction l as [|x r IH]; cbn [insert_by].
    - cbn. intuition.
    - destruct (lt e x); cbn [In]; [intuition|]. rewrite IH. intuition.
  Qed.
  Lemma sort_cons a l : sort_by lt (a :: l) = insert_by lt a (sort_by lt l).
  Proof. reflexivity. Qed.
  Lemma sort_In l y : In y (sort_by lt l) <-> In y l.
  Proof.
    induction l as [|a l IH]; [cbn; tauto|].
    rewrite sort_cons, insert_In, IH. cbn. intuition.
  Qed.

  Lemma insert_sorted e l : lsorted l -> (forall x, In x l -> lt e x = false -> lt x e = true) ->
    lsorted (insert_by lt e l).
  Proof.
    induction 1 as [|x r S IH F]; intros TOT; cbn [insert_by]; [repeat constructor|].
    rewrite Forall_forall in F.
    destruct (lt e x) eqn:C.
    - constructor; [constructor; auto; now apply Forall_forall|].
      constructor; auto. apply Forall_forall. intros y Hy. eapply lt_trans; eauto.
    - constructor.
      + apply IH. intros y Hy. apply TOT. now right.
      + apply Forall_forall. intros y Hy. apply insert_In in Hy. destruct Hy as [->|Hy]; auto.
        apply TOT; auto. now left.
  Qed.

  Lemma sort_sorted l : NoDup l ->
    (forall a b, In a l -> In b l -> a = b \/ lt a b = true \/ lt b a = true) -> lsorted (sort_by lt l).
  Proof.
    induction 1 as [|a l NI ND IH]; intros TOT; [constructor|].
    rewrite sort_cons. apply insert_sorted.
    - apply IH. intros x y Hx Hy. apply TOT; now right.
    - intros x Hx C. apply (proj1 (sort_In l x)) in Hx.
      destruct (TOT a x (or_introl eq_refl) (or_intror Hx)) as [E|[H|H]]; auto; [subst; contradiction|congruence].
  Qed.

  Lemma sort_id l : lsorted l -> sort_by lt l = l.
  Proof.
    induction 1 as [|a l S IH F]; auto.
    rewrite sort_cons, IH.
    destruct l as [|x r]; cbn [insert_by]; auto.
    rewrite Forall_forall in F. now rewrite (F x (or_introl eq_refl)).
  Qed.

  Lemma lsorted_ext l1 : forall l2, lsorted l1 -> lsorted l2 -> (forall x, In x l1 <-> In x l2) -> l1 = l2.
  Proof.
    assert (IRR : forall a, lt a a = true -> False) by (intros a H; rewrite lt_irrefl in H; discriminate).
    induction l1 as [|a l1 IH]; intros [|b l2] S1 S2 H; auto.
    - exfalso. apply (proj2 (H b)). now left.
    - exfalso. apply (proj1 (H a)). now left.
    - inversion S1 as [|? ? S1' F1]; inversion S2 as [|? ? S2' F2]; subst.
      rewrite Forall_forall in F1, F2.
      assert (a = b).
      { destruct (proj1 (H a) (or_introl eq_refl)) as [E|I]; auto.
        destruct (proj2 (H b) (or_introl eq_refl)) as [E|I']; auto.
        exfalso. apply (IRR a). eapply lt_trans; [apply F1; exact I'|apply F2; exact I]. }
      subst b. f_equal. apply IH; auto. intros x. split; intros I.
      + destruct (proj1 (H x) (or_intror I)) as [E|I']; auto. subst x. exfalso. exact (IRR a (F1 a I)).
      + destruct (proj2 (H x) (or_intror I)) as [E|I']; auto. subst x. exfalso. exact (IRR a (F2 a I)).
  Qed.

  Lemma lsorted_filter f l : lsorted l -> lsorted (filter f l).
  Proof.
    induction 1 as [|a l S IH F]; cbn; [constructor|]. destruct (f a); auto. constructor; auto.
    rewrite Forall_forall in *. intros x Hx. apply filter_In in Hx. apply F. tauto.
  Qed.
End Sort.

(** ---- the two orders of the query results ---- *)
Lemma lt_ak_irrefl a : lt_author_key a a = false.
Proof. unfold lt_author_key. rewrite N.compare_refl. apply lex_lt_irrefl. Qed.
Lemma lt_ak_trans a b c : lt_author_key a b = true -> lt_author_key b c = true -> lt_author_key a c = true.
Proof.
  unfold lt_author_key.
  destruct (N.compare_spec (e_author a) (e_author b)) as [E1|L1|G1]; try discriminate;
  destruct (N.compare_spec (e_author b) (e_author c)) as [E2|L2|G2]; try discriminate; intros H1 H2.
  - rewrite E1, E2, N.compare_refl. eapply lex_lt_trans; eauto.
  - rewrite E1. destruct (N.compare_spec (e_author b) (e_author c)); auto; lia.
  - rewrite <- E2. destruct (N.compare_spec (e_author a) (e_author b)); auto; lia.
  - destruct (N.compare_spec (e_author a) (e_author c)); auto; lia.
Qed.
Lemma lt_ka_irrefl a : lt_key_author a a = false.
Proof. unfold lt_key_author. assert (E : lex_cmp (e_key a) (e_key a) = Eq) by now apply lex_cmp_eq. rewrite E. apply N.ltb_irrefl. Qed.
Lemma lt_ka_spec a b : lt_key_author a b = true <->
  lex_lt (e_key a) (e_key b) = true \/ (e_key a = e_key b /\ e_author a < e_author b).
Proof.
  unfold lt_key_author. destruct (lex_cmp (e_key a) (e_key b)) eqn:C.
  - apply lex_cmp_eq in C. rewrite C, lex_lt_irrefl, N.ltb_lt. intuition discriminate.
  - apply lex_cmp_lt in C. rewrite C. intuition.
  - apply lex_cmp_gt in C. pose proof (lex_lt_asym _ _ C) as C'. rewrite C'. split; [discriminate|].
    intros [H|[E _]]; [discriminate|]. rewrite E, lex_lt_irrefl in C. discriminate.
Qed.
Lemma lt_ka_trans a b c : lt_key_author a b = true -> lt_key_author b c = true -> lt_key_author a c = true.
Proof.
  rewrite !lt_ka_spec. intros [H1|[E1 L1]] [H2|[E2 L2]].
  - left. eapply lex_lt_trans; eauto.
  - left. now rewrite <- E2.
  - left. now rewrite E1.
  - right. split; [congruence|lia].
Qed.

(** ---- the index table ---- *)
Lemma kid_cmp_eq a b : kid_cmp a b = Eq <-> a = b.
Proof.
  destruct a as [[n1 k1] a1], b as [[n2 k2] a2]. unfold kid_cmp.
  destruct (N.compare_spec n1 n2) as [->|L|G].
  - destruct (lex_cmp k1 k2) eqn:C.
    + apply lex_cmp_eq in C. subst k2. rewrite N.compare_eq_iff. split; [now intros ->|intros H; now inversion H].
    + split; [discriminate|]. intros H; inversion H; subst. assert (X : lex_cmp k2 k2 = Eq) by now apply lex_cmp_eq. congruence.
    + split; [discriminate|]. intros H; inversion H; subst. assert (X : lex_cmp k2 k2 = Eq) by now apply lex_cmp_eq. congruence.
  - split; [discriminate|intros H; inversion H; lia].
  - split; [discriminate|intros H; inversion H; lia].
Qed.
Lemma kid_cmp_lt_trans a b c : kid_cmp a b = Lt -> kid_cmp b c = Lt -> kid_cmp a c = Lt.
Proof.
  rewrite !kid_cmp_lt. destruct a as [[n1 k1] a1], b as [[n2 k2] a2], c as [[n3 k3] a3]. cbn.
  intros [H1|[E1 H1]] [H2|[E2 H2]]; [left; lia|left; lia|left; lia|]. subst n2 n3. right. split; auto.
  destruct H1 as [H1|[E1 H1]], H2 as [H2|[E2 H2]].
  - left. eapply lex_lt_trans; eauto.
  - left. now rewrite <- E2.
  - left. now rewrite E1.
  - right. split; [congruence|lia].
Qed.
Lemma kid_cmp_gt_lt a b : kid_cmp a b = Gt <-> kid_cmp b a = Lt.
Proof. rewrite kid_cmp_gt, kid_cmp_lt. tauto. Qed.

Definition ksorted := sorted (V := unit) kid_cmp.
Definition wf_krow (r : kid * unit) : Prop := let '((n, k, a), _) := r in n <= MAX256 /\ a <= MAX256 /\ wf_bytes k.
(** the index lists every record (it may list more: rows of pruned records stay behind) *)
Definition wf_index (T : tables) : Prop :=
  ksorted (t_bykey T) /\ Forall wf_krow (t_bykey T) /\
  forall n a k v, In ((n, a, k), v) (t_records T) -> In ((n, k, a), tt) (t_bykey T).

(** bounds, uniformly *)
Lemma kb_new_exact ns f n k a : n <= MAX256 -> a <= MAX256 -> wf_bytes k ->
  in_bounds kid_cmp (fst (kb_new prefix_succ ns f)) (snd (kb_new prefix_succ ns f)) (n, k, a)
  = (n =? ns) && kf_matches f k.
Proof.
  intros Hn Ha Wk. destruct f as [|x|p]; cbn [kf_matches].
  - rewrite andb_true_r. now apply kb_namespace_exact.
  - now apply kb_exact_exact.
  - now apply kb_prefix_exact.
Qed.
Lemma rb_author_key_exact ns au f n a k : n <= MAX256 -> a <= MAX256 -> wf_bytes k ->
  in_bounds rid_cmp (fst (rb_author_key prefix_succ ns au f)) (snd (rb_author_key prefix_succ ns au f)) (n, a, k)
  = (n =? ns) && (a =? au) && kf_matches f k.
Proof.
  intros Hn Ha Wk. destruct f as [|x|p]; cbn [kf_matches].
  - rewrite andb_true_r. now apply rb_author_any_exact.
  - now apply rb_author_exact_exact.
  - now apply (rb_author_prefix_exact ns au p).
Qed.

(** the document's rows are in (author, key) order *)
Lemma fs_all_ak_sorted ns T : wf_records T -> lsorted lt_author_key (fs_all ns T).
Proof.
  intros W. pose proof (fs_all_sorted ns T W) as S. pose proof W as [_ WR].
  assert (NS : forall e, In e (fs_all ns T) -> e_ns e = ns) by (intros e He; apply (in_fs_all ns T e WR) in He; tauto).
  induction S as [|a l S IH F]; constructor.
  - apply IH. intros e He. apply NS. now right.
  - rewrite Forall_forall in *. intros x Hx. specialize (F x Hx). unfold elt in F. rewrite eid_rid in F.
    apply rid_cmp_lt in F. unfold entry_rid in F. cbn [rid_lt] in F.
    rewrite (NS a (or_introl eq_refl)), (NS x (or_intror Hx)) in F.
    unfold lt_author_key. destruct F as [F|[_ [F|[E F]]]]; [lia| |].
    + destruct (N.compare_spec (e_author a) (e_author x)); auto; lia.
    + rewrite E, N.compare_refl. exact F.
Qed.

Lemma ssorted_NoDup l : ssorted l -> NoDup l.
Proof.
  induction 1 as [|a l S IH F]; constructor; auto.
  intros I. rewrite Forall_forall in F. exact (elt_irrefl a (F a I)).
Qed.

(** distinct rows of one document differ in (key, author) *)
Lemma fs_all_total ns T : wf_records T -> forall a b, In a (fs_all ns T) -> In b (fs_all ns T) ->
  a = b \/ lt_key_author a b = true \/ lt_key_author b a = true.
Proof.
  intros W a b Ha Hb. pose proof W as [SR WR].
  destruct (lex_total (e_key a) (e_key b)) as [L|[E|L]].
  - right. left. apply lt_ka_spec. now left.
  - destruct (N.lt_trichotomy (e_author a) (e_author b)) as [L|[E2|L]].
    + right. left. apply lt_ka_spec. now right.
    + left. apply (in_fs_all ns T a WR) in Ha. apply (in_fs_all ns T b WR) in Hb.
      destruct Ha as [Ia Na], Hb as [Ib Nb]. apply in_recs in Ia. apply in_recs in Ib.
      assert (ID : entry_rid a = entry_rid b) by (unfold entry_rid; congruence).
      rewrite ID in Ia. pose proof (sorted_keys_unique rid_cmp rid_cmp_eq _ SR _ _ _ Ia Ib) as V.
      destruct a, b. unfold entry_rid, entry_rval in *. cbn in *. inversion ID; inversion V; subst. reflexivity.
    + right. right. apply lt_ka_spec. right. split; auto.
  - right. right. apply lt_ka_spec. now left.
Qed.

(** ---- list helpers ---- *)
Lemma filter_rev' {A} (f : A -> bool) l : filter f (rev l) = rev (filter f l).
Proof.
  induction l as [|a l IH]; cbn [rev filter]; auto.
  rewrite filter_app, IH. cbn [filter]. destruct (f a); cbn [rev]; auto. now rewrite app_nil_r.
Qed.
Lemma filter_dir {A} (f : A -> bool) d l : filter f (dir d l) = dir d (filter f l).
Proof. unfold dir. destruct d; auto. apply filter_rev'. Qed.
Lemma flat_map_rev1 {A B} (f : A -> list B) l : (forall x, (length (f x) <= 1)%nat) ->
  flat_map f (rev l) = rev (flat_map f l).
Proof.
  intros H. induction l as [|a l IH]; cbn [rev flat_map]; auto.
  rewrite flat_map_app, IH, rev_app_distr. cbn [flat_map]. rewrite app_nil_r. f_equal.
  specialize (H a). destruct (f a) as [|x [|y r]]; cbn in *; auto. lia.
Qed.
Lemma flat_map_dir1 {A B} (f : A -> list B) d l : (forall x, (length (f x) <= 1)%nat) ->
  flat_map f (dir d l) = dir d (flat_map f l).
Proof. intros H. unfold dir. destruct d; auto. now apply flat_map_rev1. Qed.

(** ---- scans of the records table ---- *)
Lemma scan_records ns T b (P : entry -> bool) : wf_records T ->
  (forall r, wf_row r -> in_bounds rid_cmp (fst b) (snd b) (fst r) = (fst (fst (fst r)) =? ns) && P (row_entry r)) ->
  map row_entry (tbl_range rid_cmp (fst b) (snd b) (t_records T)) = filter P (fs_all ns T).
Proof.
  intros [SR WR] EX. rewrite (fs_all_filter ns T WR). unfold recs, tbl_range.
  rewrite filter_filter.
  assert (E : forall (g : entry -> bool) l, filter g (map row_entry l) = map row_entry (filter (fun r => g (row_entry r)) l)).
  { intros g l. induction l as [|r l IH]; cbn [map filter]; auto. destruct (g (row_entry r)); cbn [map]; now rewrite IH. }
  rewrite E. f_equal. apply (filter_ext_Forall' wf_row); auto. intros r Wr. rewrite (EX r Wr).
  destruct r as [[[n a] k] [[t ln] h]]. reflexivity.
Qed.

(** ---- the walk over the index ---- *)
Definition look (T : tables) (af : option N) (row : kid * unit) : list entry :=
  let '((n, k, a), _) := row in
  if author_ok af a then
    match tbl_get rid_cmp (n, a, k) (t_records T) with
    | Some v => [row_entry ((n, a, k), v)]
    | None => []
    end
  else [].
Lemma look_short T af row : (length (look T af row) <= 1)%nat.
Proof. destruct row as [[[n k] a] u]. unfold look. destruct (author_ok af a); [destruct (tbl_get _ _ _)|]; cbn; lia. Qed.
Lemma look_In T af row e : In e (look T af row) ->
  let '((n, k, a), _) := row in e_ns e = n /\ e_key e = k /\ e_author e = a.
Proof.
  destruct row as [[[n k] a] u]. unfold look. destruct (author_ok af a); [|intros []].
  destruct (tbl_get _ _ _) as [[[t ln] h]|]; [|intros []]. intros [<-|[]]. cbn. auto.
Qed.

Lemma look_sorted T af ns rows : ksorted rows -> (forall r, In r rows -> fst (fst (fst r)) = ns) ->
  lsorted lt_key_author (flat_map (look T af) rows).
Proof.
  induction 1 as [|r rows S IH F]; intros NS; cbn [flat_map]; [constructor|].
  assert (IH' : lsorted lt_key_author (flat_map (look T af) rows)) by (apply IH; intros x Hx; apply NS; now right).
  pose proof (look_short T af r) as SH. pose proof (look_In T af r) as LI.
  destruct (look T af r) as [|e [|e' l']]; cbn [app]; auto; [|cbn in SH; lia].
  constructor; auto. apply Forall_forall. intros x Hx. apply in_flat_map in Hx. destruct Hx as [r' [Hr' Hx]].
  rewrite Forall_forall in F. specialize (F r' Hr'). unfold klt in F. apply kid_cmp_lt in F.
  specialize (LI e (or_introl eq_refl)). pose proof (look_In T af r' x Hx) as LX.
  pose proof (NS r (or_introl eq_refl)) as N1. pose proof (NS r' (or_intror Hr')) as N2.
  destruct r as [[[n k] a] u], r' as [[[n' k'] a'] u']. cbn [fst kid_lt] in *. subst n n'.
  destruct LI as (_ & K1 & A1). destruct LX as (_ & K2 & A2). apply lt_ka_spec. rewrite K1, K2, A1, A2.
  destruct F as [F|[_ F]]; [lia|]. destruct F as [F|[F1 F2]]; auto.
Qed.

Lemma index_found ns T af key : wf_records T -> wf_index T ->
  let b := kb_new prefix_succ ns key in
  flat_map (look T af) (tbl_range kid_cmp (fst b) (snd b) (t_bykey T))
  = sort_by lt_key_author (filter (fun e => author_ok af (e_author e) && kf_matches key (e_key e)) (fs_all ns T)).
Proof.
  intros W (KS & KW & COMPLETE) b. pose proof W as [SR WR].
  set (m := filter _ (fs_all ns T)).
  assert (RNG : forall r, In r (tbl_range kid_cmp (fst b) (snd b) (t_bykey T)) <->
                          In r (t_bykey T) /\ fst (fst (fst r)) = ns /\ kf_matches key (snd (fst (fst r))) = true).
  { intros r. unfold tbl_range. rewrite filter_In. split.
    - intros [I B]. split; auto. rewrite Forall_forall in KW. specialize (KW r I).
      destruct r as [[[n k] a] u]. destruct KW as (Hn & Ha & Wk). cbn [fst snd] in *.
      unfold b in B. rewrite (kb_new_exact ns key n k a Hn Ha Wk) in B. apply andb_true_iff in B.
      rewrite N.eqb_eq in B. tauto.
    - intros (I & N1 & K1). split; auto. rewrite Forall_forall in KW. specialize (KW r I).
      destruct r as [[[n k] a] u]. destruct KW as (Hn & Ha & Wk). cbn [fst snd] in *.
      unfold b. rewrite (kb_new_exact ns key n k a Hn Ha Wk), K1, N1, N.eqb_refl. reflexivity. }
  apply (lsorted_ext lt_key_author lt_ka_irrefl lt_ka_trans).
  - apply (look_sorted T af ns).
    + apply sorted_filter. exact KS.
    + intros r Hr. apply RNG in Hr. tauto.
  - apply (sort_sorted lt_key_author lt_ka_trans).
    + apply NoDup_filter. apply ssorted_NoDup. now apply fs_all_sorted.
    + intros x y Hx Hy. apply filter_In in Hx. apply filter_In in Hy. apply (fs_all_total ns T W); tauto.
  - intros e. rewrite (sort_In lt_key_author). unfold m. rewrite filter_In, (in_fs_all ns T e WR), andb_true_iff. split.
    + intros H. apply in_flat_map in H. destruct H as [r [Hr He]]. apply RNG in Hr. destruct Hr as (I & N1 & K1).
      pose proof (look_In T af r e He) as LI. destruct r as [[[n k] a] u]. cbn [fst snd] in *.
      destruct LI as (E1 & E2 & E3). unfold look in He. destruct (author_ok af a) eqn:AO; [|destruct He].
      destruct (tbl_get rid_cmp (n, a, k) (t_records T)) as [v|] eqn:G; [|destruct He].
      destruct He as [<-|[]]. apply (tbl_get_sorted rid_cmp rid_cmp_eq) in G; auto.
      repeat split.
      * unfold recs. apply in_map_iff. eexists. split; [reflexivity|exact G].
      * destruct v as [[t ln] h]. cbn. exact N1.
      * destruct v as [[t ln] h]. cbn. exact AO.
      * destruct v as [[t ln] h]. cbn. exact K1.
    + intros ((I & N1) & AO & K1). apply in_recs in I.
      pose proof (COMPLETE _ _ _ _ I) as IDX. apply in_flat_map. exists (e_ns e, e_key e, e_author e, tt). split.
      * apply RNG. cbn [fst snd]. auto.
      * unfold look. rewrite AO.
        assert (G : tbl_get rid_cmp (e_ns e, e_author e, e_key e) (t_records T) = Some (entry_rval e))
          by (apply (tbl_get_sorted rid_cmp rid_cmp_eq); auto).
        rewrite G. left. destruct e. reflexivity.
Qed.

(** ---- the theorem ---- *)
Theorem run_query_is_spec EH ns T q : wf_records T -> wf_index T ->
  run_query prefix_succ EH T ns q = query_spec EH (fs_all ns T) q.
Proof.
  intros W WI. pose proof W as [SR WR].
  destruct q as [latest by_key author key limit offset inc desc].
  unfold run_query, query_spec, matches. cbn [q_latest q_by_key q_author q_key q_desc].
  (* the index walk, for any author filter *)
  assert (IDX : forall af,
            flat_map (fun row : kid * unit => let '((n, k, a), _) := row in
                        if author_ok af a then
                          match tbl_get rid_cmp (n, a, k) (t_records T) with
                          | Some v => [row_entry ((n, a, k), v)]
                          | None => []
                          end
                        else [])
                     (dir desc (tbl_range kid_cmp (fst (kb_new prefix_succ ns key)) (snd (kb_new prefix_succ ns key)) (t_bykey T)))
            = dir desc (sort_by lt_key_author (filter (fun e => author_ok af (e_author e) && kf_matches key (e_key e)) (fs_all ns T)))).
  { intros af. change (fun row : kid * unit => _) with (look T af).
    rewrite (flat_map_dir1 _ _ _ (look_short T af)). f_equal. exact (index_found ns T af key W WI). }
  destruct latest; cbn [orb].
  - (* latest per key *)
    now rewrite IDX.
  - destruct author as [a|]; cbn [andb orb].
    + (* one author: a scan of the records table between computed bounds *)
      rewrite andb_false_r.
      assert (SC : map row_entry (tbl_range rid_cmp (fst (rb_author_key prefix_succ ns a key)) (snd (rb_author_key prefix_succ ns a key)) (t_records T))
                   = filter (fun e => author_ok (Some a) (e_author e) && kf_matches key (e_key e)) (fs_all ns T)).
      { apply scan_records; auto. intros [[[n a'] k] [[t ln] h]] (Hn & Ha & Wk). cbn [fst row_entry e_author e_key author_ok].
        rewrite (rb_author_key_exact ns a key n a' k Hn Ha Wk), <- andb_assoc. f_equal. f_equal. apply N.eqb_sym. }
      rewrite SC. rewrite (sort_id lt_author_key).
      * reflexivity.
      * apply lsorted_filter. now apply fs_all_ak_sorted.
    + destruct by_key; cbn [andb].
      * (* all authors in key order: the index *)
        now rewrite IDX.
      * (* all authors in author order: the whole document, filtered *)
        change (map row_entry (tbl_range rid_cmp (fst (rb_namespace ns)) (snd (rb_namespace ns)) (t_records T))) with (fs_all ns T).
        rewrite (sort_id lt_author_key).
        -- rewrite !filter_dir. f_equal. f_equal. rewrite filter_filter. apply filter_ext. intros e.
           cbn [author_ok andb]. reflexivity.
        -- apply lsorted_filter. now apply fs_all_ak_sorted.
Qed.

(** ---- the index invariant holds in every reachable state ---- *)
Lemma wf_index_empty : wf_index empty_tables.
Proof. split; [constructor|split; [constructor|intros n a k v []]]. Qed.

Lemma entry_put_bykey T e :
  t_bykey (fs_entry_put T e) = tbl_insert kid_cmp (e_ns e, e_key e, e_author e) tt (t_bykey T).
Proof.
  unfold fs_entry_put. cbn. destruct (tbl_get pair_cmp _ _) as [[ts k]|]; [destruct (ts <=? e_ts e)|]; reflexivity.
Qed.

Lemma Forall_insert {K V} (cmp : K -> K -> comparison) (P : K * V -> Prop) k v l :
  P (k, v) -> Forall P l -> Forall P (tbl_insert cmp k v l).
Proof.
  intros Pk. induction 1 as [|[k0 v0] l Px F IH]; cbn [tbl_insert]; [repeat constructor; auto|].
  destruct (cmp k k0); repeat constructor; auto.
Qed.

Theorem fs_put_keeps_index EH T e : wf_records T -> wf_index T -> wf_entry e ->
  wf_index (fst (fs_put prefix_succ EH T e)).
Proof.
  intros [SR WR] (KS & KW & COMPLETE) (Hn & Ha & Wk). unfold fs_put.
  destruct (existsb _ _); cbn [fst]; [repeat split; auto|].
  pose proof (recs_remove T e WR) as (_ & _ & TR). cbv zeta in TR.
  destruct (fs_remove_prefix_filtered prefix_succ T (e_ns e) (e_author e) (e_key e) (fun c => val_leb c e)) as [T1 n] eqn:RM.
  cbn [fst snd] in *.
  assert (BK : t_bykey T1 = t_bykey T).
  { unfold fs_remove_prefix_filtered in RM. destruct (tbl_extract_if _ _ _ _ _) in RM. inversion RM. reflexivity. }
  assert (S1 : rsorted (t_records T1)) by (rewrite TR; now apply sorted_filter).
  destruct (tbl_insert_spec kid_cmp kid_cmp_eq kid_cmp_lt_trans kid_cmp_gt_lt (t_bykey T) KS (e_ns e, e_key e, e_author e) tt) as [KS' KI].
  destruct (tbl_insert_spec rid_cmp rid_cmp_eq rid_cmp_lt_trans rid_cmp_gt_lt (t_records T1) S1 (entry_rid e) (entry_rval e)) as [_ RI].
  rewrite <- BK in KS', KI.
  split; [|split].
  - rewrite entry_put_bykey. exact KS'.
  - rewrite entry_put_bykey, BK. apply Forall_insert; auto. unfold wf_krow. auto.
  - intros n0 a k v I. rewrite entry_put_records in I. apply RI in I. rewrite entry_put_bykey. apply KI.
    destruct I as [[E1 E2]|[I NE]].
    + left. unfold entry_rid in E1. inversion E1; subst. auto.
    + rewrite TR in I. apply filter_In in I. destruct I as [I _].
      destruct (kid_cmp (n0, k, a) (e_ns e, e_key e, e_author e)) eqn:C.
      * apply kid_cmp_eq in C. left. split; auto.
      * right. split; [rewrite BK; eauto|]. intros E. rewrite E in C. assert (X : kid_cmp (e_ns e, e_key e, e_author e) (e_ns e, e_key e, e_author e) = Eq) by now apply kid_cmp_eq. congruence.
      * right. split; [rewrite BK; eauto|]. intros E. rewrite E in C. assert (X : kid_cmp (e_ns e, e_key e, e_author e) (e_ns e, e_key e, e_author e) = Eq) by now apply kid_cmp_eq. congruence.
Qed.

(** hence after any history of inserts every query answers its declarative reading *)
Theorem queries_exact_after_puts EH ns l q : Forall wf_entry l ->
  let T := fs_puts EH empty_tables l in
  run_query prefix_succ EH T ns q = query_spec EH (fs_all ns T) q.
Proof.
  intros F. cbv zeta.
  assert (G : forall l T, wf_records T -> wf_index T -> Forall wf_entry l ->
              wf_records (fs_puts EH T l) /\ wf_index (fs_puts EH T l)).
  { clear. induction l as [|e l IH]; intros T W WI F; cbn [fs_puts fold_left]; auto.
    inversion F; subst. apply IH; auto.
    - now destruct (fs_put_refines EH T e W H1) as (_ & _ & W').
    - now apply fs_put_keeps_index. }
  destruct (G l empty_tables wf_records_empty wf_index_empty F) as [W WI].
  now apply run_query_is_spec.
Qed.

(** the window, counted in [N] so that a limit of 2^64-1 is an ordinary value, is skipn / firstn *)
Lemma skipn_N_spec l : forall n, skipn_N l n = skipn (N.to_nat n) l.
Proof.
  induction l as [|x l IH]; intros n; cbn [skipn_N].
  - now rewrite skipn_nil.
  - destruct (N.eqb_spec n 0) as [->|NE]; [reflexivity|].
    rewrite IH. replace (N.to_nat n) with (S (N.to_nat (N.pred n))) by lia. reflexivity.
Qed.
Lemma firstn_N_spec l : forall n, firstn_N l n = firstn (N.to_nat n) l.
Proof.
  induction l as [|x l IH]; intros n; cbn [firstn_N].
  - now rewrite firstn_nil.
  - destruct (N.eqb_spec n 0) as [->|NE]; [reflexivity|].
    rewrite IH. replace (N.to_nat n) with (S (N.to_nat (N.pred n))) by lia. reflexivity.
Qed.
Theorem window_spec q l :
  window q l = let l' := skipn (N.to_nat (q_offset q)) l in
                  match q_limit q with Some n => firstn (N.to_nat n) l' | None => l' end.
Proof. unfold window. rewrite skipn_N_spec. destruct (q_limit q); [apply firstn_N_spec|reflexivity]. Qed.
