(** corollaries for every reachable store (histories with removal and re-creation of documents) *)
From ID Require Import Model.Entry Model.Tables Model.FsStore Model.StoreOps Model.Query
  Proofs.FsPutFacts Proofs.QueryFacts Proofs.StoreFacts Proofs.HeadKeyFacts Proofs.RebuildFacts Proofs.ReachFacts.

Theorem reachable_well_formed EH l : Forall wf_dop l ->
  wf_tables (drun EH l) /\ Forall wf_row (t_records (drun EH l)).
Proof. intros F. split; [now apply reachable_wf_tables|]. now destruct (reachable_inv EH l F) as ([_ W] & _). Qed.

Theorem reachable_heads EH l : Forall wf_dop l -> HInv (drun EH l) /\ KInv (drun EH l).
Proof. intros F. destruct (reachable_heads_inv EH l F) as (_ & _ & H & K). auto. Qed.

Theorem rebuilt_in_every_reachable_store EH hist l b : Forall wf_dop hist ->
  let T := drun EH hist in
  let T1 := open_store (wipe l b T) in
  (forall ns, fs_all ns T1 = fs_all ns T) /\
  (forall ns q, run_query prefix_succ EH T1 ns q = run_query prefix_succ EH T ns q) /\
  (forall ns au, head_of T1 ns au = head_of T ns au).
Proof.
  intros F T T1. destruct (reachable_heads_inv EH hist F) as ((W & WI & _) & _ & H & _).
  destruct (rebuilt_as_maintained EH T l b W WI H) as (_ & A & B & C & _). auto.
Qed.
