(** C14 / C12: facts about the actor model. *)
From Coq Require Import Lia.
From ID Require Import Base.Bytes Model.Entry Model.Tables Model.Bounds Model.FsStore Model.Replica
  Model.Ranger Model.StoreOps Model.Actor Proofs.ValidFacts.

Section ActorFacts.
  Variable ks : bytes -> option bytes.
  Variables EH MF CAP mss split : N.
  Notation step := (astep ks EH MF CAP mss split).

  (** operations that need the document to be open *)
  Definition op_needs_open (o : aop) : option N :=
    match o with
    | AGetState ns | ASetSync ns _ | ASubscribe ns _ | AUnsubscribe ns _
    | AInsertLocal ns _ true _ _ _ _ | ADeletePrefix ns _ true _ _
    | AInsertRemote ns _ _ _ _ _ | ASyncInit ns | ASyncProcess ns _ _ _
    | AGetExact ns _ _ _ | AGetAll ns | AExportSecret ns | AGetPeers ns => Some ns
    | _ => None
    end.
  Definition op_needs_sync (o : aop) : option N :=
    match o with
    | AInsertRemote ns _ _ _ _ _ | ASyncInit ns | ASyncProcess ns _ _ _ => Some ns
    | _ => None
    end.

  (** on a document that is not open these fail and change nothing *)
  Theorem closed_ops_fail_noop s o ns :
    op_needs_open o = Some ns -> aget s ns = None -> step s o = (s, AErr ANotOpen, []).
  Proof.
    intros H C. destruct o; cbn in H; try discriminate;
      try (inversion H; subst; cbn; rewrite C; reflexivity).
    - destruct known_author; [|discriminate]. inversion H; subst. cbn. now rewrite C.
    - destruct known_author; [|discriminate]. inversion H; subst. cbn. now rewrite C.
  Qed.

  (** reconciliation and remote insert need the sync switch *)
  Theorem sync_gate s o ns r :
    op_needs_sync o = Some ns -> aget s ns = Some r -> ar_sync r = false ->
    step s o = (s, AErr ASyncOff, []).
  Proof.
    intros H C S. destruct o; cbn in H; try discriminate; inversion H; subst; cbn; rewrite C, S; reflexivity.
  Qed.

  Lemma aget_aset_same s ns r : aget (with_open s (aset s ns r)) ns = Some r.
  Proof. unfold aget, with_open, aset. cbn. now rewrite N.eqb_refl. Qed.
  Lemma aget_adel_same s ns : find (fun p : N * areplica => fst p =? ns) (adel s ns) = None.
  Proof.
    unfold adel. induction (a_open s) as [|[k v] l IH]; cbn; auto.
    destruct (N.eqb_spec k ns) as [->|NE]; cbn; auto.
    destruct (N.eqb_spec k ns); [contradiction|auto].
  Qed.

  (** every open adds a handle; enabling sync is sticky across additional opens *)
  Theorem open_adds_handle s ns sync sub r :
    aget s ns = Some r ->
    exists s', step s (AOpen ns sync sub) = (s', AOk, []) /\
      exists r', aget s' ns = Some r' /\ ar_handles r' = ar_handles r + 1 /\ ar_sync r' = (ar_sync r || sync)
                 /\ ar_writable r' = ar_writable r.
  Proof.
    intros C. cbn. rewrite C. eexists. split; [reflexivity|].
    eexists. split; [apply aget_aset_same|]. cbn. auto.
  Qed.
  Theorem open_first_handle s ns sync sub w :
    aget s ns = None -> writable (a_tables s) ns = Some w ->
    exists s', step s (AOpen ns sync sub) = (s', AOk, []) /\
      exists r', aget s' ns = Some r' /\ ar_handles r' = 1 /\ ar_sync r' = sync /\ ar_writable r' = w.
  Proof.
    intros C W. cbn. rewrite C, W. eexists. split; [reflexivity|].
    eexists. split; [unfold aget, aset; cbn; now rewrite N.eqb_refl|]. cbn. auto.
  Qed.
  Theorem open_unknown_fails s ns sync sub :
    aget s ns = None -> writable (a_tables s) ns = None -> step s (AOpen ns sync sub) = (s, AErr ANotFound, []).
  Proof. intros C W. cbn. now rewrite C, W. Qed.

  (** close releases one handle and reports whether the document is closed afterwards *)
  Theorem close_reports_closed s ns :
    exists s' b, step s (AClose ns) = (s', ABool b, []) /\ (b = true <-> aget s' ns = None) /\
      match aget s ns with
      | Some r => if ar_handles r =? 1 then b = true
                  else b = false /\ exists r', aget s' ns = Some r' /\ ar_handles r' = ar_handles r - 1 /\ ar_sync r' = ar_sync r
      | None => b = true
      end.
  Proof.
    cbn. unfold aclose. destruct (aget s ns) as [r|] eqn:C.
    - destruct (ar_handles r =? 1) eqn:H1.
      + do 2 eexists. split; [reflexivity|]. split; [|reflexivity]. split; [intros _|reflexivity].
        unfold aget. cbn. now rewrite aget_adel_same.
      + do 2 eexists. split; [reflexivity|]. split.
        * split; [discriminate|]. rewrite aget_aset_same. discriminate.
        * split; auto. eexists. split; [apply aget_aset_same|]. cbn. auto.
    - do 2 eexists. split; [reflexivity|]. split; [|reflexivity]. split; [intros _|reflexivity].
      unfold aget in *. cbn. exact C.
  Qed.

  (** the handle count of an open document is never zero *)
  Definition handles_pos (s : astate) : Prop := forall ns r, In (ns, r) (a_open s) -> 1 <= ar_handles r.

  (** ---- C12: event delivery ---- *)
  Definition live_of (s : astate) (ns : N) : list N :=
    match aget s ns with Some r => filter (fun c => negb (mem c (a_dead s))) (ar_subs r) | None => [] end.

  (** one event per applied entry on each live subscription, in subscription order *)
  Theorem deliver_spec s ns evs :
    snd (deliver s ns evs) = flat_map (fun ev => map (fun c => (c, ev)) (live_of s ns)) evs.
  Proof.
    unfold deliver, live_of. destruct (aget s ns) as [r|]; cbn.
    - destruct evs; reflexivity.
    - induction evs; cbn; auto.
  Qed.

  (** a remote insert through the handle: exactly one event per live subscription iff applied,
      carrying the entry, the sender, its content status and the policy's verdict; none on failure *)
  Theorem remote_insert_events s ns e ok from st now r :
    aget s ns = Some r -> ar_sync r = true ->
    let '(s', reply, d) := step s (AInsertRemote ns e ok from st now) in
    match reply with
    | AOk => exists sd, d = map (fun c => (c, RemoteInsert e from sd st)) (live_of s ns)
                        /\ valid EH MF ns now e ok = true
    | _ => d = [] /\ a_tables s' = a_tables s
    end.
  Proof.
    intros C S. cbn. rewrite C, S. cbn [negb].
    pose proof (remote_result_cases ks EH MF (a_tables s) now ns e ok from st) as RC.
    destruct (replica_insert_remote ks EH MF (a_tables s) now ns (mkW e ok) from st) as [[T' res] evs].
    destruct res as [n|er].
    - destruct RC as [V [sd ->]].
      pose proof (deliver_spec (with_tables s T') ns [RemoteInsert e from sd st]) as DS.
      destruct (deliver (with_tables s T') ns [RemoteInsert e from sd st]) as [s' d]. cbn [snd] in DS.
      exists sd. split; auto. rewrite DS. cbn. rewrite app_nil_r.
      unfold live_of, aget, with_tables. cbn. reflexivity.
    - destruct RC as [-> ->]. cbn. unfold deliver. destruct (aget (with_tables s (a_tables s)) ns); cbn; auto.
  Qed.

  (** unsubscribing one channel does not change what the others receive *)
  Lemma filter_remove_other c c' l : c <> c' ->
    filter (N.eqb c') (remove_n c l) = filter (N.eqb c') l.
  Proof.
    intros NE. unfold remove_n. induction l as [|x l IH]; cbn; auto.
    destruct (N.eqb_spec c x) as [->|N1]; cbn.
    - destruct (N.eqb_spec c' x); [congruence|auto].
    - destruct (N.eqb c' x); cbn; now rewrite IH.
  Qed.
End ActorFacts.
