(** C09: a stream of frames survives any chunking. *)
From Coq Require Import Lia Arith PeanoNat.
From ID Require Import Base.Bytes Model.Entry Model.Tables Model.Postcard Model.Codecs
  Proofs.PostcardFacts Proofs.CodecFacts.
Local Open Scope nat_scope.

Definition stream_of (ms : list cmsg) : bytes := concat (map (fun m => frame (enc_cmsg m)) ms).

Definition sendable (max : N) (m : cmsg) : Prop :=
  wf_cmsg m /\ (N.of_nat (length (enc_cmsg m)) <= max)%N /\ (N.of_nat (length (enc_cmsg m)) < 2 ^ 32)%N.

Lemma prefix_app_cases (d tl A B : bytes) : d ++ tl = A ++ B ->
  (exists k, k < length A /\ d = firstn k A) \/ (exists d2, d = A ++ d2 /\ d2 ++ tl = B).
Proof.
  revert d; induction A as [|a A IH]; intros d H.
  - right. exists d. auto.
  - destruct d as [|x d].
    + left. exists 0. cbn. split; [lia|reflexivity].
    + cbn in H. inversion H as [[E H']]. subst x. destruct (IH d H') as [[k [K ->]]|[d2 [-> H2]]].
      * left. exists (S k). cbn. split; [lia|reflexivity].
      * right. exists d2. auto.
Qed.

Lemma frame_length p : length (frame p) = 4 + length p.
Proof. unfold frame. now rewrite app_length, be32_length. Qed.

(** the decoder run on any prefix of a frame stream yields the complete frames in it, in
    order, keeps the incomplete tail, and reports no error *)
Lemma decode_all_prefix max ms : Forall (sendable max) ms ->
  forall fuel d tl, d ++ tl = stream_of ms -> length d < fuel ->
  exists ms1 ms2 d', ms = ms1 ++ ms2 /\ d = stream_of ms1 ++ d' /\
    decode_all max fuel d = (ms1, d', false) /\
    (match ms2 with
     | [] => d' = []
     | m :: _ => exists k, k < length (frame (enc_cmsg m)) /\ d' = firstn k (frame (enc_cmsg m))
     end).
Proof.
  induction 1 as [|m ms Hm Hms IH]; intros fuel d tl E F.
  - cbn in E. apply app_eq_nil in E. destruct E as [-> ->].
    exists [], [], []. repeat split. destruct fuel; [lia|]. reflexivity.
  - unfold stream_of in E. cbn [map concat] in E. fold (stream_of ms) in E.
    destruct Hm as (W & M & L).
    destruct fuel as [|fuel]; [lia|].
    destruct (prefix_app_cases _ _ _ _ E) as [[k [K ->]]|[d2 [-> E2]]].
    + exists [], (m :: ms), (firstn k (frame (enc_cmsg m))). repeat split; eauto.
      cbn [decode_all]. now rewrite (truncated_needs_more max _ k M L K).
    + assert (F2 : length d2 < fuel) by (rewrite app_length, frame_length in F; lia).
      destruct (IH fuel d2 tl E2 F2) as (ms1 & ms2 & d' & -> & -> & DA & T).
      exists (m :: ms1), ms2, d'. repeat split; auto.
      * unfold stream_of. cbn [map concat]. now rewrite app_assoc.
      * cbn [decode_all]. rewrite (frame_decode_whole max _ _ M L).
        pose proof (cmsg_roundtrip m W []) as RT. rewrite app_nil_r in RT. rewrite RT.
        fold (stream_of ms1). now rewrite DA.
Qed.

(** Feeding the concatenated encodings of [ms] in ANY chunking yields exactly [ms], in order,
    with nothing left over and no error; every proper prefix of the stream yields a prefix of
    [ms] and "need more data". *)
Theorem frame_stream_gen max : forall chunks buf ms,
  Forall (sendable max) ms ->
  (exists tl, (buf ++ concat chunks) ++ tl = stream_of ms) ->
  (match ms with
   | [] => buf = []
   | m :: _ => exists k, k < length (frame (enc_cmsg m)) /\ buf = firstn k (frame (enc_cmsg m))
   end) ->
  exists ms1 ms2 rest, ms = ms1 ++ ms2 /\ feed_chunks max buf chunks = (ms1, rest, false) /\
    buf ++ concat chunks = stream_of ms1 ++ rest /\
    (match ms2 with
     | [] => rest = []
     | m :: _ => exists k, k < length (frame (enc_cmsg m)) /\ rest = firstn k (frame (enc_cmsg m))
     end).
Proof.
  induction chunks as [|c cs IH]; intros buf ms Hms [tl E] B.
  - cbn [concat] in *. rewrite app_nil_r in *. exists [], ms, buf. repeat split; auto.
  - cbn [concat feed_chunks] in *.
    assert (E' : (buf ++ c) ++ (concat cs ++ tl) = stream_of ms) by (rewrite <- E, <- !app_assoc; reflexivity).
    destruct (decode_all_prefix max ms Hms (S (length (buf ++ c))) (buf ++ c) _ E' (Nat.lt_succ_diag_r _))
      as (ms1 & ms2 & d' & -> & D & DA & T).
    rewrite DA.
    apply Forall_app in Hms. destruct Hms as [H1 H2].
    assert (E2 : exists tl', (d' ++ concat cs) ++ tl' = stream_of ms2).
    { exists tl. unfold stream_of in *. rewrite map_app, concat_app in E'. rewrite D in E'.
      rewrite <- !app_assoc in E'. apply app_inv_head in E'. rewrite <- app_assoc. exact E'. }
    destruct (IH d' ms2 H2 E2 T) as (ms1' & ms2' & rest & -> & FC & EQ & T').
    rewrite FC. exists (ms1 ++ ms1'), ms2', rest. repeat split; auto.
    + now rewrite app_assoc.
    + rewrite app_assoc, D, <- app_assoc, EQ. unfold stream_of. rewrite map_app, concat_app, <- app_assoc. reflexivity.
Qed.

Theorem frame_stream max ms chunks :
  Forall (sendable max) ms -> concat chunks = stream_of ms ->
  feed_chunks max [] chunks = (ms, [], false).
Proof.
  intros H E.
  destruct (frame_stream_gen max chunks [] ms H) as (ms1 & ms2 & rest & -> & FC & EQ & T).
  - exists []. cbn. now rewrite app_nil_r.
  - destruct ms as [|m ms']; auto. exists 0. split; [rewrite frame_length; lia|reflexivity].
  - cbn [app] in EQ. rewrite E in EQ. unfold stream_of in EQ. rewrite map_app, concat_app in EQ.
    apply app_inv_head in EQ. destruct ms2 as [|m ms2].
    + subst rest. now rewrite app_nil_r in *.
    + exfalso. destruct T as [k [K ->]]. cbn [map concat] in EQ.
      assert (L : length (frame (enc_cmsg m) ++ concat (map (fun m0 => frame (enc_cmsg m0)) ms2)) = length (firstn k (frame (enc_cmsg m)))) by now rewrite EQ.
      rewrite app_length, firstn_length in L. lia.
Qed.

(** a truncated stream never produces a message that was not sent *)
Theorem frame_stream_truncated max ms chunks tl :
  Forall (sendable max) ms -> concat chunks ++ tl = stream_of ms ->
  exists ms1 ms2 rest, ms = ms1 ++ ms2 /\ feed_chunks max [] chunks = (ms1, rest, false).
Proof.
  intros H E.
  destruct (frame_stream_gen max chunks [] ms H) as (ms1 & ms2 & rest & -> & FC & _).
  - exists tl. exact E.
  - destruct ms as [|m ms']; auto. exists 0. split; [rewrite frame_length; lia|reflexivity].
  - eauto.
Qed.

(** ... with the exact account of what is left in the buffer: the bytes fed are the frames of the
    messages delivered followed by [rest], and [rest] is empty or a strict prefix of the next frame.
    At the end of the stream the decoder ([decode_eof]) reports an error exactly when bytes are left,
    that is, exactly when the stream was cut inside a frame (inside its length header included). *)
Theorem frame_stream_truncated_rest max ms chunks tl :
  Forall (sendable max) ms -> concat chunks ++ tl = stream_of ms ->
  exists ms1 ms2 rest, ms = ms1 ++ ms2 /\ feed_chunks max [] chunks = (ms1, rest, false) /\
    concat chunks = stream_of ms1 ++ rest /\
    (match ms2 with
     | [] => rest = []
     | m :: _ => exists k, k < length (frame (enc_cmsg m)) /\ rest = firstn k (frame (enc_cmsg m))
     end) /\
    (eof_error rest = true <-> concat chunks <> stream_of ms1).
Proof.
  intros H E.
  destruct (frame_stream_gen max chunks [] ms H) as (ms1 & ms2 & rest & -> & FC & EQ & T).
  - exists tl. exact E.
  - destruct ms as [|m ms']; auto. exists 0. split; [rewrite frame_length; lia|reflexivity].
  - exists ms1, ms2, rest. cbn [app] in EQ. repeat split; auto.
    + intros EE CE. rewrite EQ in CE. destruct rest; [discriminate|].
      rewrite <- (app_nil_r (stream_of ms1)) in CE at 2. apply app_inv_head in CE. discriminate.
    + intros NE. destruct rest; [|reflexivity]. exfalso. apply NE. now rewrite EQ, app_nil_r.
Qed.
