(** C08: reconciliation over the table-level store (the model of the redb-backed store, with the
    other documents of the store present in the same tables) is reconciliation over the plain
    ordered list of the document's entries: same replies, same announced entries, same content
    afterwards — for every message. *)
From Coq Require Import Lia Sorted.
From ID Require Import Base.Bytes Base.BytesFacts Model.Entry Model.Put Model.Tables Model.Bounds
  Model.FsStore Model.Replica Model.Ranger Proofs.EntryFacts Proofs.PutFacts Proofs.BoundsFacts
  Proofs.TblFacts Proofs.SortedTbl Proofs.RangerFacts Proofs.FsPutFacts Proofs.ConvergeFacts
  Proofs.SplitFacts Proofs.RangeFacts.

(** ---- strictly sorted lists are determined by their members ---- *)
Lemma ssorted_ext l1 : forall l2, ssorted l1 -> ssorted l2 -> (forall x, In x l1 <-> In x l2) -> l1 = l2.
Proof.
  induction l1 as [|a l1 IH]; intros [|b l2] S1 S2 H; auto.
  - exfalso. apply (proj2 (H b)). now left.
  - exfalso. apply (proj1 (H a)). now left.
  - inversion S1 as [|? ? S1' F1]; inversion S2 as [|? ? S2' F2]; subst.
    rewrite Forall_forall in F1, F2.
    assert (a = b).
    { destruct (proj1 (H a) (or_introl eq_refl)) as [E|I]; auto.
      destruct (proj2 (H b) (or_introl eq_refl)) as [E|I']; auto.
      exfalso. apply (elt_irrefl a). eapply elt_trans; [apply F1; exact I'|apply F2; exact I]. }
    subst b. f_equal. apply IH; auto. intros x. split; intros I.
    + destruct (proj1 (H x) (or_intror I)) as [E|I']; auto. subst x. exfalso. exact (elt_irrefl a (F1 a I)).
    + destruct (proj2 (H x) (or_intror I)) as [E|I']; auto. subst x. exfalso. exact (elt_irrefl a (F2 a I)).
Qed.

(** ---- the document's rows as a sorted list ---- *)
Lemma fs_all_filter ns T : Forall wf_row (t_records T) ->
  fs_all ns T = filter (fun e => e_ns e =? ns) (recs T).
Proof.
  intros W. unfold fs_all, rec_range, tbl_range, recs.
  assert (E : filter (fun e => e_ns e =? ns) (map row_entry (t_records T))
              = map row_entry (filter (fun kv => fst (fst (fst kv)) =? ns) (t_records T))).
  { clear. induction (t_records T) as [|[[[n a] k] [[t ln] h]] l IH]; cbn [map filter]; auto.
    cbn [row_entry e_ns fst]. destruct (n =? ns); cbn [map]; now rewrite IH. }
  rewrite E. f_equal. apply (filter_ext_Forall' wf_row); auto.
  intros [[[n a] k] v] (Hn & _). cbn [fst]. now apply rb_namespace_exact.
Qed.

Lemma rsorted_ssorted l : rsorted l -> ssorted (map row_entry l).
Proof.
  induction 1 as [|a l S IH F]; cbn [map]; constructor; auto.
  rewrite Forall_forall in *. intros x Hx. apply in_map_iff in Hx. destruct Hx as [r [<- Hr]].
  specialize (F r Hr). unfold klt in F. unfold elt. rewrite eid_rid.
  destruct a as [[[n1 a1] k1] [[t1 l1] h1]], r as [[[n2 a2] k2] [[t2 l2] h2]]. exact F.
Qed.

Lemma fs_all_sorted ns T : wf_records T -> ssorted (fs_all ns T).
Proof. intros [S W]. rewrite fs_all_filter by auto. apply ssorted_filter. now apply rsorted_ssorted. Qed.

Lemma in_fs_all ns T x : Forall wf_row (t_records T) -> (In x (fs_all ns T) <-> In x (recs T) /\ e_ns x = ns).
Proof. intros W. rewrite fs_all_filter by auto. rewrite filter_In, N.eqb_eq. tauto. Qed.

(** ---- one insert ---- *)
Theorem fs_put_is_om_put EH ns T e : wf_records T -> wf_entry e -> e_ns e = ns ->
  fs_all ns (fst (fs_put prefix_succ EH T e)) = fst (om_put (fs_all ns T) e) /\
  snd (fs_put prefix_succ EH T e) = snd (om_put (fs_all ns T) e) /\
  wf_records (fst (fs_put prefix_succ EH T e)).
Proof.
  intros WT We Ens. pose proof WT as [ST WR].
  destruct (fs_put_refines EH T e WT We) as (OUT & MEM & WT').
  pose proof WT' as [ST' WR'].
  assert (REL : forall p, In p (recs T) -> rel p e = true -> e_ns p = ns).
  { intros p _ R. apply rel_spec in R. destruct R as (N1 & _). congruence. }
  assert (REL' : forall c, rel e c = true -> e_ns c = ns).
  { intros c R. apply rel_spec in R. destruct R as (N1 & _). congruence. }
  assert (EX : existsb (fun p => rel p e) (fs_all ns T) = existsb (fun p => rel p e) (recs T)).
  { apply bool_eq_iff. rewrite !existsb_exists. split; intros [p [I R]]; exists p; split; auto.
    - apply (in_fs_all ns T p WR) in I. tauto.
    - apply (in_fs_all ns T p WR). split; auto. }
  assert (CNT : filter (fun c => rel e c) (fs_all ns T) = filter (fun c => rel e c) (recs T)).
  { rewrite fs_all_filter by auto. rewrite filter_filter. apply filter_ext_in. intros c _.
    destruct (rel e c) eqn:R; [|now rewrite andb_false_r]. rewrite (REL' c R), N.eqb_refl. reflexivity. }
  split; [|split]; auto.
  - apply ssorted_ext.
    + now apply fs_all_sorted.
    + apply om_put_sorted. now apply fs_all_sorted.
    + intros x. rewrite (in_fs_all ns _ x WR'), (MEM x), (om_put_set (fs_all ns T) e x).
      unfold put. rewrite EX. destruct (existsb (fun p => rel p e) (recs T)); cbn [fst].
      * rewrite (in_fs_all ns T x WR). tauto.
      * cbn [In]. rewrite !filter_In, (in_fs_all ns T x WR). split.
        -- intros [[<-|[I R]] N1]; auto.
        -- intros [<-|[[I N1] R]]; auto.
  - rewrite OUT. unfold put, om_put. rewrite EX.
    destruct (existsb (fun p => rel p e) (recs T)); cbn [snd]; auto. now rewrite CNT.
Qed.

(** ---- simulation of [process_message] between two store instances ---- *)
Section Sim.
  Context {S1 S2 : Type} (ops1 : store_ops S1) (ops2 : store_ops S2).
  Variables (mss k : N) (status_of : entry -> N) (v : entry -> N -> bool).
  Variable R : S1 -> S2 -> Prop.
  Variable ok : entry -> Prop.          (* what the stores are ever asked to insert *)
  Hypothesis range_eq : forall a b x y, R a b -> so_range ops1 a x y = so_range ops2 b x y.
  Hypothesis put_sim : forall a b e, R a b -> ok e ->
    R (fst (so_put ops1 a e)) (fst (so_put ops2 b e)) /\ snd (so_put ops1 a e) = snd (so_put ops2 b e).
  Let val1 := fun (_ : S1) (e : entry) (st : N) => v e st.
  Let val2 := fun (_ : S2) (e : entry) (st : N) => v e st.
  (** the values that pass validation are fit to be inserted *)
  Definition fit (vs : list (entry * N)) : Prop := forall q, In q vs -> v (fst q) (snd q) = true -> ok (fst q).

  Lemma store_values_sim vs : fit vs -> forall a b, R a b ->
    R (fst (store_values ops1 val1 a vs)) (fst (store_values ops2 val2 b vs)) /\
    snd (store_values ops1 val1 a vs) = snd (store_values ops2 val2 b vs).
  Proof.
    unfold val1, val2. induction vs as [|[e st] vs IH]; intros FIT a b H; cbn [store_values]; [split; auto|].
    assert (FIT' : fit vs) by (intros q Hq; apply FIT; now right).
    destruct (v e st) eqn:V; [|now apply IH].
    destruct (put_sim a b e H (FIT (e, st) (or_introl eq_refl) V)) as [H' O].
    destruct (so_put ops1 a e) as [a' o1], (so_put ops2 b e) as [b' o2]. cbn [fst snd] in *. subst o2.
    destruct o1 as [|n]; [now apply IH|].
    specialize (IH FIT' a' b' H').
    destruct (store_values ops1 _ a' vs) as [a'' i1], (store_values ops2 _ b' vs) as [b'' i2].
    cbn [fst snd] in *. destruct IH as [IH1 ->]. split; auto.
  Qed.

  Lemma process_item_sim a b x y vs hl : fit vs -> R a b ->
    let '(a', o1, i1) := process_item ops1 status_of val1 a x y vs hl in
    let '(b', o2, i2) := process_item ops2 status_of val2 b x y vs hl in
    R a' b' /\ o1 = o2 /\ i1 = i2.
  Proof.
    intros FIT H. unfold process_item. rewrite (range_eq a b x y H).
    destruct (store_values_sim vs FIT a b H) as [H' I].
    destruct (store_values ops1 val1 a vs) as [a' i1], (store_values ops2 val2 b vs) as [b' i2].
    cbn [fst snd] in *. subst i2. auto.
  Qed.

  Lemma process_fp_sim a b x y fp : R a b ->
    process_fp ops1 mss k status_of a x y fp = process_fp ops2 mss k status_of b x y fp.
  Proof.
    intros H. unfold process_fp. rewrite (range_eq a b x y H).
    destruct (fp_eqb _ fp); auto. destruct (_ || _); auto.
    apply map_ext. intros r. now rewrite (range_eq a b _ _ H).
  Qed.

  Theorem process_message_sim a b m : (forall p, In p m -> fit (part_values p)) -> R a b ->
    let '(a', r1, i1) := process_message ops1 mss k status_of val1 a m in
    let '(b', r2, i2) := process_message ops2 mss k status_of val2 b m in
    R a' b' /\ r1 = r2 /\ i1 = i2.
  Proof.
    intros FIT H. unfold process_message.
    set (f1 := fun (acc : S1 * list part * list (entry * N)) (p : part) => _).
    set (f2 := fun (acc : S2 * list part * list (entry * N)) (p : part) => _).
    assert (FOLD : forall items, (forall p, In p items -> fit (part_values p)) -> forall a b o i, R a b ->
              let '(a', o1, i1) := fold_left f1 items (a, o, i) in
              let '(b', o2, i2) := fold_left f2 items (b, o, i) in
              R a' b' /\ o1 = o2 /\ i1 = i2).
    { induction items as [|p items IH]; intros FI a0 b0 o i H0; cbn [fold_left]; auto.
      assert (FI' : forall p0, In p0 items -> fit (part_values p0)) by (intros p0 H1; apply FI; now right).
      destruct p as [x y fp|x y vs hl]; unfold f1 at 2, f2 at 2.
      - now apply IH.
      - pose proof (process_item_sim a0 b0 x y vs hl (FI _ (or_introl eq_refl)) H0) as PS.
        destruct (process_item ops1 status_of val1 a0 x y vs hl) as [[a' o1] i1].
        destruct (process_item ops2 status_of val2 b0 x y vs hl) as [[b' o2] i2].
        destruct PS as (H' & -> & ->). now apply IH. }
    assert (FI : forall p, In p (filter is_item m) -> fit (part_values p)).
    { intros p Hp. apply FIT. apply filter_In in Hp. tauto. }
    specialize (FOLD (filter is_item m) FI a b [] [] H).
    destruct (fold_left f1 (filter is_item m) (a, [], [])) as [[a' o1] i1].
    destruct (fold_left f2 (filter is_item m) (b, [], [])) as [[b' o2] i2].
    destruct FOLD as (H' & -> & ->).
    assert (E : flat_map (fun p => match p with PFp x y fp => process_fp ops1 mss k status_of a' x y fp | _ => [] end) (filter (fun p => negb (is_item p)) m)
              = flat_map (fun p => match p with PFp x y fp => process_fp ops2 mss k status_of b' x y fp | _ => [] end) (filter (fun p => negb (is_item p)) m)).
    { induction (filter (fun p => negb (is_item p)) m) as [|p l IH]; cbn [flat_map]; auto.
      rewrite IH. destruct p; auto. now rewrite (process_fp_sim a' b' _ _ _ H'). }
    rewrite E. auto.
  Qed.
End Sim.

(** ---- the table-level store against the ordered list ---- *)
Definition tbl_rel (ns : N) (T : tables) (S : list entry) : Prop := wf_records T /\ S = fs_all ns T.
Definition ok_entry (ns : N) (e : entry) : Prop := wf_entry e /\ e_ns e = ns.
(** the values of a message are well formed (what the decoder guarantees), and validation checks
    the namespace *)
Definition wf_message (m : message) : Prop := forall p q, In p m -> In q (part_values p) -> wf_entry (fst q).

Theorem table_store_is_ordered_map EH ns mss k status_of v T m :
  wf_records T -> wf_message m -> (forall e st, v e st = true -> e_ns e = ns) ->
  let '(T', r1, i1) := process_message (fs_ops prefix_succ EH ns) mss k status_of (fun _ e st => v e st) T m in
  let '(S', r2, i2) := process_message om_ops mss k status_of (fun _ e st => v e st) (fs_all ns T) m in
  wf_records T' /\ S' = fs_all ns T' /\ r1 = r2 /\ i1 = i2.
Proof.
  intros WT WM VNS.
  pose proof (process_message_sim (fs_ops prefix_succ EH ns) om_ops mss k status_of v (tbl_rel ns) (ok_entry ns)) as SIM.
  assert (P2 : forall a b x y, tbl_rel ns a b -> so_range (fs_ops prefix_succ EH ns) a x y = so_range om_ops b x y).
  { intros a b x y [W ->]. cbn [so_range fs_ops om_ops]. now apply get_range_exact. }
  assert (P3 : forall a b e, tbl_rel ns a b -> ok_entry ns e ->
            tbl_rel ns (fst (so_put (fs_ops prefix_succ EH ns) a e)) (fst (so_put om_ops b e)) /\
            snd (so_put (fs_ops prefix_succ EH ns) a e) = snd (so_put om_ops b e)).
  { intros a b e [W ->] [We Ne]. cbn [so_put fs_ops om_ops].
    destruct (fs_put_is_om_put EH ns a e W We Ne) as (A & B & C). split; auto. split; auto. }
  assert (FIT : forall p, In p m -> fit v (ok_entry ns) (part_values p)).
  { intros p Hp q Hq V. split; [exact (WM p q Hp Hq)|exact (VNS _ _ V)]. }
  specialize (SIM P2 P3 T (fs_all ns T) m FIT (conj WT eq_refl)).
  destruct (process_message (fs_ops prefix_succ EH ns) mss k status_of (fun _ e st => v e st) T m) as [[T' r1] i1].
  destruct (process_message om_ops mss k status_of (fun _ e st => v e st) (fs_all ns T) m) as [[S' r2] i2].
  destruct SIM as ([W' E] & -> & ->). auto.
Qed.

(** sensitivity (defect D14): with the peer's range ends used as table bounds as they were, a
    range inside another document of the store returns that document's rows *)
Example unclamped_range_leaks_refuted :
  let other := mkE 9 2 [115] 5 1 7 in
  let T := fs_entry_put (fs_entry_put empty_tables (mkE 1 2 [97] 5 1 7)) other in
  fs_get_range_gen false 1 T (9, 0, []) (9, 3, []) = [other] /\
  fs_get_range 1 T (9, 0, []) (9, 3, []) = [] /\
  rng (fs_all 1 T) (9, 0, []) (9, 3, []) = [].
Proof. vm_compute. repeat split. Qed.
