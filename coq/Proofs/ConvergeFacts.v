(** C01: a complete reconciliation session leaves both sides holding the join.
    The invariant: every maximal entry of the union ("top" entry) is either held by both sides or
    lies in the range of a part of the message in flight, and every part in flight tells the
    truth about its sender's store. The split of a range is used only through the fact that the
    sub-ranges cover the range ([Proofs.SplitFacts]). *)
From Coq Require Import Lia Sorted.
From ID Require Import Base.Bytes Base.BytesFacts Model.Entry Model.Put Model.Tables Model.Bounds
  Model.FsStore Model.Replica Model.Ranger Proofs.EntryFacts Proofs.PutFacts Proofs.BoundsFacts
  Proofs.RangerFacts Proofs.FsPutFacts.

(** ---- strictly sorted entry lists ---- *)
Definition elt (a b : entry) : Prop := eid_cmp a b = Lt.
Definition ssorted (l : list entry) : Prop := StronglySorted elt l.

Lemma eid_rid a b : eid_cmp a b = rid_cmp (entry_rid a) (entry_rid b).
Proof. reflexivity. Qed.
Lemma elt_trans a b c : elt a b -> elt b c -> elt a c.
Proof. unfold elt. rewrite !eid_rid. apply rid_cmp_lt_trans. Qed.
Lemma eid_gt_lt a b : eid_cmp a b = Gt <-> eid_cmp b a = Lt.
Proof. rewrite !eid_rid. apply rid_cmp_gt_lt. Qed.
Lemma eid_eq_rid a b : eid_cmp a b = Eq <-> entry_rid a = entry_rid b.
Proof. rewrite eid_rid. apply rid_cmp_eq. Qed.
Lemma elt_irrefl a : ~ elt a a.
Proof. unfold elt. intros H. assert (E : eid_cmp a a = Eq) by now apply eid_eq_rid. congruence. Qed.

Lemma ssorted_filter f l : ssorted l -> ssorted (filter f l).
Proof.
  induction 1 as [|a l S IH F]; cbn; [constructor|].
  destruct (f a); auto. constructor; auto.
  rewrite Forall_forall in *. intros x Hx. apply filter_In in Hx. apply F. tauto.
Qed.

Lemma om_insert_In_weak e l x : In x (om_insert e l) -> x = e \/ In x l.
Proof.
  induction l as [|y l IH]; cbn [om_insert].
  - intros [<-|[]]. now left.
  - destruct (eid_cmp e y).
    + intros [<-|H]; [now left|right; now right].
    + intros [<-|H]; [now left|now right].
    + intros [<-|H]; [right; now left|]. destruct (IH H); auto. right. now right.
Qed.

Lemma om_insert_sorted e l : ssorted l -> ssorted (om_insert e l).
Proof.
  induction 1 as [|a l S IH F]; cbn [om_insert].
  - repeat constructor.
  - destruct (eid_cmp e a) eqn:C.
    + (* same id: replaced *)
      constructor; auto. rewrite Forall_forall in *. intros x Hx. specialize (F x Hx).
      unfold elt in *. rewrite eid_rid in *. apply eid_eq_rid in C. now rewrite C.
    + constructor; [constructor; auto|]. constructor; auto.
      rewrite Forall_forall in *. intros x Hx. eapply elt_trans; [exact C|]. now apply F.
    + constructor; auto. rewrite Forall_forall in *. intros x Hx.
      apply om_insert_In_weak in Hx. destruct Hx as [->|Hx].
      * now apply eid_gt_lt.
      * now apply F.
Qed.

Lemma om_put_sorted S e : ssorted S -> ssorted (fst (om_put S e)).
Proof.
  intros H. unfold om_put. destruct (existsb (fun p => rel p e) S); cbn [fst]; auto.
  apply om_insert_sorted. now apply ssorted_filter.
Qed.

Definition rng (S : list entry) (x y : rid) : list entry :=
  filter (fun e => range_contains x y (entry_rid e)) S.

Lemma fp_entry_eqb_eq a b : fp_entry_eqb a b = true <-> a = b.
Proof.
  destruct a as [[[[n1 a1] k1] t1] h1], b as [[[[n2 a2] k2] t2] h2]. unfold fp_entry_eqb.
  rewrite !andb_true_iff, !N.eqb_eq, bytes_eqb_eq. split.
  - intros ((((-> & ->) & ->) & ->) & ->). reflexivity.
  - intros H. inversion H. auto.
Qed.
Lemma fp_eqb_eq a : forall b, fp_eqb a b = true <-> a = b.
Proof.
  induction a as [|x a IH]; intros [|y b]; cbn [fp_eqb]; split; try discriminate; auto.
  - rewrite andb_true_iff, fp_entry_eqb_eq, IH. intros [-> ->]. reflexivity.
  - intros H. inversion H; subst. rewrite andb_true_iff, fp_entry_eqb_eq, IH. auto.
Qed.

Section Conv.
  Variables (mss k : N) (v : entry -> N -> bool) (U : list entry).
  Hypothesis Ucons : consistent U.
  Hypothesis Uvalid : forall e, In e U -> v e MISSING = true.
  (** the only fact about the split that convergence needs *)
  Hypothesis split_covers : forall S x y, ssorted S -> (2 <= length (rng S x y))%nat ->
    forall z, range_contains x y z = true ->
    exists r, In r (split_ranges k x y (rng S x y)) /\ range_contains (fst r) (snd r) z = true.

  Let status_of := fun _ : entry => MISSING.
  Let validate := fun (_ : list entry) (e : entry) (st : N) => v e st.

  Definition top (e : entry) : Prop := in_reduce U e.
  Definition sub (S : list entry) : Prop := forall e, In e S -> In e U.
  Definition inr (x y : rid) (e : entry) : Prop := range_contains x y (entry_rid e) = true.
  Definition good_values (vs : list (entry * N)) : Prop := forall q, In q vs -> In (fst q) U /\ snd q = MISSING.
  Definition mono (S S' : list entry) : Prop := forall t, top t -> In t S -> In t S'.

  Lemma top_max e d : top e -> In d U -> rel d e = true -> d = e.
  Proof.
    intros [_ T] Id R. destruct (entry_eq_dec d e) as [E|NE]; auto.
    exfalso. apply (T d Id). split; auto.
  Qed.

  (** what a part in flight says about the store [Ss] of its sender; [Sr] is the receiver's *)
  Definition honest (Ss Sr : list entry) (p : part) : Prop :=
    match p with
    | PFp x y fp => fp = fp_of (rng Ss x y)
    | PItem x y vs false => vs = with_status status_of (rng Ss x y)
    | PItem x y vs true =>
        good_values vs /\ forall e, top e -> inr x y e -> In e Ss /\ (In e Sr \/ In e (map fst vs))
    end.
  Definition covers (p : part) (e : entry) : Prop :=
    match p with PFp x y _ => inr x y e | PItem x y _ _ => inr x y e end.

  Lemma with_status_good S l : sub S -> (forall e, In e l -> In e S) -> good_values (with_status status_of l).
  Proof.
    intros HS Hl q Hq. unfold with_status in Hq. apply in_map_iff in Hq. destruct Hq as [e [<- He]].
    cbn. split; auto.
  Qed.
  Lemma with_status_fst l : map fst (with_status status_of l) = l.
  Proof. unfold with_status. rewrite map_map. cbn. apply map_id. Qed.

  (** ---- one insert, a list of inserts, the values of one part ---- *)
  Lemma om_put_facts S e : sub S -> In e U ->
    sub (fst (om_put S e)) /\ mono S (fst (om_put S e)) /\ (top e -> In e (fst (om_put S e))).
  Proof.
    intros HS He.
    assert (P : forall x, In x (fst (om_put S e)) <-> In x (fst (put S e))) by apply om_put_set.
    unfold put in P. destruct (existsb (fun p => rel p e) S) eqn:E; cbn [fst] in P.
    - repeat split.
      + intros x Hx. apply HS. now apply P.
      + intros t _ Ht. now apply P.
      + intros T. apply P. apply existsb_exists in E. destruct E as [p [Ip Rp]].
        assert (p = e) by (apply top_max; auto). now subst.
    - repeat split.
      + intros x Hx. apply P in Hx. destruct Hx as [<-|Hx]; auto. apply filter_In in Hx. apply HS. tauto.
      + intros t T Ht. apply P. destruct (rel e t) eqn:R.
        * left. apply top_max; auto.
        * right. apply filter_In. rewrite R. auto.
      + intros _. apply P. now left.
  Qed.

  Lemma puts_facts l : forall S, sub S -> ssorted S -> (forall e, In e l -> In e U) ->
    let S' := puts_ops om_ops S l in
    sub S' /\ ssorted S' /\ mono S S' /\ (forall e, In e l -> top e -> In e S').
  Proof.
    induction l as [|a l IH]; intros S HS SS Hl; cbn [puts_ops fold_left].
    - repeat split; auto. intros t _ H. exact H. intros e [].
    - destruct (om_put_facts S a HS (Hl a (or_introl eq_refl))) as (H1 & H2 & H3).
      destruct (IH (fst (om_put S a)) H1 (om_put_sorted S a SS) (fun e He => Hl e (or_intror He))) as (I1 & I2 & I3 & I4).
      change (fold_left (fun s e => fst (so_put om_ops s e)) l (fst (so_put om_ops S a))) with (puts_ops om_ops (fst (om_put S a)) l).
      repeat split; auto.
      + intros t T Ht. apply I3; auto.
      + intros e [<-|He] T; [apply I3; auto | apply I4; auto].
  Qed.

  Lemma valid_all vs : good_values vs -> valid_values v vs = map fst vs.
  Proof.
    intros G. unfold valid_values. induction vs as [|[e st] vs IH]; cbn; auto.
    destruct (G (e, st) (or_introl eq_refl)) as [Ie Est]. cbn in Ie, Est. subst st.
    rewrite (Uvalid e Ie). cbn. f_equal. apply IH. intros q Hq. apply G. now right.
  Qed.

  Lemma store_values_facts S vs : sub S -> ssorted S -> good_values vs ->
    let S' := fst (store_values om_ops validate S vs) in
    sub S' /\ ssorted S' /\ mono S S' /\ (forall e, In e (map fst vs) -> top e -> In e S').
  Proof.
    intros HS SS G. cbv zeta. unfold validate.
    rewrite (store_values_puts om_ops v vs S), (valid_all vs G).
    apply puts_facts; auto. intros e He. apply in_map_iff in He. destruct He as [q [<- Hq]]. now apply G.
  Qed.

  Lemma honest_mono_recv Ss Sr Sr' p : mono Sr Sr' -> honest Ss Sr p -> honest Ss Sr' p.
  Proof.
    intros M. destruct p as [x y fp|x y vs [|]]; cbn; auto.
    intros [G H]. split; auto. intros e T I. destruct (H e T I) as [A [B|B]]; auto.
  Qed.
  Lemma honest_mono_send Ss Ss' Sr x y vs : mono Ss Ss' -> honest Ss Sr (PItem x y vs true) -> honest Ss' Sr (PItem x y vs true).
  Proof. intros M [G H]. split; auto. intros e T I. destruct (H e T I) as [A B]. split; auto. Qed.

  (** ---- one item part ---- *)
  Lemma item_facts Ss s x y vs hl :
    sub Ss -> sub s -> ssorted s -> (forall e, top e -> In e Ss \/ In e s) ->
    honest Ss s (PItem x y vs hl) ->
    let '(s', o, _) := process_item om_ops status_of validate s x y vs hl in
    sub s' /\ ssorted s' /\ mono s s' /\
    (forall p, In p o -> exists vs', p = PItem x y vs' true /\ honest s' Ss p) /\
    (forall e, top e -> inr x y e -> (In e s' /\ In e Ss) \/ exists p, In p o /\ covers p e).
  Proof.
    intros HSs Hs SS G H. unfold process_item.
    assert (GV : good_values vs).
    { destruct hl; cbn in H; [tauto|]. subst vs. apply (with_status_good Ss); auto.
      intros e He. apply filter_In in He. tauto. }
    destruct (store_values_facts s vs Hs SS GV) as (F1 & F2 & F3 & F4).
    destruct (store_values om_ops validate s vs) as [s' ins] eqn:SV. cbn [fst] in *.
    destruct hl.
    - (* the answer to our own items: store, no reply *)
      repeat split; auto.
      + intros p [].
      + intros e T I. left. destruct H as [_ H]. destruct (H e T I) as [A [B|B]]; split; auto.
    - cbn in H. subst vs. rewrite with_status_fst in F4.
      set (diff := filter (fun our => negb (existsb (fun their => same_id our (fst their) && val_leb our (fst their))
                                               (with_status status_of (rng Ss x y)))) (so_range om_ops s x y)).
      assert (DIFF : forall e, top e -> inr x y e -> ~ In e Ss -> In e diff).
      { intros e T I NI. unfold diff. apply filter_In. split.
        - apply filter_In. split; auto. destruct (G e T); tauto.
        - apply negb_true_iff. apply Bool.not_true_is_false. intros EX. apply existsb_exists in EX.
          destruct EX as [q [Hq Q]]. apply andb_true_iff in Q. destruct Q as [Q1 Q2].
          unfold with_status in Hq. apply in_map_iff in Hq. destruct Hq as [d [<- Hd]]. cbn [fst] in *.
          apply filter_In in Hd. destruct Hd as [Hd _].
          assert (d = e).
          { apply top_max; auto. apply rel_spec. apply same_id_spec in Q1. destruct Q1 as (N1 & N2 & N3).
            repeat split; auto. rewrite N3. apply is_prefix_refl. }
          subst d. contradiction. }
      assert (DSUB : forall e, In e diff -> In e s).
      { intros e He. unfold diff in He. apply filter_In in He. destruct He as [He _]. apply filter_In in He. tauto. }
      destruct diff as [|d ds] eqn:DE.
      + repeat split; auto.
        * intros p [].
        * intros e T I. left. destruct (in_dec entry_eq_dec e Ss) as [Y|NO].
          -- split; auto. apply F4; auto. apply filter_In. split; auto.
          -- exfalso. exact (DIFF e T I NO).
      + repeat split; auto.
        * intros p [<-|[]]. eexists. split; [reflexivity|]. cbn [honest]. split.
          -- apply (with_status_good s); auto.
          -- intros e T I. rewrite with_status_fst. destruct (in_dec entry_eq_dec e Ss) as [Y|NO].
             ++ split; auto. apply F4; auto. apply filter_In. split; auto.
             ++ split; [apply F3; auto; apply DSUB; now apply DIFF | right; now apply DIFF].
        * intros e T I. destruct (in_dec entry_eq_dec e Ss) as [Y|NO].
          -- left. split; auto. apply F4; auto. apply filter_In. split; auto.
          -- right. eexists. split; [now left|]. exact I.
  Qed.

  (** ---- all item parts of a message ---- *)
  Lemma items_facts Ss items : forall s out ins,
    sub Ss -> sub s -> ssorted s -> (forall e, top e -> In e Ss \/ In e s) ->
    (forall p, In p items -> honest Ss s p) ->
    (forall p, In p out -> exists x y vs, p = PItem x y vs true /\ honest s Ss p) ->
    let '(s1, out1, _) := fold_left (item_fold om_ops status_of v) items (s, out, ins) in
    sub s1 /\ ssorted s1 /\ mono s s1 /\
    (forall p, In p out1 -> honest s1 Ss p) /\
    (forall p, In p out -> In p out1) /\
    (forall e, top e -> (exists p, In p items /\ is_item p = true /\ covers p e) ->
               (In e s1 /\ In e Ss) \/ exists p, In p out1 /\ covers p e).
  Proof.
    induction items as [|it items IH]; intros s out ins HSs Hs SS G HI HO; cbn [fold_left].
    - repeat split; auto.
      + intros t _ H. exact H.
      + intros p Hp. destruct (HO p Hp) as (x & y & vs & -> & H). exact H.
      + intros e _ [p [[] _]].
    - destruct it as [x y fp|x y vs hl]; cbn [item_fold].
      + (* fingerprint parts are not touched here *)
        specialize (IH s out ins HSs Hs SS G (fun p Hp => HI p (or_intror Hp)) HO).
        destruct (fold_left (item_fold om_ops status_of v) items (s, out, ins)) as [[s1 out1] ins1].
        destruct IH as (A & B & C & D & E & F). repeat split; auto.
        intros e T [p [[<-|Hp] [IT CV]]]; [discriminate|]. apply F; eauto.
      + pose proof (item_facts Ss s x y vs hl HSs Hs SS G (HI _ (or_introl eq_refl))) as IF.
        change (fun (_ : list entry) (e : entry) (st : N) => v e st) with validate.
        destruct (process_item om_ops status_of validate s x y vs hl) as [[s' o] i] eqn:PI.
        destruct IF as (A1 & A2 & A3 & A4 & A5).
        assert (G' : forall e, top e -> In e Ss \/ In e s') by (intros e T; destruct (G e T); auto).
        assert (HI' : forall p, In p items -> honest Ss s' p).
        { intros p Hp. eapply honest_mono_recv; [exact A3|]. apply HI. now right. }
        assert (HO' : forall p, In p (out ++ o) -> exists x y vs, p = PItem x y vs true /\ honest s' Ss p).
        { intros p Hp. apply in_app_or in Hp. destruct Hp as [Hp|Hp].
          - destruct (HO p Hp) as (x0 & y0 & vs0 & -> & H). exists x0, y0, vs0. split; auto.
            eapply honest_mono_send; eauto.
          - destruct (A4 p Hp) as (vs' & -> & H). eauto. }
        specialize (IH s' (out ++ o) (ins ++ i) HSs A1 A2 G' HI' HO').
        destruct (fold_left (item_fold om_ops status_of v) items (s', out ++ o, ins ++ i)) as [[s1 out1] ins1].
        destruct IH as (B1 & B2 & B3 & B4 & B5 & B6). repeat split; auto.
        * intros t T Ht. apply B3; auto.
        * intros p Hp. apply B5. apply in_or_app. now left.
        * intros e T [p [[<-|Hp] [IT CV]]].
          -- cbn in CV. destruct (A5 e T CV) as [[X Y]|[q [Hq Cq]]].
             ++ left. split; auto.
             ++ right. exists q. split; auto. apply B5. apply in_or_app. now right.
          -- apply B6; eauto.
  Qed.

  (** ---- one fingerprint part ---- *)
  Lemma fp_facts Ss s1 x y fp :
    sub Ss -> sub s1 -> ssorted s1 -> (forall e, top e -> In e Ss \/ In e s1) ->
    fp = fp_of (rng Ss x y) ->
    (forall q, In q (process_fp om_ops mss k status_of s1 x y fp) -> honest s1 Ss q) /\
    (forall e, top e -> inr x y e ->
               (In e s1 /\ In e Ss) \/ exists q, In q (process_fp om_ops mss k status_of s1 x y fp) /\ covers q e).
  Proof.
    intros HSs Hs SS G ->. unfold process_fp. change (so_range om_ops s1 x y) with (rng s1 x y).
    destruct (fp_eqb (fp_of (rng s1 x y)) (fp_of (rng Ss x y))) eqn:FE.
    - split; [intros q []|]. intros e T I. left.
      apply fp_eqb_eq in FE.
      assert (TR : forall A B, fp_of (rng A x y) = fp_of (rng B x y) -> sub A -> sub B -> In e A -> In e B).
      { intros A B EQ HA HB IA.
        assert (IN : In (e_ns e, e_author e, e_key e, e_ts e, e_hash e) (fp_of (rng B x y))).
        { rewrite <- EQ. unfold fp_of. apply in_map_iff. exists e. split; auto. apply filter_In. split; auto. }
        unfold fp_of in IN. apply in_map_iff in IN. destruct IN as [d [Ed Hd]]. apply filter_In in Hd. destruct Hd as [Hd _].
        inversion Ed. assert (d = e) by (apply Ucons; auto). now subst. }
      destruct (G e T) as [Y|Y]; split; auto.
      + apply (TR Ss s1); auto.
      + apply (TR s1 Ss); auto.
    - destruct ((N.of_nat (length (rng s1 x y)) <=? 1) || fp_is_empty (fp_of (rng Ss x y))) eqn:SMALL.
      + split.
        * intros q [<-|[]]. reflexivity.
        * intros e T I. right. eexists. split; [now left|]. exact I.
      + apply orb_false_iff in SMALL. destruct SMALL as [LEN _]. apply N.leb_gt in LEN.
        assert (L2 : (2 <= length (rng s1 x y))%nat) by lia.
        split.
        * intros q Hq. apply in_map_iff in Hq. destruct Hq as [r [<- Hr]].
          change (so_range om_ops s1 (fst r) (snd r)) with (rng s1 (fst r) (snd r)).
          destruct (mss <? N.of_nat (length (rng s1 (fst r) (snd r)))); reflexivity.
        * intros e T I. right. destruct (split_covers s1 x y SS L2 (entry_rid e) I) as [r [Hr Cr]].
          eexists. split; [apply in_map_iff; exists r; split; [reflexivity|exact Hr]|].
          change (so_range om_ops s1 (fst r) (snd r)) with (rng s1 (fst r) (snd r)).
          destruct (mss <? N.of_nat (length (rng s1 (fst r) (snd r)))); exact Cr.
  Qed.

  (** ---- the invariant of a session and one step of it ---- *)
  Definition Inv (Ss Sr : list entry) (m : message) : Prop :=
    sub Ss /\ sub Sr /\ ssorted Ss /\ ssorted Sr /\
    (forall e, top e -> In e Ss \/ In e Sr) /\
    (forall p, In p m -> honest Ss Sr p) /\
    (forall e, top e -> (In e Ss /\ In e Sr) \/ exists p, In p m /\ covers p e).

  Definition settled (S1 S2 : list entry) : Prop :=
    sub S1 /\ sub S2 /\ ssorted S1 /\ ssorted S2 /\ forall e, top e -> In e S1 /\ In e S2.

  Lemma process_message_unfold s m :
    process_message om_ops mss k status_of validate s m =
    let '(s1, out1, ins) := fold_left (item_fold om_ops status_of v) (filter is_item m) (s, [], []) in
    let out2 := flat_map (fun p => match p with PFp x y fp => process_fp om_ops mss k status_of s1 x y fp | _ => [] end)
                         (filter (fun p => negb (is_item p)) m) in
    (s1, match out1 ++ out2 with [] => None | _ => Some (out1 ++ out2) end, ins).
  Proof. reflexivity. Qed.

  Theorem step_keeps_inv Ss Sr m :
    Inv Ss Sr m ->
    let '(Sr', reply, _) := process_message om_ops mss k status_of validate Sr m in
    match reply with
    | Some r => Inv Sr' Ss r
    | None => settled Ss Sr'
    end.
  Proof.
    intros (HSs & HSr & SSs & SSr & G & HON & COV).
    rewrite process_message_unfold.
    pose proof (items_facts Ss (filter is_item m) Sr [] [] HSs HSr SSr G
                  (fun p Hp => HON p (proj1 (proj1 (filter_In _ _ _) Hp)))
                  (fun p (F : In p []) => match F with end)) as IF.
    destruct (fold_left (item_fold om_ops status_of v) (filter is_item m) (Sr, [], [])) as [[s1 out1] ins1].
    destruct IF as (A1 & A2 & A3 & A4 & _ & A6).
    assert (G1 : forall e, top e -> In e Ss \/ In e s1) by (intros e T; destruct (G e T); auto).
    set (out2 := flat_map (fun p => match p with PFp x y fp => process_fp om_ops mss k status_of s1 x y fp | _ => [] end)
                          (filter (fun p => negb (is_item p)) m)).
    assert (H2 : forall q, In q out2 -> honest s1 Ss q).
    { intros q Hq. apply in_flat_map in Hq. destruct Hq as [p [Hp Hq]]. apply filter_In in Hp. destruct Hp as [Hp _].
      destruct p as [x y fp|]; [|destruct Hq].
      exact (proj1 (fp_facts Ss s1 x y fp HSs A1 A2 G1 (HON _ Hp)) q Hq). }
    assert (ALL : forall e, top e -> (In e s1 /\ In e Ss) \/ exists p, In p (out1 ++ out2) /\ covers p e).
    { intros e T. destruct (COV e T) as [[X Y]|[p [Hp Cp]]]; [left; split; auto|].
      destruct p as [x y fp|x y vs hl].
      - destruct (proj2 (fp_facts Ss s1 x y fp HSs A1 A2 G1 (HON _ Hp)) e T Cp) as [B|[q [Hq Cq]]]; [now left|].
        right. exists q. split; auto. apply in_or_app. right. apply in_flat_map. exists (PFp x y fp). split; [|exact Hq].
        apply filter_In. split; auto.
      - destruct (A6 e T) as [B|[q [Hq Cq]]].
        + eexists. split; [apply filter_In; split; [exact Hp|reflexivity]|]. split; auto.
        + now left.
        + right. exists q. split; auto. apply in_or_app. now left. }
    cbv zeta. fold out2. destruct (out1 ++ out2) as [|p0 r] eqn:OUT.
    - split; [|split; [|split; [|split]]]; auto.
      intros e T. destruct (ALL e T) as [[X Y]|[p [[] _]]]; auto.
    - rewrite <- OUT. repeat split; auto.
      + intros e T. destruct (G1 e T); auto.
      + intros p Hp. apply in_app_or in Hp. destruct Hp; auto.
      + rewrite OUT. exact ALL.
  Qed.
End Conv.
