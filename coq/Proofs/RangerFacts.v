(** Facts about [process_message] that hold for every store instance, every message (hostile
    ones included) and every configuration. *)
From Coq Require Import Lia.
From ID Require Import Base.Bytes Base.BytesFacts Model.Entry Model.Put Model.Tables Model.Bounds
  Model.FsStore Model.Replica Model.Ranger Proofs.EntryFacts Proofs.PutFacts.

Lemma bool_eq_iff' (a b : bool) : (a = true <-> b = true) -> a = b.
Proof. destruct a, b; intros [H1 H2]; auto; try (symmetry; now apply H1); now apply H2. Qed.

Section Generic.
  Context {St : Type} (ops : store_ops St).
  Variables (mss k : N) (status_of : entry -> N) (v : entry -> N -> bool).
  Let validate := fun (_ : St) (e : entry) (st : N) => v e st.

  Definition puts_ops (s : St) (l : list entry) : St := fold_left (fun s e => fst (so_put ops s e)) l s.

  Definition valid_values (vs : list (entry * N)) : list entry :=
    map fst (filter (fun p => v (fst p) (snd p)) vs).

  Lemma store_values_puts vs : forall s,
    fst (store_values ops validate s vs) = puts_ops s (valid_values vs).
  Proof.
    induction vs as [|[e st] vs IH]; intros s; cbn [store_values valid_values filter map fst snd]; auto.
    unfold validate at 1. destruct (v e st) eqn:V; cbn [map fst].
    - unfold puts_ops. cbn [fold_left]. destruct (so_put ops s e) as [s' [|n]] eqn:P; cbn [fst].
      + apply IH.
      + specialize (IH s'). destruct (store_values ops validate s' vs). cbn [fst] in *. exact IH.
    - apply IH.
  Qed.

  (** every inserted (announced) entry was a valid value of the message *)
  Lemma store_values_inserted vs : forall s p,
    In p (snd (store_values ops validate s vs)) -> In p vs /\ v (fst p) (snd p) = true.
  Proof.
    induction vs as [|[e st] vs IH]; intros s p; cbn [store_values]; [intros []|].
    unfold validate at 1. destruct (v e st) eqn:V.
    - destruct (so_put ops s e) as [s' [|n]] eqn:P.
      + intros H. apply IH in H. destruct H. split; auto. now right.
      + destruct (store_values ops validate s' vs) as [s'' ins] eqn:SV. cbn [snd].
        intros [<-|H]; [split; [now left|exact V]|].
        assert (H' : In p (snd (store_values ops validate s' vs))) by now rewrite SV.
        apply IH in H'. destruct H'. split; auto. now right.
    - intros H. apply IH in H. destruct H. split; auto. now right.
  Qed.

  Definition message_values (m : message) : list (entry * N) := flat_map part_values (filter is_item m).

  Lemma puts_ops_app s l1 l2 : puts_ops s (l1 ++ l2) = puts_ops (puts_ops s l1) l2.
  Proof. unfold puts_ops. now rewrite fold_left_app. Qed.

  Lemma valid_values_app a b : valid_values (a ++ b) = valid_values a ++ valid_values b.
  Proof. unfold valid_values. now rewrite filter_app, map_app. Qed.

  Definition item_fold (acc : St * list part * list (entry * N)) (p : part) :=
    let '(s, out, ins) := acc in
    match p with
    | PItem x y vs hl =>
        let '(s', o, i) := process_item ops status_of validate s x y vs hl in (s', out ++ o, ins ++ i)
    | _ => acc
    end.

  Lemma item_fold_store items : forall s out ins,
    fst (fst (fold_left item_fold items (s, out, ins)))
    = puts_ops s (valid_values (flat_map part_values items)).
  Proof.
    induction items as [|p items IH]; intros s out ins; cbn [fold_left flat_map]; auto.
    destruct p as [x y fp|x y vs hl]; cbn [item_fold part_values app].
    - apply IH.
    - unfold process_item.
      pose proof (store_values_puts vs s) as SV.
      destruct (store_values ops validate s vs) as [s' i] eqn:E. cbn [fst] in SV.
      rewrite IH, valid_values_app, puts_ops_app. now rewrite SV.
  Qed.

  (** The store after processing any message is the store after putting the message's valid
      values, in order — whatever else the message contains. *)
  Theorem process_message_store s m :
    fst (fst (process_message ops mss k status_of validate s m)) = puts_ops s (valid_values (message_values m)).
  Proof.
    unfold process_message, message_values.
    pose proof (item_fold_store (filter is_item m) s [] []) as H.
    fold item_fold.
    destruct (fold_left item_fold (filter is_item m) (s, [], [])) as [[s1 out1] ins] eqn:E.
    cbn [fst] in *. exact H.
  Qed.

  Lemma item_fold_inserted items : forall s out ins,
    (forall q, In q ins -> v (fst q) (snd q) = true) ->
    forall q, In q (snd (fold_left item_fold items (s, out, ins))) ->
      (In q (flat_map part_values items) \/ In q ins) /\ v (fst q) (snd q) = true.
  Proof.
    induction items as [|it items IH]; intros s out ins Hins q Hq; cbn [fold_left flat_map] in *.
    - cbn in Hq. split; auto.
    - destruct it as [x y fp|x y vs hl]; cbn [item_fold part_values app] in *.
      + apply IH in Hq; auto.
      + unfold process_item in Hq.
        destruct (store_values ops validate s vs) as [s' i] eqn:SV.
        assert (HI : forall q, In q i -> In q vs /\ v (fst q) (snd q) = true).
        { intros q' Hq'. apply (store_values_inserted vs s q'). now rewrite SV. }
        assert (PRE : forall q0, In q0 (ins ++ i) -> v (fst q0) (snd q0) = true).
        { intros q0 H0. apply in_app_or in H0. destruct H0 as [H0|H0]; [now apply Hins | now destruct (HI q0 H0)]. }
        destruct (IH s' _ (ins ++ i) PRE q Hq) as [[A|A] V]; split; auto.
        * left. apply in_or_app. now right.
        * apply in_app_or in A. destruct A as [A|A]; [now right|]. left. apply in_or_app. left. now destruct (HI q A).
  Qed.

  (** every entry a message causes to be inserted (and announced) was one of its values and
      passed the validation callback *)
  Theorem process_message_inserted s m p :
    In p (snd (process_message ops mss k status_of validate s m)) ->
    In p (message_values m) /\ v (fst p) (snd p) = true.
  Proof.
    unfold process_message, message_values. fold item_fold.
    destruct (fold_left item_fold (filter is_item m) (s, [], [])) as [[s1 out1] ins1] eqn:E.
    cbn [snd]. intros H.
    assert (H' : In p (snd (fold_left item_fold (filter is_item m) (s, [], [])))) by now rewrite E.
    destruct (item_fold_inserted (filter is_item m) s [] [] (fun q F => match F with end) p H') as [[A|[]] V].
    split; auto.
  Qed.
End Generic.

(** counters: what one side counts as sent is what the other counts as received *)
Lemma value_count_def m : value_count m = N.of_nat (length (flat_map part_values m)).
Proof. reflexivity. Qed.

Section Counts.
  Variable key_succ : bytes -> option bytes.
  Variables EH MAXF mss k : N.

  Definition mirror (ocA ocB : outcome_counts) (pending : N) (turn_b : bool) : Prop :=
    if turn_b then oc_sent ocA = oc_recv ocB + pending /\ oc_recv ocA = oc_sent ocB
    else oc_sent ocB = oc_recv ocA + pending /\ oc_recv ocB = oc_sent ocA.

  Theorem session_counts_mirror fuel : forall now nsA nsB TA TB ocA ocB m turn_b acc TA' TB' ocA' ocB' tr,
    mirror ocA ocB (value_count m) turn_b ->
    session key_succ EH MAXF mss k fuel now nsA nsB TA TB ocA ocB m turn_b acc = Some (TA', TB', ocA', ocB', tr) ->
    oc_sent ocA' = oc_recv ocB' /\ oc_recv ocA' = oc_sent ocB'.
  Proof.
    induction fuel as [|f IH]; intros now nsA nsB TA TB ocA ocB m turn_b acc TA' TB' ocA' ocB' tr M H; [discriminate|].
    cbn [session] in H. destruct turn_b.
    - unfold sync_process in H.
      destruct (process_message _ _ _ _ _ TB m) as [[TB1 reply] ins] eqn:PM.
      destruct reply as [r|].
      + eapply IH; [|exact H]. cbn [mirror oc_recv oc_sent] in *. lia.
      + inversion H; subst. cbn [mirror oc_recv oc_sent] in *. lia.
    - unfold sync_process in H.
      destruct (process_message _ _ _ _ _ TA m) as [[TA1 reply] ins] eqn:PM.
      destruct reply as [r|].
      + eapply IH; [|exact H]. cbn [mirror oc_recv oc_sent] in *. lia.
      + inversion H; subst. cbn [mirror oc_recv oc_sent] in *. lia.
  Qed.

  (** a complete session started by A's initial message (which carries no values) *)
  Corollary session_counts_mirror_init fuel now nsA nsB TA TB TA' TB' ocA' ocB' tr :
    session key_succ EH MAXF mss k fuel now nsA nsB TA TB (mkOC 0 0) (mkOC 0 0)
            (initial_message (fs_ops key_succ EH nsA) TA) true [] = Some (TA', TB', ocA', ocB', tr) ->
    oc_sent ocA' = oc_recv ocB' /\ oc_recv ocA' = oc_sent ocB'.
  Proof. apply session_counts_mirror. cbn. split; reflexivity. Qed.
End Counts.

(** a second session between replicas that hold the same entries is one message long and
    moves nothing: the receiver's fingerprint of the whole range equals the sender's *)
Lemma fp_eqb_refl f : fp_eqb f f = true.
Proof.
  induction f as [|[[[[n a] k] t] h] f IH]; cbn; auto.
  now rewrite !N.eqb_refl, bytes_eqb_refl, IH.
Qed.

Section Silent.
  Context {St : Type} (ops : store_ops St).
  Variables (mss k : N) (status_of : entry -> N) (validate : St -> entry -> N -> bool).

  Theorem equal_fingerprint_silent sB x y fp :
    fp_of (so_range ops sB x y) = fp ->
    process_message ops mss k status_of validate sB [PFp x y fp] = (sB, None, []).
  Proof.
    intros H. unfold process_message. cbn [filter is_item negb fold_left flat_map app].
    unfold process_fp. rewrite H, fp_eqb_refl. reflexivity.
  Qed.
End Silent.

(** ** the ordered-list store holds the same set as the abstract store *)
Lemma eid_cmp_eq a b : eid_cmp a b = Eq <-> same_id a b = true.
Proof.
  unfold eid_cmp, id_cmp. rewrite same_id_spec.
  destruct (N.compare_spec (e_ns a) (e_ns b)) as [E|L|G].
  - destruct (N.compare_spec (e_author a) (e_author b)) as [E2|L|G].
    + rewrite lex_cmp_eq. tauto.
    + split; [discriminate|]. intros (_ & H & _). lia.
    + split; [discriminate|]. intros (_ & H & _). lia.
  - split; [discriminate|]. intros (H & _). lia.
  - split; [discriminate|]. intros (H & _). lia.
Qed.

Lemma om_insert_In e l x :
  (forall c, In c l -> same_id e c = false) -> (In x (om_insert e l) <-> x = e \/ In x l).
Proof.
  induction l as [|y l IH]; intros H; cbn [om_insert].
  - cbn. intuition.
  - destruct (eid_cmp e y) eqn:E.
    + apply eid_cmp_eq in E. rewrite (H y (or_introl eq_refl)) in E. discriminate.
    + cbn. intuition.
    + cbn [In]. rewrite IH; [intuition|]. intros c Ic. apply H. now right.
Qed.

Lemma same_id_rel_or e c : same_id e c = true -> rel e c = true \/ rel c e = true.
Proof.
  intros H. apply same_id_spec in H. destruct H as (N1 & A1 & K1).
  destruct (val_leb_total c e) as [L|L]; [left|right]; apply rel_spec; repeat split; auto;
    rewrite K1 || rewrite <- K1; apply is_prefix_refl.
Qed.

Theorem om_put_set S e : set_eq (fst (om_put S e)) (fst (put S e)).
Proof.
  intros x. unfold om_put, put. destruct (existsb (fun p => rel p e) S) eqn:E; cbn [fst]; [tauto|].
  rewrite om_insert_In.
  - cbn [In]. intuition.
  - intros c Ic. apply filter_In in Ic. destruct Ic as [Ic Nc]. apply negb_true_iff in Nc.
    destruct (same_id e c) eqn:SI; auto. exfalso.
    destruct (same_id_rel_or e c SI) as [R|R]; [congruence|].
    assert (existsb (fun p => rel p e) S = true) by (apply existsb_exists; eauto). congruence.
Qed.

Lemma put_set_ext S1 S2 e : set_eq S1 S2 -> set_eq (fst (put S1 e)) (fst (put S2 e)).
Proof.
  intros H x. unfold put.
  assert (EX : existsb (fun p => rel p e) S1 = existsb (fun p => rel p e) S2).
  { apply bool_eq_iff'. rewrite !existsb_exists. split; intros [p [I R]]; exists p; split; auto; now apply H. }
  rewrite EX. destruct (existsb (fun p => rel p e) S2); cbn [fst]; [apply H|].
  cbn [In]. rewrite !filter_In, (H x). tauto.
Qed.

Lemma puts_om_set l : forall S1 S2, set_eq S1 S2 -> set_eq (puts_ops om_ops S1 l) (puts S2 l).
Proof.
  induction l as [|e l IH]; intros S1 S2 H; cbn; auto.
  apply IH. intros x. rewrite (om_put_set S1 e x). now apply put_set_ext.
Qed.

(** Effect of any message on an ordered-list replica: the content afterwards is [reduce] of the
    content before plus the valid values the message carried — independent of the ranges,
    fingerprints and flags in the message and of the order of its values. *)
Theorem process_message_content mss k status_of v S m :
  reduced S -> consistent (valid_values v (message_values m) ++ S) ->
  forall x,
    In x (fst (fst (process_message om_ops mss k status_of (fun _ e st => v e st) S m)))
    <-> in_reduce (valid_values v (message_values m) ++ S) x.
Proof.
  intros R C x.
  rewrite (process_message_store om_ops mss k status_of v S m).
  rewrite (puts_om_set _ S S (fun _ => iff_refl _) x).
  rewrite (puts_is_reduce_gen (valid_values v (message_values m)) S S C R).
  - apply in_reduce_ext. intros a. rewrite !in_app_iff, <- in_rev. tauto.
  - intros y. split.
    + intros I. split; [exact I|]. intros d Id. now apply R.
    + now intros [I _].
Qed.
