(** Round-trip lemmas for the postcard primitives and the combinators built from them:
    decoding what was encoded, followed by anything, yields the value and the rest. *)
From Coq Require Import Lia.
From ID Require Import Base.Bytes Model.Postcard.

Definition roundtrips {A} (enc : A -> bytes) (dec : parser A) (v : A) : Prop :=
  forall rest, dec (enc v ++ rest) = Some (v, rest).

Lemma pow128_pos n : 0 < 128 ^ n.
Proof. assert (128 ^ n <> 0) by (apply N.pow_nonzero; lia). lia. Qed.

Lemma dec_enc_varint_go maxb lastmax f : forall v shift acc rest,
  v < 128 ^ N.of_nat (S f) -> v / 128 ^ N.of_nat f <= lastmax ->
  dec_varint_go maxb lastmax (S f) shift acc (enc_varint_fuel f v ++ rest) = Some (acc + v * shift, rest).
Proof.
  induction f as [|f IH]; intros v shift acc rest Hv Hl.
  - cbn [enc_varint_fuel app dec_varint_go]. change (128 ^ N.of_nat 1) with 128 in Hv.
    change (128 ^ N.of_nat 0) with 1 in Hl. rewrite N.div_1_r in Hl.
    rewrite !(N.mod_small v 128 Hv).
    assert (H1 : v <? 128 = true) by now apply N.ltb_lt. rewrite H1. cbn [Nat.eqb andb].
    assert (H2 : lastmax <? v = false) by (apply N.ltb_ge; lia). rewrite H2. reflexivity.
  - cbn [enc_varint_fuel]. destruct (N.ltb_spec v 128) as [S1|S1].
    + cbn [app dec_varint_go]. assert (H1 : v <? 128 = true) by now apply N.ltb_lt. rewrite H1.
      cbn [Nat.eqb andb]. now rewrite (N.mod_small v 128 S1).
    + pose proof (N.div_mod v 128 ltac:(lia)) as DM.
      pose proof (N.mod_lt v 128 ltac:(lia)) as ML.
      assert (QB : v / 128 < 128 ^ N.of_nat (S f)).
      { rewrite (Nat2N.inj_succ (S f)), N.pow_succ_r' in Hv. apply N.div_lt_upper_bound; lia. }
      assert (QL : v / 128 / 128 ^ N.of_nat f <= lastmax).
      { rewrite N.div_div by (try lia; pose proof (pow128_pos (N.of_nat f)); lia).
        rewrite (Nat2N.inj_succ f), N.pow_succ_r' in Hl. exact Hl. }
      remember (v / 128) as q. remember (v mod 128) as m.
      cbn [app].
      change (dec_varint_go maxb lastmax (S (S f)) shift acc ((m + 128) :: enc_varint_fuel f q ++ rest))
        with (let acc' := acc + ((m + 128) mod 128) * shift in
              if m + 128 <? 128 then
                if (Nat.eqb (S f) 0) && (lastmax <? m + 128) then None else Some (acc', enc_varint_fuel f q ++ rest)
              else dec_varint_go maxb lastmax (S f) (shift * 128) acc' (enc_varint_fuel f q ++ rest)).
      cbv zeta.
      assert (H1 : m + 128 <? 128 = false) by (apply N.ltb_ge; lia). rewrite H1.
      assert (H2 : (m + 128) mod 128 = m).
      { rewrite <- N.add_mod_idemp_r by lia. rewrite N.mod_same by lia. rewrite N.add_0_r. apply N.mod_small. exact ML. }
      rewrite H2, (IH q _ _ rest QB QL). f_equal. f_equal. lia.
Qed.

Theorem varint_u64_roundtrip v : v < 2 ^ 64 -> roundtrips enc_varint dec_varint_u64 v.
Proof.
  intros H rest. unfold enc_varint, dec_varint_u64.
  rewrite (dec_enc_varint_go 10 1 9 v 1 0 rest).
  - f_equal. f_equal. lia.
  - change (128 ^ N.of_nat 10) with (2 ^ 70). assert (2 ^ 64 < 2 ^ 70) by (apply N.pow_lt_mono_r; lia). lia.
  - change (128 ^ N.of_nat 9) with (2 ^ 63).
    assert (v / 2 ^ 63 < 2); [|lia]. apply N.div_lt_upper_bound; [lia|]. change (2 ^ 63 * 2) with (2 ^ 64). exact H.
Qed.

(** discriminants: values below 128 are one byte and decode as u32 *)
Lemma varint_u32_small v : v < 128 -> roundtrips enc_varint dec_varint_u32 v.
Proof.
  intros H rest. unfold enc_varint, dec_varint_u32. cbn [enc_varint_fuel].
  assert (H1 : v <? 128 = true) by now apply N.ltb_lt. rewrite H1. cbn [app dec_varint_go]. rewrite H1.
  cbn [Nat.eqb andb]. rewrite (N.mod_small v 128 H). f_equal. f_equal. lia.
Qed.

Lemma take_app (a rest : bytes) : take (length a) (a ++ rest) = Some (a, rest).
Proof. induction a as [|x a IH]; cbn; auto. now rewrite IH. Qed.

Lemma raw_roundtrip n (a : bytes) : length a = n -> forall rest, take n (a ++ rest) = Some (a, rest).
Proof. intros <- rest. apply take_app. Qed.

Theorem bytes_roundtrip v : N.of_nat (length v) < 2 ^ 64 -> roundtrips enc_bytes dec_bytes v.
Proof.
  intros H rest. unfold enc_bytes, dec_bytes. rewrite <- app_assoc.
  rewrite (varint_u64_roundtrip _ H).
  assert (G : N.of_nat (length (v ++ rest)) <? N.of_nat (length v) = false).
  { apply N.ltb_ge. rewrite app_length. lia. }
  rewrite G, Nat2N.id. apply take_app.
Qed.

Theorem bool_roundtrip v : roundtrips enc_bool dec_bool v.
Proof. intros rest. destruct v; reflexivity. Qed.

Section Seq.
  Context {A : Type} (enc : A -> bytes) (dec : parser A).

  Lemma dec_n_roundtrip l : Forall (roundtrips enc dec) l ->
    forall rest, dec_n dec (length l) (flat_map enc l ++ rest) = Some (l, rest).
  Proof.
    induction 1 as [|x l Hx Hl IH]; intros rest; cbn; auto.
    rewrite <- app_assoc, Hx, IH. reflexivity.
  Qed.

  Theorem seq_roundtrip l :
    Forall (roundtrips enc dec) l -> Forall (fun x => enc x <> []) l -> N.of_nat (length l) < 2 ^ 64 ->
    roundtrips (enc_seq enc) (dec_seq dec) l.
  Proof.
    intros HR HN HL rest. unfold enc_seq, dec_seq. rewrite <- app_assoc.
    rewrite (varint_u64_roundtrip _ HL).
    assert (G : N.of_nat (length (flat_map enc l ++ rest)) <? N.of_nat (length l) = false).
    { apply N.ltb_ge. rewrite app_length.
      assert (length l <= length (flat_map enc l))%nat.
      { clear HR HL. induction HN as [|x l Hx Hl IH]; cbn; auto. rewrite app_length.
        destruct (enc x); [contradiction|]. cbn. lia. }
      lia. }
    rewrite G, Nat2N.id. now apply dec_n_roundtrip.
  Qed.
End Seq.
