(** C14: the store's open marker mirrors the actor's handles, for every request; hence a document that
    nobody else holds can always be dropped ("replica is not closed" needs another handle). *)
From Coq Require Import Lia.
From ID Require Import Base.Bytes Model.Entry Model.Tables Model.Replica Model.Ranger Model.StoreOps
  Model.Actor Proofs.ActorFacts Proofs.HandleFacts.

Lemma mem_add x y l : mem x (add_n y l) = (x =? y) || mem x l.
Proof.
  unfold add_n. destruct (mem y l) eqn:M; [|reflexivity].
  destruct (N.eqb_spec x y) as [->|NE]; cbn; auto.
Qed.
Lemma mem_remove x y l : mem x (remove_n y l) = negb (x =? y) && mem x l.
Proof.
  unfold mem, remove_n. induction l as [|z l IH]; cbn; [now rewrite andb_false_r|].
  destruct (N.eqb_spec y z) as [->|NE]; cbn [negb].
  - rewrite IH. destruct (N.eqb_spec x z); cbn; auto.
  - cbn [existsb]. rewrite IH. destruct (N.eqb_spec x z) as [->|N2]; cbn.
    + destruct (N.eqb_spec z y); [congruence|reflexivity].
    + reflexivity.
Qed.

Section Drop.
  Variable ks : bytes -> option bytes.
  Variables EH MF CAP mss split : N.
  Notation step := (astep ks EH MF CAP mss split).

  Definition OpenInv (s : astate) : Prop :=
    forall ns, mem ns (a_store_open s) = true <-> aget s ns <> None.

  Lemma OpenInv_init T : OpenInv (ainit T).
  Proof. intros ns. unfold aget. cbn. split; [discriminate|congruence]. Qed.

  Lemma OpenInv_same s s' : a_store_open s' = a_store_open s -> (forall x, aget s' x = None <-> aget s x = None) ->
    OpenInv s -> OpenInv s'.
  Proof. intros E G I ns. rewrite E, (I ns). split; intros H C; apply H; now apply G. Qed.

  Lemma aget_aset_none s ns r x : aget (with_open s (aset s ns r)) x = None <-> (x <> ns /\ aget s x = None).
  Proof.
    rewrite (aget_aset s ns r x). destruct (N.eqb_spec x ns) as [->|NE]; split.
    - discriminate.
    - intros [H _]. congruence.
    - auto.
    - tauto.
  Qed.

  Lemma OpenInv_aset s ns r r' : aget s ns = Some r -> OpenInv s -> OpenInv (with_open s (aset s ns r')).
  Proof.
    intros G I. apply (OpenInv_same s); auto. intros x. rewrite aget_aset_none. split.
    - tauto.
    - intros H. split; auto. intros ->. congruence.
  Qed.

  Lemma deliver_open s T ns evs : OpenInv s -> OpenInv (fst (deliver (with_tables s T) ns evs)).
  Proof.
    intros I. unfold deliver. destruct (aget (with_tables s T) ns) as [r|] eqn:G; [|exact I].
    destruct evs; [exact I|]. cbn [fst].
    apply (OpenInv_aset (with_tables s T) ns r); auto.
  Qed.

  Lemma aclose_open s ns : OpenInv s -> OpenInv (fst (aclose s ns)).
  Proof.
    intros I. unfold aclose. destruct (aget s ns) as [r|] eqn:G.
    - destruct (ar_handles r =? 1); cbn [fst].
      + intros x. cbn [a_store_open]. rewrite mem_remove. unfold aget. cbn [a_open]. rewrite (aget_adel s ns x).
        fold (aget s x). destruct (N.eqb_spec x ns) as [->|NE]; cbn [negb andb].
        * split; [discriminate|congruence].
        * apply I.
      + apply (OpenInv_aset s ns r); auto.
    - cbn [fst]. intros x. cbn [a_store_open]. rewrite mem_remove. unfold aget. cbn [a_open]. fold (aget s x).
      destruct (N.eqb_spec x ns) as [->|NE]; cbn [negb andb]; [|apply I].
      split; [discriminate|]. intros H. congruence.
  Qed.

  Theorem step_open_inv s o : OpenInv s -> OpenInv (fst (fst (step s o))).
  Proof.
    intros I. destruct o; cbn [astep].
    - destruct (aget s ns) as [r|] eqn:G.
      + cbn [fst]. apply (OpenInv_aset s ns r); auto.
      + destruct (writable (a_tables s) ns) as [w|]; cbn [fst]; [|exact I].
        intros x. cbn [a_store_open]. rewrite mem_add.
        change (aget (mkA (a_tables s) (add_n ns (a_store_open s)) (a_clock s) (aset s ns (mkAR 1 sync match sub with Some c => [c] | None => [] end w)) (a_dead s)) x)
          with (aget (with_open s (aset s ns (mkAR 1 sync match sub with Some c => [c] | None => [] end w))) x).
        rewrite (aget_aset s ns _ x). destruct (N.eqb_spec x ns) as [->|NE]; cbn [orb].
        * split; [discriminate|reflexivity].
        * apply I.
    - pose proof (aclose_open s ns I) as A. destruct (aclose s ns) as [s' b]. exact A.
    - destruct (aget s ns); exact I.
    - destruct (aget s ns) as [r|] eqn:G; cbn [fst]; [apply (OpenInv_aset s ns r); auto|exact I].
    - destruct (aget s ns) as [r|] eqn:G; cbn [fst]; [apply (OpenInv_aset s ns r); auto|exact I].
    - destruct (aget s ns) as [r|] eqn:G; cbn [fst]; [apply (OpenInv_aset s ns r); auto|exact I].
    - cbn [fst]. apply (OpenInv_same s); auto. intros x. reflexivity.
    - destruct (negb known_author); [exact I|]. destruct (aget s ns) as [r|]; [|exact I].
      destruct (replica_insert _ _ _ _ _ _ _ _ _ _ _) as [[T' res] evs].
      pose proof (deliver_open s T' ns evs I) as D. destruct (deliver (with_tables s T') ns evs) as [s' d]. exact D.
    - destruct (negb known_author); [exact I|]. destruct (aget s ns) as [r|]; [|exact I].
      destruct (replica_delete_prefix _ _ _ _ _ _ _ _ _) as [[T' res] evs].
      pose proof (deliver_open s T' ns evs I) as D. destruct (deliver (with_tables s T') ns evs) as [s' d]. exact D.
    - destruct (aget s ns) as [r|]; [|exact I]. destruct (negb (ar_sync r)); [exact I|].
      destruct (replica_insert_remote _ _ _ _ _ _ _ _ _) as [[T' res] evs].
      pose proof (deliver_open s T' ns evs I) as D. destruct (deliver (with_tables s T') ns evs) as [s' d]. exact D.
    - destruct (aget s ns) as [r|]; [destruct (negb (ar_sync r))|]; exact I.
    - destruct (aget s ns) as [r|]; [|exact I]. destruct (negb (ar_sync r)); [exact I|].
      destruct (sync_process _ _ _ _ _ _ _ _ _ _ _) as [[[T' reply] oc] evs].
      pose proof (deliver_open s T' ns evs I) as D. destruct (deliver (with_tables s T') ns evs) as [s' d]. exact D.
    - destruct (aget s ns); exact I.
    - destruct (aget s ns); exact I.
    - pose proof (aclose_open s ns I) as A. destruct (aclose s ns) as [s1 b]. cbn [fst] in A.
      destruct (mem ns (a_store_open s1)); cbn [fst]; [exact A|]. apply (OpenInv_same s1); auto. intros x. reflexivity.
    - destruct (import_namespace (a_tables s) ns secret) as [T' out].
      destruct out; cbn [fst]; try (apply (OpenInv_same s); auto; intros x; reflexivity).
      destruct (aget (with_tables s T') ns) as [r|] eqn:G; cbn [fst]; [|apply (OpenInv_same s); auto; intros x; reflexivity].
      apply (OpenInv_aset (with_tables s T') ns r); auto.
    - destruct (aget s ns) as [r|]; [destruct (ar_writable r)|]; exact I.
    - destruct (get_cap (a_tables s) ns); cbn [fst]; [apply (OpenInv_same s); auto; intros x; reflexivity|exact I].
    - exact I.
    - destruct (register_useful_peer _ _ _ _ _); cbn [fst]; apply (OpenInv_same s); auto; intros x; reflexivity.
    - destruct (aget s ns); exact I.
    - exact I.
  Qed.

  (** a drop is refused exactly when another handle remains *)
  Theorem drop_refused_iff s ns : OpenInv s -> HPos s ->
    snd (fst (step s (ADrop ns))) = AErr ANotClosed <-> 1 < handles s ns.
  Proof.
    intros I H. cbn [astep].
    pose proof (aclose_open s ns I ns) as A.
    pose proof (aclose_handles s ns ns H) as AH. rewrite N.eqb_refl in AH.
    pose proof (aclose_hpos s ns H) as HP.
    destruct (aclose s ns) as [s1 b]. cbn [fst] in *.
    destruct (mem ns (a_store_open s1)) eqn:M; cbn [fst snd].
    - split; [intros _|reflexivity].
      assert (G : aget s1 ns <> None) by now apply A.
      unfold handles in AH. destruct (aget s1 ns) as [r1|] eqn:G1; [|congruence].
      specialize (HP ns r1 G1). fold (handles s ns) in AH. lia.
    - split; [discriminate|]. intros L. exfalso.
      unfold handles in AH at 1. destruct (aget s1 ns) as [a|] eqn:G1.
      + assert (X : false = true) by (apply A; discriminate). discriminate.
      + lia.
  Qed.
End Drop.
