(** C01, termination for the crate's split factor (2; [SyncConfig] is crate-private and only its
    default is used): every reply ranks strictly below the message it answers, where a
    fingerprint part ranks by the number of entries of the union inside its range. Hence a session
    ends within |A| + |B| + 3 processing steps, for every maximal set size. *)
From Coq Require Import Lia Sorted PeanoNat.
From ID Require Import Base.Bytes Base.BytesFacts Model.Entry Model.Put Model.Tables Model.Bounds
  Model.FsStore Model.Replica Model.Ranger Proofs.EntryFacts Proofs.PutFacts Proofs.BoundsFacts
  Proofs.RangerFacts Proofs.FsPutFacts Proofs.ConvergeFacts Proofs.SplitFacts Proofs.SessionConverge.

Local Open Scope nat_scope.

(** ---- order facts about sub-ranges ---- *)
Lemma rc_end_out a b : a <> b -> rc a b b = false.
Proof. unfold range_contains. intros N. cmp_cases; auto; exfalso; rorder. Qed.

Lemma rc_first_not_start x y a b : x <> y -> rc x y a = true -> rc x y b = true ->
  rc a y b = true -> a <> b -> b <> x.
Proof.
  unfold range_contains. intros N1 H1 H2 H3 N2 E. subst b. revert H1 H2 H3.
  cmp_cases; intros; try discriminate; rorder.
Qed.

Lemma rc_later_excludes x y a b : x <> y -> rc x y a = true -> rc x y b = true ->
  rc a y b = true -> a <> b -> rc b y a = false.
Proof.
  unfold range_contains. intros N1 H1 H2 H3 N2. revert H1 H2 H3.
  cmp_cases; intros; try discriminate; auto; exfalso; rorder.
Qed.

Lemma rc_sub_left x y b z : x <> y -> b <> x -> rc x y b = true -> rc x b z = true -> rc x y z = true.
Proof.
  unfold range_contains. intros N1 N2 H1 H2. revert H1 H2.
  cmp_cases; intros; try discriminate; auto; exfalso; rorder.
Qed.

Lemma rc_sub_right x y b z : x <> y -> rc x y b = true -> rc b y z = true -> rc x y z = true.
Proof.
  unfold range_contains. intros N1 H1 H2. revert H1 H2.
  cmp_cases; intros; try discriminate; auto; exfalso; rorder.
Qed.

Section Rank.
  Variables (mss : N) (v : entry -> N -> bool) (U : list entry).
  Hypothesis Ucons : consistent U.
  Hypothesis Uvalid : forall e, In e U -> v e MISSING = true.
  Let k : N := 2%N.
  Let K2 : (2 <= k)%N. Proof. unfold k. lia. Qed.
  Let status_of := fun _ : entry => MISSING.
  Let validate := fun (_ : list entry) (e : entry) (st : N) => v e st.

  Definition cnt (x y : rid) : nat := length (rng U x y).
  Definition rank (p : part) : nat :=
    match p with
    | PItem _ _ _ true => 0
    | PItem _ _ _ false => 1
    | PFp x y _ => 2 + cnt x y
    end.
  Fixpoint rankm (m : message) : nat :=
    match m with [] => 0 | p :: r => Nat.max (rank p) (rankm r) end.

  Lemma rankm_ge m p : In p m -> rank p <= rankm m.
  Proof. induction m as [|q m IH]; cbn; intros []; subst; try specialize (IH H); lia. Qed.
  Lemma rankm_lt r m : r <> [] -> (forall q, In q r -> exists p, In p m /\ rank q < rank p) -> rankm r < rankm m.
  Proof.
    induction r as [|q r IH]; intros NE H; [contradiction|]. cbn [rankm].
    destruct (H q (or_introl eq_refl)) as [p [Ip Lp]]. pose proof (rankm_ge m p Ip).
    destruct r as [|q' r']; [cbn; lia|].
    assert (rankm (q' :: r') < rankm m) by (apply IH; [discriminate|]; intros q0 Hq0; apply H; now right).
    lia.
  Qed.

  (** a sub-range that lies inside the range and misses an entry of the union counts less *)
  Lemma cnt_lt x y a b w : (forall z, rc a b z = true -> rc x y z = true) ->
    In w U -> rc a b (entry_rid w) = false -> rc x y (entry_rid w) = true -> cnt a b < cnt x y.
  Proof.
    intros SUB Iw F G. unfold cnt, rng. apply (filter_length_lt_ext _ _ U w); auto.
  Qed.

  (** ---- the split in two strictly lowers the count ---- *)
  Lemma split2_cnt s x y : sub U s -> ssorted s -> 2 <= length (rng s x y) ->
    forall r, In r (split_ranges k x y (rng s x y)) -> cnt (fst r) (snd r) < cnt x y.
  Proof.
    intros HS SS L2 r Hr.
    set (l := rng s x y) in *. set (st := start_index x l).
    assert (SL : ssorted l) by now apply ssorted_filter.
    assert (L1 : 1 <= length l) by lia.
    assert (ST : st <= length l) by apply start_index_le.
    assert (LU : forall e, In e l -> In e U /\ rc x y (entry_rid e) = true).
    { intros e He. unfold l in He. apply filter_In in He. destruct He. split; auto. }
    unfold split_ranges in Hr. cbv zeta beta in Hr. fold st in Hr. set (pv := pivot k l st) in *.
    destruct (rid_eqb x y) eqn:EQ.
    - (* whole ring: any sub-range with different ends misses the entry at its end *)
      apply rid_eqb_eq in EQ. subst y.
      apply filter_In in Hr. destruct Hr as [Hr NE]. apply in_map_iff in Hr. destruct Hr as [i [<- _]].
      cbn [fst snd] in *.
      destruct (pivot_in k K2 l st L1 ST (i + 1)%N) as [e [He Pe]]. fold pv in Pe.
      destruct (LU e He) as [IU _].
      apply (cnt_lt x x (pv i) (pv (i + 1)%N) e); auto.
      + intros z _. apply rc_refl.
      + rewrite <- Pe. apply rc_end_out. intros E. rewrite E in NE.
        assert (X : rid_eqb (pv (i + 1)%N) (pv (i + 1)%N) = true) by now apply rid_eqb_eq. rewrite X in NE. discriminate.
      + apply rc_refl.
    - (* proper range: [x, p) and [p, y) with p the middle element in ring order *)
      assert (NE : x <> y) by (intros E; apply rid_eqb_eq in E; congruence).
      pose proof (range_ring s x y SS NE) as F. cbv zeta in F. fold l in F. fold st in F.
      assert (LEN : length (rot st l) = length l).
      { unfold rot. rewrite app_length, skipn_length, firstn_length. lia. }
      (* the first element in ring order and the pivot *)
      destruct (nth_error (rot st l) 0) as [a0|] eqn:A0; [|apply nth_error_None in A0; lia].
      assert (J0 : 1 <= jidx k l 0%N).
      { pose proof (jidx_penult k K2 l st L1 ST L2) as H. unfold k in *. exact H. }
      pose proof (jidx_lt k K2 l st L1 ST 0%N) as JL.
      destruct (nth_error (rot st l) (jidx k l 0%N)) as [e0|] eqn:E0; [|apply nth_error_None in E0; lia].
      assert (P0 : pv 0%N = entry_rid e0).
      { unfold pv. rewrite (pivot_rot k K2 l st L1 ST). unfold rid_at. now rewrite E0. }
      assert (RR : ringrel y a0 e0) by (apply (FOP_nth _ _ F 0 (jidx k l 0%N) a0 e0); auto; lia).
      destruct RR as [NQ RA].
      assert (INa : In a0 l).
      { apply nth_error_In in A0. unfold rot in A0. apply in_app_or in A0.
        rewrite <- (firstn_skipn st l). apply in_or_app. tauto. }
      assert (INe : In e0 l).
      { apply nth_error_In in E0. unfold rot in E0. apply in_app_or in E0.
        rewrite <- (firstn_skipn st l). apply in_or_app. tauto. }
      destruct (LU a0 INa) as [UA RXA]. destruct (LU e0 INe) as [UE RXE].
      assert (PX : entry_rid e0 <> x) by (apply (rc_first_not_start x y (entry_rid a0)); auto).
      replace (k - 2)%N with 0%N in Hr by (unfold k; lia).
      cbn [nseq N.to_nat seq map filter app] in Hr. rewrite P0 in Hr.
      destruct Hr as [<-|[<-|[]]]; cbn [fst snd].
      + apply (cnt_lt x y x (entry_rid e0) e0); auto.
        * intros z Hz. apply (rc_sub_left x y (entry_rid e0)); auto.
        * apply rc_end_out. auto.
      + apply (cnt_lt x y (entry_rid e0) y a0); auto.
        * intros z Hz. apply (rc_sub_right x y (entry_rid e0)); auto.
        * apply (rc_later_excludes x y); auto.
  Qed.

  (** ---- replies to fingerprint parts rank below the part ---- *)
  Lemma fp_rank s1 x y fp : sub U s1 -> ssorted s1 ->
    forall q, In q (process_fp om_ops mss k status_of s1 x y fp) -> rank q < 2 + cnt x y.
  Proof.
    intros HS SS q Hq. unfold process_fp in Hq. change (so_range om_ops s1 x y) with (rng s1 x y) in Hq.
    destruct (fp_eqb (fp_of (rng s1 x y)) fp); [destruct Hq|].
    destruct ((N.of_nat (length (rng s1 x y)) <=? 1)%N || fp_is_empty fp) eqn:SM.
    - destruct Hq as [<-|[]]. cbn. lia.
    - apply orb_false_iff in SM. destruct SM as [LEN _]. apply N.leb_gt in LEN.
      assert (L2 : 2 <= length (rng s1 x y)) by lia.
      apply in_map_iff in Hq. destruct Hq as [r [<- Hr]].
      pose proof (split2_cnt s1 x y HS SS L2 r Hr) as C.
      destruct (mss <? N.of_nat (length (so_range om_ops s1 (fst r) (snd r))))%N; cbn [rank]; lia.
  Qed.

  (** ---- replies to item parts: only to parts that asked for them ---- *)
  Lemma items_out_shape items : forall s out ins,
    forall p, In p (snd (fst (fold_left (item_fold om_ops status_of v) items (s, out, ins)))) ->
      In p out \/ exists x y vs' vs, p = PItem x y vs' true /\ In (PItem x y vs false) items.
  Proof.
    induction items as [|it items IH]; intros s out ins p Hp; cbn [fold_left] in Hp; [now left|].
    destruct it as [x y fp|x y vs hl]; cbn [item_fold] in Hp.
    - destruct (IH _ _ _ p Hp) as [H|(x0 & y0 & a & b & E & I)]; auto.
      right. exists x0, y0, a, b. split; auto. now right.
    - unfold process_item in Hp.
      destruct (store_values om_ops (fun (_ : list entry) (e : entry) (st : N) => v e st) s vs) as [s' i].
      destruct hl.
      + rewrite app_nil_r in Hp. destruct (IH _ _ _ p Hp) as [H|(x0 & y0 & a & b & E & I)]; auto.
        right. exists x0, y0, a, b. split; auto. now right.
      + match type of Hp with context [out ++ ?o] => set (o1 := o) in * end.
        destruct (IH _ _ _ p Hp) as [H|(x0 & y0 & a & b & E & I)].
        * apply in_app_or in H. destruct H as [H|H]; auto. right.
          unfold o1 in H. destruct (filter _ _) as [|d ds] in H; [destruct H|].
          destruct H as [<-|[]]. exists x, y, (with_status status_of (d :: ds)), vs. split; auto. now left.
        * right. exists x0, y0, a, b. split; auto. now right.
  Qed.

  (** ---- every reply ranks strictly below the message it answers ---- *)
  Theorem reply_rank_decreases Ss Sr m Sr' r ins :
    Inv U Ss Sr m ->
    process_message om_ops mss k status_of validate Sr m = (Sr', Some r, ins) ->
    rankm r < rankm m.
  Proof.
    intros (HSs & HSr & SSs & SSr & G & HON & COV) PM.
    unfold status_of, validate in PM. rewrite (process_message_unfold mss k v Sr m) in PM.
    pose proof (items_facts mss v U Uvalid Ss (filter is_item m) Sr [] [] HSs HSr SSr G
                  (fun p Hp => HON p (proj1 (proj1 (filter_In _ _ _) Hp)))
                  (fun p (F : In p []) => match F with end)) as IF.
    pose proof (items_out_shape (filter is_item m) Sr [] []) as SH. unfold status_of in SH.
    destruct (fold_left (item_fold om_ops (fun _ : entry => MISSING) v) (filter is_item m) (Sr, [], [])) as [[s1 out1] ins1].
    destruct IF as (A1 & A2 & _). cbn [fst snd] in SH. cbv zeta in PM.
    set (out2 := flat_map (fun p => match p with PFp x y fp => process_fp om_ops mss k (fun _ : entry => MISSING) s1 x y fp | _ => [] end)
                          (filter (fun p => negb (is_item p)) m)) in *.
    destruct (out1 ++ out2) as [|p0 r0] eqn:OUT; [discriminate|]. inversion PM; subst Sr' r ins. clear PM.
    apply rankm_lt; [discriminate|]. intros q Hq. rewrite <- OUT in Hq. apply in_app_or in Hq. destruct Hq as [Hq|Hq].
    - destruct (SH q Hq) as [[]|(x0 & y0 & a & b & -> & I)].
      apply filter_In in I. destruct I as [I _]. exists (PItem x0 y0 b false). split; auto.
    - unfold out2 in Hq. apply in_flat_map in Hq. destruct Hq as [p [Hp Hq]]. apply filter_In in Hp. destruct Hp as [Hp _].
      destruct p as [x y fp|]; [|destruct Hq]. exists (PFp x y fp). split; auto. cbn [rank].
      exact (fp_rank s1 x y fp A1 A2 q Hq).
  Qed.

  (** ---- a session ends before the fuel does ---- *)
  Lemma session_ends fuel : forall SA SB m (turn : bool) acc,
    (if turn then Inv U SA SB m else Inv U SB SA m) -> rankm m < fuel ->
    exists res, list_session mss k v fuel SA SB m turn acc = Some res.
  Proof.
    induction fuel as [|f IH]; intros SA SB m turn acc I R; [lia|].
    cbn [list_session]. unfold list_process. destruct turn.
    - pose proof (step_keeps_inv mss k v U Ucons Uvalid (split_covers k K2) SA SB m I) as ST.
      pose proof (reply_rank_decreases SA SB m) as RD.
      unfold status_of, validate in RD.
      destruct (process_message om_ops mss k (fun _ : entry => MISSING) (fun (_ : list entry) (e : entry) (st : N) => v e st) SB m) as [[SB' reply] ins].
      destruct reply as [r|]; [|eauto].
      specialize (RD SB' r ins I eq_refl). apply IH; auto. lia.
    - pose proof (step_keeps_inv mss k v U Ucons Uvalid (split_covers k K2) SB SA m I) as ST.
      pose proof (reply_rank_decreases SB SA m) as RD.
      unfold status_of, validate in RD.
      destruct (process_message om_ops mss k (fun _ : entry => MISSING) (fun (_ : list entry) (e : entry) (st : N) => v e st) SA m) as [[SA' reply] ins].
      destruct reply as [r|]; [|eauto].
      specialize (RD SA' r ins I eq_refl). apply IH; auto. lia.
  Qed.
End Rank.

Lemma filter_len_le {A} (f : A -> bool) l : length (filter f l) <= length l.
Proof. induction l as [|a l IH]; cbn; auto. destruct (f a); cbn; lia. Qed.

(** the transcript is shorter than the fuel *)
Lemma session_length mss k v fuel : forall SA SB m turn acc A' B' tr,
  list_session mss k v fuel SA SB m turn acc = Some (A', B', tr) -> length tr + 1 <= fuel + length acc.
Proof.
  induction fuel as [|f IH]; intros SA SB m turn acc A' B' tr H; [discriminate|].
  cbn [list_session] in H. destruct turn.
  - destruct (list_process mss k v SB m) as [[SB' reply] ins]. destruct reply as [r|].
    + apply IH in H. cbn [length] in H. lia.
    + inversion H; subst. rewrite rev_length. lia.
  - destruct (list_process mss k v SA m) as [[SA' reply] ins]. destruct reply as [r|].
    + apply IH in H. cbn [length] in H. lia.
    + inversion H; subst. rewrite rev_length. lia.
Qed.

(** The full statement for the crate's split factor: a session between any two replicas
    terminates within |A| + |B| + 3 processing steps and leaves both with the join. *)
Theorem list_session_total mss v A B :
  ssorted A -> ssorted B -> reduced A -> reduced B -> consistent (A ++ B) ->
  (forall e, In e (A ++ B) -> v e MISSING = true) ->
  exists A' B' tr,
    list_session mss 2 v (length A + length B + 3) A B (initial_message om_ops A) true [] = Some (A', B', tr) /\
    length tr <= length A + length B + 2 /\
    (forall x, In x A' <-> In x (join A B)) /\ (forall x, In x B' <-> In x (join A B)) /\
    ssorted A' /\ ssorted B'.
Proof.
  intros SA SB RA RB C V.
  assert (I : Inv (A ++ B) A B (initial_message om_ops A)).
  { unfold Inv, initial_message. repeat split; auto.
    - intros e He. apply in_or_app. now left.
    - intros e He. apply in_or_app. now right.
    - intros e [He _]. apply in_app_or in He. exact He.
    - intros p [<-|[]]. reflexivity.
    - intros e _. right. eexists. split; [now left|]. apply rc_refl. }
  assert (R : rankm (A ++ B) (initial_message om_ops A) < length A + length B + 3).
  { unfold initial_message. cbn [rankm rank]. unfold cnt, rng.
    pose proof (filter_len_le (fun e => range_contains (so_first om_ops A) (so_first om_ops A) (entry_rid e)) (A ++ B)) as LE.
    rewrite app_length in LE. lia. }
  destruct (session_ends mss v (A ++ B) C V (length A + length B + 3) A B _ true [] I R) as [[[A' B'] tr] H].
  exists A', B', tr. split; [exact H|]. split.
  - pose proof (session_length _ _ _ _ _ _ _ _ _ _ _ _ H) as L. cbn [length] in L. lia.
  - eapply (list_session_converges mss 2 v A B); eauto. lia.
Qed.
