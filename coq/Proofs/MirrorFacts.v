(** C10, last clause: when both drivers succeed on an honest connection (each receives exactly the
    frames the other wrote), what one side counts as sent is what the other counts as received. *)
From Coq Require Import Lia.
From ID Require Import Base.Bytes Model.Entry Model.Tables Model.Replica Model.Ranger Model.StoreOps
  Model.Actor Model.Session Proofs.SessionFacts.

Definition vc_list (l : list message) : N := fold_right (fun m a => value_count m + a) 0 l.
Definition msgs (frames : list fin) : list message :=
  flat_map (fun f => match f with FMsg _ _ _ m => [m] | _ => [] end) frames.
Definition somes (l : list (option message)) : list message :=
  flat_map (fun o => match o with Some m => [m] | None => [] end) l.

Lemma somes_map_Some l : somes (map Some l) = l.
Proof. induction l as [|x l IH]; cbn [map somes flat_map app]; auto. fold (somes (map Some l)). now rewrite IH. Qed.
Lemma somes_app a b : somes (a ++ b) = somes a ++ somes b.
Proof. unfold somes. now rewrite flat_map_app. Qed.
Lemma vc_list_app a b : vc_list (a ++ b) = vc_list a + vc_list b.
Proof.
  induction a as [|x a IH].
  - change (vc_list b = 0 + vc_list b). lia.
  - change (value_count x + vc_list (a ++ b) = (value_count x + vc_list a) + vc_list b). lia.
Qed.

Section Mirror.
  Variable ks : bytes -> option bytes.
  Variables EH MF CAP mss split : N.
  Variable keep : bool.

  Lemma call_counts gone s n m from now s' reply recv snt :
    call ks EH MF CAP mss split gone s (ASyncProcess n m from now) = (s', AReply reply recv snt) ->
    recv = value_count m /\ snt = match reply with Some r => value_count r | None => 0 end.
  Proof.
    unfold call. destruct gone; [discriminate|]. cbn [astep].
    destruct (aget s n) as [r|]; [|discriminate]. destruct (negb (ar_sync r)); [discriminate|].
    unfold sync_process.
    destruct (process_message _ _ _ _ _ _ _) as [[T' rep] ins].
    destruct (deliver _ _ _) as [s2 d]. intros H. inversion H; subst. cbn [oc_recv oc_sent]. split; lia.
  Qed.

  Definition ended (k : nat) (total : nat) (nsent : nat) : Prop :=
    (k = total /\ nsent = k) \/ (nsent + 1 = k)%nat.

  Lemma alice_acct frames : forall gone s ns from now prog sent calls s' out,
    peer_only frames ->
    alice_loop ks EH MF CAP mss split gone s ns from now frames prog sent calls = (s', out) ->
    ao_result out = SOk ->
    exists k new,
      ao_sent out = rev sent ++ new /\
      ao_outcome out = Some (fst prog + vc_list (firstn k (msgs frames)), snd prog + vc_list new) /\
      (k <= length (msgs frames))%nat /\ ended k (length (msgs frames)) (length new).
  Proof.
    induction frames as [|f frames IH]; intros gone s ns from now prog sent calls s' out PO RUN OK.
    - cbn in RUN. inversion RUN; subst. exists O, []. cbn. rewrite app_nil_r, !N.add_0_r.
      destruct prog. repeat split; auto. left. auto.
    - inversion PO as [|? ? Pf PO']; subst.
      destruct f as [init abort n m| |o|]; cbn [alice_loop] in RUN; try contradiction.
      + destruct init; [inversion RUN; subst; discriminate|]. destruct abort; [inversion RUN; subst; discriminate|].
        destruct (call ks EH MF CAP mss split gone s (ASyncProcess ns m from now)) as [s1 r] eqn:C.
        destruct r; try (inversion RUN; subst; discriminate).
        destruct (call_counts _ _ _ _ _ _ _ _ _ _ C) as [-> ->].
        destruct m0 as [rm|].
        * destruct (IH _ _ _ _ _ _ _ _ _ _ PO' RUN OK) as (k & new & S1 & O1 & K1 & E1).
          exists (S k), (rm :: new). cbn [msgs flat_map app firstn length]. fold (msgs frames).
          split; [rewrite S1; cbn [rev]; now rewrite <- app_assoc|].
          split; [rewrite O1; unfold add_oc; cbn [fst snd vc_list fold_right]; fold (vc_list (firstn k (msgs frames))); fold (vc_list new); f_equal; f_equal; lia|].
          split; [lia|]. destruct E1 as [[A B]|B]; [left|right]; lia.
        * inversion RUN; subst. exists 1%nat, []. cbn [msgs flat_map app firstn length ao_sent ao_outcome]. fold (msgs frames).
          rewrite app_nil_r. split; auto. unfold add_oc. cbn [fst snd vc_list fold_right firstn].
          split; [f_equal; f_equal; lia|]. split; [lia|]. right. reflexivity.
      + inversion RUN; subst. discriminate.
  Qed.

  Lemma bob_acct frames : forall gone s accept from now ns p sent calls s' out,
    peer_only frames ->
    bob_loop ks EH MF CAP mss split keep gone s accept from now frames ns (Some p) sent calls = (s', out) ->
    bo_result out = SOk ->
    exists k new,
      bo_sent out = rev sent ++ map Some new /\
      bo_outcome out = Some (fst p + vc_list (firstn k (msgs frames)), snd p + vc_list new) /\
      (k <= length (msgs frames))%nat /\ ended k (length (msgs frames)) (length new).
  Proof.
    induction frames as [|f frames IH]; intros gone s accept from now ns p sent calls s' out PO RUN OK.
    - cbn in RUN. destruct ns; inversion RUN; subst; [|discriminate]. exists O, []. cbn. rewrite app_nil_r, !N.add_0_r.
      destruct p. repeat split; auto. left. auto.
    - inversion PO as [|? ? Pf PO']; subst.
      destruct f as [init abort n m| |o|]; cbn [bob_loop] in RUN; try contradiction.
      + destruct abort; [inversion RUN; subst; discriminate|].
        assert (STEP : forall n', 
                  (let '(s1, r) := call ks EH MF CAP mss split gone s (ASyncProcess n' m from now) in
                   match r with
                   | AReply reply recv snt =>
                       match reply with
                       | Some rm => bob_loop ks EH MF CAP mss split keep gone s1 accept from now frames (Some n') (Some (add_oc p recv snt)) (Some rm :: sent) (calls + 1)
                       | None => (s1, mkBO SOk (Some n') (Some (add_oc p recv snt)) (rev sent) (calls + 1))
                       end
                   | _ => (s1, mkBO SErrSync (Some n') (if keep then Some p else None) (rev sent) (calls + 1))
                   end) = (s', out) ->
                  exists k new,
                    bo_sent out = rev sent ++ map Some new /\
                    bo_outcome out = Some (fst p + vc_list (firstn k (msgs (FMsg init false n m :: frames))), snd p + vc_list new) /\
                    (k <= length (msgs (FMsg init false n m :: frames)))%nat /\
                    ended k (length (msgs (FMsg init false n m :: frames))) (length new)).
        { intros n' RUN'.
          destruct (call ks EH MF CAP mss split gone s (ASyncProcess n' m from now)) as [s1 r] eqn:C.
          destruct r; try (inversion RUN'; subst; discriminate).
          destruct (call_counts _ _ _ _ _ _ _ _ _ _ C) as [-> ->].
          destruct m0 as [rm|].
          * destruct (IH _ _ _ _ _ _ _ _ _ _ _ PO' RUN' OK) as (k & new & S1 & O1 & K1 & E1).
            exists (S k), (rm :: new). cbn [msgs flat_map app firstn length map]. fold (msgs frames).
            split; [rewrite S1; cbn [rev]; now rewrite <- app_assoc|].
            split; [rewrite O1; unfold add_oc; cbn [fst snd vc_list fold_right]; fold (vc_list (firstn k (msgs frames))); fold (vc_list new); f_equal; f_equal; lia|].
            split; [lia|]. destruct E1 as [[A B]|B]; [left|right]; lia.
          * inversion RUN'; subst. exists 1%nat, []. cbn [msgs flat_map app firstn length bo_sent bo_outcome map]. fold (msgs frames).
            rewrite app_nil_r. split; auto. unfold add_oc. cbn [fst snd vc_list fold_right firstn].
            split; [f_equal; f_equal; lia|]. split; [lia|]. right. reflexivity. }
        destruct init.
        * destruct ns as [n0|]; [inversion RUN; subst; discriminate|].
          destruct (accept n) as [reason|]; [inversion RUN; subst; discriminate|].
          apply (STEP n). exact RUN.
        * destruct ns as [n0|]; [|inversion RUN; subst; discriminate].
          apply (STEP n0). exact RUN.
      + inversion RUN; subst. discriminate.
  Qed.

  (** the honest connection *)
  Theorem honest_session_mirror sa sb ns accept fromA fromB now framesA framesB sa' sb' outA outB :
    alice_run ks EH MF CAP mss split sa ns fromA now framesA = (sa', outA) ->
    bob_run ks EH MF CAP mss split keep sb accept fromB now framesB = (sb', outB) ->
    peer_only framesA -> peer_only framesB ->
    ao_result outA = SOk -> bo_result outB = SOk ->
    msgs framesA = somes (bo_sent outB) ->            (* the initiator receives what the acceptor wrote *)
    msgs framesB = ao_sent outA ->                    (* the acceptor receives what the initiator wrote *)
    exists r s, ao_outcome outA = Some (r, s) /\ bo_outcome outB = Some (s, r).
  Proof.
    intros RA RB PA PB OA OB WA WB.
    unfold alice_run in RA. cbn [astep] in RA.
    destruct (aget sa ns) as [ra|]; [|inversion RA; subst; discriminate].
    destruct (negb (ar_sync ra)); [inversion RA; subst; discriminate|].
    set (init := initial_message (fs_ops ks EH ns) (a_tables sa)) in *.
    assert (VI : value_count init = 0) by reflexivity.
    destruct (alice_acct _ _ _ _ _ _ _ _ _ _ _ PA RA OA) as (ka & newA & SA & OutA & KA & EA).
    unfold bob_run in RB.
    destruct (bob_acct _ _ _ _ _ _ _ _ _ _ _ _ PB RB OB) as (kb & newB & SB & OutB & KB & EB).
    cbn [rev app fst snd] in *.
    rewrite SB, somes_map_Some in WA. rewrite SA in WB.
    rewrite WA in *. rewrite WB in *. cbn [length] in *.
    assert (FA : ka = length newB /\ kb = S (length newA)).
    { destruct EA as [[A1 A2]|A2]; destruct EB as [[B1 B2]|B2]; lia. }
    destruct FA as [-> ->].
    rewrite firstn_all in OutA. 
    change (S (length newA)) with (length (init :: newA)) in OutB. rewrite firstn_all in OutB.
    exists (vc_list newB), (vc_list newA). rewrite OutA, OutB. split; [reflexivity|].
    change (vc_list (init :: newA)) with (value_count init + vc_list newA). rewrite VI. reflexivity.
  Qed.
End Mirror.

(** the hypotheses are satisfiable: two stores (four entries against two, one in common), the
    frames each side receives are what the other wrote, both drivers succeed, (2, 3) against (3, 2) *)
Module MirrorExample.
  Definition stp := astep prefix_succ 7 600000000 5 1 2.
  Definition mk ops := fold_left (fun s o => fst (fst (stp s o))) ops (ainit empty_tables).
  Definition sa := mk [AImport 11 (Some 12); AOpen 11 true None; AInsertLocal 11 15 true [97] 9 2 1000000;
                       AInsertLocal 11 15 true [98] 9 2 1000001; AInsertLocal 11 15 true [99] 9 2 1000002;
                       AInsertLocal 11 15 true [100] 9 2 1000003].
  Definition sb := mk [AImport 11 (Some 12); AOpen 11 true None; AInsertLocal 11 16 true [122] 8 3 1000000;
                       AInsertLocal 11 15 true [98] 9 2 1000001].
  Definition init := initial_message (fs_ops prefix_succ 7 11) (a_tables sa).
  Definition tr := match session prefix_succ 7 600000000 1 2 20 1000010 11 11 (a_tables sa) (a_tables sb)
                                 (mkOC 0 0) (mkOC 0 0) init true [] with
                   | Some (_, _, _, _, t) => t | None => [] end.
  Fixpoint evens {A} (l : list A) := match l with x :: _ :: r => x :: evens r | [x] => [x] | [] => [] end.
  Fixpoint odds {A} (l : list A) := match l with _ :: y :: r => y :: odds r | _ => [] end.
  Definition framesA := map (FMsg false false 11) (evens tr).
  Definition framesB := FMsg true false 11 init :: map (FMsg false false 11) (odds tr).
End MirrorExample.

Example honest_session_example :
  exists framesA framesB sa sb sa' sb' outA outB,
    alice_run prefix_succ 7 600000000 5 1 2 sa 11 0 1000010 framesA = (sa', outA) /\
    bob_run prefix_succ 7 600000000 5 1 2 true sb (fun _ => None) 0 1000010 framesB = (sb', outB) /\
    peer_only framesA /\ peer_only framesB /\
    ao_result outA = SOk /\ bo_result outB = SOk /\
    msgs framesA = somes (bo_sent outB) /\ msgs framesB = ao_sent outA /\
    ao_outcome outA = Some (2, 3) /\ bo_outcome outB = Some (3, 2).
Proof.
  exists MirrorExample.framesA, MirrorExample.framesB, MirrorExample.sa, MirrorExample.sb.
  destruct (alice_run prefix_succ 7 600000000 5 1 2 MirrorExample.sa 11 0 1000010 MirrorExample.framesA) as [sa' outA] eqn:RA.
  destruct (bob_run prefix_succ 7 600000000 5 1 2 true MirrorExample.sb (fun _ => None) 0 1000010 MirrorExample.framesB) as [sb' outB] eqn:RB.
  exists sa', sb', outA, outB. split; [reflexivity|]. split; [reflexivity|].
  vm_compute in RA. vm_compute in RB. inversion RA; subst. inversion RB; subst.
  split; [vm_compute; repeat constructor|]. split; [vm_compute; repeat constructor|].
  vm_compute. repeat split.
Qed.
