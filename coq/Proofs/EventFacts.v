(** C12: the events of a reconciliation message are exactly the entries it applied — each once, in
    the order of application. *)
From ID Require Import Model.Ranger Model.Replica Proofs.EntryFacts Proofs.RangerFacts Proofs.FsPutFacts Proofs.RefineFacts Proofs.SessionRefine.
From ID Require Import Model.Actor Proofs.ActorFacts.

Lemma om_put_cases S e :
  (fst (om_put S e) = S /\ snd (om_put S e) = NotInserted /\ existsb (fun p => rel p e) S = true)
  \/ ((exists n, snd (om_put S e) = Inserted n) /\ existsb (fun p => rel p e) S = false /\
      forall x, In x (fst (om_put S e)) <-> x = e \/ (In x S /\ rel e x = false)).
Proof.
  unfold om_put. destruct (existsb (fun p => rel p e) S) eqn:E; cbn [fst snd]; [left; auto|right].
  split; [eexists; reflexivity|]. split; [reflexivity|]. intros x.
  rewrite om_insert_In.
  - rewrite filter_In, Bool.negb_true_iff. tauto.
  - intros c Hc. apply filter_In in Hc. destruct Hc as [Hc R]. apply Bool.negb_true_iff in R.
    destruct (same_id e c) eqn:SI; [|reflexivity].
    destruct (same_id_rel_or e c SI) as [A|A]; [congruence|].
    assert (existsb (fun p => rel p e) S = true) by (apply existsb_exists; exists c; auto). congruence.
Qed.

Definition covered (S : list entry) (a : entry) : Prop := exists p, In p S /\ rel p a = true.

Lemma om_put_keeps_covered S e a : covered S a -> covered (fst (om_put S e)) a.
Proof.
  intros (p & Ip & R). destruct (om_put_cases S e) as [(E & _)|(_ & _ & C)].
  - rewrite E. exists p; auto.
  - destruct (rel e p) eqn:EP.
    + exists e. split; [apply C; now left|]. eapply rel_trans; eauto.
    + exists p. split; auto. apply C. right. auto.
Qed.

(** [i] is an honest account of what turned [S] into [S']: everything new in [S'] is listed,
    nothing is listed twice, what is listed was not already superseded in [S] and is held or
    superseded in [S'] *)
Definition evs_ok (S S' : list entry) (i : list (entry * N)) : Prop :=
  (forall x, In x S' -> In x S \/ In x (map fst i)) /\
  NoDup (map fst i) /\
  (forall a, In a (map fst i) -> ~ covered S a) /\
  (forall a, covered S a -> covered S' a) /\
  (forall a, In a (map fst i) -> covered S' a).

Lemma nodup_app {A} (l1 l2 : list A) :
  NoDup l1 -> NoDup l2 -> (forall a, In a l1 -> In a l2 -> False) -> NoDup (l1 ++ l2).
Proof.
  induction l1 as [|x l1 IH]; intros N1 N2 D; cbn [app]; auto.
  inversion N1 as [|? ? NI N1']; subst. constructor.
  - rewrite in_app_iff. intros [H|H]; [auto|]. apply (D x); cbn; auto.
  - apply IH; auto. intros a I1 I2. apply (D a); cbn; auto.
Qed.

Lemma evs_ok_nil S : evs_ok S S [].
Proof. repeat split; cbn; auto using NoDup_nil; intros a []. Qed.

Lemma evs_ok_app S S1 S2 i1 i2 : evs_ok S S1 i1 -> evs_ok S1 S2 i2 -> evs_ok S S2 (i1 ++ i2).
Proof.
  intros (A1 & B1 & C1 & D1 & E1) (A2 & B2 & C2 & D2 & E2). unfold evs_ok. rewrite map_app.
  split; [|split; [|split; [|split]]].
  - intros x Hx. destruct (A2 x Hx) as [H|H]; [destruct (A1 x H) as [H'|H']|]; rewrite ?in_app_iff; auto.
  - apply nodup_app; auto. intros a I1 I2. exact (C2 a I2 (E1 a I1)).
  - intros a Ia. apply in_app_or in Ia. destruct Ia as [Ia|Ia]; [now apply C1|].
    intros CV. exact (C2 a Ia (D1 a CV)).
  - auto.
  - intros a Ia. apply in_app_or in Ia. destruct Ia as [Ia|Ia]; auto.
Qed.

Section ListEvents.
  Variables (mss k : N) (status_of : entry -> N) (v : entry -> N -> bool).
  Let V := fun (_ : list entry) (e : entry) (st : N) => v e st.

  Lemma store_values_events vs : forall S,
    evs_ok S (fst (store_values om_ops V S vs)) (snd (store_values om_ops V S vs)).
  Proof.
    induction vs as [|[e st] vs IH]; intros S; cbn [store_values]; [apply evs_ok_nil|].
    change (V S e st) with (v e st). destruct (v e st); [|apply IH].
    cbn [so_put om_ops].
    destruct (om_put_cases S e) as [(E1 & E2 & _)|((n & E2) & EX & C)];
      destruct (om_put S e) as [S1 o] eqn:P; cbn [fst snd] in *; subst o; [subst S1; apply IH|].
    specialize (IH S1).
    destruct (store_values om_ops V S1 vs) as [S2 ins] eqn:SV. cbn [fst snd] in *.
    change ((e, st) :: ins) with ([(e, st)] ++ ins). apply evs_ok_app with (S1 := S1); auto.
    split; [|split; [|split; [|split]]]; cbn [map fst In].
    - intros x Hx. apply C in Hx. destruct Hx as [->|[Hx _]]; auto.
    - constructor; [intros []|constructor].
    - intros a [<-|[]] (p & Ip & R).
      assert (existsb (fun p => rel p e) S = true) by (apply existsb_exists; exists p; auto). congruence.
    - intros a CV. pose proof (om_put_keeps_covered S e a CV) as H. now rewrite P in H.
    - intros a [<-|[]]. exists e. split; [apply C; now left|apply rel_refl].
  Qed.

  Lemma item_fold_events items : forall S out ins,
    exists i, snd (fold_left (item_fold om_ops status_of v) items (S, out, ins)) = ins ++ i /\
              evs_ok S (fst (fst (fold_left (item_fold om_ops status_of v) items (S, out, ins)))) i.
  Proof.
    induction items as [|p items IH]; intros S out ins; cbn [fold_left].
    - exists []. rewrite app_nil_r. split; auto. apply evs_ok_nil.
    - destruct p as [x y fp|x y vs hl]; cbn [item_fold]; [apply IH|].
      unfold process_item.
      pose proof (store_values_events vs S) as SV. fold V.
      destruct (store_values om_ops V S vs) as [S1 i1]. cbn [fst snd] in SV.
      destruct (IH S1 (out ++ match (if hl then None else Some (filter (fun our => negb (existsb (fun their => same_id our (fst their) && val_leb our (fst their)) vs)) (so_range om_ops S x y))) with Some (d :: ds) => [PItem x y (with_status status_of (d :: ds)) true] | _ => [] end) (ins ++ i1)) as (i2 & E & OK).
      exists (i1 ++ i2). rewrite app_assoc. split; [exact E|]. eapply evs_ok_app; eauto.
  Qed.

  (** the events of one reconciliation message on an ordered-list replica *)
  Theorem process_message_events S m :
    let '(S', _, ins) := process_message om_ops mss k status_of V S m in evs_ok S S' ins.
  Proof.
    unfold process_message.
    match goal with |- context [fold_left ?f ?l ?a] =>
      change (fold_left f l a) with (fold_left (item_fold om_ops status_of v) l a) end.
    destruct (item_fold_events (filter is_item m) S [] []) as (i & E & OK).
    destruct (fold_left (item_fold om_ops status_of v) (filter is_item m) (S, [], [])) as [[S1 out1] ins1].
    cbn [fst snd app] in *. subst ins1. exact OK.
  Qed.
End ListEvents.

(** ---- the same for [Replica::sync_process_message] on the table-level store ---- *)
Definition ev_entry (ev : event) : entry :=
  match ev with LocalInsert e => e | RemoteInsert e _ _ _ => e end.

Theorem sync_process_events EH MAXF mss k T now ns from oc m :
  wf_records T -> wf_message m ->
  let '(T', _, _, evs) := sync_process prefix_succ EH MAXF mss k T now ns from oc m in
  (* every entry that entered the replica is announced *)
  (forall x, In x (fs_all ns T') -> In x (fs_all ns T) \/ In x (map ev_entry evs)) /\
  (* exactly once *)
  NoDup (map ev_entry evs) /\
  (* every announced entry was a validated value of the message, was not already superseded, is held
     or superseded afterwards; the event names the sender, the policy's verdict and the status *)
  (forall ev, In ev evs ->
     exists e st, ev = RemoteInsert e from (policy_matches (get_policy T ns) (e_key e)) (st mod 4) /\
                  In (e, st) (message_values m) /\ sync_validate EH MAXF now ns T e st = true /\
                  ~ covered (fs_all ns T) e /\ covered (fs_all ns T') e).
Proof.
  intros W WM. unfold sync_process.
  pose proof (table_store_is_ordered_map EH ns mss k (fun _ => MISSING) (vsync EH MAXF now ns) T m W WM (vsync_ns EH MAXF now ns)) as SIM.
  pose proof (process_message_events mss k (fun _ => MISSING) (vsync EH MAXF now ns) (fs_all ns T) m) as EV.
  pose proof (process_message_inserted (fs_ops prefix_succ EH ns) mss k (fun _ => MISSING) (vsync EH MAXF now ns) T m) as INS.
  change (sync_validate EH MAXF now ns) with (fun (_ : tables) (e : entry) (st : N) => vsync EH MAXF now ns e st).
  destruct (process_message (fs_ops prefix_succ EH ns) mss k (fun _ : entry => MISSING) (fun (_ : tables) (e : entry) (st : N) => vsync EH MAXF now ns e st) T m) as [[T' r1] i1].
  destruct (process_message om_ops mss k (fun _ : entry => MISSING) (fun (_ : list entry) (e : entry) (st : N) => vsync EH MAXF now ns e st) (fs_all ns T) m) as [[S' r2] i2].
  destruct SIM as (W' & -> & -> & ->). destruct EV as (A & B & C & D & E).
  assert (ME : map ev_entry (map (fun es : entry * N => RemoteInsert (fst es) from (policy_matches (get_policy T ns) (e_key (fst es))) (snd es mod 4)) i2) = map fst i2).
  { rewrite map_map. apply map_ext. now intros []. }
  rewrite ME. split; [exact A|]. split; [exact B|].
  intros ev Hev. apply in_map_iff in Hev. destruct Hev as ([e st] & <- & I). cbn [fst snd].
  exists e, st. split; [reflexivity|].
  destruct (INS (e, st) I) as [IV VV]. cbn [fst snd] in VV.
  assert (Ie : In e (map fst i2)) by (apply in_map_iff; exists (e, st); auto).
  repeat split; auto.
Qed.

(** ---- and through the store handle: what every live subscription receives ---- *)
Lemma deliver_tables s ns evs : a_tables (fst (deliver s ns evs)) = a_tables s.
Proof. unfold deliver. destruct (aget s ns); [destruct evs|]; reflexivity. Qed.

Theorem actor_sync_events EH MF CAP mss split s ns m from now r :
  aget s ns = Some r -> ar_sync r = true -> wf_records (a_tables s) -> wf_message m ->
  let '(s', _, d) := astep prefix_succ EH MF CAP mss split s (ASyncProcess ns m from now) in
  exists evs,
    d = flat_map (fun ev => map (fun c => (c, ev)) (live_of s ns)) evs /\
    (forall x, In x (fs_all ns (a_tables s')) -> In x (fs_all ns (a_tables s)) \/ In x (map ev_entry evs)) /\
    NoDup (map ev_entry evs) /\
    (forall ev, In ev evs ->
       exists e st, ev = RemoteInsert e from (policy_matches (get_policy (a_tables s) ns) (e_key e)) (st mod 4) /\
                    In (e, st) (message_values m) /\ sync_validate EH MF now ns (a_tables s) e st = true /\
                    ~ covered (fs_all ns (a_tables s)) e /\ covered (fs_all ns (a_tables s')) e).
Proof.
  intros G SY W WM. cbn [astep]. rewrite G, SY. cbn [negb].
  pose proof (sync_process_events EH MF mss split (a_tables s) now ns from (mkOC 0 0) m W WM) as EV.
  destruct (sync_process prefix_succ EH MF mss split (a_tables s) now ns from (mkOC 0 0) m) as [[[T' reply] oc] evs].
  pose proof (deliver_spec (with_tables s T') ns evs) as DS.
  pose proof (deliver_tables (with_tables s T') ns evs) as DT.
  destruct (deliver (with_tables s T') ns evs) as [s' d]. cbn [fst snd] in *.
  exists evs. split; [exact DS|]. rewrite DT. exact EV.
Qed.

(** ---- local writes: one LocalInsert per live subscription iff applied ---- *)
Lemma insert_entry_local_cases ks EH MF T now ns w :
  let '(T', res, evs) := insert_entry ks EH MF T now ns w OLocal in
  (exists n, res = Ok n /\ evs = [LocalInsert (w_entry w)]) \/ (exists er, res = Err er /\ T' = T /\ evs = []).
Proof.
  unfold insert_entry. destruct (validate_entry MF now ns w true) as [er|]; [right; eauto|].
  destruct (fs_put ks EH T (w_entry w)) as [T' [|n]]; [right; eauto|left; eauto].
Qed.

Lemma deliver_nil s ns : deliver s ns [] = (s, []).
Proof. unfold deliver. destruct (aget s ns); reflexivity. Qed.

Theorem local_insert_events ks EH MF CAP mss split s ns au k h l now r :
  aget s ns = Some r ->
  let '(s', reply, d) := astep ks EH MF CAP mss split s (AInsertLocal ns au true k h l now) in
  match reply with
  | AOk => d = map (fun c => (c, LocalInsert (mkE ns au k now l h))) (live_of s ns)
  | _ => d = [] /\ a_tables s' = a_tables s
  end.
Proof.
  intros G. cbn [astep negb]. rewrite G. unfold replica_insert.
  destruct ((l =? 0) || (h =? EH)); [rewrite deliver_nil; split; reflexivity|].
  destruct (negb (ar_writable r)); [rewrite deliver_nil; split; reflexivity|].
  pose proof (insert_entry_local_cases ks EH MF (a_tables s) now ns (mkW (mkE ns au k now l h) true)) as C.
  destruct (insert_entry ks EH MF (a_tables s) now ns (mkW (mkE ns au k now l h) true) OLocal) as [[T' res] evs].
  destruct C as [(n & -> & ->)|(er & -> & -> & ->)].
  - pose proof (deliver_spec (with_tables s T') ns [LocalInsert (mkE ns au k now l h)]) as DS. cbn [w_entry] in *.
    destruct (deliver (with_tables s T') ns [LocalInsert (mkE ns au k now l h)]) as [s' d]. cbn [snd] in DS.
    rewrite DS. cbn [flat_map]. now rewrite app_nil_r.
  - rewrite deliver_nil. split; reflexivity.
Qed.

Theorem local_delete_events ks EH MF CAP mss split s ns au k now r :
  aget s ns = Some r ->
  let '(s', reply, d) := astep ks EH MF CAP mss split s (ADeletePrefix ns au true k now) in
  match reply with
  | ACount _ => d = map (fun c => (c, LocalInsert (mkE ns au k now 0 EH))) (live_of s ns)
  | _ => d = [] /\ a_tables s' = a_tables s
  end.
Proof.
  intros G. cbn [astep negb]. rewrite G. unfold replica_delete_prefix.
  destruct (negb (ar_writable r)); [rewrite deliver_nil; split; reflexivity|].
  pose proof (insert_entry_local_cases ks EH MF (a_tables s) now ns (mkW (mkE ns au k now 0 EH) true)) as C.
  destruct (insert_entry ks EH MF (a_tables s) now ns (mkW (mkE ns au k now 0 EH) true) OLocal) as [[T' res] evs].
  destruct C as [(n & -> & ->)|(er & -> & -> & ->)].
  - pose proof (deliver_spec (with_tables s T') ns [LocalInsert (mkE ns au k now 0 EH)]) as DS. cbn [w_entry] in *.
    destruct (deliver (with_tables s T') ns [LocalInsert (mkE ns au k now 0 EH)]) as [s' d]. cbn [snd] in DS.
    cbn [map_insert_result]. rewrite DS. cbn [flat_map]. now rewrite app_nil_r.
  - rewrite deliver_nil. cbn [map_insert_result]. split; reflexivity.
Qed.
