(** C18: opening a database that lacks the derived tables rebuilds them exactly; reopening an
    up-to-date database is a no-op. *)
From Coq Require Import Lia.
From ID Require Import Base.Bytes Base.BytesFacts Model.Entry Model.Tables Model.Bounds Model.FsStore
  Model.Replica Model.Ranger Model.StoreOps Proofs.TblFacts Proofs.BoundsFacts.

Lemma tbl_insert_In_new {K V} cmp (k : K) (v : V) l : In (k, v) (tbl_insert cmp k v l).
Proof.
  induction l as [|[k' v'] l IH]; cbn; auto. destruct (cmp k k'); cbn; auto.
Qed.
Lemma tbl_insert_In_old {K V} cmp (cmp_eq : forall a b, cmp a b = Eq <-> a = b) (k : K) (v : V) l x :
  In x l -> fst x <> k -> In x (tbl_insert cmp k v l).
Proof.
  induction l as [|[k' v'] l IH]; cbn; [tauto|]. intros [<-|I] NE.
  - destruct (cmp k k') eqn:E; cbn; auto. apply cmp_eq in E. cbn in NE. congruence.
  - destruct (cmp k k'); cbn; auto.
Qed.
Lemma tbl_insert_In_inv {K V} cmp (k : K) (v : V) l x :
  In x (tbl_insert cmp k v l) -> x = (k, v) \/ In x l.
Proof.
  induction l as [|[k' v'] l IH]; cbn.
  - intros [H|[]]; auto.
  - destruct (cmp k k'); cbn; intros H.
    + destruct H as [H|H]; auto.
    + destruct H as [H|H]; auto.
    + destruct H as [H|H]; auto. destruct (IH H); auto.
Qed.

Lemma kid_cmp_eq a b : kid_cmp a b = Eq <-> a = b.
Proof.
  destruct a as [[n1 k1] a1], b as [[n2 k2] a2]. unfold kid_cmp.
  destruct (N.compare_spec n1 n2) as [->|L|G].
  - destruct (lex_cmp k1 k2) eqn:E.
    + apply lex_cmp_eq in E. subst. rewrite N.compare_eq_iff. split; [now intros -> | intros H; now inversion H].
    + split; [discriminate|]. intros H; inversion H; subst. rewrite (proj2 (lex_cmp_eq k2 k2) eq_refl) in E. discriminate.
    + split; [discriminate|]. intros H; inversion H; subst. rewrite (proj2 (lex_cmp_eq k2 k2) eq_refl) in E. discriminate.
  - split; [discriminate|]. intros H; inversion H; lia.
  - split; [discriminate|]. intros H; inversion H; lia.
Qed.

Section Migrate.
  (** ---- the by-key index ---- *)
  Definition index_fold (recs : list (rid * rval)) (acc : list (kid * unit)) : list (kid * unit) :=
    fold_left (fun acc r => let '((ns, au, k), _) := r in tbl_insert kid_cmp (ns, k, au) tt acc) recs acc.

  Lemma index_fold_spec recs : forall acc x,
    In x (index_fold recs acc) <-> In x acc \/ exists ns au k v, In ((ns, au, k), v) recs /\ x = ((ns, k, au), tt).
  Proof.
    induction recs as [|[[[ns au] k] v] recs IH]; intros acc x; cbn [index_fold fold_left].
    - split; [auto|]. intros [H|(? & ? & ? & ? & [] & _)]; auto.
    - fold (index_fold recs (tbl_insert kid_cmp (ns, k, au) tt acc)). rewrite IH. split.
      + intros [H|(n' & a' & k' & v' & I & E)].
        * apply tbl_insert_In_inv in H. destruct H as [->|H]; auto.
          right. exists ns, au, k, v. split; [now left|reflexivity].
        * right. exists n', a', k', v'. split; [now right|exact E].
      + intros [H|(n' & a' & k' & v' & [I|I] & E)].
        * destruct x as [kx []]. destruct (kid_cmp kx (ns, k, au)) eqn:C.
          -- apply kid_cmp_eq in C. subst kx. left. apply tbl_insert_In_new.
          -- left. apply (tbl_insert_In_old kid_cmp kid_cmp_eq); auto. cbn. intros ->.
             rewrite (proj2 (kid_cmp_eq _ _) eq_refl) in C. discriminate.
          -- left. apply (tbl_insert_In_old kid_cmp kid_cmp_eq); auto. cbn. intros ->.
             rewrite (proj2 (kid_cmp_eq _ _) eq_refl) in C. discriminate.
        * inversion I; subst. left. apply tbl_insert_In_new.
        * right. exists n', a', k', v'. auto.
  Qed.

  (** a rebuilt index lists exactly the (namespace, key, author) triples of the records *)
  Theorem migrate_index_exact T : t_bykey T = [] ->
    forall ns k au, In ((ns, k, au), tt) (t_bykey (migrate_bykey T)) <-> exists v, In ((ns, au, k), v) (t_records T).
  Proof.
    intros E ns k au. unfold migrate_bykey. rewrite E. cbn [t_bykey set_bykey].
    fold (index_fold (t_records T) []). rewrite index_fold_spec. split.
    - intros [[]|(n' & a' & k' & v & I & H)]. inversion H; subst. eauto.
    - intros [v I]. right. exists ns, au, k, v. auto.
  Qed.
  Theorem migrate_index_other_tables T : t_records (migrate_bykey T) = t_records T /\ t_latest (migrate_bykey T) = t_latest T.
  Proof. unfold migrate_bykey. destruct (t_bykey T); auto. Qed.

  (** ---- the head table ---- *)
  Definition head_step (acc : list ((N * N) * (N * bytes))) (r : rid * rval) :=
    let '((ns, au, k), (ts, _, _)) := r in
    match tbl_get pair_cmp (ns, au) acc with
    | Some (t0, _) => if t0 <=? ts then tbl_insert pair_cmp (ns, au) (ts, k) acc else acc
    | None => tbl_insert pair_cmp (ns, au) (ts, k) acc
    end.
  Definition heads_fold recs acc := fold_left head_step recs acc.

  Definition rows_of (recs : list (rid * rval)) (ns au : N) : list N :=
    map (fun r => fst (fst (snd r))) (filter (fun r => (fst (fst (fst r)) =? ns) && (snd (fst (fst r)) =? au)) recs).
  Definition max_list (l : list N) : N := fold_right N.max 0 l.

  (** the head found for (ns, au): the maximum over what was there and the rows seen *)
  Definition head_ts (acc : list ((N * N) * (N * bytes))) (ns au : N) : option N :=
    match tbl_get pair_cmp (ns, au) acc with Some (t, _) => Some t | None => None end.

  Lemma head_step_same acc ns au k ts l h :
    head_ts (head_step acc ((ns, au, k), (ts, l, h))) ns au
    = Some (match head_ts acc ns au with Some t0 => N.max t0 ts | None => ts end).
  Proof.
    unfold head_ts, head_step. destruct (tbl_get pair_cmp (ns, au) acc) as [[t0 k0]|] eqn:G.
    - destruct (N.leb_spec t0 ts).
      + rewrite (tbl_get_insert_same pair_cmp pair_cmp_eq). f_equal. lia.
      + rewrite G. f_equal. lia.
    - now rewrite (tbl_get_insert_same pair_cmp pair_cmp_eq).
  Qed.
  Lemma head_step_other acc ns au k ts l h ns' au' : (ns, au) <> (ns', au') ->
    head_ts (head_step acc ((ns, au, k), (ts, l, h))) ns' au' = head_ts acc ns' au'.
  Proof.
    intros NE. unfold head_ts, head_step. destruct (tbl_get pair_cmp (ns, au) acc) as [[t0 k0]|] eqn:G.
    - destruct (t0 <=? ts); auto. now rewrite (tbl_get_insert_other pair_cmp pair_cmp_eq).
    - now rewrite (tbl_get_insert_other pair_cmp pair_cmp_eq).
  Qed.

  Lemma heads_fold_spec recs : forall acc ns au,
    head_ts (heads_fold recs acc) ns au =
    match head_ts acc ns au, rows_of recs ns au with
    | None, [] => None
    | Some t0, rows => Some (N.max t0 (max_list rows))
    | None, rows => Some (max_list rows)
    end.
  Proof.
    induction recs as [|[[[n a] k] [[ts l] h]] recs IH]; intros acc ns au; cbn [heads_fold fold_left].
    - cbn. destruct (head_ts acc ns au); auto. f_equal. lia.
    - fold (heads_fold recs (head_step acc ((n, a, k), (ts, l, h)))). rewrite IH.
      unfold rows_of. cbn [filter map fst snd].
      destruct (N.eqb_spec n ns) as [->|N1]; [destruct (N.eqb_spec a au) as [->|N2]|]; cbn [andb].
      + rewrite head_step_same. cbn [map fst snd max_list fold_right].
        fold (rows_of recs ns au). fold (max_list (rows_of recs ns au)).
        destruct (head_ts acc ns au) as [t0|]; destruct (rows_of recs ns au) eqn:R; cbn [max_list fold_right]; f_equal; lia.
      + rewrite head_step_other by congruence. reflexivity.
      + rewrite head_step_other by congruence. reflexivity.
  Qed.

  (** a rebuilt head table holds, per (namespace, author), exactly the greatest timestamp among
      that author's records — and nothing for authors without records *)
  Theorem migrate_heads_exact T : t_latest T = [] -> t_records T <> [] ->
    forall ns au,
      head_ts (t_latest (migrate_latest T)) ns au =
      match rows_of (t_records T) ns au with [] => None | rows => Some (max_list rows) end.
  Proof.
    intros E NE ns au. unfold migrate_latest. rewrite E. destruct (t_records T) as [|r recs] eqn:R; [contradiction|].
    cbn [t_latest set_latest]. change (fold_left _ (r :: recs) []) with (heads_fold (r :: recs) []).
    rewrite heads_fold_spec. cbn. reflexivity.
  Qed.

  (** ... and the key stored with the head is the key of one of that author's records carrying
      exactly that timestamp (which one, when several of the author's records share the greatest
      timestamp, depends on the key order here and on the order of arrival in a store that kept its
      heads up to date) *)
  Definition names (recs : list (rid * rval)) (row : (N * N) * (N * bytes)) : Prop :=
    let '((ns, au), (t, k)) := row in exists l h, In ((ns, au, k), (t, l, h)) recs.

  Lemma heads_fold_names recs : forall acc R0,
    (forall row, In row acc -> names R0 row) ->
    forall row, In row (heads_fold recs acc) -> names (R0 ++ recs) row.
  Proof.
    induction recs as [|[[[n a] k] [[ts l] h]] recs IH]; intros acc R0 H row I; cbn [heads_fold fold_left] in I.
    - rewrite app_nil_r. auto.
    - fold (heads_fold recs (head_step acc ((n, a, k), (ts, l, h)))) in I.
      change (R0 ++ ((n, a, k), (ts, l, h)) :: recs) with (R0 ++ [((n, a, k), (ts, l, h))] ++ recs).
      rewrite app_assoc. eapply IH; [|exact I].
      intros row' I'. 
      assert (OLD : forall r0, In r0 acc -> names (R0 ++ [((n, a, k), (ts, l, h))]) r0).
      { intros [[n0 a0] [t0 k0]] I0. destruct (H _ I0) as (l0 & h0 & J). exists l0, h0. apply in_or_app. now left. }
      assert (NEW : names (R0 ++ [((n, a, k), (ts, l, h))]) ((n, a), (ts, k))).
      { exists l, h. apply in_or_app. right. now left. }
      unfold head_step in I'. destruct (tbl_get pair_cmp (n, a) acc) as [[t0 k0]|].
      + destruct (t0 <=? ts); [|now apply OLD].
        apply tbl_insert_In_inv in I'. destruct I' as [->|I']; auto.
      + apply tbl_insert_In_inv in I'. destruct I' as [->|I']; auto.
  Qed.

  Theorem migrate_heads_key T : t_latest T = [] ->
    forall ns au t k, tbl_get pair_cmp (ns, au) (t_latest (migrate_latest T)) = Some (t, k) ->
      exists l h, In ((ns, au, k), (t, l, h)) (t_records T).
  Proof.
    intros E ns au t k G. apply (tbl_get_In pair_cmp pair_cmp_eq) in G. unfold migrate_latest in G. rewrite E in G.
    destruct (t_records T) as [|r recs] eqn:R; [rewrite E in G; destruct G|].
    cbn [t_latest set_latest] in G. change (fold_left _ (r :: recs) []) with (heads_fold (r :: recs) []) in G.
    exact (heads_fold_names (r :: recs) [] [] (fun _ F => match F with end) ((ns, au), (t, k)) G).
  Qed.

  (** ---- reopening ---- *)
  Theorem open_uptodate_noop T : t_latest T <> [] -> t_bykey T <> [] -> open_store T = T.
  Proof.
    intros L B. unfold open_store, migrate_latest, migrate_bykey.
    destruct (t_latest T) eqn:EL; [contradiction|]. destruct (t_bykey T) eqn:EB; [contradiction|]. reflexivity.
  Qed.

  Lemma tbl_insert_not_nil {K V} cmp (k : K) (v : V) l : tbl_insert cmp k v l <> [].
  Proof. destruct l as [|[k' v'] l]; cbn; [discriminate|]. destruct (cmp k k'); discriminate. Qed.
  Lemma head_step_not_nil acc r : acc <> [] -> head_step acc r <> [].
  Proof.
    intros H. destruct r as [[[n a] k] [[ts l] h]]. unfold head_step.
    destruct (tbl_get pair_cmp (n, a) acc) as [[t0 k0]|]; [destruct (t0 <=? ts)|]; auto using tbl_insert_not_nil.
  Qed.
  Lemma heads_fold_not_nil recs : forall acc, (acc <> [] \/ recs <> []) -> heads_fold recs acc <> [].
  Proof.
    induction recs as [|r recs IH]; intros acc H; cbn.
    - destruct H; auto.
    - apply IH. left. destruct r as [[[n a] k] [[ts l] h]]. unfold head_step.
      destruct (tbl_get pair_cmp (n, a) acc) as [[t0 k0]|] eqn:G.
      + destruct (t0 <=? ts); [apply tbl_insert_not_nil|]. intros ->. discriminate.
      + apply tbl_insert_not_nil.
  Qed.
  Lemma index_fold_not_nil recs : forall acc, (acc <> [] \/ recs <> []) -> index_fold recs acc <> [].
  Proof.
    induction recs as [|[[[n a] k] v] recs IH]; intros acc H; cbn.
    - destruct H; auto.
    - apply IH. left. apply tbl_insert_not_nil.
  Qed.

  (** opening any number of times is the same as opening once *)
  Theorem open_idempotent T : open_store (open_store T) = open_store T.
  Proof.
    unfold open_store.
    set (T1 := migrate_latest T).
    assert (L1 : t_latest T1 = [] -> t_records T1 = []).
    { unfold T1, migrate_latest. destruct (t_latest T) eqn:EL; [|cbn; congruence].
      destruct (t_records T) as [|r recs] eqn:ER; [cbn; auto|].
      cbn [t_latest set_latest]. intros H. exfalso.
      change (fold_left _ (r :: recs) []) with (heads_fold (r :: recs) []) in H.
      apply (heads_fold_not_nil (r :: recs) []); auto. right. discriminate. }
    assert (R1 : t_records (migrate_bykey T1) = t_records T1 /\ t_latest (migrate_bykey T1) = t_latest T1)
      by apply migrate_index_other_tables.
    destruct R1 as [RR RL].
    assert (ML : migrate_latest (migrate_bykey T1) = migrate_bykey T1).
    { unfold migrate_latest at 1. rewrite RL, RR. destruct (t_latest T1) eqn:EL; auto.
      rewrite (L1 eq_refl). reflexivity. }
    rewrite ML.
    unfold migrate_bykey at 1. destruct (t_bykey (migrate_bykey T1)) eqn:EB; auto.
    (* the index is still empty after a rebuild: then there are no records, and rebuilding again changes nothing *)
    unfold migrate_bykey in EB |- *. destruct (t_bykey T1) eqn:EB1.
    - cbn [t_bykey set_bykey] in EB. fold (index_fold (t_records T1) []) in EB.
      destruct (t_records T1) as [|r recs] eqn:ER.
      + cbn. rewrite ER. reflexivity.
      + exfalso. apply (index_fold_not_nil (r :: recs) []); auto. right. discriminate.
    - rewrite EB1 in EB. discriminate.
  Qed.
End Migrate.
