(** Exactness of the range bounds computed by store/fs/bounds.rs: a row lies inside the bounds
    iff it has the namespace / author / key prefix the bounds were built for. This is where
    defect D2 (carry-increment of a variable-length key) lived. *)
From Coq Require Import Lia.
From ID Require Import Base.Bytes Base.BytesFacts Model.Entry Model.Tables Model.Bounds.

Lemma lex_cmp_gt a b : lex_cmp a b = Gt <-> lex_lt b a = true.
Proof.
  revert b; induction a as [|x a IH]; intros [|y b]; cbn; try easy.
  destruct (N.compare_spec x y) as [->|L|G].
  - rewrite N.ltb_irrefl, N.eqb_refl. cbn. apply IH.
  - split; [easy|]. rewrite orb_true_iff, andb_true_iff, N.ltb_lt, N.eqb_eq. lia.
  - split; auto. intros _. apply orb_true_iff. left. now apply N.ltb_lt.
Qed.

Definition rid_lt (x y : rid) : Prop :=
  let '(n1, a1, k1) := x in let '(n2, a2, k2) := y in
  n1 < n2 \/ (n1 = n2 /\ (a1 < a2 \/ (a1 = a2 /\ lex_lt k1 k2 = true))).

Lemma rid_cmp_lt x y : rid_cmp x y = Lt <-> rid_lt x y.
Proof.
  destruct x as [[n1 a1] k1], y as [[n2 a2] k2]. unfold rid_cmp, id_cmp, rid_lt.
  destruct (N.compare_spec n1 n2) as [->|L|G].
  - destruct (N.compare_spec a1 a2) as [->|L|G].
    + rewrite lex_cmp_lt. intuition lia.
    + intuition (try lia; try discriminate).
    + intuition (try lia; try discriminate).
  - intuition (try lia; try discriminate).
  - intuition (try lia; try discriminate).
Qed.
Lemma rid_cmp_gt x y : rid_cmp x y = Gt <-> rid_lt y x.
Proof.
  destruct x as [[n1 a1] k1], y as [[n2 a2] k2]. unfold rid_cmp, id_cmp, rid_lt.
  destruct (N.compare_spec n1 n2) as [->|L|G].
  - destruct (N.compare_spec a1 a2) as [->|L|G].
    + rewrite lex_cmp_gt. intuition lia.
    + intuition (try lia; try discriminate).
    + intuition (try lia; try discriminate).
  - intuition (try lia; try discriminate).
  - intuition (try lia; try discriminate).
Qed.

Lemma ge_lo_incl b k : ge_lo rid_cmp (Incl b) k = true <-> ~ rid_lt k b.
Proof.
  cbn. rewrite <- rid_cmp_gt. destruct (rid_cmp b k); split; try easy; intros H; exfalso; now apply H.
Qed.
Lemma le_hi_excl b k : le_hi rid_cmp (Excl b) k = true <-> rid_lt k b.
Proof. cbn. rewrite <- rid_cmp_lt. destruct (rid_cmp k b); split; easy. Qed.
Lemma le_hi_incl b k : le_hi rid_cmp (Incl b) k = true <-> ~ rid_lt b k.
Proof.
  cbn. rewrite <- rid_cmp_gt. destruct (rid_cmp k b); split; try easy; intros H; exfalso; now apply H.
Qed.

Lemma bool_eq_iff (a b : bool) : (a = true <-> b = true) -> a = b.
Proof. destruct a, b; intros [H1 H2]; auto; try (symmetry; now apply H1); now apply H2. Qed.

Lemma lex_lt_nil_r k : lex_lt k [] = false.
Proof. now destruct k. Qed.

Lemma succ256_some x y : succ256 x = Some y <-> x < MAX256 /\ y = x + 1.
Proof.
  unfold succ256. destruct (N.ltb_spec x MAX256); split.
  - intros H'; inversion H'; auto.
  - intros [_ ->]; auto.
  - discriminate.
  - lia.
Qed.
Lemma succ256_none x : succ256 x = None <-> MAX256 <= x.
Proof. unfold succ256. destruct (N.ltb_spec x MAX256); split; try easy; lia. Qed.

(** all rows of one namespace, nothing else *)
Theorem rb_namespace_exact ns n a k : n <= MAX256 ->
  in_bounds rid_cmp (fst (rb_namespace ns)) (snd (rb_namespace ns)) (n, a, k) = (n =? ns).
Proof.
  intros Hn. apply bool_eq_iff. unfold in_bounds, rb_namespace, namespace_start, namespace_end. cbn [fst snd].
  rewrite andb_true_iff, ge_lo_incl, N.eqb_eq.
  destruct (succ256 ns) as [n'|] eqn:E.
  - apply succ256_some in E. destruct E as [L ->]. rewrite le_hi_excl. cbn [rid_lt].
    rewrite !lex_lt_nil_r.
    assert (Z0 : ~ a < 0) by lia.
    destruct (N.lt_trichotomy n ns) as [C|[C|C]]; intuition (try lia; try discriminate).
  - apply succ256_none in E. cbn [le_hi rid_lt]. rewrite !lex_lt_nil_r.
    assert (Z0 : ~ a < 0) by lia.
    destruct (N.lt_trichotomy n ns) as [C|[C|C]]; intuition (try lia; try discriminate).
Qed.

(** same-namespace same-author rows whose key starts with [p], nothing else *)
Theorem rb_author_prefix_exact ns au p n a k :
  n <= MAX256 -> a <= MAX256 -> wf_bytes k ->
  in_bounds rid_cmp (fst (rb_author_prefix prefix_succ ns au p)) (snd (rb_author_prefix prefix_succ ns au p)) (n, a, k)
  = (n =? ns) && (a =? au) && is_prefix p k.
Proof.
  intros Hn Ha Wk. apply bool_eq_iff.
  unfold in_bounds, rb_author_prefix, rb_author_key. cbn [fst snd].
  rewrite !andb_true_iff, ge_lo_incl, !N.eqb_eq.
  pose proof (prefix_range_exact p k Wk) as PR. unfold lex_le in PR.
  assert (Z0 : ~ a < 0) by lia.
  destruct (prefix_succ p) as [s|] eqn:Es.
  - rewrite le_hi_excl. cbn [rid_lt below] in *.
    assert (PI : is_prefix p k = true <-> (lex_lt k p = false /\ lex_lt k s = true)).
    { rewrite PR, andb_true_iff, negb_true_iff. tauto. }
    rewrite PI. clear PI PR.
    destruct (lex_lt k p), (lex_lt k s);
    destruct (N.lt_trichotomy n ns) as [C|[C|C]]; destruct (N.lt_trichotomy a au) as [D|[D|D]];
      intuition (try lia; try discriminate).
  - assert (PI : is_prefix p k = true <-> lex_lt k p = false).
    { split.
      - intros P. rewrite PR in P. apply andb_true_iff in P. destruct P as [P _]. now apply negb_true_iff in P.
      - intros L. apply all_ff_prefix; auto. unfold lex_le. now rewrite L. }
    rewrite PI. clear PI PR.
    destruct (succ256 au) as [a'|] eqn:Ea; [|destruct (succ256 ns) as [n'|] eqn:En].
    + apply succ256_some in Ea. destruct Ea as [La ->]. rewrite le_hi_excl. cbn [rid_lt]. rewrite !lex_lt_nil_r.
      destruct (lex_lt k p);
      destruct (N.lt_trichotomy n ns) as [C|[C|C]]; destruct (N.lt_trichotomy a au) as [D|[D|D]];
        intuition (try lia; try discriminate).
    + apply succ256_none in Ea. apply succ256_some in En. destruct En as [Ln ->].
      rewrite le_hi_excl. cbn [rid_lt]. rewrite !lex_lt_nil_r.
      destruct (lex_lt k p);
      destruct (N.lt_trichotomy n ns) as [C|[C|C]]; destruct (N.lt_trichotomy a au) as [D|[D|D]];
        intuition (try lia; try discriminate).
    + apply succ256_none in Ea. apply succ256_none in En. cbn [le_hi rid_lt].
      destruct (lex_lt k p);
      destruct (N.lt_trichotomy n ns) as [C|[C|C]]; destruct (N.lt_trichotomy a au) as [D|[D|D]];
        intuition (try lia; try discriminate).
Qed.

(** the pinned-tree bound (carry increment) is not exact: key [b] lies inside the "prefix" range
    of [a\xff] *)
Example rb_author_prefix_inc_carry_refuted :
  let p := [97; 255] in let k := [98] in
  is_prefix p k = false /\
  in_bounds rid_cmp (fst (rb_author_prefix inc_carry 1 2 p)) (snd (rb_author_prefix inc_carry 1 2 p)) (1, 2, k) = true.
Proof. vm_compute. split; reflexivity. Qed.

(** ** the by-key index: keys are (namespace, key, author) *)
Definition kid_lt (x y : kid) : Prop :=
  let '(n1, k1, a1) := x in let '(n2, k2, a2) := y in
  n1 < n2 \/ (n1 = n2 /\ (lex_lt k1 k2 = true \/ (k1 = k2 /\ a1 < a2))).

Lemma kid_cmp_lt x y : kid_cmp x y = Lt <-> kid_lt x y.
Proof.
  destruct x as [[n1 k1] a1], y as [[n2 k2] a2]. unfold kid_cmp, kid_lt.
  destruct (N.compare_spec n1 n2) as [->|L|G].
  - destruct (lex_cmp k1 k2) eqn:E.
    + apply lex_cmp_eq in E. subst k2. rewrite lex_lt_irrefl, N.compare_lt_iff. intuition (try lia; try discriminate).
    + apply lex_cmp_lt in E. rewrite E. intuition.
    + apply lex_cmp_gt in E. pose proof (lex_lt_asym _ _ E) as E'. rewrite E'.
      split; [discriminate|]. intros [H|[_ [H|[H _]]]]; try lia; try discriminate.
      subst k2. rewrite lex_lt_irrefl in E. discriminate.
  - intuition (try lia; try discriminate).
  - intuition (try lia; try discriminate).
Qed.
Lemma kid_cmp_gt x y : kid_cmp x y = Gt <-> kid_lt y x.
Proof.
  destruct x as [[n1 k1] a1], y as [[n2 k2] a2]. unfold kid_cmp, kid_lt.
  destruct (N.compare_spec n1 n2) as [->|L|G].
  - destruct (lex_cmp k1 k2) eqn:E.
    + apply lex_cmp_eq in E. subst k2. rewrite lex_lt_irrefl, N.compare_gt_iff. intuition (try lia; try discriminate).
    + apply lex_cmp_lt in E. pose proof (lex_lt_asym _ _ E) as E'. rewrite E'.
      split; [discriminate|]. intros [H|[_ [H|[H _]]]]; try lia; try discriminate.
      subst k2. rewrite lex_lt_irrefl in E. discriminate.
    + apply lex_cmp_gt in E. rewrite E. intuition.
  - intuition (try lia; try discriminate).
  - intuition (try lia; try discriminate).
Qed.
Lemma kge_lo_incl b k : ge_lo kid_cmp (Incl b) k = true <-> ~ kid_lt k b.
Proof.
  cbn. rewrite <- kid_cmp_gt. destruct (kid_cmp b k); split; try easy; intros H; exfalso; now apply H.
Qed.
Lemma kle_hi_excl b k : le_hi kid_cmp (Excl b) k = true <-> kid_lt k b.
Proof. cbn. rewrite <- kid_cmp_lt. destruct (kid_cmp k b); split; easy. Qed.
Lemma kle_hi_incl b k : le_hi kid_cmp (Incl b) k = true <-> ~ kid_lt b k.
Proof.
  cbn. rewrite <- kid_cmp_gt. destruct (kid_cmp k b); split; try easy; intros H; exfalso; now apply H.
Qed.

Lemma lex_lt_nil_l k : lex_lt [] k = true <-> k <> [].
Proof. destruct k; cbn; split; easy. Qed.

(** index rows of one namespace whose key starts with [p] (any author), nothing else *)
Theorem kb_prefix_exact ns p n k a :
  n <= MAX256 -> wf_bytes k ->
  in_bounds kid_cmp (fst (kb_new prefix_succ ns (KPrefix p))) (snd (kb_new prefix_succ ns (KPrefix p))) (n, k, a)
  = (n =? ns) && is_prefix p k.
Proof.
  intros Hn Wk. apply bool_eq_iff. unfold in_bounds, kb_new. cbn [fst snd].
  rewrite !andb_true_iff, kge_lo_incl, !N.eqb_eq.
  pose proof (prefix_range_exact p k Wk) as PR. unfold lex_le in PR.
  assert (Z0 : ~ a < 0) by lia.
  destruct (prefix_succ p) as [s|] eqn:Es.
  - rewrite kle_hi_excl. cbn [kid_lt below] in *.
    assert (PI : is_prefix p k = true <-> (lex_lt k p = false /\ lex_lt k s = true)).
    { rewrite PR, andb_true_iff, negb_true_iff. tauto. }
    rewrite PI. clear PI PR.
    destruct (lex_lt k p) eqn:E1, (lex_lt k s) eqn:E2;
    destruct (N.lt_trichotomy n ns) as [C|[C|C]];
      intuition (try lia; try discriminate; try congruence).
  - assert (PI : is_prefix p k = true <-> lex_lt k p = false).
    { split.
      - intros P. rewrite PR in P. apply andb_true_iff in P. destruct P as [P _]. now apply negb_true_iff in P.
      - intros L. apply all_ff_prefix; auto. unfold lex_le. now rewrite L. }
    rewrite PI. clear PI PR.
    destruct (succ256 ns) as [n'|] eqn:En.
    + apply succ256_some in En. destruct En as [Ln ->]. rewrite kle_hi_excl. cbn [kid_lt]. rewrite !lex_lt_nil_r.
      destruct (lex_lt k p) eqn:E1;
      destruct (N.lt_trichotomy n ns) as [C|[C|C]];
        intuition (try lia; try discriminate; try congruence).
    + apply succ256_none in En. cbn [le_hi kid_lt].
      destruct (lex_lt k p) eqn:E1;
      destruct (N.lt_trichotomy n ns) as [C|[C|C]];
        intuition (try lia; try discriminate; try congruence).
Qed.

(** index rows of one namespace with exactly the key [x] (any author up to 2^256-1) *)
Theorem kb_exact_exact ns x n k a :
  a <= MAX256 ->
  in_bounds kid_cmp (fst (kb_new prefix_succ ns (KExact x))) (snd (kb_new prefix_succ ns (KExact x))) (n, k, a)
  = (n =? ns) && bytes_eqb x k.
Proof.
  intros Ha. apply bool_eq_iff. unfold in_bounds, kb_new. cbn [fst snd].
  rewrite !andb_true_iff, kge_lo_incl, kle_hi_incl, !N.eqb_eq, bytes_eqb_eq. cbn [kid_lt].
  assert (Z0 : ~ a < 0) by lia.
  destruct (lex_total k x) as [L|[E|G]].
  - pose proof (lex_lt_asym _ _ L) as L'. rewrite L, L'.
    assert (x <> k) by (intros ->; rewrite lex_lt_irrefl in L; discriminate).
    destruct (N.lt_trichotomy n ns) as [C|[C|C]]; intuition (try lia; try discriminate; try congruence).
  - subst k. rewrite !lex_lt_irrefl.
    destruct (N.lt_trichotomy n ns) as [C|[C|C]]; intuition (try lia; try discriminate; try congruence).
  - pose proof (lex_lt_asym _ _ G) as G'. rewrite G, G'.
    assert (x <> k) by (intros ->; rewrite lex_lt_irrefl in G; discriminate).
    destruct (N.lt_trichotomy n ns) as [C|[C|C]]; intuition (try lia; try discriminate; try congruence).
Qed.

(** index rows of one namespace *)
Theorem kb_namespace_exact ns n k a : n <= MAX256 ->
  in_bounds kid_cmp (fst (kb_namespace ns)) (snd (kb_namespace ns)) (n, k, a) = (n =? ns).
Proof.
  intros Hn. apply bool_eq_iff. unfold in_bounds, kb_namespace. cbn [fst snd].
  rewrite andb_true_iff, kge_lo_incl, N.eqb_eq.
  assert (Z0 : ~ a < 0) by lia.
  destruct (succ256 ns) as [n'|] eqn:E.
  - apply succ256_some in E. destruct E as [L ->]. rewrite kle_hi_excl. cbn [kid_lt].
    rewrite !lex_lt_nil_r.
    destruct (N.lt_trichotomy n ns) as [C|[C|C]]; intuition (try lia; try discriminate; try congruence).
  - apply succ256_none in E. cbn [le_hi kid_lt]. rewrite !lex_lt_nil_r.
    destruct (N.lt_trichotomy n ns) as [C|[C|C]]; intuition (try lia; try discriminate; try congruence).
Qed.

(** author-exact, key-exact bounds ([Included(start) ..= Included(start)]): one row *)
Theorem rb_author_exact_exact ns au x n a k :
  in_bounds rid_cmp (fst (rb_author_key prefix_succ ns au (KExact x))) (snd (rb_author_key prefix_succ ns au (KExact x))) (n, a, k)
  = (n =? ns) && (a =? au) && bytes_eqb x k.
Proof.
  apply bool_eq_iff. unfold in_bounds, rb_author_key. cbn [fst snd].
  rewrite !andb_true_iff, ge_lo_incl, le_hi_incl, !N.eqb_eq, bytes_eqb_eq. cbn [rid_lt].
  destruct (lex_total k x) as [L|[E|G]].
  - pose proof (lex_lt_asym _ _ L) as L'. rewrite L, L'.
    assert (x <> k) by (intros ->; rewrite lex_lt_irrefl in L; discriminate).
    destruct (N.lt_trichotomy n ns) as [C|[C|C]]; destruct (N.lt_trichotomy a au) as [D|[D|D]];
      intuition (try lia; try discriminate; try congruence).
  - subst k. rewrite !lex_lt_irrefl.
    destruct (N.lt_trichotomy n ns) as [C|[C|C]]; destruct (N.lt_trichotomy a au) as [D|[D|D]];
      intuition (try lia; try discriminate; try congruence).
  - pose proof (lex_lt_asym _ _ G) as G'. rewrite G, G'.
    assert (x <> k) by (intros ->; rewrite lex_lt_irrefl in G; discriminate).
    destruct (N.lt_trichotomy n ns) as [C|[C|C]]; destruct (N.lt_trichotomy a au) as [D|[D|D]];
      intuition (try lia; try discriminate; try congruence).
Qed.

(** [KAny] with an author: all rows of that author in the namespace *)
Theorem rb_author_any_exact ns au n a k :
  n <= MAX256 -> a <= MAX256 -> wf_bytes k ->
  in_bounds rid_cmp (fst (rb_author_key prefix_succ ns au KAny)) (snd (rb_author_key prefix_succ ns au KAny)) (n, a, k)
  = (n =? ns) && (a =? au).
Proof.
  intros Hn Ha Wk.
  change (rb_author_key prefix_succ ns au KAny) with (rb_author_prefix prefix_succ ns au []).
  rewrite rb_author_prefix_exact; auto. cbn. now rewrite andb_true_r.
Qed.
