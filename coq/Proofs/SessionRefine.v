(** C01/C08: a whole session over the table-level stores (the model the real sessions are
    compared with, message by message) is the session over the ordered lists of the two
    documents; hence the convergence and termination theorems hold for it. *)
From Coq Require Import Lia Sorted.
From ID Require Import Base.Bytes Base.BytesFacts Model.Entry Model.Put Model.Tables Model.Bounds
  Model.FsStore Model.Replica Model.Ranger Proofs.EntryFacts Proofs.PutFacts Proofs.BoundsFacts
  Proofs.TblFacts Proofs.SortedTbl Proofs.RangerFacts Proofs.FsPutFacts Proofs.ConvergeFacts
  Proofs.SplitFacts Proofs.SessionConverge Proofs.TerminateFacts Proofs.RangeFacts Proofs.RefineFacts Proofs.TerminateAll.

(** ---- well-formedness travels with the values ---- *)
Lemma om_put_wf S e : Forall wf_entry S -> wf_entry e -> Forall wf_entry (fst (om_put S e)).
Proof.
  intros HS He. apply Forall_forall. intros x Hx. apply (om_put_set S e x) in Hx. unfold put in Hx.
  rewrite Forall_forall in HS. destruct (existsb _ S); cbn [fst] in Hx; auto.
  destruct Hx as [<-|Hx]; auto. apply filter_In in Hx. apply HS. tauto.
Qed.

Section WfValues.
  Variables (mss k : N) (v : entry -> N -> bool).
  Let status_of := fun _ : entry => MISSING.
  Let validate := fun (_ : list entry) (e : entry) (st : N) => v e st.

  Lemma store_values_wf vs : (forall q, In q vs -> wf_entry (fst q)) -> forall S, Forall wf_entry S ->
    Forall wf_entry (fst (store_values om_ops validate S vs)).
  Proof.
    induction vs as [|[e st] vs IH]; intros W S HS; cbn [store_values]; auto.
    assert (W' : forall q, In q vs -> wf_entry (fst q)) by (intros q Hq; apply W; now right).
    unfold validate at 1. destruct (v e st); [|now apply IH].
    pose proof (om_put_wf S e HS (W (e, st) (or_introl eq_refl))) as P.
    change (so_put om_ops S e) with (om_put S e). destruct (om_put S e) as [S' [|n]]; cbn [fst] in P.
    - now apply IH.
    - specialize (IH W' S' P). destruct (store_values om_ops validate S' vs). exact IH.
  Qed.

  Lemma with_status_wf l : Forall wf_entry l -> forall q, In q (with_status status_of l) -> wf_entry (fst q).
  Proof.
    intros H q Hq. unfold with_status in Hq. apply in_map_iff in Hq. destruct Hq as [e [<- He]].
    rewrite Forall_forall in H. now apply H.
  Qed.
  Lemma range_wf S x y : Forall wf_entry S -> Forall wf_entry (so_range om_ops S x y).
  Proof. intros H. apply Forall_forall. intros e He. apply filter_In in He. rewrite Forall_forall in H. apply H. tauto. Qed.

  Lemma om_reply_wf S m : Forall wf_entry S -> wf_message m ->
    let '(S', r, _) := process_message om_ops mss k status_of validate S m in
    Forall wf_entry S' /\ match r with Some r => wf_message r | None => True end.
  Proof.
    intros HS WM. unfold validate, status_of. rewrite (process_message_unfold mss k v S m).
    assert (FOLD : forall items, (forall p q, In p items -> In q (part_values p) -> wf_entry (fst q)) ->
              forall s out ins, Forall wf_entry s -> (forall p q, In p out -> In q (part_values p) -> wf_entry (fst q)) ->
              let '(s1, out1, _) := fold_left (item_fold om_ops (fun _ : entry => MISSING) v) items (s, out, ins) in
              Forall wf_entry s1 /\ (forall p q, In p out1 -> In q (part_values p) -> wf_entry (fst q))).
    { induction items as [|it items IH]; intros WI s out ins Hs Ho; cbn [fold_left]; auto.
      assert (WI' : forall p q, In p items -> In q (part_values p) -> wf_entry (fst q)) by (intros p q Hp; apply WI; now right).
      destruct it as [x y fp|x y vs hl]; cbn [item_fold].
      - now apply IH.
      - unfold process_item.
        assert (Wvs : forall q, In q vs -> wf_entry (fst q)) by (intros q Hq; exact (WI _ q (or_introl eq_refl) Hq)).
        pose proof (store_values_wf vs Wvs s Hs) as SV. unfold validate in SV.
        destruct (store_values om_ops (fun (_ : list entry) (e : entry) (st : N) => v e st) s vs) as [s' i]. cbn [fst] in SV.
        apply IH; auto. intros p q Hp Hq. apply in_app_or in Hp. destruct Hp as [Hp|Hp]; [eauto|].
        destruct hl; [destruct Hp|].
        destruct (filter _ (so_range om_ops s x y)) as [|d ds] eqn:F; [destruct Hp|]. destruct Hp as [<-|[]].
        cbn [part_values] in Hq. apply (with_status_wf (d :: ds)); auto. rewrite <- F.
        apply Forall_forall. intros e He. apply filter_In in He. destruct He as [He _].
        pose proof (range_wf s x y Hs) as R. rewrite Forall_forall in R. now apply R. }
    specialize (FOLD (filter is_item m) (fun p q Hp => WM p q (proj1 (proj1 (filter_In _ _ _) Hp))) S [] [] HS (fun p q (F : In p []) => match F with end)).
    destruct (fold_left (item_fold om_ops (fun _ : entry => MISSING) v) (filter is_item m) (S, [], [])) as [[s1 out1] ins1].
    destruct FOLD as [H1 H2]. cbv zeta.
    set (out2 := flat_map _ _).
    assert (W2 : forall p q, In p out2 -> In q (part_values p) -> wf_entry (fst q)).
    { intros p q Hp Hq. unfold out2 in Hp. apply in_flat_map in Hp. destruct Hp as [p0 [_ Hp]].
      destruct p0 as [x y fp|]; [|destruct Hp]. unfold process_fp in Hp.
      destruct (fp_eqb _ fp); [destruct Hp|]. destruct (_ || _).
      - destruct Hp as [<-|[]]. cbn [part_values] in Hq. apply (with_status_wf (so_range om_ops s1 x y)); auto. now apply range_wf.
      - apply in_map_iff in Hp. destruct Hp as [r [<- _]].
        destruct (mss <? _); cbn [part_values] in Hq; [destruct Hq|].
        apply (with_status_wf (so_range om_ops s1 (fst r) (snd r))); auto. now apply range_wf. }
    split; auto. destruct (out1 ++ out2) as [|p0 r0] eqn:OUT; auto.
    rewrite <- OUT. intros p q Hp Hq. apply in_app_or in Hp. destruct Hp; eauto.
  Qed.
End WfValues.

Lemma fs_all_wf ns T : wf_records T -> Forall wf_entry (fs_all ns T).
Proof.
  intros [_ W]. apply Forall_forall. intros e He. apply (in_fs_all ns T e W) in He. destruct He as [He _].
  apply in_recs in He. rewrite Forall_forall in W. specialize (W _ He). destruct e. exact W.
Qed.

(** ---- the session ---- *)
Section Sessions.
  Variables (EH MAXF mss k now ns : N).
  Definition vsync (e : entry) (st : N) : bool := sync_validate EH MAXF now ns empty_tables e st.

  Lemma vsync_ns e st : vsync e st = true -> e_ns e = ns.
  Proof.
    unfold vsync, sync_validate, validate_entry. cbn [w_entry].
    destruct (e_ns e =? ns) eqn:E; [intros _; now apply N.eqb_eq|]. cbn [negb]. rewrite andb_false_r. discriminate.
  Qed.

  Theorem table_session_is_list_session fuel : forall TA TB ocA ocB m turn acc,
    wf_records TA -> wf_records TB -> wf_message m ->
    match session prefix_succ EH MAXF mss k fuel now ns ns TA TB ocA ocB m turn acc with
    | Some (TA', TB', _, _, tr) =>
        list_session mss k vsync fuel (fs_all ns TA) (fs_all ns TB) m turn acc = Some (fs_all ns TA', fs_all ns TB', tr)
        /\ wf_records TA' /\ wf_records TB'
    | None => list_session mss k vsync fuel (fs_all ns TA) (fs_all ns TB) m turn acc = None
    end.
  Proof.
    induction fuel as [|f IH]; intros TA TB ocA ocB m turn acc WA WB WM; cbn [session list_session]; auto.
    unfold sync_process, list_process. destruct turn.
    - pose proof (table_store_is_ordered_map EH ns mss k (fun _ => MISSING) vsync TB m WB WM vsync_ns) as SIM.
      pose proof (om_reply_wf mss k vsync (fs_all ns TB) m (fs_all_wf ns TB WB) WM) as RW.
      change (sync_validate EH MAXF now ns) with (fun (_ : tables) (e : entry) (st : N) => vsync e st).
      destruct (process_message (fs_ops prefix_succ EH ns) mss k (fun _ : entry => MISSING) (fun (_ : tables) (e : entry) (st : N) => vsync e st) TB m) as [[TB' r1] i1].
      destruct (process_message om_ops mss k (fun _ : entry => MISSING) (fun (_ : list entry) (e : entry) (st : N) => vsync e st) (fs_all ns TB) m) as [[SB' r2] i2].
      destruct SIM as (W' & -> & -> & ->). destruct RW as [_ RW].
      destruct r2 as [r|]; [|auto].
      apply IH; auto.
    - pose proof (table_store_is_ordered_map EH ns mss k (fun _ => MISSING) vsync TA m WA WM vsync_ns) as SIM.
      pose proof (om_reply_wf mss k vsync (fs_all ns TA) m (fs_all_wf ns TA WA) WM) as RW.
      change (sync_validate EH MAXF now ns) with (fun (_ : tables) (e : entry) (st : N) => vsync e st).
      destruct (process_message (fs_ops prefix_succ EH ns) mss k (fun _ : entry => MISSING) (fun (_ : tables) (e : entry) (st : N) => vsync e st) TA m) as [[TA' r1] i1].
      destruct (process_message om_ops mss k (fun _ : entry => MISSING) (fun (_ : list entry) (e : entry) (st : N) => vsync e st) (fs_all ns TA) m) as [[SA' r2] i2].
      destruct SIM as (W' & -> & -> & ->). destruct RW as [_ RW].
      destruct r2 as [r|]; [|auto].
      apply IH; auto.
  Qed.
End Sessions.

(** ---- C01 for the table-level stores ---- *)
Lemma initial_message_same EH ns T : wf_records T ->
  initial_message (fs_ops prefix_succ EH ns) T = initial_message om_ops (fs_all ns T).
Proof.
  intros W. unfold initial_message. cbn [so_first so_range fs_ops om_ops].
  change (fs_get_first ns T) with (match fs_all ns T with e :: _ => entry_rid e | [] => default_id end).
  now rewrite (get_range_exact ns T _ _ W).
Qed.

Theorem table_session_total EH MAXF mss now ns TA TB :
  wf_records TA -> wf_records TB ->
  let A := fs_all ns TA in let B := fs_all ns TB in
  reduced A -> reduced B -> consistent (A ++ B) ->
  (forall e, In e (A ++ B) -> vsync EH MAXF now ns e MISSING = true) ->
  exists TA' TB' ocA ocB tr,
    session prefix_succ EH MAXF mss 2 (length A + length B + 3) now ns ns TA TB (mkOC 0 0) (mkOC 0 0)
            (initial_message (fs_ops prefix_succ EH ns) TA) true [] = Some (TA', TB', ocA, ocB, tr) /\
    (length tr <= length A + length B + 2)%nat /\
    (forall x, In x (fs_all ns TA') <-> In x (join A B)) /\
    (forall x, In x (fs_all ns TB') <-> In x (join A B)) /\
    fs_all ns TA' = fs_all ns TB'.
Proof.
  intros WA WB A B RA RB C V.
  destruct (list_session_total mss (vsync EH MAXF now ns) A B (fs_all_sorted ns TA WA) (fs_all_sorted ns TB WB) RA RB C V)
    as (A' & B' & tr & RUN & LEN & JA & JB & SA' & SB').
  assert (WM : wf_message (initial_message om_ops A)) by (intros p q [<-|[]] []).
  pose proof (table_session_is_list_session EH MAXF mss 2 now ns (length A + length B + 3) TA TB (mkOC 0 0) (mkOC 0 0)
                (initial_message om_ops A) true [] WA WB WM) as T.
  rewrite (initial_message_same EH ns TA WA). fold A.
  destruct (session prefix_succ EH MAXF mss 2 (length A + length B + 3) now ns ns TA TB (mkOC 0 0) (mkOC 0 0) (initial_message om_ops A) true [])
    as [[[[[TA' TB'] ocA] ocB] tr']|].
  - destruct T as (E & _ & _). fold A B in E. rewrite RUN in E. inversion E; subst.
    exists TA', TB', ocA, ocB, tr'. repeat split; auto; try apply JA; try apply JB.
    apply RefineFacts.ssorted_ext; auto. intros x. rewrite (JA x), (JB x). tauto.
  - fold A B in T. rewrite RUN in T. discriminate.
Qed.

(** ---- end to end: two replicas built from any histories of offers, then one session ---- *)
From ID Require Import Proofs.SwarmFacts.

Theorem histories_then_session EH MAXF mss now ns lA lB :
  Forall wf_entry lA -> Forall wf_entry lB ->
  (forall e, In e (lA ++ lB) -> e_ns e = ns /\ vsync EH MAXF now ns e MISSING = true) ->
  consistent (lA ++ lB) ->
  let TA := fs_puts EH empty_tables lA in
  let TB := fs_puts EH empty_tables lB in
  let A := fs_all ns TA in let B := fs_all ns TB in
  exists TA' TB' ocA ocB tr,
    session prefix_succ EH MAXF mss 2 (length A + length B + 3) now ns ns TA TB (mkOC 0 0) (mkOC 0 0)
            (initial_message (fs_ops prefix_succ EH ns) TA) true [] = Some (TA', TB', ocA, ocB, tr) /\
    fs_all ns TA' = fs_all ns TB' /\
    (forall x, In x (fs_all ns TA') <-> in_reduce (lA ++ lB) x).
Proof.
  intros FA FB OK C TA TB A B.
  assert (CA : consistent lA) by (eapply consistent_app_l; eauto).
  assert (CB : consistent lB) by (eapply consistent_app_r; eauto).
  destruct (fs_puts_refines EH lA empty_tables [] wf_records_empty FA (fun _ => iff_refl _)) as [_ WA].
  destruct (fs_puts_refines EH lB empty_tables [] wf_records_empty FB (fun _ => iff_refl _)) as [_ WB].
  fold TA in WA. fold TB in WB.
  pose proof WA as [_ WRA]. pose proof WB as [_ WRB].
  assert (MA : forall x, In x A <-> in_reduce lA x).
  { intros x. unfold A. rewrite (in_fs_all ns TA x WRA). unfold TA. rewrite (fs_puts_content EH lA FA CA x).
    split; [tauto|]. intros H. split; auto. destruct H as [I _]. apply (OK x). apply in_or_app. now left. }
  assert (MB : forall x, In x B <-> in_reduce lB x).
  { intros x. unfold B. rewrite (in_fs_all ns TB x WRB). unfold TB. rewrite (fs_puts_content EH lB FB CB x).
    split; [tauto|]. intros H. split; auto. destruct H as [I _]. apply (OK x). apply in_or_app. now right. }
  assert (SUB : forall x, In x (A ++ B) -> In x (lA ++ lB)).
  { intros x Hx. apply in_app_or in Hx. apply in_or_app. destruct Hx as [Hx|Hx]; [left; apply MA in Hx|right; apply MB in Hx]; now destruct Hx. }
  assert (RA : reduced A) by (intros d e Hd He; apply MA in Hd; apply MA in He; destruct Hd as [Id _]; destruct He as [_ Te]; now apply Te).
  assert (RB : reduced B) by (intros d e Hd He; apply MB in Hd; apply MB in He; destruct Hd as [Id _]; destruct He as [_ Te]; now apply Te).
  assert (CAB : consistent (A ++ B)) by (apply (consistent_incl (lA ++ lB)); auto).
  assert (V : forall e, In e (A ++ B) -> vsync EH MAXF now ns e MISSING = true) by (intros e He; apply OK; auto).
  destruct (table_session_total EH MAXF mss now ns TA TB WA WB RA RB CAB V) as (TA' & TB' & ocA & ocB & tr & RUN & _ & JA & _ & EQ).
  exists TA', TB', ocA, ocB, tr. split; [exact RUN|]. split; [exact EQ|].
  intros x. fold A B in JA. rewrite (JA x). unfold join. rewrite reduce_spec.
  rewrite <- (reduce_union lA lB C x). apply in_reduce_ext. intros a. rewrite !in_app_iff, !reduce_spec, MA, MB. tauto.
Qed.

(** ---- the same for every split factor >= 2 ---- *)
Theorem table_session_total_all EH MAXF mss k now ns TA TB :
  (2 <= k)%N -> wf_records TA -> wf_records TB ->
  let A := fs_all ns TA in let B := fs_all ns TB in
  reduced A -> reduced B -> consistent (A ++ B) ->
  (forall e, In e (A ++ B) -> vsync EH MAXF now ns e MISSING = true) ->
  exists TA' TB' ocA ocB tr,
    session prefix_succ EH MAXF mss k (steps_bound A B) now ns ns TA TB (mkOC 0 0) (mkOC 0 0)
            (initial_message (fs_ops prefix_succ EH ns) TA) true [] = Some (TA', TB', ocA, ocB, tr) /\
    (forall x, In x (fs_all ns TA') <-> In x (join A B)) /\
    (forall x, In x (fs_all ns TB') <-> In x (join A B)) /\
    fs_all ns TA' = fs_all ns TB'.
Proof.
  intros K2 WA WB A B RA RB C V.
  destruct (list_session_total_all mss k (vsync EH MAXF now ns) A B K2 (fs_all_sorted ns TA WA) (fs_all_sorted ns TB WB) RA RB C V)
    as (A' & B' & tr & RUN & JA & JB & SA' & SB').
  assert (WM : wf_message (initial_message om_ops A)) by (intros p q [<-|[]] []).
  pose proof (table_session_is_list_session EH MAXF mss k now ns (steps_bound A B) TA TB (mkOC 0 0) (mkOC 0 0)
                (initial_message om_ops A) true [] WA WB WM) as T.
  rewrite (initial_message_same EH ns TA WA). fold A.
  destruct (session prefix_succ EH MAXF mss k (steps_bound A B) now ns ns TA TB (mkOC 0 0) (mkOC 0 0) (initial_message om_ops A) true [])
    as [[[[[TA' TB'] ocA] ocB] tr']|].
  - destruct T as (E & _ & _). fold A B in E. rewrite RUN in E. inversion E; subst.
    exists TA', TB', ocA, ocB, tr'. repeat split; auto; try apply JA; try apply JB.
    apply RefineFacts.ssorted_ext; auto. intros x. rewrite (JA x), (JB x). tauto.
  - fold A B in T. rewrite RUN in T. discriminate.
Qed.
