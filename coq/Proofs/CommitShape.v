(** C06: every operation kind of the crash histories that the real store is compared on has the shape
    the crash theorems quantify over (reads, then writes, then reads; or a commit) -- so
    [history_from_flushed] speaks about exactly those histories. *)
From ID Require Import Model.Tables Model.Commit Proofs.CommitFacts Check.C06.

Lemma shaped_parts pre mods post :
  Forall is_tables pre -> Forall is_modify mods -> Forall is_tables post -> shaped (pre ++ mods ++ post).
Proof. apply shaped_rw. Qed.

Lemma micro_of_shaped ns T o : shaped (micro_of ns T o).
Proof.
  destruct o as [e|au k h l now|au k now| | | | |]; cbn [micro_of entry_of].
  - unfold put_micro. destruct (existsb _ _).
    + apply (shaped_parts [MTables; MTables] [] []); repeat constructor.
    + apply (shaped_parts [MTables; MTables] [MModify _; MModify _] [MTables]); repeat constructor.
  - unfold put_micro. destruct (existsb _ _).
    + apply (shaped_parts [MTables; MTables] [] []); repeat constructor.
    + apply (shaped_parts [MTables; MTables] [MModify _; MModify _] []); repeat constructor.
  - unfold put_micro. destruct (existsb _ _).
    + apply (shaped_parts [MTables; MTables] [] []); repeat constructor.
    + apply (shaped_parts [MTables; MTables] [MModify _; MModify _] []); repeat constructor.
  - apply shaped_commit.
  - apply shaped_commit.
  - apply (shaped_parts [] [MModify _] []); repeat constructor.
  - apply (shaped_parts [] [MModify _] []); repeat constructor.
  - apply (shaped_parts [] [MModify _] []); repeat constructor.
Qed.

(** hence: any history of these operations, any placement of the age-based commit, any crash point *)
Theorem compared_histories_crash_ok ns (ops : list (cop * list bool)) T :
  (* [T_of] = the working tables each operation starts from are whatever they are: the shape does not depend on them *)
  forall Ts : list tables, length Ts = length ops ->
  Forall (fun x => length (snd (fst x)) = length (micro_of ns (snd x) (fst (fst x)))) (combine ops Ts) ->
  crash_ok (mkC T T false) [T] (map (fun x => (micro_of ns (snd x) (fst (fst x)), snd (fst x))) (combine ops Ts)).
Proof.
  intros Ts L F. apply history_from_flushed. apply Forall_forall. intros [ms fl] I.
  apply in_map_iff in I. destruct I as ([[o f] T0] & E & I). inversion E; subst. cbn [fst snd].
  split; [apply micro_of_shaped|]. rewrite Forall_forall in F. exact (F _ I).
Qed.
