(** C15: filters survive their textual form; policy matching. *)
From Coq Require Import Lia.
From ID Require Import Base.Bytes Base.BytesFacts Model.Entry Model.Tables Model.Replica Model.Policy.

Lemma unhex_hexdigit n : n < 16 -> unhex (hexdigit n) = Some n.
Proof.
  intros H. unfold hexdigit, unhex.
  destruct (N.ltb_spec n 10).
  - assert (A : (48 <=? 48 + n) && (48 + n <=? 57) = true).
    { apply andb_true_iff. split; apply N.leb_le; lia. }
    rewrite A. f_equal. lia.
  - assert (A : (48 <=? 87 + n) && (87 + n <=? 57) = false).
    { apply andb_false_iff. right. apply N.leb_gt. lia. }
    assert (B : (97 <=? 87 + n) && (87 + n <=? 102) = true).
    { apply andb_true_iff. split; apply N.leb_le; lia. }
    rewrite A, B. f_equal. lia.
Qed.

Lemma hex_decode_pairs_encode b : forall fuel, wf_bytes b -> (length (hex_encode b) <= fuel)%nat ->
  hex_decode_pairs fuel (hex_encode b) = Some b.
Proof.
  unfold hex_encode. induction b as [|x b IH]; intros fuel W L.
  - cbn. destruct fuel; reflexivity.
  - inversion W as [|? ? Wx Wb]; subst. unfold wf_byte in Wx.
    cbn [flat_map app length] in *.
    destruct fuel as [|fuel]; [lia|]. cbn [hex_decode_pairs].
    assert (D1 : x / 16 < 16) by (apply N.div_lt_upper_bound; lia).
    assert (D2 : x mod 16 < 16) by (apply N.mod_lt; lia).
    rewrite (unhex_hexdigit _ D1), (unhex_hexdigit _ D2).
    rewrite (IH fuel Wb); [|lia].
    f_equal. f_equal. rewrite N.mul_comm. symmetry. apply N.div_mod. lia.
Qed.
Lemma hex_roundtrip b : wf_bytes b -> hex_decode (hex_encode b) = Some b.
Proof. intros W. unfold hex_decode. apply hex_decode_pairs_encode; auto. Qed.

Lemma split_once_app a b : ~ In COLON a -> split_once (a ++ COLON :: b) = Some (a, b).
Proof.
  induction a as [|c a IH]; intros H; cbn.
  - reflexivity.
  - destruct (N.eqb_spec c COLON) as [->|NE]; [exfalso; apply H; now left|].
    rewrite IH; auto. intros C. apply H. now right.
Qed.

(** For every notion of "valid UTF-8" the printer may use, parsing the printed filter yields the
    filter back, whatever bytes it holds (colons, non-UTF-8 bytes, empty). *)
Theorem filter_text_roundtrip (u : bool) (f : filter_kind) :
  wf_bytes (match f with FPrefix b | FExact b => b end) ->
  filter_parse (filter_display u f) = Some f.
Proof.
  intros W. unfold filter_display, filter_parse.
  assert (NP : ~ In COLON s_prefix) by (cbn; unfold COLON; intuition discriminate).
  assert (NE : ~ In COLON s_exact) by (cbn; unfold COLON; intuition discriminate).
  assert (NU : ~ In COLON s_utf8) by (cbn; unfold COLON; intuition discriminate).
  assert (NH : ~ In COLON s_hex) by (cbn; unfold COLON; intuition discriminate).
  destruct f as [b|b]; destruct u; cbn [app];
    rewrite ?(split_once_app s_prefix _ NP), ?(split_once_app s_exact _ NE);
    rewrite ?(split_once_app s_utf8 _ NU), ?(split_once_app s_hex _ NH);
    cbn [bytes_eqb s_prefix s_exact s_utf8 s_hex N.eqb Pos.eqb andb];
    rewrite ?hex_roundtrip; auto.
Qed.

Lemma fmatch_prefix p k : fmatch (FPrefix p) k = is_prefix p k.
Proof. reflexivity. Qed.
Lemma fmatch_exact p k : fmatch (FExact p) k = true <-> p = k.
Proof. cbn. apply bytes_eqb_eq. Qed.
