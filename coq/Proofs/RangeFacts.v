(** C08: the range scans of the table-level store, clamped to the namespace (after the D14
    repair), are exactly the ordered-map ranges of the document's own rows — for every range
    end, including ends that lie in other documents of the same store. *)
From Coq Require Import Lia Sorted.
From ID Require Import Base.Bytes Base.BytesFacts Model.Entry Model.Put Model.Tables Model.Bounds
  Model.FsStore Model.Replica Model.Ranger Proofs.EntryFacts Proofs.PutFacts Proofs.BoundsFacts
  Proofs.TblFacts Proofs.SortedTbl Proofs.FsPutFacts Proofs.ConvergeFacts Proofs.SplitFacts.

Lemma ns_start_ge ns n a k : ge_lo rid_cmp (namespace_start ns) (n, a, k) = true <-> ns <= n.
Proof.
  unfold namespace_start. rewrite ge_lo_incl. cbn [rid_lt]. rewrite lex_lt_nil_r.
  assert (Z0 : ~ a < 0) by lia. intuition (try lia; try discriminate).
Qed.
Lemma ns_end_le ns n a k : n <= MAX256 -> (le_hi rid_cmp (namespace_end ns) (n, a, k) = true <-> n <= ns).
Proof.
  intros Hn. unfold namespace_end. destruct (succ256 ns) as [n'|] eqn:E.
  - apply succ256_some in E. destruct E as [L ->]. rewrite le_hi_excl. cbn [rid_lt]. rewrite lex_lt_nil_r.
    assert (Z0 : ~ a < 0) by lia. intuition (try lia; try discriminate).
  - apply succ256_none in E. cbn [le_hi]. intuition lia.
Qed.

(** [RecordsBounds::clamped] is exact *)
Theorem clamped_exact ns lo hi n a k : n <= MAX256 ->
  in_bounds rid_cmp (fst (rb_clamped ns lo hi)) (snd (rb_clamped ns lo hi)) (n, a, k) = true <->
  n = ns /\ (match lo with Some x => ~ rid_lt (n, a, k) x | None => True end)
         /\ (match hi with Some y => rid_lt (n, a, k) y | None => True end).
Proof.
  intros Hn. unfold rb_clamped, in_bounds, rid_ns.
  assert (Z0 : ~ a < 0) by lia.
  destruct lo as [[[nx ax] kx]|], hi as [[[ny ay] ky]|]; cbn [fst snd orb].
  - destruct (N.ltb_spec ns nx) as [A|A]; cbn [orb]; [|destruct (N.ltb_spec ny ns) as [B|B]].
    + cbn [fst snd]. rewrite andb_true_iff, ge_lo_incl, le_hi_excl. cbn [rid_lt]. rewrite !lex_lt_nil_r. intuition (try lia; try discriminate).
    + cbn [fst snd]. rewrite andb_true_iff, ge_lo_incl, le_hi_excl. cbn [rid_lt]. rewrite !lex_lt_nil_r. intuition (try lia; try discriminate).
    + cbn [fst snd]. rewrite andb_true_iff.
      destruct (N.eqb_spec nx ns) as [->|NX]; destruct (N.eqb_spec ny ns) as [->|NY];
        rewrite ?ge_lo_incl, ?le_hi_excl, ?ns_start_ge, ?(ns_end_le ns n a k Hn); cbn [rid_lt];
        intuition (try lia; try discriminate).
  - destruct (N.ltb_spec ns nx) as [A|A]; cbn [orb fst snd].
    + rewrite andb_true_iff, ge_lo_incl, le_hi_excl. cbn [rid_lt]. rewrite !lex_lt_nil_r. intuition (try lia; try discriminate).
    + rewrite andb_true_iff. destruct (N.eqb_spec nx ns) as [->|NX];
        rewrite ?ge_lo_incl, ?ns_start_ge, ?(ns_end_le ns n a k Hn); cbn [rid_lt]; intuition (try lia; try discriminate).
  - destruct (N.ltb_spec ny ns) as [B|B]; cbn [orb fst snd].
    + rewrite andb_true_iff, ge_lo_incl, le_hi_excl. cbn [rid_lt]. rewrite !lex_lt_nil_r. intuition (try lia; try discriminate).
    + rewrite andb_true_iff. destruct (N.eqb_spec ny ns) as [->|NY];
        rewrite ?le_hi_excl, ?ns_start_ge, ?(ns_end_le ns n a k Hn); cbn [rid_lt]; intuition (try lia; try discriminate).
  - cbn [fst snd]. rewrite andb_true_iff, ns_start_ge, (ns_end_le ns n a k Hn). intuition lia.
Qed.

Lemma rc_lt_spec x y k : rid_cmp x y = Lt -> (range_contains x y k = true <-> ~ rid_lt k x /\ rid_lt k y).
Proof.
  intros C. unfold range_contains. rewrite C. rewrite <- rid_cmp_gt, <- rid_cmp_lt.
  destruct (rid_cmp x k); destruct (rid_cmp k y); intuition (try discriminate).
Qed.
Lemma rc_gt_spec x y k : rid_cmp x y = Gt -> (range_contains x y k = true <-> ~ rid_lt k x \/ rid_lt k y).
Proof.
  intros C. unfold range_contains. rewrite C. rewrite <- rid_cmp_gt, <- rid_cmp_lt.
  destruct (rid_cmp x k); destruct (rid_cmp k y); intuition (try discriminate).
Qed.

(** ---- list level ---- *)
Lemma filter_filter {A} (p q : A -> bool) l : filter p (filter q l) = filter (fun x => q x && p x) l.
Proof. induction l as [|a l IH]; cbn; auto. destruct (q a); cbn; [destruct (p a)|]; now rewrite IH. Qed.
Lemma filter_ext_Forall' {A} (P : A -> Prop) f g l : Forall P l -> (forall x, P x -> f x = g x) -> filter f l = filter g l.
Proof. induction 1 as [|a l Pa F IH]; intros H; cbn; auto. rewrite (H a Pa), IH; auto. Qed.
Lemma filter_map_rows (f : rid -> bool) (l : list (rid * rval)) :
  filter (fun e => f (entry_rid e)) (map row_entry l) = map row_entry (filter (fun kv => f (fst kv)) l).
Proof.
  induction l as [|[[[n a] k] [[t ln] h]] l IH]; cbn [map filter]; auto.
  change (entry_rid (row_entry (n, a, k, (t, ln, h)))) with (n, a, k). cbn [fst].
  destruct (f (n, a, k)); cbn [map]; now rewrite IH.
Qed.

(** for a sorted list, a filter whose members all precede the members of another filter *)
Lemma filter_app_sorted {V} (lt : (rid * V) -> (rid * V) -> Prop) (P : rid * V -> Prop) (p q : rid * V -> bool) l :
  StronglySorted lt l -> Forall P l ->
  (forall a b, P a -> P b -> lt a b -> q a = true -> p b = false) ->
  (forall a, P a -> p a = true -> q a = false) ->
  filter p l ++ filter q l = filter (fun x => p x || q x) l.
Proof.
  induction 1 as [|a l S IH F]; intros W ORD DIS; cbn [filter app]; auto.
  inversion W as [|? ? Wa Wl]; subst.
  destruct (p a) eqn:Pa; cbn [orb].
  - rewrite (DIS a Wa Pa). cbn [app]. f_equal. now apply IH.
  - destruct (q a) eqn:Qa.
    + assert (NP : forall b, In b l -> p b = false).
      { intros b Hb. rewrite Forall_forall in F, Wl. exact (ORD a b Wa (Wl b Hb) (F b Hb) Qa). }
      assert (E1 : filter p l = []).
      { clear -NP. induction l as [|b l IH]; cbn; auto. rewrite (NP b (or_introl eq_refl)). apply IH. intros c Hc. apply NP. now right. }
      rewrite E1. cbn [app]. f_equal.
      clear -NP. induction l as [|b l IH]; cbn; auto. rewrite (NP b (or_introl eq_refl)). cbn [orb].
      destruct (q b); [f_equal|]; apply IH; intros c Hc; apply NP; now right.
    + now apply IH.
Qed.

Lemma rc_same x z : range_contains x x z = true.
Proof. unfold range_contains. assert (E : rid_cmp x x = Eq) by now apply rid_cmp_eq. now rewrite E. Qed.

(** the scan of a range = the ordered-map range over the document's rows *)
Theorem get_range_exact ns T x y : wf_records T ->
  fs_get_range ns T x y = rng (fs_all ns T) x y.
Proof.
  intros [SR WF]. unfold fs_get_range, fs_get_range_gen, rng, fs_all, rec_range, tbl_range.
  rewrite filter_map_rows, filter_filter.
  destruct (rid_cmp x y) eqn:C.
  - (* whole ring *)
    f_equal. apply (filter_ext_Forall' wf_row); auto. intros r Wr.
    apply rid_cmp_eq in C. subst y. rewrite rc_same. now rewrite andb_true_r.
  - f_equal. apply (filter_ext_Forall' wf_row); auto. intros [[[n a] k] v] Wr. cbn [fst].
    pose proof Wr as (Hn & _). apply bool_eq_iff.
    rewrite (clamped_exact ns (Some x) (Some y) n a k Hn), andb_true_iff, (rc_lt_spec x y _ C).
    rewrite (rb_namespace_exact ns n a k Hn), N.eqb_eq. tauto.
  - rewrite <- map_app. f_equal.
    rewrite (filter_app_sorted (klt rid_cmp) wf_row); auto.
    + apply (filter_ext_Forall' wf_row); auto. intros [[[n a] k] v] Wr. cbn [fst].
      pose proof Wr as (Hn & _). apply bool_eq_iff.
      rewrite orb_true_iff, (clamped_exact ns None (Some y) n a k Hn), (clamped_exact ns (Some x) None n a k Hn).
      rewrite andb_true_iff, (rc_gt_spec x y _ C), (rb_namespace_exact ns n a k Hn), N.eqb_eq. tauto.
    + (* members of the second scan (>= x) never precede members of the first (< y < x) *)
      intros [[[n1 a1] k1] v1] [[[n2 a2] k2] v2] (H1 & _) (H2 & _) L Q. unfold klt in L. cbn [fst] in *.
      apply Bool.not_true_is_false. intros P.
      apply (clamped_exact ns (Some x) None n1 a1 k1 H1) in Q. apply (clamped_exact ns None (Some y) n2 a2 k2 H2) in P.
      destruct Q as (_ & Q & _). destruct P as (_ & _ & P). apply Q.
      apply rid_cmp_lt. apply rid_cmp_lt in P. apply rid_cmp_gt in C. apply rid_cmp_lt in C.
      eapply rid_cmp_lt_trans; [exact L|]. eapply rid_cmp_lt_trans; eauto.
    + intros [[[n a] k] v] (Hn & _) P. cbn [fst] in *. apply Bool.not_true_is_false. intros Q.
      apply (clamped_exact ns None (Some y) n a k Hn) in P. apply (clamped_exact ns (Some x) None n a k Hn) in Q.
      destruct Q as (_ & Q & _). destruct P as (_ & _ & P). apply Q.
      apply rid_cmp_lt. apply rid_cmp_lt in P. apply rid_cmp_gt in C. apply rid_cmp_lt in C.
      eapply rid_cmp_lt_trans; eauto.
Qed.
