(** C13: news detection. *)
From Coq Require Import Lia.
From ID Require Import Base.Bytes Model.Entry Model.Tables Model.Bounds Model.FsStore Model.Replica
  Model.Ranger Model.StoreOps.

Definition head_lookup (a : N) (ours : list (N * N)) : option N :=
  match find (fun o => fst o =? a) ours with Some o => Some (snd o) | None => None end.
Definition is_news (ours : list (N * N)) (h : N * N) : bool :=
  match head_lookup (fst h) ours with Some t => t <? snd h | None => true end.

(** the number reported is the number of authors for which the peer names a strictly newer
    timestamp or which are unknown here *)
Theorem has_news_counts theirs ours :
  has_news theirs ours = N.of_nat (length (filter (is_news ours) theirs)).
Proof.
  unfold has_news. f_equal. f_equal. apply filter_ext. intros h. unfold is_news, head_lookup.
  now destruct (find (fun o : N * N => fst o =? fst h) ours).
Qed.

(** no news exactly when every author the peer names is known here with a timestamp at least
    as new *)
Theorem no_news_iff theirs ours :
  has_news theirs ours = 0 <->
  forall a t, In (a, t) theirs -> exists t', head_lookup a ours = Some t' /\ t <= t'.
Proof.
  rewrite has_news_counts. split.
  - intros H a t I.
    assert (E : filter (is_news ours) theirs = []) by (destruct (filter _ _); [auto|cbn in H; lia]).
    assert (Hn : is_news ours (a, t) = false).
    { destruct (is_news ours (a, t)) eqn:Q; auto.
      assert (In (a, t) (filter (is_news ours) theirs)) by (apply filter_In; auto). rewrite E in H0. destruct H0. }
    unfold is_news in Hn. cbn [fst snd] in Hn. destruct (head_lookup a ours) as [t'|]; [|discriminate].
    exists t'. split; auto. apply N.ltb_ge in Hn. exact Hn.
  - intros H. assert (E : filter (is_news ours) theirs = []).
    { destruct (filter (is_news ours) theirs) as [|[a t] l] eqn:F; auto.
      assert (I : In (a, t) (filter (is_news ours) theirs)) by (rewrite F; now left).
      apply filter_In in I. destruct I as [I Q]. destruct (H a t I) as [t' [L Le]].
      unfold is_news in Q. cbn [fst snd] in Q. rewrite L in Q. apply N.ltb_lt in Q. lia. }
    now rewrite E.
Qed.
