(** C13: news detection. *)
From Coq Require Import Lia.
From ID Require Import Base.Bytes Model.Entry Model.Tables Model.Bounds Model.FsStore Model.Replica
  Model.Ranger Model.StoreOps.

Definition head_lookup (a : N) (ours : list (N * N)) : option N :=
  match find (fun o => fst o =? a) ours with Some o => Some (snd o) | None => None end.
Definition is_news (ours : list (N * N)) (h : N * N) : bool :=
  match head_lookup (fst h) ours with Some t => t <? snd h | None => true end.

(** the number reported is the number of authors for which the peer names a strictly newer
    timestamp or which are unknown here *)
Theorem has_news_counts theirs ours :
  has_news theirs ours = N.of_nat (length (filter (is_news ours) theirs)).
Proof.
  unfold has_news. f_equal. f_equal. apply filter_ext. intros h. unfold is_news, head_lookup.
  now destruct (find (fun o : N * N => fst o =? fst h) ours).
Qed.

(** no news exactly when every author the peer names is known here with a timestamp at least
    as new *)
Theorem no_news_iff theirs ours :
  has_news theirs ours = 0 <->
  forall a t, In (a, t) theirs -> exists t', head_lookup a ours = Some t' /\ t <= t'.
Proof.
  rewrite has_news_counts. split.
  - intros H a t I.
    assert (E : filter (is_news ours) theirs = []) by (destruct (filter _ _); [auto|cbn in H; lia]).
    assert (Hn : is_news ours (a, t) = false).
    { destruct (is_news ours (a, t)) eqn:Q; auto.
      assert (In (a, t) (filter (is_news ours) theirs)) by (apply filter_In; auto). rewrite E in H0. destruct H0. }
    unfold is_news in Hn. cbn [fst snd] in Hn. destruct (head_lookup a ours) as [t'|]; [|discriminate].
    exists t'. split; auto. apply N.ltb_ge in Hn. exact Hn.
  - intros H. assert (E : filter (is_news ours) theirs = []).
    { destruct (filter (is_news ours) theirs) as [|[a t] l] eqn:F; auto.
      assert (I : In (a, t) (filter (is_news ours) theirs)) by (rewrite F; now left).
      apply filter_In in I. destruct I as [I Q]. destruct (H a t I) as [t' [L Le]].
      unfold is_news in Q. cbn [fst snd] in Q. rewrite L in Q. apply N.ltb_lt in Q. lia. }
    now rewrite E.
Qed.

(** ** encoding under a size limit *)
From ID Require Import Model.Heads.

Lemma take_fitting_spec L : forall rest acc,
  items_size acc <= L ->
  let out := take_fitting L acc rest in
  items_size out <= L /\
  exists k, out = acc ++ firstn k rest /\
            match nth_error rest k with
            | Some nxt => L < items_size (out ++ [nxt])      (* maximal: the next head would not fit *)
            | None => True
            end.
Proof.
  induction rest as [|it rest IH]; intros acc F; cbn [take_fitting].
  - split; auto. exists 0%nat. rewrite app_nil_r. split; [reflexivity|exact I].
  - destruct (N.ltb_spec L (items_size (acc ++ [it]))) as [O|Fit].
    + split; auto. exists 0%nat. cbn. rewrite app_nil_r. split; auto.
    + destruct (IH (acc ++ [it]) Fit) as [F' [k [E M]]]. split; auto.
      exists (S k). cbn [firstn nth_error]. split; auto. rewrite E, <- app_assoc. reflexivity.
Qed.

(** under a limit that admits at least the empty list, the encoding never exceeds the limit, keeps
    a newest-first prefix of the heads, and that prefix is maximal *)
Theorem encode_limit heads L :
  items_size [] <= L ->
  let sorted := newest_first heads in
  let items := heads_encode_items false heads (Some L) in
  items_size items <= L /\
  exists k, items = firstn k sorted /\
            match nth_error sorted k with Some nxt => L < items_size (items ++ [nxt]) | None => True end.
Proof.
  intros F sorted items. unfold items, heads_encode_items. fold sorted.
  destruct (take_fitting_spec L sorted [] F) as [S [k [E M]]]. split; auto. exists k. auto.
Qed.

(** without a limit every head is encoded *)
Theorem encode_nolimit_all heads : heads_encode_items false heads None = newest_first heads.
Proof. reflexivity. Qed.

Lemma insert_desc_In x l y : In y (insert_desc x l) <-> y = x \/ In y l.
Proof.
  induction l as [|z l IH]; cbn; [intuition|].
  destruct (fst x ?= fst z) eqn:C1.
  - destruct (snd x ?= snd z) eqn:C2.
    + apply N.compare_eq in C1, C2. destruct x, z; cbn in *; subst. cbn. intuition.
    + cbn. rewrite IH. intuition.
    + cbn. intuition.
  - cbn. rewrite IH. intuition.
  - cbn. intuition.
Qed.
(** the encoded items are exactly the heads (as a set): nothing is dropped, nothing invented *)
Theorem newest_first_In heads t a : In (t, a) (newest_first heads) <-> In (a, t) heads.
Proof.
  unfold newest_first.
  assert (G : forall l acc, In (t, a) (fold_left (fun acc h => insert_desc (snd h, fst h) acc) l acc)
                            <-> In (t, a) acc \/ In (a, t) l).
  { induction l as [|[a0 t0] l IH]; intros acc; cbn [fold_left].
    - cbn. tauto.
    - rewrite IH, insert_desc_In. cbn [fst snd In]. split.
      + intros [[E|H]|H]; auto. inversion E; subst. auto.
      + intros [H|[E|H]]; auto. inversion E; subst. auto. }
  rewrite G. cbn. tauto.
Qed.

(** sensitivity: re-keying by timestamp (the pinned tree) loses an author even without a limit *)
Example encode_distinct_ts_refuted :
  let heads := [(2, 7); (3, 7)] in
  heads_encode_items true heads None = [(7, 3)] /\ heads_encode_items false heads None = [(7, 3); (7, 2)].
Proof. vm_compute. auto. Qed.
