(** C16 / C15 / C17: a document that does not exist shows no settings, at any time. Invariant of every
    store operation: the policy table and the peer table have rows only for documents that have a
    capability. *)
From Coq Require Import Lia.
From ID Require Import Base.Bytes Model.Entry Model.Tables Model.Bounds Model.FsStore Model.Replica Model.Ranger
  Model.StoreOps Proofs.TblFacts Proofs.StoreFacts Proofs.PeersFacts Proofs.CapFacts.

Definition SettingsInv (T : tables) : Prop :=
  forall ns, get_cap T ns = None ->
    tbl_get N.compare ns (t_policy T) = None /\ tbl_get N.compare ns (t_peers T) = None.

Lemma SettingsInv_observable T : SettingsInv T -> forall ns, get_cap T ns = None ->
  get_policy T ns = default_policy /\ get_sync_peers T ns = None /\ peers_of T ns = [].
Proof.
  intros I ns G. destruct (I ns G) as [P Q]. unfold get_policy, get_sync_peers, peers_of. now rewrite P, Q.
Qed.

Lemma SettingsInv_empty : SettingsInv empty_tables.
Proof. intros ns _. split; reflexivity. Qed.

(** tables that keep capabilities, policies and peers keep the invariant *)
Lemma SettingsInv_same T T' : t_namespaces T' = t_namespaces T -> t_policy T' = t_policy T -> t_peers T' = t_peers T ->
  SettingsInv T -> SettingsInv T'.
Proof. intros A B C I ns G. unfold get_cap in G. rewrite A in G. rewrite B, C. now apply I. Qed.

Lemma remove_settings T ns : SettingsInv T -> SettingsInv (remove_replica T ns).
Proof.
  intros I ns' G. unfold remove_replica, get_cap in *.
  cbn [t_namespaces t_policy t_peers set_records set_bykey set_latest set_namespaces set_peers set_policy] in *.
  destruct (N.eq_dec ns ns') as [->|NE].
  - split; apply (tbl_get_remove_same N.compare).
  - rewrite (tbl_get_remove_other N.compare Ncompare_eq) in G by auto.
    rewrite !(tbl_get_remove_other N.compare Ncompare_eq) by auto. now apply I.
Qed.

Lemma import_settings T ns c : SettingsInv T -> SettingsInv (fst (import_namespace T ns c)).
Proof.
  intros I ns' G.
  assert (PP : t_policy (fst (import_namespace T ns c)) = t_policy T /\ t_peers (fst (import_namespace T ns c)) = t_peers T).
  { unfold import_namespace. destruct (get_cap T ns) as [[sk|]|]; [|destruct c|]; split; reflexivity. }
  destruct PP as [-> ->]. apply I.
  destruct (N.eq_dec ns ns') as [->|NE].
  - exfalso. unfold import_namespace, get_cap in G.
    destruct (tbl_get N.compare ns' (t_namespaces T)) as [[sk|]|]; [|destruct c|]; cbn [fst t_namespaces set_namespaces] in G;
      rewrite (tbl_get_insert_same N.compare Ncompare_eq) in G; discriminate.
  - rewrite <- G. symmetry. apply import_touches_only_named. exact NE.
Qed.

Section Steps.
  Variable ks : bytes -> option bytes.
  Variables EH MF CAP : N.
  Notation sstep := (store_step ks EH MF CAP).

  Lemma insert_entry_settings T now ns w o : SettingsInv T -> SettingsInv (fst (fst (insert_entry ks EH MF T now ns w o))).
  Proof.
    intros I. unfold insert_entry. destruct (validate_entry _ _ _ _ _); [exact I|].
    assert (S3 : forall T', T' = fst (fs_put ks EH T (w_entry w)) -> SettingsInv T').
    { intros T' ->. apply (SettingsInv_same T); auto.
      - apply fs_put_namespaces.
      - unfold fs_put. destruct (existsb _ _); cbn [fst]; auto.
        unfold fs_remove_prefix_filtered. destruct (tbl_extract_if _ _ _ _ _) as [r n]. cbn [fst].
        unfold fs_entry_put. cbn. destruct (tbl_get pair_cmp _ _) as [[ts kk]|]; [destruct (ts <=? e_ts (w_entry w))|]; reflexivity.
      - unfold fs_put. destruct (existsb _ _); cbn [fst]; auto.
        unfold fs_remove_prefix_filtered. destruct (tbl_extract_if _ _ _ _ _) as [r n]. cbn [fst].
        unfold fs_entry_put. cbn. destruct (tbl_get pair_cmp _ _) as [[ts kk]|]; [destruct (ts <=? e_ts (w_entry w))|]; reflexivity. }
    destruct (fs_put ks EH T (w_entry w)) as [T' [|n]] eqn:P; cbn [fst]; auto; apply S3; reflexivity.
  Qed.

  Theorem step_settings s o : SettingsInv (s_tables s) -> SettingsInv (s_tables (fst (sstep s o))).
  Proof.
    intros I. destruct o; cbn [store_step]; try exact I.
    - pose proof (import_settings (s_tables s) ns secret I) as P. destruct (import_namespace (s_tables s) ns secret) as [T' r]. exact P.
    - destruct (get_cap _ _); exact I.
    - destruct (mem ns (s_open s)); [exact I|]. cbn [fst s_tables]. now apply remove_settings.
    - destruct (writable _ _); [|exact I]. unfold replica_insert.
      destruct ((len =? 0) || (hash =? EH)); [exact I|]. destruct (negb b); [exact I|].
      pose proof (insert_entry_settings (s_tables s) now ns (mkW (mkE ns au k now len hash) true) OLocal I) as P.
      destruct (insert_entry _ _ _ _ _ _ _ _) as [[T' r] evs]. exact P.
    - destruct (writable _ _); [|exact I]. unfold replica_delete_prefix. destruct (negb b); [exact I|].
      pose proof (insert_entry_settings (s_tables s) now ns (mkW (mkE ns au k now 0 EH) true) OLocal I) as P.
      destruct (insert_entry _ _ _ _ _ _ _ _) as [[T' r] evs]. exact P.
    - destruct (writable _ _); [|exact I]. unfold replica_insert_remote.
      destruct (negb (validate_empty EH (w_entry (mkW e sig_ok)))); [exact I|].
      pose proof (insert_entry_settings (s_tables s) now ns (mkW e sig_ok) (OSync 0 0) I) as P.
      destruct (insert_entry _ _ _ _ _ _ _ _) as [[T' r] evs]. exact P.
    - (* raw put *)
      pose proof (insert_entry_settings (s_tables s) 0 0 (mkW e true) OLocal) as _.
      assert (P : SettingsInv (fst (fs_put ks EH (s_tables s) e))).
      { apply (SettingsInv_same (s_tables s)); auto.
        - apply fs_put_namespaces.
        - unfold fs_put. destruct (existsb _ _); cbn [fst]; auto.
          unfold fs_remove_prefix_filtered. destruct (tbl_extract_if _ _ _ _ _) as [r n]. cbn [fst].
          unfold fs_entry_put. cbn. destruct (tbl_get pair_cmp _ _) as [[ts kk]|]; [destruct (ts <=? e_ts e)|]; reflexivity.
        - unfold fs_put. destruct (existsb _ _); cbn [fst]; auto.
          unfold fs_remove_prefix_filtered. destruct (tbl_extract_if _ _ _ _ _) as [r n]. cbn [fst].
          unfold fs_entry_put. cbn. destruct (tbl_get pair_cmp _ _) as [[ts kk]|]; [destruct (ts <=? e_ts e)|]; reflexivity. }
      destruct (fs_put ks EH (s_tables s) e) as [T' out]. exact P.
    - (* register peer *)
      destruct (get_cap (s_tables s) ns) eqn:GC.
      + destruct (register_useful_peer_tables CAP (s_tables s) ns peer (s_clock s)) as (T' & E & PO & OTH & SB); [congruence|].
        rewrite E. cbn [fst s_tables]. destruct SB as (_ & _ & _ & NSP & POL & _).
        intros ns' G. unfold get_cap in G. rewrite NSP in G. fold (get_cap (s_tables s) ns') in G.
        destruct (I ns' G) as [P Q]. rewrite POL. split; [exact P|].
        assert (NE : ns <> ns') by (intros ->; congruence).
        specialize (OTH ns' NE). unfold peers_of in OTH. rewrite Q in OTH.
        destruct (tbl_get N.compare ns' (t_peers T')) as [l|] eqn:GP; [|reflexivity].
        (* the table holds a row for ns' only if it did before: peer tables change at ns only *)
        exfalso. clear - GP Q E NE. unfold register_useful_peer in E.
        destruct (get_cap (s_tables s) ns); [|discriminate].
        assert (SV : forall T0 l0, tbl_get N.compare ns' (t_peers T0) = None -> tbl_get N.compare ns' (t_peers (set_vals T0 ns l0)) = None).
        { intros T0 l0 H. unfold set_vals. destruct l0; cbn [t_peers set_peers].
          - now rewrite (tbl_get_remove_other N.compare Ncompare_eq).
          - now rewrite (tbl_get_insert_other N.compare Ncompare_eq). }
        destruct (peers_of (s_tables s) ns) as [|[on op] rest].
        * inversion E; subst. unfold peer_insert in GP. rewrite SV in GP; [discriminate|exact Q].
        * destruct (op =? peer).
          -- inversion E; subst. unfold peer_insert, peer_remove in GP. rewrite SV in GP; [discriminate|]. now apply SV.
          -- destruct (find _ rest) as [[pn pp]|].
             ++ inversion E; subst. unfold peer_insert, peer_remove in GP. rewrite SV in GP; [discriminate|]. now apply SV.
             ++ destruct (CAP <? _); inversion E; subst; unfold peer_insert, peer_remove in GP.
                ** rewrite SV in GP; [discriminate|]. now apply SV.
                ** rewrite SV in GP; [discriminate|exact Q].
      + rewrite (register_unknown_fails CAP (s_tables s) ns peer (s_clock s) GC). exact I.
    - (* set policy *)
      destruct (get_cap (s_tables s) ns) eqn:GC; [|exact I]. cbn [fst s_tables].
      intros ns' G. unfold get_cap in G. cbn [t_namespaces set_policy] in G. fold (get_cap (s_tables s) ns') in G.
      destruct (I ns' G) as [P Q]. cbn [t_policy t_peers set_policy]. split; [|exact Q].
      assert (NE : ns <> ns') by (intros ->; congruence).
      now rewrite (tbl_get_insert_other N.compare Ncompare_eq).
    - (* reopen *)
      cbn [fst s_tables]. destruct (open_store_settings (s_tables s)) as (P & Q & R).
      apply (SettingsInv_same (s_tables s)); auto.
    - cbv zeta. cbn [fst s_tables].
      set (T2 := if bykey then set_bykey (if latest then set_latest (s_tables s) [] else s_tables s) [] else (if latest then set_latest (s_tables s) [] else s_tables s)).
      destruct (open_store_settings T2) as (P & Q & R).
      apply (SettingsInv_same (s_tables s));
        [rewrite R; unfold T2; destruct latest, bykey; reflexivity
        |rewrite Q; unfold T2; destruct latest, bykey; reflexivity
        |rewrite P; unfold T2; destruct latest, bykey; reflexivity
        |exact I].
  Qed.

  Theorem history_settings ops : forall s, SettingsInv (s_tables s) ->
    SettingsInv (s_tables (fold_left (fun s o => fst (sstep s o)) ops s)).
  Proof. induction ops as [|o ops IH]; intros s I; cbn [fold_left]; auto. apply IH. now apply step_settings. Qed.

  (** what touches the policy table at all; and a document's policy changes only by setting it or
      removing the document *)
  Definition touches_policy (o : sop) : bool :=
    match o with SSetPolicy _ _ | SRemove _ => true | _ => false end.

  Lemma insert_entry_policy T now ns w o : t_policy (fst (fst (insert_entry ks EH MF T now ns w o))) = t_policy T.
  Proof.
    unfold insert_entry. destruct (validate_entry _ _ _ _ _); [reflexivity|].
    assert (P : t_policy (fst (fs_put ks EH T (w_entry w))) = t_policy T).
    { unfold fs_put. destruct (existsb _ _); cbn [fst]; auto.
      unfold fs_remove_prefix_filtered. destruct (tbl_extract_if _ _ _ _ _) as [r n]. cbn [fst].
      unfold fs_entry_put. cbn. destruct (tbl_get pair_cmp _ _) as [[ts kk]|]; [destruct (ts <=? e_ts (w_entry w))|]; reflexivity. }
    destruct (fs_put ks EH T (w_entry w)) as [T' [|n]]; cbn [fst] in *; auto.
  Qed.

  Theorem step_keeps_policies s o : touches_policy o = false ->
    t_policy (s_tables (fst (sstep s o))) = t_policy (s_tables s).
  Proof.
    intros NT. destruct o; try discriminate; cbn [store_step]; try reflexivity.
    - unfold import_namespace. destruct (get_cap (s_tables s) ns) as [[sk|]|]; [|destruct secret|]; reflexivity.
    - destruct (get_cap _ _); reflexivity.
    - destruct (writable _ _); [|reflexivity]. unfold replica_insert.
      destruct ((len =? 0) || (hash =? EH)); [reflexivity|]. destruct (negb b); [reflexivity|].
      pose proof (insert_entry_policy (s_tables s) now ns (mkW (mkE ns au k now len hash) true) OLocal) as P.
      destruct (insert_entry _ _ _ _ _ _ _ _) as [[T' r] evs]. exact P.
    - destruct (writable _ _); [|reflexivity]. unfold replica_delete_prefix. destruct (negb b); [reflexivity|].
      pose proof (insert_entry_policy (s_tables s) now ns (mkW (mkE ns au k now 0 EH) true) OLocal) as P.
      destruct (insert_entry _ _ _ _ _ _ _ _) as [[T' r] evs]. exact P.
    - destruct (writable _ _); [|reflexivity]. unfold replica_insert_remote.
      destruct (negb (validate_empty EH (w_entry (mkW e sig_ok)))); [reflexivity|].
      pose proof (insert_entry_policy (s_tables s) now ns (mkW e sig_ok) (OSync 0 0)) as P.
      destruct (insert_entry _ _ _ _ _ _ _ _) as [[T' r] evs]. exact P.
    - assert (P : t_policy (fst (fs_put ks EH (s_tables s) e)) = t_policy (s_tables s)).
      { unfold fs_put. destruct (existsb _ _); cbn [fst]; auto.
        unfold fs_remove_prefix_filtered. destruct (tbl_extract_if _ _ _ _ _) as [r n]. cbn [fst].
        unfold fs_entry_put. cbn. destruct (tbl_get pair_cmp _ _) as [[ts kk]|]; [destruct (ts <=? e_ts e)|]; reflexivity. }
      destruct (fs_put ks EH (s_tables s) e) as [T' out]. exact P.
    - destruct (get_cap (s_tables s) ns) eqn:GC.
      + destruct (register_useful_peer_tables CAP (s_tables s) ns peer (s_clock s)) as (T' & E & _ & _ & SB); [congruence|].
        rewrite E. now destruct SB as (_ & _ & _ & _ & POL & _).
      + now rewrite (register_unknown_fails CAP (s_tables s) ns peer (s_clock s) GC).
    - cbn [fst s_tables]. now destruct (open_store_settings (s_tables s)) as (_ & Q & _).
    - cbv zeta. cbn [fst s_tables].
      match goal with |- t_policy (open_store ?T2) = _ => destruct (open_store_settings T2) as (_ & Q & _); rewrite Q end.
      destruct latest, bykey; reflexivity.
  Qed.

  Theorem step_keeps_policy s o ns : (forall p, o <> SSetPolicy ns p) -> o <> SRemove ns ->
    get_policy (s_tables (fst (sstep s o))) ns = get_policy (s_tables s) ns.
  Proof.
    intros NS NR. destruct (touches_policy o) eqn:TP.
    - destruct o; try discriminate; cbn [store_step].
      + destruct (mem ns0 (s_open s)); [reflexivity|]. cbn [fst s_tables].
        assert (NE : ns0 <> ns) by congruence. unfold get_policy, remove_replica.
        cbn [t_policy set_records set_bykey set_latest set_namespaces set_peers set_policy].
        now rewrite (tbl_get_remove_other N.compare Ncompare_eq).
      + destruct (get_cap (s_tables s) ns0); [|reflexivity]. cbn [fst s_tables].
        assert (NE : ns0 <> ns) by (intros ->; apply (NS p); reflexivity).
        now apply policy_get_other.
    - unfold get_policy. now rewrite (step_keeps_policies s o TP).
  Qed.

  Theorem history_keeps_policy ops : forall s ns,
    Forall (fun o => (forall p, o <> SSetPolicy ns p) /\ o <> SRemove ns) ops ->
    get_policy (s_tables (fold_left (fun s o => fst (sstep s o)) ops s)) ns = get_policy (s_tables s) ns.
  Proof.
    induction ops as [|o ops IH]; intros s ns F; cbn [fold_left]; auto.
    inversion F as [|? ? [A B] F']; subst. rewrite IH by auto. now apply step_keeps_policy.
  Qed.

  (** the same for the useful-peer list: only a registration for this document, or its removal *)
  Definition touches_peers (o : sop) : bool :=
    match o with SRegisterPeer _ _ | SRemove _ => true | _ => false end.

  Lemma insert_entry_peers T now ns w o : t_peers (fst (fst (insert_entry ks EH MF T now ns w o))) = t_peers T.
  Proof.
    unfold insert_entry. destruct (validate_entry _ _ _ _ _); [reflexivity|].
    assert (P : t_peers (fst (fs_put ks EH T (w_entry w))) = t_peers T).
    { unfold fs_put. destruct (existsb _ _); cbn [fst]; auto.
      unfold fs_remove_prefix_filtered. destruct (tbl_extract_if _ _ _ _ _) as [r n]. cbn [fst].
      unfold fs_entry_put. cbn. destruct (tbl_get pair_cmp _ _) as [[ts kk]|]; [destruct (ts <=? e_ts (w_entry w))|]; reflexivity. }
    destruct (fs_put ks EH T (w_entry w)) as [T' [|n]]; cbn [fst] in *; auto.
  Qed.

  Theorem step_keeps_peer_table s o : touches_peers o = false ->
    t_peers (s_tables (fst (sstep s o))) = t_peers (s_tables s).
  Proof.
    intros NT. destruct o; try discriminate; cbn [store_step]; try reflexivity.
    - unfold import_namespace. destruct (get_cap (s_tables s) ns) as [[sk|]|]; [|destruct secret|]; reflexivity.
    - destruct (get_cap _ _); reflexivity.
    - destruct (writable _ _); [|reflexivity]. unfold replica_insert.
      destruct ((len =? 0) || (hash =? EH)); [reflexivity|]. destruct (negb b); [reflexivity|].
      pose proof (insert_entry_peers (s_tables s) now ns (mkW (mkE ns au k now len hash) true) OLocal) as P.
      destruct (insert_entry _ _ _ _ _ _ _ _) as [[T' r] evs]. exact P.
    - destruct (writable _ _); [|reflexivity]. unfold replica_delete_prefix. destruct (negb b); [reflexivity|].
      pose proof (insert_entry_peers (s_tables s) now ns (mkW (mkE ns au k now 0 EH) true) OLocal) as P.
      destruct (insert_entry _ _ _ _ _ _ _ _) as [[T' r] evs]. exact P.
    - destruct (writable _ _); [|reflexivity]. unfold replica_insert_remote.
      destruct (negb (validate_empty EH (w_entry (mkW e sig_ok)))); [reflexivity|].
      pose proof (insert_entry_peers (s_tables s) now ns (mkW e sig_ok) (OSync 0 0)) as P.
      destruct (insert_entry _ _ _ _ _ _ _ _) as [[T' r] evs]. exact P.
    - assert (P : t_peers (fst (fs_put ks EH (s_tables s) e)) = t_peers (s_tables s)).
      { unfold fs_put. destruct (existsb _ _); cbn [fst]; auto.
        unfold fs_remove_prefix_filtered. destruct (tbl_extract_if _ _ _ _ _) as [r n]. cbn [fst].
        unfold fs_entry_put. cbn. destruct (tbl_get pair_cmp _ _) as [[ts kk]|]; [destruct (ts <=? e_ts e)|]; reflexivity. }
      destruct (fs_put ks EH (s_tables s) e) as [T' out]. exact P.
    - destruct (get_cap _ _); reflexivity.
    - cbn [fst s_tables]. now destruct (open_store_settings (s_tables s)) as (P & _ & _).
    - cbv zeta. cbn [fst s_tables].
      match goal with |- t_peers (open_store ?T2) = _ => destruct (open_store_settings T2) as (P & _ & _); rewrite P end.
      destruct latest, bykey; reflexivity.
  Qed.

  Theorem step_keeps_peers s o ns : (forall p, o <> SRegisterPeer ns p) -> o <> SRemove ns ->
    peers_of (s_tables (fst (sstep s o))) ns = peers_of (s_tables s) ns.
  Proof.
    intros NS NR. destruct (touches_peers o) eqn:TP.
    - destruct o; try discriminate; cbn [store_step].
      + destruct (mem ns0 (s_open s)); [reflexivity|]. cbn [fst s_tables].
        assert (NE : ns0 <> ns) by congruence. unfold peers_of, remove_replica.
        cbn [t_peers set_records set_bykey set_latest set_namespaces set_peers set_policy].
        now rewrite (tbl_get_remove_other N.compare Ncompare_eq).
      + assert (NE : ns0 <> ns) by (intros ->; apply (NS peer); reflexivity).
        destruct (get_cap (s_tables s) ns0) eqn:GC.
        * destruct (register_useful_peer_tables CAP (s_tables s) ns0 peer (s_clock s)) as (T' & E & _ & OTH & _); [congruence|].
          rewrite E. cbn [fst s_tables]. now apply OTH.
        * now rewrite (register_unknown_fails CAP (s_tables s) ns0 peer (s_clock s) GC).
    - unfold peers_of. now rewrite (step_keeps_peer_table s o TP).
  Qed.

  Theorem history_keeps_peers ops : forall s ns,
    Forall (fun o => (forall p, o <> SRegisterPeer ns p) /\ o <> SRemove ns) ops ->
    get_sync_peers (s_tables (fold_left (fun s o => fst (sstep s o)) ops s)) ns = get_sync_peers (s_tables s) ns.
  Proof.
    induction ops as [|o ops IH]; intros s ns F; cbn [fold_left]; auto.
    inversion F as [|? ? [A B] F']; subst. rewrite IH by auto. unfold get_sync_peers. now rewrite step_keeps_peers.
  Qed.

  Theorem absent_documents_show_no_settings ops s : SettingsInv (s_tables s) ->
    let T := s_tables (fold_left (fun s o => fst (sstep s o)) ops s) in
    forall ns, get_cap T ns = None ->
      get_policy T ns = default_policy /\ get_sync_peers T ns = None /\ peers_of T ns = [].
  Proof. intros I T ns G. apply SettingsInv_observable; auto. now apply history_settings. Qed.
End Steps.
