(** The table-level [put] of store/fs.rs refines the abstract [put] (C02/C08), and the head table
    always holds the per-author maximum (C13). *)
From Coq Require Import Lia Sorted.
From ID Require Import Base.Bytes Base.BytesFacts Model.Entry Model.Put Model.Tables Model.Bounds Model.FsStore
  Proofs.EntryFacts Proofs.PutFacts Proofs.BoundsFacts Proofs.TblFacts Proofs.SortedTbl.

(** ---- the order of record identifiers ---- *)
Lemma rid_cmp_eq a b : rid_cmp a b = Eq <-> a = b.
Proof.
  destruct a as [[n1 a1] k1], b as [[n2 a2] k2]. unfold rid_cmp, id_cmp.
  destruct (N.compare_spec n1 n2) as [->|L|G].
  - destruct (N.compare_spec a1 a2) as [->|L|G].
    + rewrite lex_cmp_eq. split; [now intros ->|intros H; now inversion H].
    + split; [discriminate|intros H; inversion H; lia].
    + split; [discriminate|intros H; inversion H; lia].
  - split; [discriminate|intros H; inversion H; lia].
  - split; [discriminate|intros H; inversion H; lia].
Qed.
Lemma rid_cmp_lt_trans a b c : rid_cmp a b = Lt -> rid_cmp b c = Lt -> rid_cmp a c = Lt.
Proof.
  rewrite !rid_cmp_lt. destruct a as [[n1 a1] k1], b as [[n2 a2] k2], c as [[n3 a3] k3]. cbn.
  intros [H1|[-> [H1|[-> H1]]]] [H2|[E2 [H2|[E3 H2]]]]; subst; try (left; lia); try (right; split; auto; left; lia).
  right. split; auto. right. split; auto. eapply lex_lt_trans; eauto.
Qed.
Lemma rid_cmp_gt_lt a b : rid_cmp a b = Gt <-> rid_cmp b a = Lt.
Proof. rewrite rid_cmp_gt, rid_cmp_lt. tauto. Qed.

Definition rsorted := sorted (V := rval) rid_cmp.

(** well-formed records table: sorted by id, 32-byte ids, byte-valued keys *)
Definition wf_row (r : rid * rval) : Prop :=
  let '((ns, au, k), _) := r in ns <= MAX256 /\ au <= MAX256 /\ wf_bytes k.
Definition wf_records (T : tables) : Prop := rsorted (t_records T) /\ Forall wf_row (t_records T).
Definition wf_entry (e : entry) : Prop := e_ns e <= MAX256 /\ e_author e <= MAX256 /\ wf_bytes (e_key e).

Definition recs (T : tables) : list entry := map row_entry (t_records T).

Lemma row_entry_inv r : (entry_rid (row_entry r), entry_rval (row_entry r)) = r.
Proof. destruct r as [[[n a] k] [[t l] h]]. reflexivity. Qed.
Lemma in_recs T e : In e (recs T) <-> In (entry_rid e, entry_rval e) (t_records T).
Proof.
  unfold recs. rewrite in_map_iff. split.
  - intros [r [<- I]]. now rewrite row_entry_inv.
  - intros I. exists (entry_rid e, entry_rval e). split; auto. destruct e; reflexivity.
Qed.

Lemma get_exact_spec EH T ns au k : rsorted (t_records T) ->
  forall e, fs_get_exact EH T ns au k true = Some e <-> In e (recs T) /\ entry_rid e = (ns, au, k).
Proof.
  intros S e. unfold fs_get_exact. cbn [orb].
  destruct (tbl_get rid_cmp (ns, au, k) (t_records T)) as [v|] eqn:G.
  - apply (tbl_get_sorted rid_cmp rid_cmp_eq _ S) in G. split.
    + intros H; inversion H; subst. destruct v as [[t l] h]. split.
      * apply in_recs. exact G.
      * reflexivity.
    + intros [I E]. apply in_recs in I. rewrite E in I.
      f_equal. rewrite (sorted_keys_unique rid_cmp rid_cmp_eq _ S _ _ _ G I).
      destruct e as [n a kk t l h]. cbn in E. inversion E; subst. reflexivity.
  - split; [discriminate|]. intros [I E]. apply in_recs in I. rewrite E in I.
    apply (tbl_get_sorted rid_cmp rid_cmp_eq _ S) in I. congruence.
Qed.

(** the prefixes of [k], longest first, are [k], [pop k], [pop (pop k)], ..., [[]] *)
Lemma is_prefix_cases p k : is_prefix p k = true <-> p = k \/ (k <> [] /\ is_prefix p (pop k) = true).
Proof.
  split.
  - intros H. apply is_prefix_app in H. destruct H as [s ->].
    destruct s as [|x s] using rev_ind; [left; now rewrite app_nil_r|].
    right. split.
    + intros E. apply (f_equal (@length N)) in E. rewrite !app_length in E. cbn in E. lia.
    + rewrite app_assoc, pop_app. apply is_prefix_app. eauto.
  - intros [->|[NE H]]; [apply is_prefix_refl|]. eapply is_prefix_trans; [exact H|apply pop_prefix].
Qed.

Lemma parents_loop_spec EH T ns au : rsorted (t_records T) ->
  forall fuel k acc, (length k < fuel)%nat ->
  forall e, In e (parents_loop EH fuel T ns au k acc) <->
            In e acc \/ (In e (recs T) /\ e_ns e = ns /\ e_author e = au /\ is_prefix (e_key e) k = true).
Proof.
  intros S. induction fuel as [|f IH]; intros k acc L e; [lia|].
  cbn [parents_loop].
  set (acc' := match fs_get_exact EH T ns au k true with Some x => x :: acc | None => acc end).
  assert (A : In e acc' <-> In e acc \/ (In e (recs T) /\ entry_rid e = (ns, au, k))).
  { unfold acc'. destruct (fs_get_exact EH T ns au k true) as [x|] eqn:G.
    - apply (get_exact_spec EH T ns au k S) in G. cbn [In]. split.
      + intros [<-|H]; auto.
      + intros [H|[I E]]; auto. left. destruct G as [Gx Ex].
        apply in_recs in Gx, I. rewrite Ex in Gx. rewrite E in I.
        pose proof (sorted_keys_unique rid_cmp rid_cmp_eq _ S _ _ _ Gx I) as EV.
        destruct x, e; cbn in *. inversion Ex; inversion E; inversion EV; subst. reflexivity.
    - split; auto. intros [H|[I E]]; auto. exfalso.
      assert (fs_get_exact EH T ns au k true = Some e) by (apply get_exact_spec; auto). congruence. }
  assert (RID : forall x, entry_rid x = (ns, au, k) <-> e_ns x = ns /\ e_author x = au /\ e_key x = k).
  { intros x. destruct x; cbn. split; [intros H; inversion H; auto | intros (-> & -> & ->); auto]. }
  destruct k as [|b k0].
  - rewrite A, RID. split.
    + intros [H|(I & N1 & N2 & K)]; auto. right. repeat split; auto. rewrite K. reflexivity.
    + intros [H|(I & N1 & N2 & P)]; auto. right. repeat split; auto.
      destruct (e_key e); [reflexivity|discriminate].
  - rewrite IH.
    + rewrite A, RID, (is_prefix_cases (e_key e) (b :: k0)). split.
      * intros [[H|(I & N1 & N2 & K)]|(I & N1 & N2 & P)]; auto.
        -- right. repeat split; auto.
        -- right. repeat split; auto. right. split; [discriminate|auto].
      * intros [H|(I & N1 & N2 & [K|[_ P]])]; auto.
        left. right. auto.
    + rewrite pop_length. cbn [length] in *. lia.
Qed.

Theorem parents_exact EH T ns au k : rsorted (t_records T) ->
  forall e, In e (fs_prefixes_of EH T ns au k) <->
            In e (recs T) /\ e_ns e = ns /\ e_author e = au /\ is_prefix (e_key e) k = true.
Proof.
  intros S e. unfold fs_prefixes_of. rewrite (parents_loop_spec EH T ns au S); [|lia]. cbn. tauto.
Qed.

Lemma same_id_rel_or' e c : same_id e c = true -> rel e c = true \/ rel c e = true.
Proof.
  intros H. apply same_id_spec in H. destruct H as (N1 & A1 & K1).
  destruct (val_leb_total c e) as [L|L]; [left|right]; apply rel_spec; repeat split; auto;
    rewrite K1 || rewrite <- K1; apply is_prefix_refl.
Qed.

(** ---- removal by author-prefix bounds = removal of the dominated entries ---- *)
Lemma rel_row_spec e r : wf_row r ->
  (let '(k, v) := r in
   in_bounds rid_cmp (fst (rb_author_prefix prefix_succ (e_ns e) (e_author e) (e_key e)))
                     (snd (rb_author_prefix prefix_succ (e_ns e) (e_author e) (e_key e))) k
   && val_leb (row_entry (k, v)) e) = rel e (row_entry r).
Proof.
  destruct r as [[[n a] k] [[t l] h]]. intros (Wn & Wa & Wk).
  rewrite rb_author_prefix_exact by auto. unfold rel. cbn [row_entry e_ns e_author e_key].
  rewrite (N.eqb_sym n (e_ns e)), (N.eqb_sym a (e_author e)). reflexivity.
Qed.

Lemma recs_remove T e : Forall wf_row (t_records T) ->
  let T1 := fst (fs_remove_prefix_filtered prefix_succ T (e_ns e) (e_author e) (e_key e) (fun c => val_leb c e)) in
  recs T1 = filter (fun c => negb (rel e c)) (recs T) /\
  snd (fs_remove_prefix_filtered prefix_succ T (e_ns e) (e_author e) (e_key e) (fun c => val_leb c e))
    = nlen (filter (fun c => rel e c) (recs T)) /\
  t_records T1 = filter (fun r => negb (rel e (row_entry r))) (t_records T).
Proof.
  intros W. unfold fs_remove_prefix_filtered, tbl_extract_if, recs, nlen. cbn [fst snd t_records set_records].
  assert (FE : forall (f g : rid * rval -> bool) l, Forall wf_row l -> (forall x, wf_row x -> f x = g x) -> filter f l = filter g l).
  { intros f g l F H. induction F as [|x l Px Fl IH]; cbn; auto. rewrite (H x Px), IH. reflexivity. }
  assert (E1 : filter (fun kv : rid * rval =>
                 negb (in_bounds rid_cmp (fst (rb_author_prefix prefix_succ (e_ns e) (e_author e) (e_key e)))
                                 (snd (rb_author_prefix prefix_succ (e_ns e) (e_author e) (e_key e))) (fst kv)
                       && val_leb (row_entry (fst kv, snd kv)) e)) (t_records T)
               = filter (fun r => negb (rel e (row_entry r))) (t_records T)).
  { apply FE; auto. intros [k v] Wr. cbn [fst snd]. f_equal. exact (rel_row_spec e (k, v) Wr). }
  assert (E2 : filter (fun kv : rid * rval =>
                 in_bounds rid_cmp (fst (rb_author_prefix prefix_succ (e_ns e) (e_author e) (e_key e)))
                           (snd (rb_author_prefix prefix_succ (e_ns e) (e_author e) (e_key e))) (fst kv)
                 && val_leb (row_entry (fst kv, snd kv)) e) (t_records T)
               = filter (fun r => rel e (row_entry r)) (t_records T)).
  { apply FE; auto. intros [k v] Wr. cbn [fst snd]. exact (rel_row_spec e (k, v) Wr). }
  rewrite E1, E2. repeat split.
  - clear. induction (t_records T) as [|r l IH]; cbn; auto. destruct (rel e (row_entry r)); cbn; now rewrite IH.
  - f_equal. clear. induction (t_records T) as [|r l IH]; cbn; auto. destruct (rel e (row_entry r)); cbn; now rewrite IH.
Qed.

Lemma entry_put_records T e :
  t_records (fs_entry_put T e) = tbl_insert rid_cmp (entry_rid e) (entry_rval e) (t_records T).
Proof.
  unfold fs_entry_put. cbn. destruct (tbl_get pair_cmp _ _) as [[ts k]|]; [destruct (ts <=? e_ts e)|]; reflexivity.
Qed.

Lemma wf_row_entry e : wf_entry e -> wf_row (entry_rid e, entry_rval e).
Proof. destruct e. unfold wf_entry, wf_row. cbn. tauto. Qed.

(** [ranger::Store::put] over the tables refines the abstract [put]: same outcome, same content *)
Theorem fs_put_refines EH T e : wf_records T -> wf_entry e ->
  snd (fs_put prefix_succ EH T e) = snd (put (recs T) e) /\
  (forall x, In x (recs (fst (fs_put prefix_succ EH T e))) <-> In x (fst (put (recs T) e))) /\
  wf_records (fst (fs_put prefix_succ EH T e)).
Proof.
  intros [S W] We. unfold fs_put, put.
  assert (EX : existsb (fun p => val_leb e p) (fs_prefixes_of EH T (e_ns e) (e_author e) (e_key e))
               = existsb (fun p => rel p e) (recs T)).
  { apply bool_eq_iff. rewrite !existsb_exists. split.
    - intros [p [Ip V]]. apply (parents_exact EH T _ _ _ S) in Ip. destruct Ip as (I & N1 & N2 & P).
      exists p. split; auto. apply rel_spec. auto.
    - intros [p [Ip R]]. apply rel_spec in R. destruct R as (N1 & N2 & P & V).
      exists p. split; auto. apply (parents_exact EH T _ _ _ S). auto. }
  rewrite EX. destruct (existsb (fun p => rel p e) (recs T)) eqn:E; cbn [fst snd].
  - repeat split; auto; tauto.
  - destruct (recs_remove T e W) as (R1 & CNT & TR).
    destruct (fs_remove_prefix_filtered prefix_succ T (e_ns e) (e_author e) (e_key e) (fun c => val_leb c e)) as [T1 n] eqn:RM.
    cbn [fst snd] in *. subst n.
    assert (S1 : rsorted (t_records T1)) by (rewrite TR; now apply sorted_filter).
    assert (W1 : Forall wf_row (t_records T1)).
    { rewrite TR. apply Forall_forall. intros r Hr. apply filter_In in Hr. rewrite Forall_forall in W. apply W. tauto. }
    destruct (tbl_insert_spec rid_cmp rid_cmp_eq rid_cmp_lt_trans rid_cmp_gt_lt _ S1 (entry_rid e) (entry_rval e)) as [S2 I2].
    repeat split.
    + intros Hx. apply in_recs in Hx. rewrite entry_put_records in Hx. apply I2 in Hx.
      destruct Hx as [[E1 E2]|[Hx NE]].
      * left. destruct x, e; cbn in *. inversion E1; inversion E2; subst. reflexivity.
      * right. rewrite <- R1. now apply in_recs.
    + intros [<-|Hx].
      * apply in_recs. rewrite entry_put_records. apply I2. now left.
      * apply in_recs. rewrite entry_put_records. apply I2. right. split.
        -- apply in_recs. now rewrite R1.
        -- (* an entry that survived the pruning cannot sit at the new entry's id *)
           intros EQ. apply filter_In in Hx. destruct Hx as [Hx NR]. apply negb_true_iff in NR.
           assert (SI : same_id e x = true).
           { apply same_id_spec. destruct x, e; cbn in *. inversion EQ; auto. }
           destruct (same_id_rel_or' e x SI) as [R|R]; [congruence|].
           assert (existsb (fun p => rel p e) (recs T) = true) by (apply existsb_exists; eauto). congruence.
    + rewrite entry_put_records. exact S2.
    + rewrite entry_put_records. apply Forall_forall. intros [k v] Hr. apply I2 in Hr.
      destruct Hr as [[-> ->]|[Hr _]]; [now apply wf_row_entry|]. rewrite Forall_forall in W1. now apply W1.
Qed.

(** ---- sequences of puts: the table-level replica holds [reduce] of what was offered ---- *)
Definition fs_puts EH (T : tables) (l : list entry) : tables := fold_left (fun T e => fst (fs_put prefix_succ EH T e)) l T.

Lemma put_set_ext' S1 S2 e : set_eq S1 S2 -> set_eq (fst (put S1 e)) (fst (put S2 e)).
Proof.
  intros H x. unfold put.
  assert (EX : existsb (fun p => rel p e) S1 = existsb (fun p => rel p e) S2).
  { apply bool_eq_iff. rewrite !existsb_exists. split; intros [p [I R]]; exists p; split; auto; now apply H. }
  rewrite EX. destruct (existsb (fun p => rel p e) S2); cbn [fst]; [apply H|].
  cbn [In]. rewrite !filter_In, (H x). tauto.
Qed.

Lemma fs_puts_refines EH l : forall T S, wf_records T -> Forall wf_entry l -> set_eq (recs T) S ->
  set_eq (recs (fs_puts EH T l)) (puts S l) /\ wf_records (fs_puts EH T l).
Proof.
  induction l as [|e l IH]; intros T S W F H; cbn [fs_puts puts fold_left]; auto.
  inversion F as [|? ? We Fl]; subst.
  destruct (fs_put_refines EH T e W We) as (_ & C & W').
  apply IH; auto. intros x. rewrite (C x). now apply put_set_ext'.
Qed.

Lemma wf_records_empty : wf_records empty_tables.
Proof. split; constructor. Qed.

(** C02 at the table level: whatever the order and multiplicity of the offers, the records table
    holds exactly the non-dominated offers *)
Theorem fs_puts_content EH l : Forall wf_entry l -> consistent l ->
  forall x, In x (recs (fs_puts EH empty_tables l)) <-> in_reduce l x.
Proof.
  intros F C x.
  destruct (fs_puts_refines EH l empty_tables [] wf_records_empty F (fun _ => iff_refl _)) as [H _].
  rewrite (H x). now apply puts_is_reduce.
Qed.

(** ---- the head table holds the per-author maximum ---- *)
Definition head_of (T : tables) (ns au : N) : option N :=
  match tbl_get pair_cmp (ns, au) (t_latest T) with Some (t, _) => Some t | None => None end.
Definition of_author (ns au : N) (e : entry) : Prop := e_ns e = ns /\ e_author e = au.

Definition HInv (T : tables) : Prop :=
  forall ns au,
    match head_of T ns au with
    | Some t => (exists w, In w (recs T) /\ of_author ns au w /\ e_ts w = t) /\
                (forall x, In x (recs T) -> of_author ns au x -> e_ts x <= t)
    | None => forall x, In x (recs T) -> ~ of_author ns au x
    end.

Lemma HInv_empty : HInv empty_tables.
Proof. intros ns au. cbn. intros x []. Qed.

Lemma head_of_entry_put T e ns au :
  head_of (fs_entry_put T e) ns au =
  if (ns =? e_ns e) && (au =? e_author e)
  then Some (match head_of T ns au with Some t0 => if t0 <=? e_ts e then e_ts e else t0 | None => e_ts e end)
  else head_of T ns au.
Proof.
  unfold head_of, fs_entry_put. cbn [t_latest set_records set_bykey set_latest].
  destruct (N.eqb_spec ns (e_ns e)) as [->|N1]; [destruct (N.eqb_spec au (e_author e)) as [->|N2]|]; cbn [andb].
  - destruct (tbl_get pair_cmp (e_ns e, e_author e) (t_latest T)) as [[t0 k0]|] eqn:G.
    + destruct (t0 <=? e_ts e); cbn [t_latest set_latest set_bykey set_records].
      * now rewrite (tbl_get_insert_same pair_cmp pair_cmp_eq).
      * now rewrite G.
    + cbn [t_latest set_latest set_bykey set_records]. now rewrite (tbl_get_insert_same pair_cmp pair_cmp_eq).
  - destruct (tbl_get pair_cmp (e_ns e, e_author e) (t_latest T)) as [[t0 k0]|]; [destruct (t0 <=? e_ts e)|]; cbn [t_latest set_latest set_bykey set_records]; auto;
      rewrite (tbl_get_insert_other pair_cmp pair_cmp_eq); auto; congruence.
  - destruct (tbl_get pair_cmp (e_ns e, e_author e) (t_latest T)) as [[t0 k0]|]; [destruct (t0 <=? e_ts e)|]; cbn [t_latest set_latest set_bykey set_records]; auto;
      rewrite (tbl_get_insert_other pair_cmp pair_cmp_eq); auto; congruence.
Qed.

Lemma remove_keeps_latest T ns au k p :
  t_latest (fst (fs_remove_prefix_filtered prefix_succ T ns au k p)) = t_latest T.
Proof. unfold fs_remove_prefix_filtered. destruct (tbl_extract_if _ _ _ _ _). reflexivity. Qed.

(** every insert keeps the invariant: pruning never lowers the maximum, because the pruning entry
    is the same author's and not older *)
Theorem fs_put_heads EH T e : wf_records T -> wf_entry e -> HInv T -> HInv (fst (fs_put prefix_succ EH T e)).
Proof.
  intros W We HI.
  destruct (fs_put_refines EH T e W We) as (OUT & C & _).
  unfold fs_put, put in *.
  destruct (existsb (fun p => val_leb e p) (fs_prefixes_of EH T (e_ns e) (e_author e) (e_key e))) eqn:E1;
    destruct (existsb (fun p => rel p e) (recs T)) eqn:E2; cbn [fst snd] in *; try discriminate; auto.
  destruct (fs_remove_prefix_filtered prefix_succ T (e_ns e) (e_author e) (e_key e) (fun c => val_leb c e)) as [T1 n] eqn:RM.
  cbn [fst snd] in *.
  assert (L1 : t_latest T1 = t_latest T).
  { pose proof (remove_keeps_latest T (e_ns e) (e_author e) (e_key e) (fun c => val_leb c e)) as H. now rewrite RM in H. }
  intros ns au. rewrite head_of_entry_put.
  assert (H1 : head_of T1 ns au = head_of T ns au) by (unfold head_of; now rewrite L1).
  rewrite H1. specialize (HI ns au).
  (* membership after the insert *)
  assert (MEM : forall x, In x (recs (fs_entry_put T1 e)) <-> x = e \/ (In x (recs T) /\ rel e x = false)).
  { intros x. rewrite (C x). cbn [In]. rewrite filter_In, negb_true_iff. split; intros [H|H]; auto. }
  destruct (N.eqb_spec ns (e_ns e)) as [->|N1]; [destruct (N.eqb_spec au (e_author e)) as [->|N2]|]; cbn [andb].
  - (* the author of the new entry *)
    destruct (head_of T (e_ns e) (e_author e)) as [t0|].
    + destruct HI as [[w (Iw & Ow & Tw)] B]. destruct (N.leb_spec t0 (e_ts e)) as [LE|GT].
      * split.
        -- exists e. repeat split; auto. apply MEM. now left.
        -- intros x Hx Ox. apply MEM in Hx. destruct Hx as [->|[Hx _]]; [lia|]. specialize (B x Hx Ox). lia.
      * split.
        -- exists w. repeat split; auto; try apply Ow. apply MEM. right. split; auto.
           destruct (rel e w) eqn:R; auto. apply rel_spec in R. destruct R as (_ & _ & _ & V).
           apply val_leb_spec in V. lia.
        -- intros x Hx Ox. apply MEM in Hx. destruct Hx as [->|[Hx _]]; [lia|]. exact (B x Hx Ox).
    + split.
      * exists e. repeat split; auto. apply MEM. now left.
      * intros x Hx Ox. apply MEM in Hx. destruct Hx as [->|[Hx _]]; [lia|]. exfalso. exact (HI x Hx Ox).
  - (* another author of the same document *)
    assert (SAME : forall x, of_author (e_ns e) au x -> (In x (recs (fs_entry_put T1 e)) <-> In x (recs T))).
    { intros x [Ox1 Ox2]. rewrite MEM. split.
      - intros [->|[H _]]; [congruence|auto].
      - intros H. right. split; auto. destruct (rel e x) eqn:R; auto. apply rel_spec in R. destruct R as (_ & A & _). congruence. }
    destruct (head_of T (e_ns e) au) as [t0|].
    + destruct HI as [[w (Iw & Ow & Tw)] B]. split.
      * exists w. repeat split; auto; try apply Ow. now apply SAME.
      * intros x Hx Ox. apply B; auto. now apply SAME.
    + intros x Hx Ox. apply (HI x); auto. now apply SAME.
  - (* another document *)
    assert (SAME : forall x, of_author ns au x -> (In x (recs (fs_entry_put T1 e)) <-> In x (recs T))).
    { intros x [Ox1 Ox2]. rewrite MEM. split.
      - intros [->|[H _]]; [congruence|auto].
      - intros H. right. split; auto. destruct (rel e x) eqn:R; auto. apply rel_spec in R. destruct R as (A & _). congruence. }
    destruct (head_of T ns au) as [t0|].
    + destruct HI as [[w (Iw & Ow & Tw)] B]. split.
      * exists w. repeat split; auto; try apply Ow. now apply SAME.
      * intros x Hx Ox. apply B; auto. now apply SAME.
    + intros x Hx Ox. apply (HI x); auto. now apply SAME.
Qed.

(** for every history of offers (any timestamp order) the reported head of every author is the
    greatest timestamp among that author's entries currently held *)
Theorem heads_exact EH l : Forall wf_entry l -> HInv (fs_puts EH empty_tables l).
Proof.
  intros F. unfold fs_puts.
  assert (G : forall l T, wf_records T -> HInv T -> Forall wf_entry l ->
              HInv (fold_left (fun T e => fst (fs_put prefix_succ EH T e)) l T)).
  { clear. induction l as [|e l IH]; intros T W H F; cbn; auto. inversion F; subst.
    apply IH; auto.
    - now destruct (fs_put_refines EH T e W H2) as (_ & _ & W').
    - now apply fs_put_heads. }
  apply G; auto using wf_records_empty, HInv_empty.
Qed.
