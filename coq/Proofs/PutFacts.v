(** The core of C02: [put] computes [reduce], so a replica's content is a function of the
    *set* of entries offered. *)
From Coq Require Import Lia Arith.
From ID Require Import Base.Bytes Base.BytesFacts Model.Entry Model.Put Proofs.EntryFacts.
Local Open Scope nat_scope.

Lemma rel_antisym X a b :
  consistent X -> In a X -> In b X -> rel a b = true -> rel b a = true -> a = b.
Proof.
  rewrite !rel_spec. intros C Ia Ib (N1 & A1 & P1 & L1) (_ & _ & P2 & L2).
  destruct (val_leb_antisym _ _ L1 L2) as [T H].
  apply C; auto. eapply is_prefix_antisym; eauto.
Qed.

Theorem put_is_reduce S e :
  reduced S -> consistent (e :: S) ->
  forall x, In x (fst (put S e)) <-> in_reduce (e :: S) x.
Proof.
  intros R C x. unfold put.
  destruct (existsb (fun p => rel p e) S) eqn:E; cbn [fst].
  - apply existsb_exists in E. destruct E as [p [Ip Rp]].
    split.
    + intros Ix. split; [now right|]. intros d [<-|Id] [Ne Rd].
      * destruct (R p x Ip Ix). split.
        -- intros ->. apply Ne. eapply (rel_antisym (e :: S)); eauto; cbn; auto.
        -- eapply rel_trans; eauto.
      * apply (R d x Id Ix). now split.
    + intros [[<-|Ix] H]; auto.
      destruct (entry_eq_dec p e) as [->|Ne]; auto.
      exfalso. apply (H p); [now right|]. now split.
  - split.
    + intros [<-|Ix].
      * split; [now left|]. intros d [<-|Id] [Ne Rd]; [now apply Ne|].
        assert (existsb (fun p => rel p e) S = true) by (apply existsb_exists; eauto). congruence.
      * apply filter_In in Ix. destruct Ix as [Ix Nx]. split; [now right|].
        intros d [<-|Id] [Ne Rd].
        -- rewrite Rd in Nx. discriminate.
        -- apply (R d x Id Ix). now split.
    + intros [[<-|Ix] H]; [now left|]. right. apply filter_In. split; auto.
      destruct (rel e x) eqn:Rx; auto. exfalso.
      destruct (entry_eq_dec e x) as [->|Ne].
      * assert (existsb (fun p => rel p x) S = true)
          by (apply existsb_exists; exists x; split; auto using rel_refl). congruence.
      * apply (H e); [now left|]. now split.
Qed.

Definition above (X : list entry) (d : entry) : nat := length (filter (fun y => rel y d) X).

Lemma filter_length_le_ext {A} (f g : A -> bool) l :
  (forall x, In x l -> f x = true -> g x = true) -> length (filter f l) <= length (filter g l).
Proof.
  induction l as [|a l IH]; cbn; intros H; auto.
  assert (IH' : length (filter f l) <= length (filter g l)) by (apply IH; intros; apply H; auto).
  destruct (f a) eqn:Fa.
  - rewrite (H a (or_introl eq_refl) Fa). cbn. lia.
  - destruct (g a); cbn; lia.
Qed.

Lemma filter_length_lt_ext {A} (f g : A -> bool) l w :
  (forall x, In x l -> f x = true -> g x = true) -> In w l -> f w = false -> g w = true ->
  length (filter f l) < length (filter g l).
Proof.
  induction l as [|a l IH]; cbn; intros H Iw Fw Gw; [easy|].
  assert (LE : length (filter f l) <= length (filter g l))
    by (apply filter_length_le_ext; intros; apply H; auto).
  destruct Iw as [->|Iw].
  - rewrite Fw, Gw. cbn. lia.
  - assert (LT : length (filter f l) < length (filter g l)) by (apply IH; auto).
    destruct (f a) eqn:Fa.
    + rewrite (H a (or_introl eq_refl) Fa). cbn. lia.
    + destruct (g a); cbn; lia.
Qed.

(** every element of a consistent [X] lies below-or-equal some maximal element of [X] *)
Lemma has_maximal X : consistent X ->
  forall n d, above X d <= n -> In d X ->
  exists m, In m X /\ rel m d = true /\ forall y, In y X -> ~ dom y m.
Proof.
  intros C n. induction n as [|n IH]; intros d Hn Id.
  - exfalso. unfold above in Hn.
    assert (In d (filter (fun y => rel y d) X)) by (apply filter_In; split; auto using rel_refl).
    destruct (filter (fun y => rel y d) X); cbn in *; [easy|lia].
  - destruct (existsb (fun y => negb (if entry_eq_dec y d then true else false) && rel y d) X) eqn:E.
    + apply existsb_exists in E. destruct E as [y [Iy Hy]].
      apply andb_true_iff in Hy. destruct Hy as [Ny Ry].
      destruct (entry_eq_dec y d) as [->|Ne]; [discriminate|].
      assert (above X y < above X d).
      { unfold above. apply filter_length_lt_ext with (w := d); auto.
        - intros x _ Rx. eapply rel_trans; eauto.
        - destruct (rel d y) eqn:Rdy; auto. exfalso. apply Ne. eapply rel_antisym; eauto.
        - apply rel_refl. }
      destruct (IH y) as [m [Im [Rm Hm]]]; [lia|auto|].
      exists m. repeat split; auto. eapply rel_trans; eauto.
    + exists d. repeat split; auto using rel_refl. intros y Iy [Ne Ry].
      assert (existsb (fun y => negb (if entry_eq_dec y d then true else false) && rel y d) X = true).
      { apply existsb_exists. exists y. split; auto.
        destruct (entry_eq_dec y d); [contradiction|]. now rewrite Ry. }
      congruence.
Qed.

Lemma consistent_incl X Y : (forall a, In a Y -> In a X) -> consistent X -> consistent Y.
Proof. intros I C a b Ia Ib. apply C; auto. Qed.

Lemma in_reduce_step X S e : consistent (e :: X) ->
  (forall x, In x S <-> in_reduce X x) ->
  forall x, in_reduce (e :: S) x <-> in_reduce (e :: X) x.
Proof.
  intros C HS x.
  assert (CX : consistent X) by (eapply consistent_incl; [|exact C]; intros; now right).
  split.
  - intros [[<-|Ix] H].
    + split; [now left|]. intros d [<-|Id] Dd; [now destruct Dd|].
      destruct (has_maximal X CX (above X d) d (le_n _) Id) as [m [Im [Rm Hm]]].
      apply (H m). { right. apply HS. now split. }
      split. { intros ->. destruct Dd as [Ne Rd]. apply Ne. eapply (rel_antisym (e :: X)); eauto; cbn; auto. }
      destruct Dd. eapply rel_trans; eauto.
    + apply HS in Ix. destruct Ix as [Ix Hx]. split; [now right|].
      intros d [<-|Id] Dd; [apply (H e); cbn; auto | now apply (Hx d)].
  - intros [[<-|Ix] H].
    + split; [now left|]. intros d [<-|Id] Dd; [now destruct Dd|].
      apply HS in Id. destruct Id. apply (H d); auto. now right.
    + assert (In x S) by (apply HS; split; auto; intros d Id; apply H; now right).
      split; [now right|]. intros d [<-|Id]; [apply H; now left|].
      apply HS in Id. destruct Id. apply H. now right.
Qed.

Theorem puts_is_reduce_gen l : forall S0 X,
  consistent (l ++ X) -> reduced S0 -> (forall x, In x S0 <-> in_reduce X x) ->
  forall x, In x (puts S0 l) <-> in_reduce (rev l ++ X) x.
Proof.
  induction l as [|e l IH]; intros S0 X C R HS x; cbn [puts fold_left rev app].
  - apply HS.
  - rewrite <- app_assoc. cbn [app].
    assert (CeX : consistent (e :: X)).
    { eapply consistent_incl; [|exact C]. intros a [<-|Ia]; cbn; auto. right. apply in_or_app. now right. }
    assert (CeS : consistent (e :: S0)).
    { eapply consistent_incl; [|exact CeX]. intros a [<-|Ia]; cbn; auto. right. apply HS in Ia. now destruct Ia. }
    apply (IH (fst (put S0 e)) (e :: X)).
    + eapply consistent_incl; [|exact C]. intros a Ia. rewrite in_app_iff in *. cbn in *. tauto.
    + intros d y Id Iy. apply (put_is_reduce S0 e R CeS) in Id. apply (put_is_reduce S0 e R CeS) in Iy.
      destruct Id as [Id _], Iy as [_ Hy]. now apply Hy.
    + intros y. rewrite (put_is_reduce S0 e R CeS). now apply in_reduce_step.
Qed.

Lemma in_reduce_ext X Y : (forall a, In a X <-> In a Y) -> forall x, in_reduce X x <-> in_reduce Y x.
Proof.
  intros H x. unfold in_reduce. rewrite H. split; intros [I D]; split; auto; intros d Id; apply D; now apply H.
Qed.

(** From an empty replica: the content after offering [l] is [reduce l] — the order and
    multiplicity of [l] do not appear on the right-hand side. *)
Theorem puts_is_reduce l : consistent l ->
  forall x, In x (puts [] l) <-> in_reduce l x.
Proof.
  intros C x. rewrite (puts_is_reduce_gen l [] []).
  - apply in_reduce_ext. intros a. rewrite app_nil_r. symmetry. apply in_rev.
  - now rewrite app_nil_r.
  - intros d e [].
  - intros y. split; [intros []|intros [[] _]].
Qed.

(** Order independence, stated directly: any two offer sequences with the same set of
    entries (permutations, duplications) leave the same content. *)
Theorem puts_order_independent l1 l2 :
  consistent l1 -> (forall a, In a l1 <-> In a l2) -> set_eq (puts [] l1) (puts [] l2).
Proof.
  intros C H x.
  assert (C2 : consistent l2) by (eapply consistent_incl; [|exact C]; intros; now apply H).
  rewrite (puts_is_reduce l1 C), (puts_is_reduce l2 C2). now apply in_reduce_ext.
Qed.

(** the reachable states are reduced *)
Lemma puts_reduced l : consistent l -> reduced (puts [] l).
Proof.
  intros C d e Id Ie. apply (puts_is_reduce l C) in Id, Ie. destruct Id as [Id _], Ie as [_ He]. now apply He.
Qed.

(** "kept exactly when ..." *)
Theorem kept_iff l e : consistent l ->
  (In e (puts [] l) <-> In e l /\ ~ exists d, In d l /\ dom d e).
Proof.
  intros C. rewrite (puts_is_reduce l C). unfold in_reduce. split; intros [I H]; split; auto.
  - intros [d [Id Dd]]. now apply (H d).
  - intros d Id Dd. apply H. eauto.
Qed.

(** what one [put] removes, what it reports, what it leaves alone *)
Theorem put_removes_exactly S e S' n :
  put S e = (S', Inserted n) ->
  (forall c, (In c S /\ ~ In c S') -> In c S /\ rel e c = true) /\
  (forall c, In c S -> rel e c = true -> c <> e -> ~ In c S') /\
  n = nlen (filter (fun c => rel e c) S) /\
  (forall c, In c S -> rel e c = false -> In c S') /\
  In e S'.
Proof.
  unfold put. destruct (existsb _ S) eqn:E; [discriminate|]. intros H. inversion H; subst. clear H.
  repeat split.
  - tauto.
  - destruct H as [Ic Nc]. destruct (rel e c) eqn:Rc; auto. exfalso. apply Nc. right.
    apply filter_In. now rewrite Rc.
  - intros c Ic Rc Ne [<-|I]; [congruence|]. apply filter_In in I. rewrite Rc in I. now destruct I.
  - intros c Ic Rc. right. apply filter_In. now rewrite Rc.
  - now left.
Qed.

Theorem put_other_author_untouched S e c :
  e_author c <> e_author e \/ e_ns c <> e_ns e \/ is_prefix (e_key e) (e_key c) = false ->
  (In c S -> In c (fst (put S e))).
Proof.
  intros H Ic. unfold put. destruct (existsb _ S); cbn; auto. right. apply filter_In. split; auto.
  apply negb_true_iff. destruct (rel e c) eqn:R; auto. apply rel_spec in R.
  destruct R as (N1 & A1 & P1 & _). destruct H as [H|[H|H]]; congruence.
Qed.

Theorem put_rejected_noop S e S' : put S e = (S', NotInserted) -> S' = S.
Proof. unfold put. destruct (existsb _ S); intros H; inversion H; auto. Qed.

Theorem put_rejected_iff S e :
  snd (put S e) = NotInserted <-> exists p, In p S /\ rel p e = true.
Proof.
  unfold put. destruct (existsb _ S) eqn:E; cbn.
  - apply existsb_exists in E. destruct E as [p [I R]]. split; eauto.
  - split; [discriminate|]. intros [p [I R]].
    assert (existsb (fun p => rel p e) S = true) by (apply existsb_exists; eauto). congruence.
Qed.

(** the executable [reduce] is [in_reduce] *)
Lemma domb_spec d e : domb d e = true <-> dom d e.
Proof.
  unfold domb, dom. rewrite andb_true_iff, negb_true_iff. split; intros [H1 H2]; split; auto.
  - intros ->. now rewrite entry_eqb_refl in H1.
  - destruct (entry_eqb d e) eqn:E; auto. apply entry_eqb_eq in E. contradiction.
Qed.
Lemma reduce_spec X x : In x (reduce X) <-> in_reduce X x.
Proof.
  unfold reduce, in_reduce. rewrite filter_In, negb_true_iff. split; intros [I H]; split; auto.
  - intros d Id Dd. assert (existsb (fun d => domb d x) X = true); [|congruence].
    apply existsb_exists. exists d. split; auto. now apply domb_spec.
  - destruct (existsb (fun d => domb d x) X) eqn:E; auto. apply existsb_exists in E.
    destruct E as [d [Id Dd]]. apply domb_spec in Dd. exfalso. now apply (H d).
Qed.
Corollary puts_eq_reduce l : consistent l -> set_eq (puts [] l) (reduce l).
Proof. intros C x. rewrite reduce_spec. now apply puts_is_reduce. Qed.
