(** Why 32-byte identifiers and hashes can be modelled as numbers: for byte strings of equal
    length the byte-wise (lexicographic) order — the order of the database keys — is the order of
    the big-endian values, the value determines the bytes, and the value of 32 bytes is at most
    [MAX256]. Also: what the wire decoder yields is well formed in the sense the store theorems
    require. *)
From Coq Require Import Lia Arith PeanoNat.
From ID Require Import Base.Bytes Base.BytesFacts Model.Entry Model.Tables Model.Bounds Model.Postcard Model.Codecs
  Proofs.FsPutFacts.

Fixpoint be_acc (acc : N) (b : bytes) : N :=
  match b with [] => acc | x :: r => be_acc (acc * 256 + x) r end.
Definition be (b : bytes) : N := be_acc 0 b.

Lemma be_acc_spec b : forall acc, be_acc acc b = acc * 256 ^ N.of_nat (length b) + be b.
Proof.
  unfold be. induction b as [|x r IH]; intros acc; cbn [be_acc length].
  - cbn. lia.
  - rewrite (IH (acc * 256 + x)), (IH (0 * 256 + x)). rewrite Nat2N.inj_succ, N.pow_succ_r'. lia.
Qed.
Lemma be_cons x r : be (x :: r) = x * 256 ^ N.of_nat (length r) + be r.
Proof. unfold be at 1. cbn [be_acc]. rewrite be_acc_spec. lia. Qed.

Lemma be_bound b : wf_bytes b -> be b < 256 ^ N.of_nat (length b).
Proof.
  induction 1 as [|x r Hx Hr IH]; [cbn; lia|].
  rewrite be_cons. cbn [length]. rewrite Nat2N.inj_succ, N.pow_succ_r'. unfold wf_byte in Hx. nia.
Qed.

(** the byte-wise order of equally long strings is the numeric order *)
Theorem be_lex a : forall b, wf_bytes a -> wf_bytes b -> length a = length b ->
  (lex_lt a b = true <-> be a < be b).
Proof.
  induction a as [|x a IH]; intros [|y b] Wa Wb L; cbn in L; try discriminate.
  - cbn. split; [discriminate|lia].
  - inversion Wa as [|? ? Hx Ha]; inversion Wb as [|? ? Hy Hb]; subst.
    assert (La : length a = length b) by lia.
    pose proof (be_bound a Ha) as Ba. pose proof (be_bound b Hb) as Bb.
    rewrite !be_cons, La. cbn [lex_lt]. rewrite orb_true_iff, andb_true_iff, N.ltb_lt, N.eqb_eq, (IH b Ha Hb La).
    set (P := 256 ^ N.of_nat (length b)) in *. rewrite La in Ba. fold P in Ba.
    split.
    + intros [H|[-> H]]; nia.
    + intros H. destruct (N.lt_trichotomy x y) as [C|[C|C]]; [now left|right; split; auto; subst; lia|nia].
Qed.

(** the value determines the bytes *)
Theorem be_inj a : forall b, wf_bytes a -> wf_bytes b -> length a = length b -> be a = be b -> a = b.
Proof.
  intros b Wa Wb L E.
  destruct (lex_total a b) as [H|[H|H]]; auto.
  - apply (be_lex a b Wa Wb L) in H. lia.
  - apply (be_lex b a Wb Wa (eq_sym L)) in H. lia.
Qed.

Theorem be32_max b : wf_bytes b -> length b = 32%nat -> be b <= MAX256.
Proof.
  intros W L. pose proof (be_bound b W) as B. rewrite L in B. unfold MAX256.
  change (N.of_nat 32) with 32 in B. replace (2 ^ 256) with (256 ^ 32) by reflexivity. lia.
Qed.

(** ---- what the wire decoder yields is well formed ---- *)
Lemma varint_go_wf maxb lastmax i : forall shift acc b v r,
  wf_bytes b -> dec_varint_go maxb lastmax i shift acc b = Some (v, r) -> wf_bytes r.
Proof.
  induction i as [|i IH]; intros shift acc b v r W H; cbn [dec_varint_go] in H; [discriminate|].
  destruct b as [|x b]; [discriminate|]. inversion W as [|? ? Hx Hb]; subst.
  destruct (x <? 128).
  - destruct (Nat.eqb i 0 && (lastmax <? x)); [discriminate|]. inversion H; subst. exact Hb.
  - eapply IH; eauto.
Qed.
Lemma take_wf n : forall b a r, wf_bytes b -> take n b = Some (a, r) -> wf_bytes a /\ wf_bytes r /\ length a = n.
Proof.
  induction n as [|n IH]; intros b a r W H; cbn [take] in H.
  - inversion H; subst. repeat split; auto. constructor.
  - destruct b as [|x b]; [discriminate|]. inversion W as [|? ? Hx Hb]; subst.
    destruct (take n b) as [[a' r']|] eqn:T; [|discriminate]. inversion H; subst.
    destruct (IH b a' r Hb T) as (A & B & C). repeat split; auto. constructor; auto. cbn. now rewrite C.
Qed.
Lemma dec_bytes_wf b a r : wf_bytes b -> dec_bytes b = Some (a, r) -> wf_bytes a /\ wf_bytes r.
Proof.
  unfold dec_bytes. intros W H. destruct (dec_varint_u64 b) as [[n r0]|] eqn:V; [|discriminate].
  pose proof (varint_go_wf _ _ _ _ _ _ _ _ W V) as W0.
  destruct (N.of_nat (length r0) <? n); [discriminate|].
  destruct (take_wf _ _ _ _ W0 H) as (A & B & _). auto.
Qed.

Lemma wf_firstn n (b : bytes) : wf_bytes b -> wf_bytes (firstn n b).
Proof.
  intros W. apply Forall_forall. intros x Hx. unfold wf_bytes in W. rewrite Forall_forall in W. apply W.
  rewrite <- (firstn_skipn n b). apply in_or_app. now left.
Qed.
Lemma wf_skipn n (b : bytes) : wf_bytes b -> wf_bytes (skipn n b).
Proof.
  intros W. apply Forall_forall. intros x Hx. unfold wf_bytes in W. rewrite Forall_forall in W. apply W.
  rewrite <- (firstn_skipn n b). apply in_or_app. now right.
Qed.

(** the entry a wire value stands for *)
Definition we_entry (w : wentry) : entry :=
  mkE (be (firstn 32 (we_id w))) (be (firstn 32 (skipn 32 (we_id w)))) (skipn 64 (we_id w))
      (we_ts w) (we_len w) (be (we_hash w)).

Theorem dec_wentry_wf b w r : wf_bytes b -> dec_wentry b = Some (w, r) -> wf_entry (we_entry w) /\ wf_bytes r.
Proof.
  unfold dec_wentry. intros W H.
  destruct (take 64 b) as [[asig b1]|] eqn:T1; [|discriminate].
  destruct (take_wf _ _ _ _ W T1) as (_ & W1 & _).
  destruct (take 64 b1) as [[nsig b2]|] eqn:T2; [|discriminate].
  destruct (take_wf _ _ _ _ W1 T2) as (_ & W2 & _).
  destruct (dec_bytes b2) as [[id b3]|] eqn:DB; [|discriminate].
  destruct (dec_bytes_wf _ _ _ W2 DB) as (Wid & W3).
  destruct (Nat.ltb_spec (length id) 64) as [LT|GE]; [discriminate|].
  destruct (dec_varint_u64 b3) as [[len b4]|] eqn:V1; [|discriminate].
  pose proof (varint_go_wf _ _ _ _ _ _ _ _ W3 V1) as W4.
  destruct (take 32 b4) as [[h b5]|] eqn:T3; [|discriminate].
  destruct (take_wf _ _ _ _ W4 T3) as (Wh & W5 & _).
  destruct (dec_varint_u64 b5) as [[ts b6]|] eqn:V2; [|discriminate].
  pose proof (varint_go_wf _ _ _ _ _ _ _ _ W5 V2) as W6.
  inversion H; subst. split; auto.
  unfold wf_entry, we_entry. cbn [e_ns e_author e_key we_id]. split; [|split].
  - apply be32_max; [now apply wf_firstn|]. rewrite firstn_length. lia.
  - apply be32_max; [apply wf_firstn; now apply wf_skipn|]. rewrite firstn_length, skipn_length. lia.
  - now apply wf_skipn.
Qed.

(** every value of a decoded reconciliation message is well formed *)
Lemma dec_seq_values_wf : forall (n : nat) b vs r, wf_bytes b ->
  dec_n dec_value n b = Some (vs, r) -> (forall q, In q vs -> wf_entry (we_entry (fst q))) /\ wf_bytes r.
Proof.
  induction n as [|n IH]; intros b vs r W H; cbn [dec_n] in H.
  - inversion H; subst. split; auto. intros q [].
  - destruct (dec_value b) as [[q b1]|] eqn:DV; [|discriminate].
    unfold dec_value in DV. destruct (dec_wentry b) as [[e r1]|] eqn:DW; [|discriminate].
    destruct (dec_wentry_wf _ _ _ W DW) as [We W1].
    destruct (dec_varint_u32 r1) as [[st r2]|] eqn:V; [|discriminate].
    pose proof (varint_go_wf _ _ _ _ _ _ _ _ W1 V) as W2.
    destruct (st <? 3); [|discriminate]. inversion DV; subst.
    destruct (dec_n dec_value n b1) as [[vs' r']|] eqn:DS; [|discriminate]. inversion H; subst.
    destruct (IH _ _ _ W2 DS) as [A B]. split; auto. intros q' [<-|Hq]; auto.
Qed.
