(** Store-level facts: document removal (C16), capabilities (C07), policies (C15). *)
From Coq Require Import Lia.
From ID Require Import Base.Bytes Base.BytesFacts Model.Entry Model.Tables Model.Bounds Model.FsStore
  Model.Replica Model.Ranger Model.StoreOps Proofs.TblFacts Proofs.BoundsFacts.

(** ** C16: [remove_replica] deletes exactly the rows keyed by the namespace, in every table *)
Definition rid_ns (r : rid) : N := fst (fst r).
Definition kid_ns (k : kid) : N := fst (fst k).

Definition wf_tables (T : tables) : Prop :=
  Forall (fun r => rid_ns (fst r) <= MAX256) (t_records T) /\
  Forall (fun r => kid_ns (fst r) <= MAX256) (t_bykey T) /\
  Forall (fun r => fst (fst r) <= MAX256 /\ snd (fst r) <= MAX256) (t_latest T).

Lemma filter_ext_Forall {A} (P : A -> Prop) f g l :
  Forall P l -> (forall x, P x -> f x = g x) -> filter f l = filter g l.
Proof.
  induction 1 as [|x l Px Fl IH]; intros H; cbn; auto. rewrite (H x Px), IH; auto.
Qed.

Lemma latest_bounds_exact ns n a : a <= MAX256 ->
  in_bounds pair_cmp (Incl (ns, 0)) (Incl (ns, MAX256)) (n, a) = (n =? ns).
Proof.
  intros Ha. unfold in_bounds, ge_lo, le_hi, pair_cmp. cbn [fst snd].
  destruct (N.compare_spec ns n) as [->|L|G].
  - rewrite N.compare_refl, N.eqb_refl.
    destruct (N.compare_spec 0 a); destruct (N.compare_spec a MAX256); try reflexivity; lia.
  - destruct (N.compare_spec n ns); try lia. symmetry. apply N.eqb_neq. lia.
  - cbn. symmetry. apply N.eqb_neq. lia.
Qed.

Theorem remove_replica_spec T ns : wf_tables T ->
  let T' := remove_replica T ns in
  t_records T' = filter (fun r => negb (rid_ns (fst r) =? ns)) (t_records T) /\
  t_bykey T' = filter (fun r => negb (kid_ns (fst r) =? ns)) (t_bykey T) /\
  t_latest T' = filter (fun r => negb (fst (fst r) =? ns)) (t_latest T) /\
  t_namespaces T' = filter (fun r => negb (fst r =? ns)) (t_namespaces T) /\
  t_peers T' = filter (fun r => negb (fst r =? ns)) (t_peers T) /\
  t_policy T' = filter (fun r => negb (fst r =? ns)) (t_policy T) /\
  t_authors T' = t_authors T.
Proof.
  intros (WR & WK & WL). unfold remove_replica. cbn -[rb_namespace kb_namespace].
  assert (NE : forall x, negb (x =? ns) = match ns ?= x with Eq => false | _ => true end).
  { intros x. rewrite N.eqb_sym. destruct (N.compare_spec ns x) as [->|L|G].
    - now rewrite N.eqb_refl.
    - assert (H : ns =? x = false) by (apply N.eqb_neq; lia). now rewrite H.
    - assert (H : ns =? x = false) by (apply N.eqb_neq; lia). now rewrite H. }
  repeat split.
  - unfold tbl_delete_range. eapply filter_ext_Forall; [exact WR|].
    intros [[[n a] k] v] Hn. unfold rid_ns in *. cbn [fst] in *. now rewrite rb_namespace_exact.
  - unfold tbl_delete_range. eapply filter_ext_Forall; [exact WK|].
    intros [[[n k] a] v] Hn. unfold kid_ns in *. cbn [fst] in *. now rewrite kb_namespace_exact.
  - unfold tbl_delete_range. eapply filter_ext_Forall; [exact WL|].
    intros [[n a] v] [Hn Ha]. cbn [fst snd] in *. now rewrite latest_bounds_exact.
  - unfold tbl_remove. apply filter_ext. intros [k v]. cbn [fst]. now rewrite NE.
  - unfold tbl_remove. apply filter_ext. intros [k v]. cbn [fst]. now rewrite NE.
  - unfold tbl_remove. apply filter_ext. intros [k v]. cbn [fst]. now rewrite NE.
Qed.

(** erased completely: nothing of the document can be observed afterwards *)
Corollary remove_erases T ns : wf_tables T ->
  let T' := remove_replica T ns in
  fs_all ns T' = [] /\ heads_of T' ns = [] /\ get_cap T' ns = None /\ peers_of T' ns = [] /\
  get_policy T' ns = default_policy /\
  (forall r, In r (t_records T') -> rid_ns (fst r) <> ns) /\
  (forall r, In r (t_bykey T') -> kid_ns (fst r) <> ns).
Proof.
  intros W. destruct (remove_replica_spec T ns W) as (R & K & L & NSP & P & PO & _). cbn zeta.
  assert (EMP : forall {A} (f : A -> bool) (l : list A), (forall x, In x l -> f x = false) -> filter f l = []).
  { intros A f l H. induction l as [|x l IH]; cbn; auto. rewrite (H x (or_introl eq_refl)). apply IH.
    intros y Hy. apply H. now right. }
  destruct W as (WR & WK & WL).
  assert (GN : forall {V} (l : list (N * V)), tbl_get N.compare ns (filter (fun r => negb (fst r =? ns)) l) = None).
  { intros V l. induction l as [|[k v] l IH]; cbn; auto. destruct (N.eqb_spec k ns) as [->|NE]; cbn; auto.
    destruct (N.compare_spec ns k); try congruence; auto. }
  repeat split.
  - unfold fs_all, rec_range, tbl_range. rewrite R. rewrite EMP; auto.
    intros [[[n a] k] v] Hx. apply filter_In in Hx. destruct Hx as [Hx Hn]. cbn [fst] in *.
    rewrite Forall_forall in WR. specialize (WR _ Hx). unfold rid_ns in *. cbn [fst] in *.
    rewrite rb_namespace_exact; auto. now apply negb_true_iff in Hn.
  - unfold heads_of, tbl_range. rewrite L. rewrite EMP; auto.
    intros [[n a] v] Hx. apply filter_In in Hx. destruct Hx as [Hx Hn]. cbn [fst snd] in *.
    rewrite Forall_forall in WL. destruct (WL _ Hx) as [_ Ha]. cbn [fst snd] in *.
    rewrite latest_bounds_exact; auto. now apply negb_true_iff in Hn.
  - unfold get_cap. rewrite NSP. apply GN.
  - unfold peers_of. rewrite P, GN. reflexivity.
  - unfold get_policy. rewrite PO, GN. reflexivity.
  - intros r Hr. rewrite R in Hr. apply filter_In in Hr. destruct Hr as [_ Hn].
    apply negb_true_iff, N.eqb_neq in Hn. exact Hn.
  - intros r Hr. rewrite K in Hr. apply filter_In in Hr. destruct Hr as [_ Hn].
    apply negb_true_iff, N.eqb_neq in Hn. exact Hn.
Qed.

(** ... and only it: every row of every other document is where it was, in the same order *)
Corollary remove_only T ns ns' : wf_tables T -> ns' <> ns ->
  let T' := remove_replica T ns in
  filter (fun r => rid_ns (fst r) =? ns') (t_records T') = filter (fun r => rid_ns (fst r) =? ns') (t_records T) /\
  filter (fun r => kid_ns (fst r) =? ns') (t_bykey T') = filter (fun r => kid_ns (fst r) =? ns') (t_bykey T) /\
  filter (fun r => fst (fst r) =? ns') (t_latest T') = filter (fun r => fst (fst r) =? ns') (t_latest T) /\
  filter (fun r => fst r =? ns') (t_namespaces T') = filter (fun r => fst r =? ns') (t_namespaces T) /\
  filter (fun r => fst r =? ns') (t_peers T') = filter (fun r => fst r =? ns') (t_peers T) /\
  filter (fun r => fst r =? ns') (t_policy T') = filter (fun r => fst r =? ns') (t_policy T) /\
  t_authors T' = t_authors T.
Proof.
  intros W NE. destruct (remove_replica_spec T ns W) as (R & K & L & NSP & P & PO & A). cbn zeta.
  assert (FF : forall {A} (g : A -> N) (l : list A),
            filter (fun r => g r =? ns') (filter (fun r => negb (g r =? ns)) l) = filter (fun r => g r =? ns') l).
  { intros A0 g l. induction l as [|x l IH]; cbn; auto.
    destruct (N.eqb_spec (g x) ns) as [E|E]; cbn.
    - assert (H : g x =? ns' = false) by (apply N.eqb_neq; congruence). now rewrite H.
    - now rewrite IH. }
  rewrite R, K, L, NSP, P, PO, A.
  repeat split; try apply (FF _ (fun r => rid_ns (fst r))); try apply (FF _ (fun r => kid_ns (fst r)));
    try apply (FF _ (fun r => fst (fst r))); try apply (FF _ (fun r => fst r)).
Qed.

(** ** C07: a write capability is never lost *)
Lemma import_keeps_write T ns c ns0 sk :
  get_cap T ns0 = Some (Some sk) -> get_cap (fst (import_namespace T ns c)) ns0 = Some (Some sk).
Proof.
  intros H. unfold import_namespace. destruct (N.eq_dec ns ns0) as [->|NE].
  - rewrite H. destruct c; cbn [fst]; unfold get_cap; cbn [t_namespaces set_namespaces];
      now rewrite (tbl_get_insert_same N.compare Ncompare_eq).
  - destruct (get_cap T ns) as [[ex|]|]; [|destruct c|]; cbn [fst]; unfold get_cap; cbn [t_namespaces set_namespaces];
      rewrite (tbl_get_insert_other N.compare Ncompare_eq); auto.
Qed.

Lemma import_upgrades T ns sk : get_cap T ns = Some None ->
  get_cap (fst (import_namespace T ns (Some sk))) ns = Some (Some sk) /\ snd (import_namespace T ns (Some sk)) = ImpUpgraded.
Proof.
  intros H. unfold import_namespace. rewrite H. cbn [fst snd]. split; auto.
  unfold get_cap. cbn [t_namespaces set_namespaces]. now rewrite (tbl_get_insert_same N.compare Ncompare_eq).
Qed.

Lemma import_touches_only_named T ns c ns' : ns <> ns' ->
  get_cap (fst (import_namespace T ns c)) ns' = get_cap T ns'.
Proof.
  intros NE. unfold import_namespace.
  destruct (get_cap T ns) as [[ex|]|]; [|destruct c|]; cbn [fst]; unfold get_cap; cbn [t_namespaces set_namespaces];
    rewrite (tbl_get_insert_other N.compare Ncompare_eq); auto.
Qed.

(** a read-only replica never authors an entry (local insert / delete are refused, nothing changes) *)
Lemma readonly_insert_refused ks EH MF T now ns au k h l :
  exists er, replica_insert ks EH MF T now ns false au k h l = (T, Err er, []).
Proof. unfold replica_insert. destruct ((l =? 0) || (h =? EH)); cbn; eexists; reflexivity. Qed.
Lemma readonly_delete_refused ks EH MF T now ns au k :
  replica_delete_prefix ks EH MF T now ns false au k = (T, Err EReadOnly, []).
Proof. reflexivity. Qed.

(** the only tables that [fs_put] / replica writes touch do not include the capability table *)
Lemma fs_put_namespaces ks EH T e : t_namespaces (fst (fs_put ks EH T e)) = t_namespaces T.
Proof.
  unfold fs_put. destruct (existsb _ _); cbn [fst]; auto.
  unfold fs_remove_prefix_filtered. destruct (tbl_extract_if _ _ _ _ _) as [r n]. cbn [fst].
  unfold fs_entry_put. cbn. destruct (tbl_get pair_cmp _ _) as [[ts kk]|]; [destruct (ts <=? e_ts e)|]; reflexivity.
Qed.

(** ** C15: policy get-after-set, only for existing documents *)
Lemma policy_get_after_set T ns p :
  get_policy (set_policy T (tbl_insert N.compare ns p (t_policy T))) ns = p.
Proof. unfold get_policy. cbn. now rewrite (tbl_get_insert_same N.compare Ncompare_eq). Qed.
Lemma policy_get_other T ns ns' p : ns <> ns' ->
  get_policy (set_policy T (tbl_insert N.compare ns p (t_policy T))) ns' = get_policy T ns'.
Proof. intros NE. unfold get_policy. cbn. now rewrite (tbl_get_insert_other N.compare Ncompare_eq). Qed.

Lemma matches_spec_everything fs k :
  policy_matches (EverythingExcept fs) k = negb (existsb (fun f => fmatch f k) fs).
Proof. cbn. induction fs as [|f fs IH]; cbn; auto. rewrite IH. now destruct (fmatch f k). Qed.
Lemma matches_spec_nothing fs k :
  policy_matches (NothingExcept fs) k = existsb (fun f => fmatch f k) fs.
Proof. reflexivity. Qed.
