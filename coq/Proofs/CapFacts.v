(** C07 over whole histories of store operations: a stored write capability survives everything but
    the removal of its own document; capabilities change only through import and removal. *)
From Coq Require Import Lia.
From ID Require Import Base.Bytes Model.Entry Model.Tables Model.Bounds Model.FsStore Model.Replica Model.Ranger
  Model.StoreOps Proofs.TblFacts Proofs.StoreFacts.

Section Caps.
  Variable ks : bytes -> option bytes.
  Variables EH MF CAP : N.
  Notation sstep := (store_step ks EH MF CAP).

  Lemma insert_entry_namespaces T now ns w o :
    t_namespaces (fst (fst (insert_entry ks EH MF T now ns w o))) = t_namespaces T.
  Proof.
    unfold insert_entry. destruct (validate_entry _ _ _ _ _); [reflexivity|].
    pose proof (fs_put_namespaces ks EH T (w_entry w)) as P.
    destruct (fs_put ks EH T (w_entry w)) as [T' [|n]]; cbn [fst] in *; auto.
  Qed.

  Lemma open_store_namespaces T : t_namespaces (open_store T) = t_namespaces T.
  Proof.
    unfold open_store, migrate_bykey, migrate_latest.
    destruct (t_latest T); [destruct (t_records T)|]; cbn [t_bykey set_latest];
      destruct (t_bykey T); reflexivity.
  Qed.

  (** which operations touch the capability table at all *)
  Definition touches_caps (o : sop) : bool :=
    match o with SImport _ _ | SRemove _ => true | _ => false end.

  Theorem step_keeps_capabilities s o : touches_caps o = false ->
    t_namespaces (s_tables (fst (sstep s o))) = t_namespaces (s_tables s).
  Proof.
    intros NT. destruct o; try discriminate; cbn [store_step]; try reflexivity.
    - destruct (get_cap _ _); reflexivity.
    - destruct (writable _ _); [|reflexivity]. unfold replica_insert.
      destruct ((len =? 0) || (hash =? EH)); [reflexivity|]. destruct (negb b); [reflexivity|].
      pose proof (insert_entry_namespaces (s_tables s) now ns (mkW (mkE ns au k now len hash) true) OLocal) as P.
      destruct (insert_entry _ _ _ _ _ _ _ _) as [[T' r] evs]. exact P.
    - destruct (writable _ _); [|reflexivity]. unfold replica_delete_prefix.
      destruct (negb b); [reflexivity|].
      pose proof (insert_entry_namespaces (s_tables s) now ns (mkW (mkE ns au k now 0 EH) true) OLocal) as P.
      destruct (insert_entry _ _ _ _ _ _ _ _) as [[T' r] evs]. exact P.
    - destruct (writable _ _); [|reflexivity]. unfold replica_insert_remote.
      destruct (negb (validate_empty EH (w_entry (mkW e sig_ok)))); [reflexivity|].
      pose proof (insert_entry_namespaces (s_tables s) now ns (mkW e sig_ok) (OSync 0 0)) as P.
      destruct (insert_entry _ _ _ _ _ _ _ _) as [[T' r] evs]. exact P.
    - pose proof (fs_put_namespaces ks EH (s_tables s) e) as P. destruct (fs_put ks EH (s_tables s) e) as [T' out]. exact P.
    - unfold register_useful_peer. destruct (get_cap _ _); [|reflexivity].
      destruct (peers_of _ _) as [|[on op] rest]; [reflexivity|].
      destruct (op =? peer); [reflexivity|]. destruct (find _ _) as [[pn pp]|]; [reflexivity|].
      destruct (CAP <? _); reflexivity.
    - destruct (get_cap _ _); reflexivity.
    - apply open_store_namespaces.
    - cbv zeta. cbn [fst s_tables]. rewrite open_store_namespaces. destruct latest, bykey; reflexivity.
  Qed.

  (** a write capability is lost only by removing its document *)
  Theorem step_keeps_write s o ns sk : o <> SRemove ns ->
    get_cap (s_tables s) ns = Some (Some sk) -> get_cap (s_tables (fst (sstep s o))) ns = Some (Some sk).
  Proof.
    intros NR G. destruct (touches_caps o) eqn:TC.
    - destruct o as [ns0 c| | |ns0| | | | | | | | | | | | | | | | | | | |]; try discriminate; cbn [store_step].
      + pose proof (import_keeps_write (s_tables s) ns0 c ns sk G) as P.
        destruct (import_namespace (s_tables s) ns0 c) as [T' r]. exact P.
      + destruct (mem ns0 (s_open s)); [exact G|]. cbn [fst s_tables].
        assert (NE : ns0 <> ns) by congruence.
        unfold get_cap, remove_replica. cbn [t_namespaces set_records set_bykey set_latest set_namespaces set_peers set_policy].
        unfold get_cap in G. rewrite (tbl_get_remove_other N.compare Ncompare_eq); auto.
    - unfold get_cap in *. now rewrite (step_keeps_capabilities s o TC).
  Qed.

  Theorem history_keeps_write ops : forall s ns sk, Forall (fun o => o <> SRemove ns) ops ->
    get_cap (s_tables s) ns = Some (Some sk) ->
    get_cap (s_tables (fold_left (fun s o => fst (sstep s o)) ops s)) ns = Some (Some sk).
  Proof.
    induction ops as [|o ops IH]; intros s ns sk F G; cbn [fold_left]; auto.
    inversion F; subst. apply IH; auto. now apply step_keeps_write.
  Qed.

  (** a read-only document: local inserts and deletions are refused and leave the whole store as it was;
      remote entries are treated exactly as on a writable document *)
  Theorem readonly_store_refuses_local s ns : writable (s_tables s) ns = Some false ->
    (forall au k h l now, exists er, sstep s (SInsert ns au k h l now) = (s, RInsert (Err er))) /\
    (forall au k now, sstep s (SDelete ns au k now) = (s, RInsert (Err EReadOnly))).
  Proof.
    intros W. split.
    - intros au k h l now. cbn [store_step]. rewrite W.
      destruct (readonly_insert_refused ks EH MF (s_tables s) now ns au k h l) as [er ->].
      exists er. destruct s; reflexivity.
    - intros au k now. cbn [store_step]. rewrite W. rewrite readonly_delete_refused. destruct s; reflexivity.
  Qed.
  Theorem remote_independent_of_capability s ns e ok now w :
    writable (s_tables s) ns = Some w ->
    sstep s (SRemote ns e ok now) =
    (let '(T', r, _) := replica_insert_remote ks EH MF (s_tables s) now ns (mkW e ok) 0 0 in
     (mkS T' (s_open s) (s_clock s), RInsert r)).
  Proof. intros W. cbn [store_step]. now rewrite W. Qed.
End Caps.

(** settings survive reopening the store, with or without rebuilding the derived tables (C15, C17) *)
Lemma open_store_settings T :
  t_peers (open_store T) = t_peers T /\ t_policy (open_store T) = t_policy T /\ t_namespaces (open_store T) = t_namespaces T.
Proof.
  unfold open_store, migrate_bykey, migrate_latest.
  destruct (t_latest T); [destruct (t_records T)|]; cbn [t_bykey set_latest];
    destruct (t_bykey T); repeat split; reflexivity.
Qed.
Theorem reopen_keeps_settings ks EH MF CAP s o : (o = SReopen \/ exists l b, o = SWipeReopen l b) ->
  let T' := s_tables (fst (store_step ks EH MF CAP s o)) in
  forall ns, get_sync_peers T' ns = get_sync_peers (s_tables s) ns /\
             get_policy T' ns = get_policy (s_tables s) ns /\
             get_cap T' ns = get_cap (s_tables s) ns.
Proof.
  intros [->|(l & b & ->)] T' ns; unfold T'; cbn [store_step fst s_tables]; cbv zeta.
  - destruct (open_store_settings (s_tables s)) as (P & Q & R).
    unfold get_sync_peers, peers_of, get_policy, get_cap. now rewrite P, Q, R.
  - destruct (open_store_settings (if b then set_bykey (if l then set_latest (s_tables s) [] else s_tables s) [] else (if l then set_latest (s_tables s) [] else s_tables s))) as (P & Q & R).
    unfold get_sync_peers, peers_of, get_policy, get_cap. rewrite P, Q, R. destruct l, b; repeat split; reflexivity.
Qed.
