(** C17: the useful-peer table is a bounded most-recently-used list. *)
From Coq Require Import Lia Sorted.
From ID Require Import Base.Bytes Model.Entry Model.Tables Model.Bounds Model.FsStore Model.Replica
  Model.Ranger Model.StoreOps Proofs.TblFacts.
Local Open Scope nat_scope.

(** specification: the peers of one document, oldest first *)
Definition without (p : N) (l : list N) : list N := filter (fun q => negb (N.eqb q p)) l.
Definition lastn (n : nat) (l : list N) : list N := skipn (length l - n) l.
Definition lru_step (cap : nat) (ps : list N) (p : N) : list N := lastn cap (without p ps ++ [p]).

(** the per-document effect of [register_useful_peer] on the value list *)
Definition reg_vals (cap : N) (vals : list (N * N)) (p now : N) : list (N * N) :=
  match vals with
  | [] => vals_insert (now, p) []
  | (on, op) :: rest =>
      if N.eqb op p then vals_insert (now, p) (vals_remove (on, op) vals)
      else
        match find (fun q => N.eqb (snd q) p) rest with
        | Some (pn, _) => vals_insert (now, p) (vals_remove (pn, p) vals)
        | None =>
            let v' := vals_insert (now, p) vals in
            if N.ltb cap (1 + N.of_nat (length rest) + 1) then vals_remove (on, op) v' else v'
        end
  end.

Definition vinv (clock : N) (vals : list (N * N)) : Prop :=
  StronglySorted (fun a b => (fst a < fst b)%N) vals /\ Forall (fun a => (fst a < clock)%N) vals /\ NoDup (map snd vals).

Lemma vals_insert_append now p l :
  Forall (fun a => (fst a < now)%N) l -> vals_insert (now, p) l = l ++ [(now, p)].
Proof.
  induction l as [|[n q] l IH]; intros F; cbn; auto.
  inversion F as [|? ? Hn Hl]; subst. cbn in Hn.
  unfold pair_cmp. cbn. destruct (N.compare_spec now n); try lia. now rewrite IH.
Qed.

Lemma vals_remove_filter n q l :
  vals_remove (n, q) l = filter (fun x => negb (N.eqb (fst x) n && N.eqb (snd x) q)) l.
Proof.
  unfold vals_remove. apply filter_ext. intros [a b]. unfold pair_cmp. cbn.
  destruct (N.compare_spec n a) as [->|L|G].
  - rewrite N.eqb_refl. cbn. destruct (N.compare_spec q b) as [->|L|G].
    + now rewrite N.eqb_refl.
    + assert (H : N.eqb b q = false) by (apply N.eqb_neq; lia). now rewrite H.
    + assert (H : N.eqb b q = false) by (apply N.eqb_neq; lia). now rewrite H.
  - assert (H : N.eqb a n = false) by (apply N.eqb_neq; lia). now rewrite H.
  - assert (H : N.eqb a n = false) by (apply N.eqb_neq; lia). now rewrite H.
Qed.

(** with distinct peers, removing the pair of [q] is removing [q] *)
Lemma remove_pair_by_peer n q l : NoDup (map snd l) -> In (n, q) l ->
  map snd (vals_remove (n, q) l) = without q (map snd l) /\
  Forall (fun x => In x l) (vals_remove (n, q) l).
Proof.
  intros ND I. rewrite vals_remove_filter. split.
  - induction l as [|[a b] l IH]; cbn in *; auto.
    inversion ND as [|? ? Hnot ND']; subst.
    destruct I as [E|I].
    + inversion E; subst. rewrite !N.eqb_refl. cbn.
      assert (W : forall l', ~ In q (map snd l') ->
                  map snd (filter (fun x => negb (N.eqb (fst x) n && N.eqb (snd x) q)) l') = without q (map snd l')).
      { clear. induction l' as [|[a b] l' IH]; cbn; auto. intros H.
        assert (N.eqb b q = false) by (apply N.eqb_neq; intros ->; apply H; now left).
        rewrite H0, andb_false_r. cbn. f_equal. apply IH. intros C. apply H. now right. }
      now apply W.
    + assert (b <> q). { intros ->. apply Hnot. apply in_map_iff. exists (n, q). split; auto. }
      assert (H0 : N.eqb b q = false) by now apply N.eqb_neq.
      rewrite H0, andb_false_r. cbn. f_equal. now apply IH.
  - apply Forall_forall. intros x Hx. apply filter_In in Hx. now destruct Hx.
Qed.

Lemma without_notin p l : ~ In p l -> without p l = l.
Proof.
  induction l as [|x l IH]; cbn; auto. intros H.
  assert (N.eqb x p = false) by (apply N.eqb_neq; intros ->; apply H; now left).
  rewrite H0. cbn. f_equal. apply IH. intros C. apply H. now right.
Qed.
Lemma without_length p l : length (without p l) <= length l.
Proof. unfold without. induction l as [|x l IH]; cbn; auto. destruct (negb (N.eqb x p)); cbn; lia. Qed.
Lemma without_length_lt p l : In p l -> length (without p l) < length l.
Proof.
  unfold without. induction l as [|x l IH]; cbn; [tauto|]. intros [->|I].
  - rewrite N.eqb_refl. cbn. pose proof (without_length p l). unfold without in H. lia.
  - destruct (N.eqb x p); cbn; [pose proof (without_length p l) as H; unfold without in H|specialize (IH I)]; lia.
Qed.
Lemma in_without p q l : In q (without p l) <-> In q l /\ q <> p.
Proof. unfold without. rewrite filter_In, negb_true_iff, N.eqb_neq. tauto. Qed.

Lemma find_peer_spec p rest :
  match find (fun q : N * N => N.eqb (snd q) p) rest with
  | Some (pn, pp) => pp = p /\ In (pn, p) rest
  | None => ~ In p (map snd rest)
  end.
Proof.
  induction rest as [|[a b] rest IH]; cbn; [tauto|].
  destruct (N.eqb_spec b p) as [->|NE].
  - split; auto.
  - destruct (find _ rest) as [[pn pp]|].
    + destruct IH as [-> I]. split; auto.
    + intros [C|C]; auto.
Qed.

Lemma lastn_all n l : length l <= n -> lastn n l = l.
Proof. intros H. unfold lastn. replace (length l - n) with 0 by lia. reflexivity. Qed.

Lemma SS_filter {A} (R : A -> A -> Prop) f l : StronglySorted R l -> StronglySorted R (filter f l).
Proof.
  induction 1 as [|x l SS IH F]; cbn; [constructor|].
  destruct (f x); auto. constructor; auto.
  apply Forall_forall. intros y Hy. apply filter_In in Hy. rewrite Forall_forall in F. apply F. tauto.
Qed.
Lemma Forall_filter {A} (P : A -> Prop) f l : Forall P l -> Forall P (filter f l).
Proof.
  intros F. apply Forall_forall. intros y Hy. apply filter_In in Hy. rewrite Forall_forall in F. apply F. tauto.
Qed.
Lemma NoDup_map_filter {A B} (g : A -> B) f l : NoDup (map g l) -> NoDup (map g (filter f l)).
Proof.
  induction l as [|x l IH]; cbn; auto. intros ND. inversion ND as [|? ? Hn ND']; subst.
  destruct (f x); cbn; auto. constructor; auto.
  intros C. apply Hn. apply in_map_iff in C. destruct C as [y [E Hy]]. apply filter_In in Hy.
  apply in_map_iff. exists y. tauto.
Qed.
Lemma NoDup_snoc (l : list N) p : NoDup l -> ~ In p l -> NoDup (l ++ [p]).
Proof.
  induction l as [|x l IH]; cbn; intros ND H.
  - constructor; [intros []|constructor].
  - inversion ND; subst. constructor.
    + rewrite in_app_iff. cbn. intros [C|[C|[]]]; [contradiction|]. apply H. now left.
    + apply IH; auto.
Qed.

Definition pairf (n q : N) (x : N * N) : bool := negb (N.eqb (fst x) n && N.eqb (snd x) q).

(** one registration, at the level of the value list *)
Theorem reg_vals_spec cap clock vals p :
  (1 <= cap)%N -> vinv clock vals -> (N.of_nat (length vals) <= cap)%N ->
  map snd (reg_vals cap vals p clock) = lru_step (N.to_nat cap) (map snd vals) p
  /\ vinv (clock + 1) (reg_vals cap vals p clock)
  /\ (N.of_nat (length (reg_vals cap vals p clock)) <= cap)%N.
Proof.
  intros Hcap (SS & FB & ND) Hlen.
  (* every outcome has the shape [filter f vals ++ [(clock, p)]] *)
  assert (SHAPE : forall f, ~ In p (map snd (filter f vals)) ->
            vinv (clock + 1) (filter f vals ++ [(clock, p)])).
  { intros f Pk. repeat split.
    - assert (Sk := SS_filter _ f _ SS). assert (Fk := Forall_filter _ f _ FB).
      induction (filter f vals) as [|x kept IH]; cbn; [repeat constructor|].
      inversion Sk; subst. inversion Fk; subst. constructor.
      + apply IH; auto. intros C. apply Pk. now right.
      + apply Forall_app. split; auto.
    - apply Forall_app. split.
      + apply Forall_filter. eapply Forall_impl; [|exact FB]. cbn. intros; lia.
      + constructor; auto. cbn. lia.
    - rewrite map_app. cbn. apply NoDup_snoc; auto. now apply NoDup_map_filter. }
  assert (INS : forall f, vals_insert (clock, p) (filter f vals) = filter f vals ++ [(clock, p)]).
  { intros f. apply vals_insert_append. now apply Forall_filter. }
  unfold reg_vals, lru_step.
  destruct vals as [|[on op] rest] eqn:EV.
  - (* empty *)
    cbn [vals_insert map snd]. unfold without. cbn [filter app]. repeat split.
    + rewrite lastn_all; auto. cbn. lia.
    + repeat constructor.
    + repeat constructor. cbn. lia.
    + repeat constructor. intros [].
    + cbn. lia.
  - rewrite <- EV in *.
    assert (Ihead : In (on, op) vals) by (rewrite EV; now left).
    assert (PS : map snd vals = op :: map snd rest) by now rewrite EV.
    assert (NDr : ~ In op (map snd rest) /\ NoDup (map snd rest)).
    { rewrite PS in ND. inversion ND; auto. }
    destruct (N.eqb_spec op p) as [->|NE].
    + (* the oldest is the peer itself *)
      rewrite vals_remove_filter. fold (pairf on p). rewrite INS.
      destruct (remove_pair_by_peer on p vals ND Ihead) as [M _]. rewrite vals_remove_filter in M. fold (pairf on p) in M.
      assert (NP : ~ In p (map snd (filter (pairf on p) vals))).
      { rewrite M. intros C. apply in_without in C. now destruct C. }
      assert (Ip : In p (map snd vals)) by (rewrite PS; now left).
      assert (LT : length (filter (pairf on p) vals) < length vals).
      { rewrite <- (map_length snd), M, <- (map_length snd vals). now apply without_length_lt. }
      repeat split.
      * rewrite map_app, M. cbn [map snd]. rewrite lastn_all; auto.
        rewrite app_length. cbn [length]. rewrite <- M, map_length. lia.
      * apply (SHAPE _ NP).
      * apply (SHAPE _ NP).
      * apply (SHAPE _ NP).
      * rewrite app_length. cbn [length]. lia.
    + pose proof (find_peer_spec p rest) as FS.
      destruct (find (fun q : N * N => N.eqb (snd q) p) rest) as [[pn pp]|].
      * (* the peer is present further up *)
        destruct FS as [-> Ir].
        assert (Iv : In (pn, p) vals) by (rewrite EV; now right).
        rewrite vals_remove_filter. fold (pairf pn p). rewrite INS.
        destruct (remove_pair_by_peer pn p vals ND Iv) as [M _]. rewrite vals_remove_filter in M. fold (pairf pn p) in M.
        assert (NP : ~ In p (map snd (filter (pairf pn p) vals))).
        { rewrite M. intros C. apply in_without in C. now destruct C. }
        assert (LT : length (filter (pairf pn p) vals) < length vals).
        { rewrite <- (map_length snd), M, <- (map_length snd vals). apply without_length_lt.
          apply in_map_iff. exists (pn, p). auto. }
        repeat split.
        -- rewrite map_app, M. cbn [map snd]. rewrite lastn_all; auto.
           rewrite app_length. cbn [length]. rewrite <- M, map_length. lia.
        -- apply (SHAPE _ NP).
        -- apply (SHAPE _ NP).
        -- apply (SHAPE _ NP).
        -- rewrite app_length. cbn [length]. lia.
      * (* a new peer *)
        assert (NPv : ~ In p (map snd vals)).
        { rewrite PS. intros [C|C]; [congruence|contradiction]. }
        assert (APP : vals_insert (clock, p) vals = vals ++ [(clock, p)]) by now apply vals_insert_append.
        rewrite APP.
        assert (LEN : (1 + N.of_nat (length rest) + 1 = N.of_nat (length vals) + 1)%N) by (rewrite EV; cbn [length]; lia).
        rewrite LEN.
        destruct (N.ltb_spec cap (N.of_nat (length vals) + 1)) as [OV|OK].
        -- (* overflow: evict the oldest *)
           rewrite vals_remove_filter. fold (pairf on op). rewrite filter_app.
           assert (KEEP : filter (pairf on op) [(clock, p)] = [(clock, p)]).
           { cbn. unfold pairf. cbn. assert (H : N.eqb p op = false) by (apply N.eqb_neq; congruence).
             now rewrite H, andb_false_r. }
           rewrite KEEP.
           destruct (remove_pair_by_peer on op vals ND Ihead) as [M _]. rewrite vals_remove_filter in M. fold (pairf on op) in M.
           assert (M' : map snd (filter (pairf on op) vals) = map snd rest).
           { rewrite M, PS. cbn. rewrite N.eqb_refl. cbn. apply without_notin. tauto. }
           assert (NP : ~ In p (map snd (filter (pairf on op) vals))).
           { rewrite M'. intros C. apply NPv. rewrite PS. now right. }
           assert (LR : length (filter (pairf on op) vals) = length rest).
           { rewrite <- (map_length snd), M', map_length. reflexivity. }
           repeat split.
           ++ rewrite map_app, M'. cbn [map snd]. rewrite (without_notin p _ NPv), PS.
              unfold lastn. rewrite app_length. cbn [length].
              assert (LV : length vals = N.to_nat cap) by lia.
              rewrite EV in LV. cbn [length] in LV. rewrite map_length.
              replace (S (length rest) + 1 - N.to_nat cap) with 1 by lia. reflexivity.
           ++ apply (SHAPE _ NP).
           ++ apply (SHAPE _ NP).
           ++ apply (SHAPE _ NP).
           ++ rewrite app_length. cbn [length]. rewrite LR. rewrite EV in Hlen. cbn [length] in Hlen. lia.
        -- assert (ID : vals = filter (fun _ => true) vals).
           { clear. induction vals as [|x l IH]; cbn; auto. now rewrite <- IH. }
           assert (NP : ~ In p (map snd (filter (fun _ => true) vals))) by now rewrite <- ID.
           repeat split.
           ++ rewrite map_app. cbn [map snd]. rewrite (without_notin p _ NPv), lastn_all; auto.
              rewrite app_length, map_length. cbn. lia.
           ++ rewrite ID. apply (SHAPE _ NP).
           ++ rewrite ID. apply (SHAPE _ NP).
           ++ rewrite ID. apply (SHAPE _ NP).
           ++ rewrite app_length. cbn [length]. lia.
Qed.

(** ** from the value list to the tables *)
Local Open Scope N_scope.

Lemma peers_of_set_vals_same T ns l : peers_of (set_vals T ns l) ns = l.
Proof.
  unfold peers_of, set_vals. destruct l as [|x l]; cbn [t_peers set_peers].
  - now rewrite (tbl_get_remove_same N.compare).
  - now rewrite (tbl_get_insert_same N.compare Ncompare_eq).
Qed.
Lemma peers_of_set_vals_other T ns ns' l : ns <> ns' -> peers_of (set_vals T ns l) ns' = peers_of T ns'.
Proof.
  intros NE. unfold peers_of, set_vals. destruct l as [|x l]; cbn [t_peers set_peers].
  - now rewrite (tbl_get_remove_other N.compare Ncompare_eq).
  - now rewrite (tbl_get_insert_other N.compare Ncompare_eq).
Qed.
Lemma set_vals_namespaces T ns l : t_namespaces (set_vals T ns l) = t_namespaces T.
Proof. reflexivity. Qed.

Definition same_but_peers (T T' : tables) : Prop :=
  t_records T' = t_records T /\ t_bykey T' = t_bykey T /\ t_latest T' = t_latest T /\
  t_namespaces T' = t_namespaces T /\ t_policy T' = t_policy T /\ t_authors T' = t_authors T.

Lemma same_but_peers_set_vals T ns l : same_but_peers T (set_vals T ns l).
Proof. unfold same_but_peers, set_vals. cbn. tauto. Qed.
Lemma same_but_peers_trans A B C : same_but_peers A B -> same_but_peers B C -> same_but_peers A C.
Proof. unfold same_but_peers. intuition congruence. Qed.

Theorem register_useful_peer_tables cap T ns p now :
  get_cap T ns <> None ->
  exists T', register_useful_peer cap T ns p now = Some T'
    /\ peers_of T' ns = reg_vals cap (peers_of T ns) p now
    /\ (forall ns', ns <> ns' -> peers_of T' ns' = peers_of T ns')
    /\ same_but_peers T T'.
Proof.
  intros HC. unfold register_useful_peer. destruct (get_cap T ns) as [c|]; [clear HC|congruence].
  unfold reg_vals. destruct (peers_of T ns) as [|[on op] rest] eqn:PO.
  - eexists. split; [reflexivity|]. unfold peer_insert. rewrite PO. split; [|split].
    + now rewrite peers_of_set_vals_same.
    + intros ns' NE. now apply peers_of_set_vals_other.
    + apply same_but_peers_set_vals.
  - destruct (N.eqb op p).
    + eexists. split; [reflexivity|]. unfold peer_insert, peer_remove. rewrite PO, peers_of_set_vals_same. split; [|split].
      * now rewrite peers_of_set_vals_same.
      * intros ns' NE. now rewrite !peers_of_set_vals_other.
      * eapply same_but_peers_trans; apply same_but_peers_set_vals.
    + destruct (find (fun q : N * N => N.eqb (snd q) p) rest) as [[pn pp]|].
      * eexists. split; [reflexivity|]. unfold peer_insert, peer_remove. rewrite PO, peers_of_set_vals_same. split; [|split].
        -- now rewrite peers_of_set_vals_same.
        -- intros ns' NE. now rewrite !peers_of_set_vals_other.
        -- eapply same_but_peers_trans; apply same_but_peers_set_vals.
      * destruct (N.ltb cap (1 + N.of_nat (length rest) + 1)).
        -- eexists. split; [reflexivity|]. unfold peer_insert, peer_remove. rewrite PO, peers_of_set_vals_same. split; [|split].
           ++ now rewrite peers_of_set_vals_same.
           ++ intros ns' NE. now rewrite !peers_of_set_vals_other.
           ++ eapply same_but_peers_trans; apply same_but_peers_set_vals.
        -- eexists. split; [reflexivity|]. unfold peer_insert. rewrite PO. split; [|split].
           ++ now rewrite peers_of_set_vals_same.
           ++ intros ns' NE. now apply peers_of_set_vals_other.
           ++ apply same_but_peers_set_vals.
Qed.

(** ** sequences of registrations on one document (strictly increasing clock readings) *)
Fixpoint register_all (cap : N) (T : tables) (ns : N) (clock : N) (ps : list N) : option tables :=
  match ps with
  | [] => Some T
  | p :: r => match register_useful_peer cap T ns p clock with
              | Some T' => register_all cap T' ns (clock + 1) r
              | None => None
              end
  end.

Theorem peers_mru cap ps : forall T ns clock,
  1 <= cap -> get_cap T ns <> None -> vinv clock (peers_of T ns) -> N.of_nat (length (peers_of T ns)) <= cap ->
  exists T', register_all cap T ns clock ps = Some T'
    /\ map snd (peers_of T' ns) = fold_left (lru_step (N.to_nat cap)) ps (map snd (peers_of T ns))
    /\ vinv (clock + N.of_nat (length ps)) (peers_of T' ns)
    /\ N.of_nat (length (peers_of T' ns)) <= cap
    /\ (forall ns', ns <> ns' -> peers_of T' ns' = peers_of T ns')
    /\ same_but_peers T T'.
Proof.
  induction ps as [|p ps IH]; intros T ns clock Hcap HC INV LEN.
  - exists T. cbn. rewrite N.add_0_r. split; [|split; [|split; [|split; [|split]]]]; auto.
    unfold same_but_peers. tauto.
  - cbn [register_all fold_left].
    destruct (register_useful_peer_tables cap T ns p clock HC) as [T1 (R & P & O & SB)].
    rewrite R.
    destruct (reg_vals_spec cap clock (peers_of T ns) p Hcap INV LEN) as (M & INV1 & LEN1).
    rewrite <- P in M, INV1, LEN1.
    assert (HC1 : get_cap T1 ns <> None).
    { unfold get_cap. destruct SB as (_ & _ & _ & -> & _). exact HC. }
    destruct (IH T1 ns (clock + 1) Hcap HC1 INV1 LEN1) as [T' (R' & M' & INV' & LEN' & O' & SB')].
    exists T'. split; [|split; [|split; [|split; [|split]]]]; auto.
    + now rewrite M', M.
    + replace (clock + N.of_nat (length (p :: ps))) with (clock + 1 + N.of_nat (length ps)); [exact INV'|].
      cbn [length]. lia.
    + intros ns' NE. rewrite O'; auto.
    + eapply same_but_peers_trans; eauto.
Qed.

(** what the specification list looks like: bounded, duplicate free, newest last *)
Lemma skipn_NoDup {A} n (l : list A) : NoDup l -> NoDup (skipn n l).
Proof.
  revert l; induction n as [|n IH]; intros l ND; cbn; auto. destruct l; auto. inversion ND; auto.
Qed.
Lemma lru_step_props cap ps p : (1 <= cap)%nat -> NoDup ps ->
  (length (lru_step cap ps p) <= cap)%nat /\ NoDup (lru_step cap ps p) /\ last (lru_step cap ps p) p = p
  /\ In p (lru_step cap ps p).
Proof.
  intros Hc ND. unfold lru_step, lastn.
  set (l := without p ps ++ [p]).
  assert (NDl : NoDup l).
  { unfold l. apply NoDup_snoc.
    - unfold without. now apply NoDup_filter.
    - intros C. apply in_without in C. now destruct C. }
  assert (LL : (1 <= length l)%nat) by (unfold l; rewrite app_length; cbn; lia).
  repeat split.
  - rewrite skipn_length. lia.
  - now apply skipn_NoDup.
  - unfold l. set (k := (length (without p ps ++ [p]) - cap)%nat).
    assert (Hk : (k <= length (without p ps))%nat) by (unfold k; rewrite app_length; cbn; lia).
    rewrite skipn_app. replace (k - length (without p ps))%nat with 0%nat by lia. cbn [skipn].
    apply last_last.
  - unfold l. set (k := (length (without p ps ++ [p]) - cap)%nat).
    assert (Hk : (k <= length (without p ps))%nat) by (unfold k; rewrite app_length; cbn; lia).
    rewrite skipn_app. replace (k - length (without p ps))%nat with 0%nat by lia. cbn [skipn].
    apply in_or_app. right. now left.
Qed.

(** [get_sync_peers] is the reverse (most recent first) of the value list's peers *)
Lemma get_sync_peers_spec T ns :
  get_sync_peers T ns = match rev (map snd (peers_of T ns)) with [] => None | l => Some l end.
Proof. reflexivity. Qed.

(** registering for a document that does not exist fails and changes nothing *)
Lemma register_unknown_fails cap T ns p now : get_cap T ns = None -> register_useful_peer cap T ns p now = None.
Proof. unfold register_useful_peer. now intros ->. Qed.
