(** C10: facts about the session drivers' model. *)
From Coq Require Import Lia.
From ID Require Import Base.Bytes Model.Entry Model.Tables Model.Replica Model.Ranger Model.StoreOps
  Model.Actor Model.Session.

Section SessionFacts.
  Variable ks : bytes -> option bytes.
  Variables EH MF CAP mss split : N.

  (** with the progress slot kept on failure, the accepting side can always report its outcome *)
  Lemma bob_loop_outcome frames : forall gone s accept from now ns prog sent calls,
    prog <> None ->
    bo_outcome (snd (bob_loop ks EH MF CAP mss split true gone s accept from now frames ns prog sent calls)) <> None.
  Proof.
    induction frames as [|f frames IH]; intros gone s accept from now ns prog sent calls P.
    - cbn. destruct ns; cbn; exact P.
    - destruct f as [init abort n m| |o|]; cbn [bob_loop].
      + destruct abort; [cbn; exact P|].
        destruct init.
        * destruct ns as [n0|]; [cbn; exact P|].
          destruct (accept n) as [reason|]; [cbn; exact P|].
          destruct (call ks EH MF CAP mss split gone s (ASyncProcess n m from now)) as [s' r].
          destruct r; try (cbn; exact P).
          destruct m0 as [rm|]; [apply IH; discriminate | cbn; discriminate].
        * destruct ns as [n0|]; [|cbn; exact P].
          destruct (call ks EH MF CAP mss split gone s (ASyncProcess n0 m from now)) as [s' r].
          destruct r; try (cbn; exact P).
          destruct m0 as [rm|]; [apply IH; discriminate | cbn; discriminate].
      + cbn. exact P.
      + apply IH. exact P.
      + apply IH. exact P.
  Qed.

  Theorem bob_outcome_always_available s accept from now frames :
    bo_outcome (snd (bob_run ks EH MF CAP mss split true s accept from now frames)) <> None.
  Proof. unfold bob_run. apply bob_loop_outcome. discriminate. Qed.

  (** a declined request: no call into the store actor, the store is what it was, one Abort frame *)
  Definition peer_only (frames : list fin) : Prop :=
    Forall (fun f => match f with FAct _ | FShutdown => False | _ => True end) frames.

  Lemma bob_loop_declined frames : forall gone s accept from now sent calls s' o reason,
    peer_only frames ->
    bob_loop ks EH MF CAP mss split true gone s accept from now frames None (Some (0, 0)) sent calls = (s', o) ->
    bo_result o = SErrAbort reason ->
    s' = s /\ bo_actor_calls o = calls /\ bo_sent o = rev (None :: sent).
  Proof.
    induction frames as [|f frames IH]; intros gone s accept from now sent calls s' o reason PO H R.
    - cbn in H. inversion H; subst. cbn in R. discriminate.
    - inversion PO as [|? ? Pf Pfs]; subst.
      destruct f as [init abort n m| |a|]; cbn [bob_loop] in H; try contradiction.
      + destruct abort; [inversion H; subst; cbn in R; discriminate|].
        destruct init.
        * destruct (accept n) as [r0|] eqn:A.
          -- inversion H; subst. cbn in *. auto.
          -- destruct (call ks EH MF CAP mss split gone s (ASyncProcess n m from now)) as [s1 r].
             destruct r; try (inversion H; subst; cbn in R; discriminate).
             destruct m0 as [rm|]; [|inversion H; subst; cbn in R; discriminate].
             (* after an accepted init the namespace is set: a later init is a sync error, never an abort *)
             exfalso. clear IH A. revert gone s1 H. generalize (Some rm :: sent) as snt, (calls + 1) as c,
               (Some (add_oc (0, 0) recv sent0)) as pg.
             clear - R Pfs. induction frames as [|g frames IHf]; intros snt c pg gone s1 H.
             ++ cbn in H. inversion H; subst. cbn in R. discriminate.
             ++ inversion Pfs as [|? ? Pg Pgs]; subst.
                destruct g as [i2 a2 n2 m2| |a|]; cbn [bob_loop] in H; try contradiction.
                ** destruct a2; [inversion H; subst; cbn in R; discriminate|].
                   destruct i2; [inversion H; subst; cbn in R; discriminate|].
                   destruct (call ks EH MF CAP mss split gone s1 (ASyncProcess n m2 from now)) as [s2 r2].
                   destruct r2; try (inversion H; subst; cbn in R; discriminate).
                   destruct m as [rm2|]; [|inversion H; subst; cbn in R; discriminate].
                   eapply IHf; eauto.
                ** inversion H; subst. cbn in R. discriminate.
        * inversion H; subst. cbn in R. discriminate.
      + inversion H; subst. cbn in R. discriminate.
  Qed.

  Theorem declined_changes_nothing s accept from now frames s' o reason :
    peer_only frames ->
    bob_run ks EH MF CAP mss split true s accept from now frames = (s', o) ->
    bo_result o = SErrAbort reason ->
    s' = s /\ bo_actor_calls o = 0 /\ bo_sent o = [None].
  Proof. intros PO H R. unfold bob_run in H. now apply (bob_loop_declined frames _ _ _ _ _ [] 0 _ _ reason PO H R). Qed.

  (** the initiating side: success always carries an outcome *)
  Lemma alice_loop_ok frames : forall gone s ns from now prog sent calls,
    ao_result (snd (alice_loop ks EH MF CAP mss split gone s ns from now frames prog sent calls)) = SOk ->
    ao_outcome (snd (alice_loop ks EH MF CAP mss split gone s ns from now frames prog sent calls)) <> None.
  Proof.
    induction frames as [|f frames IH]; intros gone s ns from now prog sent calls.
    - cbn. discriminate.
    - destruct f as [init abort n m| |o|]; cbn [alice_loop].
      + destruct init; [cbn; discriminate|]. destruct abort; [cbn; discriminate|].
        destruct (call ks EH MF CAP mss split gone s (ASyncProcess ns m from now)) as [s' r].
        destruct r; try (cbn; discriminate). destruct m0; [apply IH | cbn; discriminate].
      + cbn. discriminate.
      + apply IH.
      + apply IH.
  Qed.
End SessionFacts.

(** the pinned behaviour (slot left empty when the actor fails) does lose the outcome: an Init for
    a document that is not open *)
Example bob_outcome_refuted_when_slot_emptied :
  let frames := [FMsg true false 5 []] in
  bo_outcome (snd (bob_run prefix_succ 0 0 5 1 2 false (ainit empty_tables) (fun _ => None) 0 0 frames)) = None.
Proof. vm_compute. reflexivity. Qed.
