(** C03: only valid entries are accepted, on both ingress paths; the signed bytes determine the
    entry. *)
From Coq Require Import Lia.
From ID Require Import Base.Bytes Base.BytesFacts Model.Entry Model.Put Model.Tables Model.Bounds
  Model.FsStore Model.Replica Model.Ranger Proofs.RangerFacts.

Section Valid.
  Variable key_succ : bytes -> option bytes.
  Variables EH MAXF : N.

  (** what the property demands of an accepted entry *)
  Definition valid (ns now : N) (e : entry) (sig_ok : bool) : bool :=
    (e_ns e =? ns) && sig_ok && (e_ts e <=? now + MAXF) && validate_empty EH e.

  Lemma validate_entry_none now ns e ok :
    validate_entry MAXF now ns (mkW e ok) false = None <->
    (e_ns e =? ns) = true /\ ok = true /\ (e_ts e <=? now + MAXF) = true.
  Proof.
    unfold validate_entry. cbn [w_entry w_sig_ok negb andb].
    destruct (e_ns e =? ns); cbn; [|split; [discriminate|intros (H & _); discriminate]].
    destruct ok; cbn; [|split; [discriminate|intros (_ & H & _); discriminate]].
    destruct (N.ltb_spec (now + MAXF) (e_ts e)); split; try discriminate; try tauto.
    - intros (_ & _ & H'). apply N.leb_le in H'. lia.
    - intros _. repeat split; auto. apply N.leb_le. lia.
  Qed.

  (** single remote insert: stored / counted / announced only if valid; otherwise a no-op *)
  Theorem remote_accept_implies_valid T now ns e ok from st T' n evs :
    replica_insert_remote key_succ EH MAXF T now ns (mkW e ok) from st = (T', Ok n, evs) ->
    valid ns now e ok = true.
  Proof.
    unfold replica_insert_remote, insert_entry. cbn [w_entry].
    destruct (validate_empty EH e) eqn:VE; cbn [negb]; [|discriminate].
    destruct (validate_entry MAXF now ns (mkW e ok) false) eqn:V; [discriminate|].
    apply validate_entry_none in V. destruct V as (V1 & V2 & V3).
    intros _. unfold valid. now rewrite V1, V2, V3, VE.
  Qed.

  Theorem remote_invalid_noop T now ns e ok from st :
    valid ns now e ok = false ->
    exists er, replica_insert_remote key_succ EH MAXF T now ns (mkW e ok) from st = (T, Err er, []).
  Proof.
    unfold replica_insert_remote, insert_entry. cbn [w_entry]. intros IV.
    destruct (validate_empty EH e) eqn:VE; cbn [negb]; [|eexists; reflexivity].
    destruct (validate_entry MAXF now ns (mkW e ok) false) eqn:V; [eexists; reflexivity|].
    apply validate_entry_none in V. destruct V as (V1 & V2 & V3).
    unfold valid in IV. rewrite V1, V2, V3, VE in IV. discriminate.
  Qed.

  (** a rejected-as-superseded valid entry changes nothing either *)
  Theorem remote_result_cases T now ns e ok from st :
    let '(T', r, evs) := replica_insert_remote key_succ EH MAXF T now ns (mkW e ok) from st in
    match r with
    | Ok _ => valid ns now e ok = true /\ exists sd, evs = [RemoteInsert e from sd st]
    | Err _ => T' = T /\ evs = []
    end.
  Proof.
    unfold replica_insert_remote, insert_entry. cbn [w_entry].
    destruct (validate_empty EH e) eqn:VE; cbn [negb]; [|split; reflexivity].
    destruct (validate_entry MAXF now ns (mkW e ok) false) eqn:V; [split; reflexivity|].
    apply validate_entry_none in V. destruct V as (V1 & V2 & V3).
    destruct (fs_put key_succ EH T e) as [T1 [|n]]; [split; reflexivity|].
    split; [unfold valid; now rewrite V1, V2, V3, VE|]. eexists. reflexivity.
  Qed.

  (** the reconciliation path validates exactly as the single path *)
  Theorem paths_agree now ns T e st :
    sync_validate EH MAXF now ns T e st = valid ns now e (sig_bit_ok st).
  Proof.
    unfold sync_validate, valid.
    destruct (validate_entry MAXF now ns (mkW e (sig_bit_ok st)) false) eqn:V.
    - assert (H : ~ ((e_ns e =? ns) = true /\ sig_bit_ok st = true /\ (e_ts e <=? now + MAXF) = true)).
      { intros H. apply validate_entry_none in H. congruence. }
      rewrite andb_false_r.
      destruct (e_ns e =? ns), (sig_bit_ok st), (e_ts e <=? now + MAXF); cbn; auto. exfalso. apply H. auto.
    - apply validate_entry_none in V. destruct V as (V1 & V2 & V3). rewrite V1, V2, V3. cbn.
      now rewrite andb_true_r.
  Qed.

  (** every entry a message causes to be inserted (and announced) was a valid value of it *)
  Theorem message_inserted_valid mss k now ns T m p :
    In p (snd (process_message (fs_ops key_succ EH ns) mss k (fun _ => MISSING) (sync_validate EH MAXF now ns) T m)) ->
    In p (message_values m) /\ valid ns now (fst p) (sig_bit_ok (snd p)) = true.
  Proof.
    intros H.
    pose proof (process_message_inserted (fs_ops key_succ EH ns) mss k (fun _ => MISSING)
                  (fun e st => sync_validate EH MAXF now ns T e st) T m p) as G.
    destruct (G H) as [A V]. split; auto. now rewrite paths_agree in V.
  Qed.
End Valid.

(** ** the signed bytes determine the entry *)
Fixpoint be_bytes (n : nat) (x : N) : bytes :=   (* n-byte big-endian, x < 256^n *)
  match n with
  | O => []
  | S m => be_bytes m (x / 256) ++ [x mod 256]
  end.
Definition canon (id : bytes) (len : N) (hash : bytes) (ts : N) : bytes :=
  id ++ be_bytes 8 len ++ hash ++ be_bytes 8 ts.

Lemma be_bytes_length n x : length (be_bytes n x) = n.
Proof. revert x; induction n as [|n IH]; intros x; cbn; auto. rewrite app_length, IH. cbn. lia. Qed.

Lemma app_inj_tail_len {A} (a b c d : list A) : length b = length d -> a ++ b = c ++ d -> a = c /\ b = d.
Proof.
  revert c; induction a as [|x a IH]; intros c L H.
  - destruct c as [|y c]; cbn in *; auto. exfalso. subst b. cbn in L. rewrite app_length in L. lia.
  - destruct c as [|y c]; cbn in *.
    + exfalso. subst d. cbn in L. rewrite app_length in L. lia.
    + inversion H; subst. destruct (IH c L H2). subst. auto.
Qed.

Lemma be_bytes_inj n : forall x y, x < 256 ^ N.of_nat n -> y < 256 ^ N.of_nat n -> be_bytes n x = be_bytes n y -> x = y.
Proof.
  induction n as [|n IH]; intros x y Hx Hy H.
  - cbn in *. lia.
  - cbn [be_bytes] in H. apply app_inj_tail_len in H; [|reflexivity]. destruct H as [H1 H2].
    inversion H2 as [H3].
    rewrite Nat2N.inj_succ, N.pow_succ_r' in Hx, Hy.
    assert (x / 256 = y / 256).
    { apply IH; auto; apply N.div_lt_upper_bound; lia. }
    rewrite (N.div_mod x 256), (N.div_mod y 256); lia.
Qed.

Theorem canon_injective id1 len1 h1 ts1 id2 len2 h2 ts2 :
  length h1 = 32%nat -> length h2 = 32%nat ->
  len1 < 2 ^ 64 -> len2 < 2 ^ 64 -> ts1 < 2 ^ 64 -> ts2 < 2 ^ 64 ->
  canon id1 len1 h1 ts1 = canon id2 len2 h2 ts2 ->
  id1 = id2 /\ len1 = len2 /\ h1 = h2 /\ ts1 = ts2.
Proof.
  intros L1 L2 B1 B2 B3 B4 H. unfold canon in H.
  assert (P : 256 ^ N.of_nat 8 = 2 ^ 64) by reflexivity.
  apply app_inj_tail_len in H; [|rewrite !app_length, !be_bytes_length; lia]. destruct H as [-> H].
  apply app_inj_tail_len in H; [|rewrite !app_length, !be_bytes_length; lia]. destruct H as [H1 H].
  apply app_inj_tail_len in H; [|rewrite !be_bytes_length; lia]. destruct H as [-> H3].
  repeat split; apply (be_bytes_inj 8); rewrite ?P; auto.
Qed.
