(** get / insert / remove on association lists, for any comparison whose [Eq] is equality. *)
From Coq Require Import Lia.
From ID Require Import Base.Bytes Model.Entry Model.Tables.

Section Tbl.
  Context {K V : Type} (cmp : K -> K -> comparison).
  Hypothesis cmp_eq : forall a b, cmp a b = Eq <-> a = b.

  Lemma cmp_refl a : cmp a a = Eq.
  Proof. now apply cmp_eq. Qed.

  Lemma tbl_get_insert_same k (v : V) l : tbl_get cmp k (tbl_insert cmp k v l) = Some v.
  Proof.
    induction l as [|[k' v'] l IH]; cbn.
    - now rewrite cmp_refl.
    - destruct (cmp k k') eqn:E; cbn; rewrite ?cmp_refl; auto. now rewrite E.
  Qed.

  Lemma tbl_get_insert_other k k' (v : V) l : k <> k' ->
    tbl_get cmp k' (tbl_insert cmp k v l) = tbl_get cmp k' l.
  Proof.
    intros NE. assert (N1 : cmp k' k <> Eq) by (intros H; apply cmp_eq in H; congruence).
    induction l as [|[k2 v2] l IH]; cbn.
    - destruct (cmp k' k); congruence.
    - destruct (cmp k k2) eqn:E; cbn.
      + apply cmp_eq in E. subst k2. destruct (cmp k' k); congruence.
      + destruct (cmp k' k); try congruence; reflexivity.
      + now rewrite IH.
  Qed.

  Lemma tbl_get_remove_same k (l : list (K * V)) : tbl_get cmp k (tbl_remove cmp k l) = None.
  Proof.
    unfold tbl_remove. induction l as [|[k' v'] l IH]; cbn [filter fst tbl_get]; auto.
    destruct (cmp k k') eqn:E; cbn [tbl_get]; auto; now rewrite E.
  Qed.

  Lemma tbl_get_remove_other k k' (l : list (K * V)) : k <> k' ->
    tbl_get cmp k' (tbl_remove cmp k l) = tbl_get cmp k' l.
  Proof.
    intros NE. unfold tbl_remove. induction l as [|[k2 v2] l IH]; cbn [filter fst tbl_get]; auto.
    destruct (cmp k k2) eqn:E; cbn [tbl_get].
    - apply cmp_eq in E. subst k2.
      destruct (cmp k' k) eqn:E2; auto. apply cmp_eq in E2. congruence.
    - now rewrite IH.
    - now rewrite IH.
  Qed.

  Lemma tbl_get_In k v (l : list (K * V)) : tbl_get cmp k l = Some v -> In (k, v) l.
  Proof.
    induction l as [|[k' v'] l IH]; cbn; [discriminate|].
    destruct (cmp k k') eqn:E; auto.
    apply cmp_eq in E. subst. intros H; inversion H; auto.
  Qed.
End Tbl.

Lemma Ncompare_eq a b : (a ?= b) = Eq <-> a = b.
Proof. apply N.compare_eq_iff. Qed.

Lemma pair_cmp_eq a b : pair_cmp a b = Eq <-> a = b.
Proof.
  destruct a as [a1 a2], b as [b1 b2]. unfold pair_cmp. cbn.
  destruct (N.compare_spec a1 b1) as [->|L|G].
  - rewrite N.compare_eq_iff. split; [now intros -> | intros H; now inversion H].
  - split; [discriminate|]. intros H; inversion H; lia.
  - split; [discriminate|]. intros H; inversion H; lia.
Qed.
