(** C01: termination for EVERY split factor >= 2 and every maximal set size.
    Measure: the number of maximal entries of the union not yet held by both sides, then the
    least rank among the parts in flight that cover the first such entry. Neither the
    whole-ring sub-range that a split with fewer elements than the split factor produces, nor
    the maximal set size matter for it. *)
From Coq Require Import Lia Sorted PeanoNat.
From ID Require Import Base.Bytes Base.BytesFacts Model.Entry Model.Put Model.Tables Model.Bounds
  Model.FsStore Model.Replica Model.Ranger Proofs.EntryFacts Proofs.PutFacts Proofs.BoundsFacts
  Proofs.RangerFacts Proofs.FsPutFacts Proofs.ConvergeFacts Proofs.SplitFacts Proofs.SessionConverge
  Proofs.TerminateFacts Proofs.RangeFacts Proofs.RefineFacts.

Local Open Scope nat_scope.

Lemma rc_sub_mid x y a b z : x <> y -> rc x y a = true -> rc a y b = true -> a <> b ->
  rc a b z = true -> rc x y z = true.
Proof.
  unfold range_contains. intros N1 H1 H2 N2 H3. revert H1 H2 H3.
  cmp_cases; intros; try discriminate; auto; exfalso; rorder.
Qed.

(** the sub-range of a proper range that covers a given point can be chosen with different ends,
    inside the range, and missing one of the local elements of the range *)
Theorem split_covers_strict k (K2 : (2 <= k)%N) U s x y :
  sub U s -> ssorted s -> 2 <= length (rng s x y) -> x <> y ->
  forall z, rc x y z = true ->
  exists r, In r (split_ranges k x y (rng s x y)) /\ rc (fst r) (snd r) z = true /\
            fst r <> snd r /\ cnt U (fst r) (snd r) < cnt U x y.
Proof.
  intros HS SS L2 NE z R.
  set (l := rng s x y) in *. set (st := start_index x l).
  assert (SL : ssorted l) by now apply ssorted_filter.
  assert (L1 : 1 <= length l) by lia.
  assert (ST : st <= length l) by apply start_index_le.
  assert (LU : forall e, In e l -> In e U /\ rc x y (entry_rid e) = true).
  { intros e He. unfold l in He. apply filter_In in He. destruct He. split; auto. }
  unfold split_ranges. cbv zeta beta. fold st. set (pv := pivot k l st).
  assert (EQ : rid_eqb x y = false).
  { destruct (rid_eqb x y) eqn:E; auto. apply rid_eqb_eq in E. contradiction. }
  rewrite EQ.
  pose proof (range_ring s x y SS NE) as F. cbv zeta in F. fold l in F. fold st in F.
  set (P := fun j : nat => pv (N.of_nat j)).
  set (m := N.to_nat (k - 2)).
  assert (STEPS : steps y P m).
  { intros i Hi. unfold P. replace (N.of_nat (S i)) with (N.of_nat i + 1)%N by lia.
    apply (pivot_step k K2 l st L1 ST y); auto. apply (jidx_mono k K2 l st L1 ST). unfold m in Hi. lia. }
  assert (PIN : forall i, exists e, In e l /\ pv i = entry_rid e) by (intros i; apply (pivot_in k K2 l st L1 ST)).
  assert (P0 : P O = x \/ rc x y (P O) = true).
  { right. unfold P. destruct (PIN (N.of_nat 0)) as [e [He ->]]. now apply LU. }
  assert (PM : P m = pv (k - 2)%N) by (unfold P, m; f_equal; lia).
  destruct (chain_cover x y z m P NE R P0 STEPS) as [[N1 R1]|[[i (Hi & NQ & Ri)]|Rm]].
  - (* [x, pv 0) *)
    exists (x, pv 0%N). cbn [fst snd]. split; [now left|]. split; [exact R1|]. split; [exact N1|].
    destruct (PIN 0%N) as [e0 [He0 E0]]. destruct (LU e0 He0) as [UE RXE].
    unfold P in N1. cbn in N1. rewrite E0 in *.
    apply (cnt_lt U x y x (entry_rid e0) e0); auto.
    + intros w Hw. apply (rc_sub_left x y (entry_rid e0)); auto.
    + apply rc_end_out. auto.
  - (* [pv i, pv (i+1)) *)
    unfold P in NQ, Ri. replace (N.of_nat (S i)) with (N.of_nat i + 1)%N in * by lia.
    exists (pv (N.of_nat i), pv (N.of_nat i + 1)%N). cbn [fst snd]. split; [|split; [exact Ri|split; [exact NQ|]]].
    + cbn [app]. right. apply in_or_app. left. apply filter_In. split.
      * apply in_map_iff. exists (N.of_nat i). split; auto. apply in_nseq. exact Hi.
      * cbn [fst snd]. now apply rid_eqb_neq.
    + destruct (PIN (N.of_nat i)) as [ea [Hea Ea]]. destruct (PIN (N.of_nat i + 1)%N) as [eb [Heb Eb]].
      destruct (LU ea Hea) as [UA RXA]. destruct (LU eb Heb) as [UB RXB].
      assert (RAB : rc (pv (N.of_nat i)) y (pv (N.of_nat i + 1)%N) = true).
      { pose proof (STEPS i Hi) as ST'. unfold P in ST'. replace (N.of_nat (S i)) with (N.of_nat i + 1)%N in ST' by lia.
        destruct ST' as [E|H]; [exfalso; apply NQ; now symmetry|exact H]. }
      rewrite Ea, Eb in *.
      apply (cnt_lt U x y (entry_rid ea) (entry_rid eb) eb); auto.
      * intros w Hw. apply (rc_sub_mid x y (entry_rid ea) (entry_rid eb)); auto.
      * apply rc_end_out. auto.
  - (* [pv (k-2), y) *)
    rewrite PM in Rm. exists (pv (k - 2)%N, y). cbn [fst snd]. split; [|split; [exact Rm|]].
    + cbn [app]. right. apply in_or_app. right. now left.
    + assert (LEN : length (rot st l) = length l).
      { unfold rot. rewrite app_length, skipn_length, firstn_length. lia. }
      destruct (nth_error (rot st l) 0) as [a0|] eqn:A0; [|apply nth_error_None in A0; lia].
      pose proof (jidx_penult k K2 l st L1 ST L2) as J0.
      pose proof (jidx_lt k K2 l st L1 ST (k - 2)%N) as JL.
      destruct (nth_error (rot st l) (jidx k l (k - 2)%N)) as [e0|] eqn:E0; [|apply nth_error_None in E0; lia].
      assert (PE : pv (k - 2)%N = entry_rid e0).
      { unfold pv. rewrite (pivot_rot k K2 l st L1 ST). unfold rid_at. now rewrite E0. }
      assert (RR : ringrel y a0 e0) by (apply (FOP_nth _ _ F 0 (jidx k l (k - 2)%N) a0 e0); auto; lia).
      destruct RR as [NQ RA].
      assert (INa : In a0 l).
      { apply nth_error_In in A0. unfold rot in A0. apply in_app_or in A0.
        rewrite <- (firstn_skipn st l). apply in_or_app. tauto. }
      assert (INe : In e0 l).
      { apply nth_error_In in E0. unfold rot in E0. apply in_app_or in E0.
        rewrite <- (firstn_skipn st l). apply in_or_app. tauto. }
      destruct (LU a0 INa) as [UA RXA]. destruct (LU e0 INe) as [UE RXE].
      rewrite PE in *. split.
      * apply (rc_not_end x y); auto. apply (rc_first_not_start x y (entry_rid a0)); auto.
      * apply (cnt_lt U x y (entry_rid e0) y a0); auto.
        -- intros w Hw. apply (rc_sub_right x y (entry_rid e0)); auto.
        -- apply (rc_later_excludes x y); auto.
Qed.

(** every sub-range of the whole ring has different ends *)
Lemma split_full_proper k x l r : In r (split_ranges k x x l) -> fst r <> snd r.
Proof.
  unfold split_ranges. cbv zeta beta. assert (E : rid_eqb x x = true) by now apply rid_eqb_eq. rewrite E.
  intros H. apply filter_In in H. destruct H as [_ H]. intros Q. rewrite Q in H.
  assert (X : rid_eqb (snd r) (snd r) = true) by now apply rid_eqb_eq. rewrite X in H. discriminate.
Qed.

Section AllFactors.
  Variables (mss k : N) (v : entry -> N -> bool) (U : list entry).
  Hypothesis K2 : (2 <= k)%N.
  Hypothesis Ucons : consistent U.
  Hypothesis Uvalid : forall e, In e U -> v e MISSING = true.
  Let status_of := fun _ : entry => MISSING.
  Let validate := fun (_ : list entry) (e : entry) (st : N) => v e st.
  Let BIG : nat := 4 + length U.

  (** ranks: answers 0, requests 1, fingerprints of proper ranges by the number of union entries
      inside, the whole ring above all of them *)
  Definition rank' (p : part) : nat :=
    match p with
    | PItem _ _ _ true => 0
    | PItem _ _ _ false => 1
    | PFp x y _ => if rid_eqb x y then 3 + length U else 2 + cnt U x y
    end.
  Definition coversb (p : part) (e : entry) : bool :=
    match p with PFp x y _ | PItem x y _ _ => range_contains x y (entry_rid e) end.
  Lemma coversb_spec p e : coversb p e = true <-> covers p e.
  Proof. destruct p; reflexivity. Qed.

  Lemma cnt_le x y : cnt U x y <= length U.
  Proof. unfold cnt, rng. apply filter_len_le. Qed.
  Lemma rank'_lt_BIG p : rank' p < BIG.
  Proof. unfold BIG. destruct p as [x y fp|x y vs [|]]; cbn [rank']; try lia. pose proof (cnt_le x y). destruct (rid_eqb x y); lia. Qed.

  (** least rank among the parts covering [e]; [BIG] when none does *)
  Fixpoint mu (e : entry) (m : message) : nat :=
    match m with
    | [] => BIG
    | p :: r => if coversb p e then Nat.min (rank' p) (mu e r) else mu e r
    end.
  Lemma mu_le e m p : In p m -> covers p e -> mu e m <= rank' p.
  Proof.
    induction m as [|q m IH]; intros [] C; cbn [mu].
    - subst q. rewrite (proj2 (coversb_spec p e) C). lia.
    - specialize (IH H C). destruct (coversb q e); lia.
  Qed.
  Lemma mu_witness e m : mu e m < BIG -> exists p, In p m /\ covers p e /\ rank' p = mu e m.
  Proof.
    induction m as [|q m IH]; cbn [mu]; [lia|]. destruct (coversb q e) eqn:C.
    - intros H. destruct (Nat.le_gt_cases (rank' q) (mu e m)) as [L|G].
      + exists q. split; [now left|]. split; [now apply coversb_spec|lia].
      + destruct IH as [p (I & Cp & R)]; [lia|]. exists p. split; [now right|]. split; auto. lia.
    - intros H. destruct (IH H) as [p (I & Cp & R)]. exists p. split; [now right|auto].
  Qed.
  Lemma mu_le_BIG e m : mu e m <= BIG.
  Proof. induction m as [|q m IH]; cbn [mu]; auto. destruct (coversb q e); lia. Qed.

  (** ---- a fingerprint part covering an unsettled top entry is answered by a covering part of
           lower rank ---- *)
  Lemma fp_progress Ss s1 x y fp e :
    sub U Ss -> sub U s1 -> ssorted s1 -> (forall t, top U t -> In t Ss \/ In t s1) ->
    fp = fp_of (rng Ss x y) -> top U e -> inr x y e ->
    (In e s1 /\ In e Ss) \/
    exists q, In q (process_fp om_ops mss k status_of s1 x y fp) /\ covers q e /\ rank' q < rank' (PFp x y fp).
  Proof.
    intros HSs Hs SS G -> T I.
    destruct (fp_facts mss k U Ucons (split_covers k K2) Ss s1 x y (fp_of (rng Ss x y)) HSs Hs SS G eq_refl) as [_ COV].
    unfold process_fp in *. change (so_range om_ops s1 x y) with (rng s1 x y) in *.
    destruct (fp_eqb (fp_of (rng s1 x y)) (fp_of (rng Ss x y))) eqn:FE.
    - left. destruct (COV e T I) as [B|[q [[] _]]]. exact B.
    - right. assert (RK : 2 <= rank' (PFp x y (fp_of (rng Ss x y)))) by (cbn [rank']; destruct (rid_eqb x y); lia).
      destruct ((N.of_nat (length (rng s1 x y)) <=? 1)%N || fp_is_empty (fp_of (rng Ss x y))) eqn:SMALL.
      + eexists. split; [now left|]. split; [exact I|]. cbn [rank']. cbn [rank'] in RK. lia.
      + apply orb_false_iff in SMALL. destruct SMALL as [LEN _]. apply N.leb_gt in LEN.
        assert (L2 : 2 <= length (rng s1 x y)) by lia.
        destruct (rid_eqb x y) eqn:EQ.
        * (* the whole ring: every sub-range is proper, hence ranks below *)
          apply rid_eqb_eq in EQ. subst y.
          destruct (split_covers k K2 s1 x x SS L2 (entry_rid e) I) as [r [Hr Cr]].
          pose proof (split_full_proper k x (rng s1 x x) r Hr) as PR.
          eexists. split; [apply in_map_iff; exists r; split; [reflexivity|exact Hr]|].
          change (so_range om_ops s1 (fst r) (snd r)) with (rng s1 (fst r) (snd r)).
          assert (NE : rid_eqb (fst r) (snd r) = false).
          { destruct (rid_eqb (fst r) (snd r)) eqn:E; auto. apply rid_eqb_eq in E. contradiction. }
          pose proof (cnt_le (fst r) (snd r)).
          destruct (mss <? N.of_nat (length (rng s1 (fst r) (snd r))))%N; split; try exact Cr; cbn [rank'];
            rewrite ?NE; assert (X : rid_eqb x x = true) by (now apply rid_eqb_eq); rewrite ?X; lia.
        * assert (NE : x <> y) by (intros E; apply rid_eqb_eq in E; congruence).
          destruct (split_covers_strict k K2 U s1 x y Hs SS L2 NE (entry_rid e) I) as [r (Hr & Cr & PR & CL)].
          eexists. split; [apply in_map_iff; exists r; split; [reflexivity|exact Hr]|].
          change (so_range om_ops s1 (fst r) (snd r)) with (rng s1 (fst r) (snd r)).
          assert (NE' : rid_eqb (fst r) (snd r) = false).
          { destruct (rid_eqb (fst r) (snd r)) eqn:E; auto. apply rid_eqb_eq in E. contradiction. }
          destruct (mss <? N.of_nat (length (rng s1 (fst r) (snd r))))%N; split; try exact Cr; cbn [rank'];
            rewrite ?NE', ?EQ; lia.
  Qed.

  (** ---- a top entry among the values of a message is held afterwards ---- *)
  Lemma top_value_stored Ss Sr m x y vs hl e : Inv U Ss Sr m -> top U e ->
    In (PItem x y vs hl) m -> In e (map fst vs) ->
    In e (fst (fst (process_message om_ops mss k status_of validate Sr m))).
  Proof.
    intros (HSs & HSr & SSs & SSr & G & HON & COV) T Ip Ie.
    unfold status_of, validate. rewrite (process_message_store om_ops mss k (fun _ => MISSING) v Sr m).
    pose proof (honest_values mss v U Ss Sr m HSs HON) as HV.
    destruct (puts_facts mss v U (valid_values v (message_values m)) Sr HSr SSr HV) as (_ & _ & _ & P4).
    apply P4; auto.
    (* the value passes validation *)
    apply in_map_iff in Ie. destruct Ie as [[e' st] [E Iq]]. cbn in E. subst e'.
    assert (GV : good_values U vs).
    { specialize (HON _ Ip). destruct hl; cbn in HON; [tauto|]. subst vs.
      intros q Hq. unfold with_status in Hq. apply in_map_iff in Hq. destruct Hq as [d [<- Hd]]. cbn. split; auto.
      apply HSs. apply filter_In in Hd. tauto. }
    destruct (GV _ Iq) as [IU ST]. cbn in IU, ST. subst st.
    unfold valid_values. apply in_map_iff. exists (e, MISSING). split; auto. apply filter_In. split.
    - unfold message_values. apply in_flat_map. exists (PItem x y vs hl). split; [apply filter_In; split; auto|exact Iq].
    - cbn. now apply Uvalid.
  Qed.

  (** ---- one step: any part covering an unsettled top entry is answered by a covering part of
           lower rank, unless the entry is settled by the step ---- *)
  Theorem step_progress Ss Sr m p e :
    Inv U Ss Sr m -> top U e -> In p m -> covers p e ->
    let '(Sr', reply, _) := process_message om_ops mss k status_of validate Sr m in
    (In e Sr' /\ In e Ss) \/
    exists r q, reply = Some r /\ In q r /\ covers q e /\ rank' q < rank' p.
  Proof.
    intros I T Ip Cp. pose proof I as (HSs & HSr & SSs & SSr & G & HON & COV).
    pose proof (top_value_stored Ss Sr m) as TVS.
    unfold status_of, validate in *. rewrite (process_message_unfold mss k v Sr m) in *.
    pose proof (items_facts mss v U Uvalid Ss (filter is_item m) Sr [] [] HSs HSr SSr G
                  (fun p Hp => HON p (proj1 (proj1 (filter_In _ _ _) Hp)))
                  (fun p (F : In p []) => match F with end)) as IF.
    pose proof (items_out_shape v (filter is_item m) Sr [] []) as SH.
    destruct (fold_left (item_fold om_ops (fun _ : entry => MISSING) v) (filter is_item m) (Sr, [], [])) as [[s1 out1] ins1].
    destruct IF as (A1 & A2 & A3 & A4 & _ & A6). cbn [fst snd] in SH, TVS. cbv zeta in *.
    set (out2 := flat_map (fun p => match p with PFp x y fp => process_fp om_ops mss k (fun _ : entry => MISSING) s1 x y fp | _ => [] end)
                          (filter (fun p => negb (is_item p)) m)) in *.
    assert (G1 : forall t, top U t -> In t Ss \/ In t s1) by (intros t Tt; destruct (G t Tt); auto).
    assert (RES : (In e s1 /\ In e Ss) \/ exists q, In q (out1 ++ out2) /\ covers q e /\ rank' q < rank' p).
    { destruct p as [x y fp|x y vs hl].
      - destruct (fp_progress Ss s1 x y fp e HSs A1 A2 G1 (HON _ Ip) T Cp) as [B|[q (Hq & Cq & Rq)]]; [now left|].
        right. exists q. split; auto. apply in_or_app. right. apply in_flat_map. exists (PFp x y fp). split; auto.
        apply filter_In. split; auto.
      - destruct hl.
        + (* an answer: what it carries is stored *)
          left. pose proof (HON _ Ip) as H. cbn in H. destruct H as [_ H]. destruct (H e T Cp) as [IS [IR|IV]]; split; auto.
          pose proof (TVS x y vs true e I T Ip IV) as X. destruct (out1 ++ out2); cbn [fst] in X; exact X.
        + destruct (A6 e T) as [B|[q [Hq Cq]]].
          * exists (PItem x y vs false). split; [apply filter_In; split; auto|]. split; auto.
          * now left.
          * right. exists q. split; [apply in_or_app; now left|]. split; auto.
            destruct (SH q Hq) as [[]|(x0 & y0 & a & b & -> & _)]. cbn [rank']. lia. }
    destruct (out1 ++ out2) as [|p0 r0] eqn:OUT.
    - destruct RES as [B|[q ([] & _)]]. now left.
    - destruct RES as [B|[q (Hq & Cq & Rq)]]; [now left|]. right. exists (p0 :: r0), q. auto.
  Qed.

  (** ---- the measure ---- *)
  Definition memb (e : entry) (S : list entry) : bool := existsb (entry_eqb e) S.
  Lemma memb_spec e S : memb e S = true <-> In e S.
  Proof.
    unfold memb. rewrite existsb_exists. split.
    - intros [x [I E]]. apply entry_eqb_eq in E. now subst.
    - intros I. exists e. split; auto. apply entry_eqb_refl.
  Qed.
  Definition unsettledb (S1 S2 : list entry) (e : entry) : bool := negb (memb e S1 && memb e S2).
  Definition unl (S1 S2 : list entry) : list entry := filter (unsettledb S1 S2) (reduce U).
  Lemma unl_sym S1 S2 : unl S1 S2 = unl S2 S1.
  Proof. unfold unl. apply filter_ext. intros e. unfold unsettledb. now rewrite andb_comm. Qed.
  Lemma in_unl S1 S2 e : In e (unl S1 S2) <-> top U e /\ ~ (In e S1 /\ In e S2).
  Proof.
    unfold unl, unsettledb. rewrite filter_In, reduce_spec, negb_true_iff, andb_false_iff, <- !Bool.not_true_iff_false, !memb_spec.
    unfold top. split; intros [T H]; split; auto.
    - intros [A B]. destruct H; auto.
    - destruct (in_dec entry_eq_dec e S1); [right|left]; tauto.
  Qed.

  Definition is_request (p : part) : bool := match p with PItem _ _ _ false => true | _ => false end.
  Definition nu (m : message) : nat := if existsb is_request m then 2 else match m with [] => 0 | _ => 1 end.
  Definition M (S1 S2 : list entry) (m : message) : nat :=
    match unl S1 S2 with
    | [] => nu m
    | e :: _ => length (unl S1 S2) * (BIG + 2) + mu e m
    end.

  Lemma filter_shrinks {A} (f f' : A -> bool) l : (forall x, In x l -> f' x = true -> f x = true) ->
    length (filter f' l) <= length (filter f l) /\ (length (filter f' l) = length (filter f l) -> filter f' l = filter f l).
  Proof.
    induction l as [|a l IH]; intros H; cbn [filter]; [split; auto|].
    destruct IH as [LE EQ]; [intros x Hx; apply H; now right|].
    destruct (f' a) eqn:F'.
    - rewrite (H a (or_introl eq_refl) F'). cbn [length]. split; [lia|]. intros E. f_equal. apply EQ. lia.
    - destruct (f a); cbn [length]; split; try lia; auto.
  Qed.

  (** what one step does to the stores, from the store-effect theorem *)
  Lemma step_store_facts Ss Sr m : Inv U Ss Sr m ->
    let Sr' := fst (fst (process_message om_ops mss k status_of validate Sr m)) in
    sub U Sr' /\ ssorted Sr' /\ mono U Sr Sr'.
  Proof.
    intros (HSs & HSr & SSs & SSr & G & HON & COV). cbv zeta.
    unfold status_of, validate. rewrite (process_message_store om_ops mss k (fun _ => MISSING) v Sr m).
    pose proof (honest_values mss v U Ss Sr m HSs HON) as HV.
    destruct (puts_facts mss v U (valid_values v (message_values m)) Sr HSr SSr HV) as (P1 & P2 & P3 & _). auto.
  Qed.

  Lemma unl_shrinks Ss Sr Sr' : mono U Sr Sr' ->
    length (unl Ss Sr') <= length (unl Ss Sr) /\ (length (unl Ss Sr') = length (unl Ss Sr) -> unl Ss Sr' = unl Ss Sr).
  Proof.
    intros MO. unfold unl. apply filter_shrinks. intros e He H.
    apply reduce_spec in He. unfold unsettledb in *. apply negb_true_iff in H. apply negb_true_iff.
    apply andb_false_iff in H. apply andb_false_iff. destruct H as [H|H]; auto. right.
    apply Bool.not_true_iff_false. intros X. apply memb_spec in X. apply Bool.not_true_iff_false in H. apply H.
    apply memb_spec. apply MO; auto.
  Qed.

  (** fingerprints that tell the truth about a store equal to ours are answered with silence *)
  Lemma fps_silent Ss l :
    (forall p, In p l -> match p with PFp x y fp => fp = fp_of (rng Ss x y) | _ => True end) ->
    flat_map (fun p => match p with PFp x y fp => process_fp om_ops mss k (fun _ : entry => MISSING) Ss x y fp | _ => [] end) l = [].
  Proof.
    induction l as [|p l IH]; intros H; cbn [flat_map]; auto.
    rewrite IH by (intros q Hq; apply H; now right).
    destruct p as [x y fp|]; auto. pose proof (H _ (or_introl eq_refl)) as E. cbn in E.
    unfold process_fp. change (so_range om_ops Ss x y) with (rng Ss x y). now rewrite E, fp_eqb_refl.
  Qed.

  (** ---- the measure decreases with every reply ---- *)
  Theorem measure_decreases Ss Sr m Sr' r ins :
    Inv U Ss Sr m -> reduced Ss -> reduced Sr ->
    process_message om_ops mss k status_of validate Sr m = (Sr', Some r, ins) ->
    M Sr' Ss r < M Ss Sr m.
  Proof.
    intros I RSs RSr PM. pose proof I as (HSs & HSr & SSs & SSr & G & HON & COV).
    destruct (step_store_facts Ss Sr m I) as (SU' & SS' & MO). rewrite PM in SU', SS', MO. cbn [fst] in *.
    destruct (unl_shrinks Ss Sr Sr' MO) as [LE EQL].
    unfold M. rewrite (unl_sym Sr' Ss).
    destruct (unl Ss Sr) as [|e rest] eqn:UN.
    - (* everything settled: only answers to requests can follow *)
      assert (UN' : unl Ss Sr' = []) by (destruct (unl Ss Sr'); cbn in LE; [auto|lia]).
      rewrite UN'.
      assert (ST : forall S2, sub U S2 -> ssorted S2 -> unl Ss S2 = [] -> settled U Ss S2).
      { intros S2 H2 S2s E. split; [|split; [|split; [|split]]]; auto. intros t T.
        destruct (in_dec entry_eq_dec t Ss) as [A|NA]; [destruct (in_dec entry_eq_dec t S2) as [B|NB]; auto|].
        - exfalso. assert (X : In t (unl Ss S2)) by (apply in_unl; split; auto; tauto). rewrite E in X. destruct X.
        - exfalso. assert (X : In t (unl Ss S2)) by (apply in_unl; split; auto; tauto). rewrite E in X. destruct X. }
      pose proof (step_reduced mss k v U Ucons Ss Sr m I RSr) as RD'. unfold status_of, validate in PM. rewrite PM in RD'. cbn [fst] in RD'.
      pose proof (ST Sr' SU' SS' UN') as ST1.
      assert (ST1' : settled U Sr' Ss).
      { destruct ST1 as (a & b & c & d & e0). split; [|split; [|split; [|split]]]; auto. intros t T. destruct (e0 t T); auto. }
      assert (SAME : Sr' = Ss).
      { apply ssorted_ext; auto. intros x. rewrite (settled_is_join U Ucons Sr' Ss ST1' RD' x), (settled_is_join U Ucons Ss Sr' ST1 RSs x). tauto. }
      (* the reply is made of answers only *)
      rewrite (process_message_unfold mss k v Sr m) in PM.
      pose proof (items_out_shape v (filter is_item m) Sr [] []) as SH.
      destruct (fold_left (item_fold om_ops (fun _ : entry => MISSING) v) (filter is_item m) (Sr, [], [])) as [[s1 out1] ins1].
      cbn [fst snd] in SH. cbv zeta in PM.
      set (out2 := flat_map (fun p => match p with PFp x y fp => process_fp om_ops mss k (fun _ : entry => MISSING) s1 x y fp | _ => [] end)
                            (filter (fun p => negb (is_item p)) m)) in *.
      destruct (out1 ++ out2) as [|p0 r0] eqn:OUT; [discriminate|]. inversion PM; subst s1 r ins. clear PM.
      assert (O2 : out2 = []).
      { unfold out2. rewrite SAME. apply fps_silent. intros p Hp. apply filter_In in Hp. destruct Hp as [Hp _].
        pose proof (HON _ Hp) as H. destruct p; auto. }
      rewrite O2, app_nil_r in OUT. subst out1.
      assert (REQ : existsb is_request m = true).
      { destruct (SH p0 (or_introl eq_refl)) as [[]|(x0 & y0 & a & b & _ & Ib)].
        apply existsb_exists. exists (PItem x0 y0 b false). split; auto. apply filter_In in Ib. tauto. }
      assert (NRQ : existsb is_request (p0 :: r0) = false).
      { apply Bool.not_true_iff_false. intros X. apply existsb_exists in X. destruct X as [q [Hq Rq]].
        destruct (SH q Hq) as [[]|(x0 & y0 & a & b & -> & _)]. discriminate. }
      unfold nu. rewrite REQ, NRQ. lia.
    - (* the first unsettled entry *)
      assert (TE : top U e /\ ~ (In e Ss /\ In e Sr)) by (apply in_unl; rewrite UN; now left).
      destruct TE as [T NS].
      destruct (COV e T) as [B|[p0 [Ip0 Cp0]]]; [contradiction|].
      assert (MUB : mu e m < BIG) by (pose proof (mu_le e m p0 Ip0 Cp0); pose proof (rank'_lt_BIG p0); lia).
      destruct (mu_witness e m MUB) as [p (Ip & Cp & Rp)].
      pose proof (step_progress Ss Sr m p e I T Ip Cp) as SP. rewrite PM in SP.
      cbn [length] in *.
      assert (BND : forall e' r', mu e' r' <= BIG) by (intros; apply mu_le_BIG).
      destruct SP as [[A B]|(r' & q & E & Hq & Cq & Rq)].
      + (* settled by this step: one entry less *)
        assert (LT : length (unl Ss Sr') < S (length rest)).
        { destruct (Nat.eq_dec (length (unl Ss Sr')) (S (length rest))) as [E|NE]; [|lia].
          specialize (EQL E). exfalso. assert (X : In e (unl Ss Sr')) by (rewrite EQL; now left).
          apply in_unl in X. destruct X as [_ X]. apply X. auto. }
        unfold M. destruct (unl Ss Sr') as [|e' rest'] eqn:UN'.
        * unfold nu. destruct (existsb is_request r); [|destruct r]; unfold BIG; nia.
        * cbn [length] in *. specialize (BND e' r). nia.
      + inversion E; subst r'.
        destruct (Nat.eq_dec (length (unl Ss Sr')) (S (length rest))) as [E'|NE].
        * rewrite (EQL E'). unfold M. cbn [length].
          pose proof (mu_le e r q Hq Cq). nia.
        * unfold M. destruct (unl Ss Sr') as [|e' rest'] eqn:UN'.
          -- unfold nu. destruct (existsb is_request r); [|destruct r]; unfold BIG; nia.
          -- cbn [length] in *. specialize (BND e' r). nia.
  Qed.
End AllFactors.

Section Ends.
  Variables (mss k : N) (v : entry -> N -> bool) (U : list entry).
  Hypothesis K2 : (2 <= k)%N.
  Hypothesis Ucons : consistent U.
  Hypothesis Uvalid : forall e, In e U -> v e MISSING = true.

  Lemma session_ends_all fuel : forall SA SB m (turn : bool) acc,
    (if turn then Inv U SA SB m else Inv U SB SA m) -> reduced SA -> reduced SB ->
    (if turn then M U SA SB m else M U SB SA m) < fuel ->
    exists res, list_session mss k v fuel SA SB m turn acc = Some res.
  Proof.
    induction fuel as [|f IH]; intros SA SB m turn acc I RA RB MF; [lia|].
    cbn [list_session]. unfold list_process. destruct turn.
    - pose proof (step_keeps_inv mss k v U Ucons Uvalid (split_covers k K2) SA SB m I) as ST.
      pose proof (measure_decreases mss k v U K2 Ucons Uvalid SA SB m) as MD.
      pose proof (step_reduced mss k v U Ucons SA SB m I RB) as RD.
      destruct (process_message om_ops mss k (fun _ : entry => MISSING) (fun (_ : list entry) (e : entry) (st : N) => v e st) SB m) as [[SB' reply] ins].
      cbn [fst] in RD. destruct reply as [r|]; [|eauto].
      specialize (MD SB' r ins I RA RB eq_refl). apply IH; auto. lia.
    - pose proof (step_keeps_inv mss k v U Ucons Uvalid (split_covers k K2) SB SA m I) as ST.
      pose proof (measure_decreases mss k v U K2 Ucons Uvalid SB SA m) as MD.
      pose proof (step_reduced mss k v U Ucons SB SA m I RA) as RD.
      destruct (process_message om_ops mss k (fun _ : entry => MISSING) (fun (_ : list entry) (e : entry) (st : N) => v e st) SA m) as [[SA' reply] ins].
      cbn [fst] in RD. destruct reply as [r|]; [|eauto].
      specialize (MD SA' r ins I RB RA eq_refl). apply IH; auto. lia.
  Qed.
End Ends.

(** the bound on the number of processing steps, in terms of the two starting contents *)
Definition steps_bound (A B : list entry) : nat :=
  (length (reduce (A ++ B)) + 1) * (length (A ++ B) + 6) + 3.

(** The full statement for every split factor and every maximal set size. *)
Theorem list_session_total_all mss k v A B :
  (2 <= k)%N -> ssorted A -> ssorted B -> reduced A -> reduced B -> consistent (A ++ B) ->
  (forall e, In e (A ++ B) -> v e MISSING = true) ->
  exists A' B' tr,
    list_session mss k v (steps_bound A B) A B (initial_message om_ops A) true [] = Some (A', B', tr) /\
    (forall x, In x A' <-> In x (join A B)) /\ (forall x, In x B' <-> In x (join A B)) /\
    ssorted A' /\ ssorted B'.
Proof.
  intros K2 SA SB RA RB C V.
  assert (I : Inv (A ++ B) A B (initial_message om_ops A)).
  { unfold Inv, initial_message. repeat split; auto.
    - intros e He. apply in_or_app. now left.
    - intros e He. apply in_or_app. now right.
    - intros e [He _]. apply in_app_or in He. exact He.
    - intros p [<-|[]]. reflexivity.
    - intros e _. right. eexists. split; [now left|]. apply rc_refl. }
  assert (MB : M (A ++ B) A B (initial_message om_ops A) < steps_bound A B).
  { unfold M, steps_bound.
    assert (UL : length (unl (A ++ B) A B) <= length (reduce (A ++ B))) by (unfold unl; apply filter_len_le).
    destruct (unl (A ++ B) A B) as [|e rest] eqn:UN.
    - unfold nu, initial_message. cbn. lia.
    - pose proof (mu_le_BIG k (A ++ B) K2 e (initial_message om_ops A)). cbn [length] in *. nia. }
  destruct (session_ends_all mss k v (A ++ B) K2 C V (steps_bound A B) A B _ true [] I RA RB MB) as [[[A' B'] tr] H].
  exists A', B', tr. split; [exact H|].
  eapply (list_session_converges mss k v A B); eauto.
Qed.

(** both sides end equal as lists, and an immediately following session is one silent message *)
Corollary list_session_total_all_equal mss k v A B :
  (2 <= k)%N -> ssorted A -> ssorted B -> reduced A -> reduced B -> consistent (A ++ B) ->
  (forall e, In e (A ++ B) -> v e MISSING = true) ->
  exists A' tr,
    list_session mss k v (steps_bound A B) A B (initial_message om_ops A) true [] = Some (A', A', tr) /\
    (forall x, In x A' <-> In x (join A B)) /\
    forall fuel, list_session mss k v (S fuel) A' A' (initial_message om_ops A') true [] = Some (A', A', []).
Proof.
  intros K2 SA SB RA RB C V.
  destruct (list_session_total_all mss k v A B K2 SA SB RA RB C V) as (A' & B' & tr & RUN & JA & JB & SA' & SB').
  assert (E : A' = B') by (apply ssorted_ext; auto; intros x; rewrite (JA x), (JB x); tauto).
  subst B'. exists A', tr. split; [exact RUN|]. split; [exact JA|].
  intros fuel. cbn [list_session]. unfold list_process, initial_message.
  rewrite (equal_fingerprint_silent om_ops mss k (fun _ => MISSING) (fun _ e st => v e st) A' _ _ _ eq_refl). reflexivity.
Qed.
