(** C04: eventual consistency of a swarm, from the order-independence of [put] (C02) and the
    specification of a complete session (both ends = join, C01). *)
From Coq Require Import Lia Arith PeanoNat.
From ID Require Import Base.Bytes Base.BytesFacts Model.Entry Model.Put Proofs.EntryFacts Proofs.PutFacts.
Local Open Scope nat_scope.

Definition sput (S : list entry) (e : entry) : list entry := fst (put S e).
(** [x] is present in [A] or dominated by something present *)
Definition covered (A : list entry) (x : entry) : Prop := exists a, In a A /\ rel a x = true.

Lemma covered_self A x : In x A -> covered A x.
Proof. intros I. exists x. split; auto using rel_refl. Qed.

Lemma sput_cases S e :
  (sput S e = S /\ exists p, In p S /\ rel p e = true) \/
  (sput S e = e :: filter (fun c => negb (rel e c)) S).
Proof.
  unfold sput, put. destruct (existsb (fun p => rel p e) S) eqn:E; cbn [fst]; auto.
  left. split; auto. apply existsb_exists in E. exact E.
Qed.

(** an entry once covered stays covered: [put] only removes what the new entry dominates *)
Lemma sput_preserves_covered S e x : covered S x -> covered (sput S e) x.
Proof.
  intros [a [Ia Ra]]. destruct (sput_cases S e) as [[-> _]| -> ]; [exists a; auto|].
  destruct (rel e a) eqn:R.
  - exists e. split; [now left|]. eapply rel_trans; eauto.
  - exists a. split; auto. right. apply filter_In. split; auto. now rewrite R.
Qed.
Lemma sput_covers_new S e : covered (sput S e) e.
Proof.
  destruct (sput_cases S e) as [[-> [p [Ip Rp]]]| -> ]; [exists p; auto|].
  exists e. split; [now left|apply rel_refl].
Qed.
Lemma sput_subset S e x : In x (sput S e) -> x = e \/ In x S.
Proof.
  destruct (sput_cases S e) as [[-> _]| -> ]; auto. intros [<-|Hx]; auto. apply filter_In in Hx. tauto.
Qed.

(** if [A] is a subset of [B] that covers all of [B], both have the same maximal elements *)
Lemma reduce_cofinal A B : consistent B -> (forall x, In x A -> In x B) -> (forall b, In b B -> covered A b) ->
  forall x, in_reduce A x <-> in_reduce B x.
Proof.
  intros C Sub Cov x. split; intros [I H].
  - split; [auto|]. intros d Id [Ne Rd]. destruct (Cov d Id) as [a [Ia Ra]].
    destruct (entry_eq_dec a x) as [->|Nax].
    + apply Ne. eapply (rel_antisym B); eauto.
    + apply (H a Ia). split; auto. eapply rel_trans; eauto.
  - destruct (Cov x I) as [a [Ia Ra]].
    destruct (entry_eq_dec a x) as [->|Nax].
    + split; [exact Ia|]. intros d Id. apply H. now apply Sub.
    + exfalso. apply (H a (Sub a Ia)). split; auto.
Qed.

Lemma consistent_app_l X Y : consistent (X ++ Y) -> consistent X.
Proof. intros C. eapply consistent_incl; [|exact C]. intros a I. apply in_or_app. now left. Qed.
Lemma consistent_app_r X Y : consistent (X ++ Y) -> consistent Y.
Proof. intros C. eapply consistent_incl; [|exact C]. intros a I. apply in_or_app. now right. Qed.

Lemma reduce_covers X : consistent X -> forall b, In b X -> covered (reduce X) b.
Proof.
  intros C b Ib. destruct (has_maximal X C (above X b) b (le_n _) Ib) as [m [Im [Rm Hm]]].
  exists m. split; auto. apply reduce_spec. split; auto.
Qed.

(** the join of two reduced views of [X] and [Y] is the reduced view of [X ++ Y] *)
Theorem reduce_union X Y : consistent (X ++ Y) ->
  forall x, in_reduce (reduce X ++ reduce Y) x <-> in_reduce (X ++ Y) x.
Proof.
  intros C. apply reduce_cofinal; auto.
  - intros x I. apply in_app_or in I. apply in_or_app.
    destruct I as [I|I]; apply reduce_spec in I; destruct I; auto.
  - intros b Ib. apply in_app_or in Ib. destruct Ib as [Ib|Ib].
    + destruct (reduce_covers X (consistent_app_l _ _ C) b Ib) as [a [Ia Ra]]. exists a. split; auto. apply in_or_app. now left.
    + destruct (reduce_covers Y (consistent_app_r _ _ C) b Ib) as [a [Ia Ra]]. exists a. split; auto. apply in_or_app. now right.
Qed.

(** ---- the swarm ---- *)
Definition swarm := list (list entry).      (* contents of replica 0, 1, ... *)
Definition sget (s : swarm) (i : nat) : list entry := nth i s [].
Fixpoint sset (s : swarm) (i : nat) (x : list entry) : swarm :=
  match s, i with
  | [], _ => []
  | _ :: r, O => x :: r
  | y :: r, S k => y :: sset r k x
  end.

Inductive event :=
  | EWrite (i : nat) (e : entry)       (* a local write at i (accepted or not) *)
  | EPut (i : nat) (e : entry)         (* an earlier written entry reaches i: broadcast delivery (any number
                                          of times, any order) or one value of an aborted / partial session *)
  | ESync (i j : nat).                 (* a complete session: both ends hold the join (C01) *)

Definition accepted (S : list entry) (e : entry) : bool := negb (existsb (fun p => rel p e) S).

(** state and the list of accepted local writes *)
Definition step (st : swarm * list entry) (ev : event) : swarm * list entry :=
  let '(s, W) := st in
  match ev with
  | EWrite i e => (sset s i (sput (sget s i) e), if accepted (sget s i) e then e :: W else W)
  | EPut i e => (sset s i (sput (sget s i) e), W)
  | ESync i j => let J := join (sget s i) (sget s j) in (sset (sset s i J) j J, W)
  end.
Definition run (st : swarm * list entry) (evs : list event) := fold_left step evs st.

(** deliveries only carry entries that some replica accepted *)
Fixpoint legal (W : list entry) (s : swarm) (evs : list event) : Prop :=
  match evs with
  | [] => True
  | ev :: r =>
      (match ev with
       | EPut i e => In e W /\ i < length s
       | EWrite i _ => i < length s
       | ESync i j => i < length s /\ j < length s
       end) /\ legal (snd (step (s, W) ev)) (fst (step (s, W) ev)) r
  end.

Lemma sget_sset_same s i x : i < length s -> sget (sset s i x) i = x.
Proof. revert i; induction s as [|y s IH]; intros [|i] L; cbn in *; try lia; auto. apply IH. lia. Qed.
Lemma sget_sset_other s i j x : i <> j -> sget (sset s i x) j = sget s j.
Proof.
  unfold sget. revert i j; induction s as [|y s IH]; intros i j N.
  - destruct i; reflexivity.
  - destruct i as [|i], j as [|j]; cbn; try congruence; auto.
Qed.
Lemma sset_length s i x : length (sset s i x) = length s.
Proof. revert i; induction s as [|y s IH]; intros [|i]; cbn; auto. Qed.

(** Invariant: every replica holds only accepted local writes (nothing foreign), and every
    accepted local write is covered at ... some replica (the one that accepted it, for ever) *)
Definition Inv (st : swarm * list entry) : Prop :=
  let '(s, W) := st in
  (forall i x, In x (sget s i) -> In x W) /\
  (forall w, In w W -> exists i, i < length s /\ covered (sget s i) w).

Lemma join_subset A B x : In x (join A B) -> In x A \/ In x B.
Proof. intros I. apply reduce_spec in I. destruct I as [I _]. now apply in_app_or in I. Qed.
Lemma join_covers_l A B x : consistent (A ++ B) -> covered A x -> covered (join A B) x.
Proof.
  intros C [a [Ia Ra]].
  destruct (reduce_covers (A ++ B) C a (in_or_app _ _ _ (or_introl Ia))) as [m [Im Rm]].
  exists m. split; auto. eapply rel_trans; eauto.
Qed.
Lemma join_covers_r A B x : consistent (A ++ B) -> covered B x -> covered (join A B) x.
Proof.
  intros C [a [Ia Ra]].
  destruct (reduce_covers (A ++ B) C a (in_or_app _ _ _ (or_intror Ia))) as [m [Im Rm]].
  exists m. split; auto. eapply rel_trans; eauto.
Qed.

Lemma accepted_in_sput S e : accepted S e = true -> In e (sput S e).
Proof.
  unfold accepted, sput, put. rewrite negb_true_iff. intros ->. now left.
Qed.

Lemma sput_cases_acc S e :
  (accepted S e = false /\ sput S e = S /\ exists p, In p S /\ rel p e = true) \/
  (accepted S e = true /\ sput S e = e :: filter (fun c => negb (rel e c)) S).
Proof.
  unfold accepted, sput, put. destruct (existsb (fun p => rel p e) S) eqn:E; cbn [fst negb]; auto.
  left. repeat split; auto. apply existsb_exists in E. exact E.
Qed.

(** [U] bounds everything that is ever written: consistency (no twin-len pair) is assumed of it *)
Lemma step_inv U st ev :
  consistent U -> (forall x, In x (snd st) -> In x U) ->
  (match ev with EWrite _ e => In e U | _ => True end) ->
  legal (snd st) (fst st) [ev] -> Inv st -> Inv (step st ev) /\ (forall x, In x (snd (step st ev)) -> In x U).
Proof.
  destruct st as [s W]. intros CU WU EU [L _] [F C]. cbn [fst snd] in *.
  assert (CW : forall A B, (forall x, In x A -> In x W) -> (forall x, In x B -> In x W) -> consistent (A ++ B)).
  { intros A B HA HB. eapply consistent_incl; [|exact CU]. intros a Ia. apply WU. apply in_app_or in Ia. destruct Ia; auto. }
  destruct ev as [i e|i e|i j]; cbn [step].
  - (* a local write *)
    set (S := sget s i).
    destruct (sput_cases_acc S e) as [(A & EQ & _)|(A & EQ)]; rewrite A, EQ.
    + (* rejected: nothing changes *)
      split; [split|auto].
      * intros k x Hx. destruct (Nat.eq_dec i k) as [<-|NE].
        -- rewrite sget_sset_same in Hx by auto. now apply (F i).
        -- rewrite sget_sset_other in Hx by auto. now apply (F k).
      * intros w Iw. destruct (C w Iw) as [k [Lk Ck]]. exists k. rewrite sset_length. split; auto.
        destruct (Nat.eq_dec i k) as [<-|NE]; [now rewrite sget_sset_same | now rewrite sget_sset_other].
    + (* accepted *)
      split; [split|].
      * intros k x Hx. destruct (Nat.eq_dec i k) as [<-|NE].
        -- rewrite sget_sset_same in Hx by auto. destruct Hx as [<-|Hx]; [now left|].
           right. apply filter_In in Hx. apply (F i). tauto.
        -- rewrite sget_sset_other in Hx by auto. right. now apply (F k).
      * intros w [<-|Iw].
        -- exists i. rewrite sset_length. split; auto. rewrite sget_sset_same by auto.
           exists e. split; [now left|apply rel_refl].
        -- destruct (C w Iw) as [k [Lk Ck]]. exists k. rewrite sset_length. split; auto.
           destruct (Nat.eq_dec i k) as [<-|NE]; [|now rewrite sget_sset_other].
           rewrite sget_sset_same by auto. rewrite <- EQ. now apply sput_preserves_covered.
      * intros x [<-|Ix]; auto.
  - (* a delivery *)
    destruct L as [IW L]. split; [split|auto].
    + intros k x Hx. destruct (Nat.eq_dec i k) as [<-|NE].
      * rewrite sget_sset_same in Hx by auto. apply sput_subset in Hx. destruct Hx as [->|Hx]; auto. now apply (F i).
      * rewrite sget_sset_other in Hx by auto. now apply (F k).
    + intros w Iw. destruct (C w Iw) as [k [Lk Ck]]. exists k. rewrite sset_length. split; auto.
      destruct (Nat.eq_dec i k) as [<-|NE]; [|now rewrite sget_sset_other].
      rewrite sget_sset_same by auto. now apply sput_preserves_covered.
  - (* a complete session *)
    destruct L as [Li Lj]. set (J := join (sget s i) (sget s j)).
    assert (CJ : consistent (sget s i ++ sget s j)) by (apply CW; [apply (F i)|apply (F j)]).
    assert (GJ : forall k, k = i \/ k = j -> sget (sset (sset s i J) j J) k = J).
    { intros k [->| ->].
      - destruct (Nat.eq_dec j i) as [->|NE]; [rewrite sget_sset_same; auto; now rewrite sset_length|].
        rewrite sget_sset_other by auto. now rewrite sget_sset_same.
      - rewrite sget_sset_same; auto. now rewrite sset_length. }
    assert (GO : forall k, k <> i -> k <> j -> sget (sset (sset s i J) j J) k = sget s k).
    { intros k N1 N2. rewrite sget_sset_other by auto. now rewrite sget_sset_other by auto. }
    split; [split|auto].
    + intros k x Hx. destruct (Nat.eq_dec k i) as [->|N1]; [|destruct (Nat.eq_dec k j) as [->|N2]].
      * rewrite GJ in Hx by auto. apply join_subset in Hx. destruct Hx; [now apply (F i)|now apply (F j)].
      * rewrite GJ in Hx by auto. apply join_subset in Hx. destruct Hx; [now apply (F i)|now apply (F j)].
      * rewrite GO in Hx by auto. now apply (F k).
    + intros w Iw. destruct (C w Iw) as [k [Lk Ck]]. exists k. rewrite !sset_length. split; auto.
      destruct (Nat.eq_dec k i) as [->|N1]; [|destruct (Nat.eq_dec k j) as [->|N2]].
      * rewrite GJ by auto. now apply join_covers_l.
      * rewrite GJ by auto. now apply join_covers_r.
      * now rewrite GO.
Qed.

Fixpoint writes_in (U : list entry) (evs : list event) : Prop :=
  match evs with
  | [] => True
  | EWrite _ e :: r => In e U /\ writes_in U r
  | _ :: r => writes_in U r
  end.

(** No replica ever holds an entry that was not written (and accepted) by some replica, and every
    accepted write stays covered somewhere — for every interleaving of writes, deliveries (lost,
    duplicated, reordered), partial sessions (any subset of values moved) and complete sessions. *)
Theorem swarm_invariant U evs : forall st,
  consistent U -> (forall x, In x (snd st) -> In x U) -> writes_in U evs ->
  legal (snd st) (fst st) evs -> Inv st -> Inv (run st evs) /\ (forall x, In x (snd (run st evs)) -> In x U).
Proof.
  induction evs as [|ev evs IH]; intros st CU WU WR L HI; cbn [run fold_left]; auto.
  assert (EU : match ev with EWrite _ e => In e U | _ => True end) by (destruct ev; cbn in WR; tauto).
  assert (WR' : writes_in U evs) by (destruct ev; cbn in WR; tauto).
  destruct st as [s W]. cbn [legal] in L. destruct L as [L1 L2].
  destruct (step_inv U (s, W) ev CU WU EU (conj L1 Logic.I) HI) as [HI' WU'].
  cbn [fst snd] in L2. apply (IH (step (s, W) ev)); auto.
Qed.

(** ---- the closing round: complete sessions along pairs; who has (transitively) heard of whom ---- *)
Definition kstep (K : nat -> list nat) (p : nat * nat) : nat -> list nat :=
  fun k => if Nat.eqb k (fst p) || Nat.eqb k (snd p) then K (fst p) ++ K (snd p) else K k.
Definition kinit : nat -> list nat := fun k => [k].

Definition sync_all (st : swarm * list entry) (pairs : list (nat * nat)) : swarm * list entry :=
  run st (map (fun p => ESync (fst p) (snd p)) pairs).

Lemma sync_all_W st pairs : snd (sync_all st pairs) = snd st.
Proof.
  unfold sync_all, run. revert st; induction pairs as [|p ps IH]; intros [s W]; cbn; auto.
  rewrite IH. reflexivity.
Qed.
Lemma sync_all_length st pairs : length (fst (sync_all st pairs)) = length (fst st).
Proof.
  unfold sync_all, run. revert st; induction pairs as [|p ps IH]; intros [s W]; cbn; auto.
  rewrite IH. cbn. now rewrite !sset_length.
Qed.

Theorem closing_knowledge s0 W pairs :
  consistent W -> (forall i x, In x (sget s0 i) -> In x W) -> (forall i, reduced (sget s0 i)) ->
  Forall (fun p => fst p < length s0 /\ snd p < length s0) pairs ->
  forall k, k < length s0 -> forall x,
    In x (sget (fst (sync_all (s0, W) pairs)) k)
    <-> in_reduce (flat_map (sget s0) (fold_left kstep pairs kinit k)) x.
Proof.
  intros CW SW RD.
  (* generalise over the state reached so far *)
  assert (GEN : forall pairs s K,
            length s = length s0 ->
            (forall k, k < length s0 -> forall x, In x (sget s k) <-> in_reduce (flat_map (sget s0) (K k)) x) ->
            Forall (fun p => fst p < length s0 /\ snd p < length s0) pairs ->
            forall k, k < length s0 -> forall x,
              In x (sget (fst (sync_all (s, W) pairs)) k) <-> in_reduce (flat_map (sget s0) (fold_left kstep pairs K k)) x).
  { clear pairs. induction pairs as [|[i j] ps IH]; intros s K LS HK FP k Lk x.
    - cbn. now apply HK.
    - inversion FP as [|? ? [Li Lj] FP']; subst. cbn [fst snd] in Li, Lj.
      unfold sync_all, run. cbn [map fold_left step fst snd].
      set (J := join (sget s i) (sget s j)).
      change (fold_left step (map (fun p => ESync (fst p) (snd p)) ps) (sset (sset s i J) j J, W))
        with (sync_all (sset (sset s i J) j J, W) ps).
      apply IH; auto.
      + now rewrite !sset_length.
      + intros k' Lk' y. unfold kstep. cbn [fst snd].
        assert (SUB : forall l, (forall z, In z (flat_map (sget s0) l) -> In z W)).
        { intros l z Hz. apply in_flat_map in Hz. destruct Hz as [q [_ Hq]]. eapply SW; eauto. }
        destruct (Nat.eqb_spec k' i) as [->|N1]; [|destruct (Nat.eqb_spec k' j) as [->|N2]]; cbn [orb].
        * assert (G : sget (sset (sset s i J) j J) i = J).
          { destruct (Nat.eq_dec j i) as [->|NE]; [rewrite sget_sset_same; auto; rewrite sset_length; lia|].
            rewrite sget_sset_other by auto. rewrite sget_sset_same; auto. lia. }
          rewrite G. unfold J, join. rewrite reduce_spec, flat_map_app.
          rewrite <- (reduce_union (flat_map (sget s0) (K i)) (flat_map (sget s0) (K j))).
          -- apply in_reduce_ext. intros a. rewrite !in_app_iff, !reduce_spec, (HK i Li a), (HK j Lj a). tauto.
          -- eapply consistent_incl; [|exact CW]. intros a Ha. apply in_app_or in Ha. destruct Ha; eapply SUB; eauto.
        * assert (G : sget (sset (sset s i J) j J) j = J) by (rewrite sget_sset_same; auto; rewrite sset_length; lia).
          rewrite G. unfold J, join. rewrite reduce_spec, flat_map_app.
          rewrite <- (reduce_union (flat_map (sget s0) (K i)) (flat_map (sget s0) (K j))).
          -- apply in_reduce_ext. intros a. rewrite !in_app_iff, !reduce_spec, (HK i Li a), (HK j Lj a). tauto.
          -- eapply consistent_incl; [|exact CW]. intros a Ha. apply in_app_or in Ha. destruct Ha; eapply SUB; eauto.
        * rewrite sget_sset_other by auto. rewrite sget_sset_other by auto. now apply HK. }
  intros FP k Lk x. apply GEN; auto.
  intros k' Lk' y. unfold kinit. cbn [flat_map]. rewrite app_nil_r. split.
  - intros I. split; auto. intros d Id. now apply (RD k').
  - now intros [I _].
Qed.

(** Eventual consistency: after any reachable state (invariant [Inv]) and a closing list of
    complete sessions that lets every replica hear (transitively) of every other one, every replica
    holds exactly [reduce] of all accepted local writes. *)
Theorem swarm_converges s0 W pairs :
  consistent W -> Inv (s0, W) -> (forall i, reduced (sget s0 i)) ->
  Forall (fun p => fst p < length s0 /\ snd p < length s0) pairs ->
  forall k, k < length s0 ->
    (forall q, q < length s0 -> In q (fold_left kstep pairs kinit k)) ->
    forall x, In x (sget (fst (sync_all (s0, W) pairs)) k) <-> in_reduce W x.
Proof.
  intros CW [F C] RD FP k Lk ALL x.
  rewrite (closing_knowledge s0 W pairs CW F RD FP k Lk x).
  apply reduce_cofinal; auto.
  - intros y Hy. apply in_flat_map in Hy. destruct Hy as [q [_ Hq]]. eapply F; eauto.
  - intros w Iw. destruct (C w Iw) as [q [Lq [a [Ia Ra]]]]. exists a. split; auto.
    apply in_flat_map. exists q. split; auto.
Qed.

(** the up-then-down sweep over a spanning tree (parent p(k) < k) is such a closing list — here
    for the star and the path with three replicas, as non-vacuity checks of the premise *)
Example sweep_knowledge_path3 :
  let pairs := [(2, 1); (1, 0); (0, 1); (1, 2)] in
  forall k, k < 3 -> forall q, q < 3 -> In q (fold_left kstep pairs kinit k).
Proof.
  intros pairs k Lk q Lq.
  destruct k as [|[|[|k]]]; try lia; destruct q as [|[|[|q]]]; try lia; vm_compute; tauto.
Qed.
