(** C18, end to end: on every store that satisfies the invariants of a store which maintained its
    derived tables all along (they are proved for every history of inserts), deleting the head table,
    the by-key index or both and opening the store gives the same records, the same answer to every
    query and the same head timestamps. *)
From Coq Require Import Lia.
From ID Require Import Base.Bytes Model.Entry Model.Tables Model.Bounds Model.FsStore Model.Replica Model.Ranger
  Model.StoreOps Model.Query Proofs.TblFacts Proofs.SortedTbl Proofs.FsPutFacts Proofs.QueryFacts Proofs.MigrateFacts.

Definition wipe (latest bykey : bool) (T : tables) : tables :=
  let T1 := if latest then set_latest T [] else T in
  if bykey then set_bykey T1 [] else T1.

Lemma wipe_records l b T : t_records (wipe l b T) = t_records T.
Proof. unfold wipe. destruct l, b; reflexivity. Qed.
Lemma migrate_latest_records T : t_records (migrate_latest T) = t_records T.
Proof. unfold migrate_latest. destruct (t_latest T); [destruct (t_records T) eqn:E|]; cbn [t_records set_latest]; auto. Qed.
Lemma migrate_latest_bykey T : t_bykey (migrate_latest T) = t_bykey T.
Proof. unfold migrate_latest. destruct (t_latest T); [destruct (t_records T) eqn:E|]; reflexivity. Qed.
Lemma open_records T : t_records (open_store T) = t_records T.
Proof. unfold open_store. rewrite (proj1 (migrate_index_other_tables _)). apply migrate_latest_records. Qed.

(** ---- the index ---- *)
Lemma index_fold_wf recs : forall acc,
  ksorted acc -> Forall wf_krow acc -> Forall wf_row recs ->
  ksorted (index_fold recs acc) /\ Forall wf_krow (index_fold recs acc).
Proof.
  induction recs as [|[[[n a] k] v] recs IH]; intros acc KS KW WR; cbn [index_fold fold_left]; auto.
  fold (index_fold recs (tbl_insert kid_cmp (n, k, a) tt acc)).
  inversion WR as [|? ? W1 WR']; subst.
  apply IH; auto.
  - now destruct (tbl_insert_spec kid_cmp kid_cmp_eq kid_cmp_lt_trans kid_cmp_gt_lt acc KS (n, k, a) tt).
  - apply Forall_insert; auto; try (unfold wf_row in W1; unfold wf_krow; tauto).
Qed.

Theorem open_index_wf T : wf_records T -> (t_bykey T = [] \/ wf_index T) -> wf_index (open_store T).
Proof.
  intros [SR WR] H. unfold wf_index. rewrite open_records. unfold open_store, migrate_bykey.
  rewrite migrate_latest_bykey, migrate_latest_records.
  destruct (t_bykey T) eqn:EB.
  - cbn [t_bykey set_bykey]. fold (index_fold (t_records T) []).
    destruct (index_fold_wf (t_records T) [] (Sorted.SSorted_nil _) (Forall_nil _) WR) as [KS KW].
    split; [exact KS|]. split; [exact KW|].
    intros n a k v I. apply index_fold_spec. right. exists n, a, k, v. auto.
  - destruct H as [H|H]; [discriminate|]. rewrite migrate_latest_bykey, EB.
    unfold wf_index in H. rewrite EB in H. exact H.
Qed.

(** ---- the heads ---- *)
Definition head_spec (recs : list (rid * rval)) (ns au : N) : option N :=
  match rows_of recs ns au with [] => None | rows => Some (max_list rows) end.

Lemma max_list_ge l : forall x, In x l -> x <= max_list l.
Proof.
  induction l as [|y l IH]; [intros x []|]. cbn [max_list fold_right In]. fold (max_list l).
  intros x [->|I]; [lia|]. specialize (IH x I). lia.
Qed.
Lemma max_list_in l : l <> [] -> In (max_list l) l.
Proof.
  induction l as [|y l IH]; [congruence|]. intros _. cbn [max_list fold_right]. fold (max_list l).
  destruct l as [|z l]; [cbn; left; lia|].
  destruct (N.max_spec y (max_list (z :: l))) as [[_ ->]|[_ ->]]; [right; apply IH; discriminate|now left].
Qed.

Lemma in_rows_of recs ns au t :
  In t (rows_of recs ns au) <-> exists w, In w (map row_entry recs) /\ of_author ns au w /\ e_ts w = t.
Proof.
  unfold rows_of. rewrite in_map_iff. split.
  - intros ([[[n a] k] [[ts l] h]] & E & I). apply filter_In in I. destruct I as [I M]. cbn [fst snd] in *.
    apply andb_true_iff in M. destruct M as [M1 M2]. apply N.eqb_eq in M1, M2. subst.
    exists (row_entry ((ns, au, k), (t, l, h))). split; [apply in_map; exact I|]. cbn. repeat split.
  - intros (w & I & [O1 O2] & E). apply in_map_iff in I. destruct I as ([[[n a] k] [[ts l] h]] & <- & I).
    cbn in O1, O2, E. subst. exists ((ns, au, k), (t, l, h)). split; [reflexivity|].
    apply filter_In. split; auto. cbn [fst snd]. now rewrite !N.eqb_refl.
Qed.

Lemma HInv_head_spec T : HInv T -> forall ns au, head_of T ns au = head_spec (t_records T) ns au.
Proof.
  intros H ns au. specialize (H ns au). unfold head_spec.
  destruct (head_of T ns au) as [t|].
  - destruct H as ((w & Iw & Ow & Ew) & MAX).
    assert (It : In t (rows_of (t_records T) ns au)) by (apply in_rows_of; exists w; auto).
    destruct (rows_of (t_records T) ns au) as [|r rows] eqn:R; [destruct It|]. f_equal.
    assert (NE : r :: rows <> []) by discriminate.
    pose proof (max_list_in (r :: rows) NE) as IM. rewrite <- R in IM. apply in_rows_of in IM.
    destruct IM as (x & Ix & Ox & Ex). specialize (MAX x Ix Ox).
    pose proof (max_list_ge (r :: rows) t It). rewrite R in Ex. lia.
  - destruct (rows_of (t_records T) ns au) as [|r rows] eqn:R; [reflexivity|].
    assert (It : In r (rows_of (t_records T) ns au)) by (rewrite R; now left).
    apply in_rows_of in It. destruct It as (w & Iw & Ow & _). destruct (H w Iw Ow).
Qed.

Lemma rebuilt_heads_spec T0 : t_latest T0 = [] ->
  forall ns au, head_of (migrate_latest T0) ns au = head_spec (t_records T0) ns au.
Proof.
  intros E ns au. destruct (t_records T0) as [|r recs] eqn:R.
  - unfold migrate_latest. rewrite E, R. unfold head_of. rewrite E. reflexivity.
  - unfold head_spec. rewrite <- R. apply (migrate_heads_exact T0 E). rewrite R. discriminate.
Qed.

Theorem open_heads l b T : HInv T ->
  forall ns au, head_of (open_store (wipe l b T)) ns au = head_of T ns au.
Proof.
  intros H ns au. unfold open_store, head_of.
  rewrite (proj2 (migrate_index_other_tables _)). fold (head_of (migrate_latest (wipe l b T)) ns au). fold (head_of T ns au).
  destruct (t_latest (wipe l b T)) eqn:EL.
  - rewrite (rebuilt_heads_spec _ EL), wipe_records. symmetry. now apply HInv_head_spec.
  - assert (M : migrate_latest (wipe l b T) = wipe l b T) by (unfold migrate_latest; now rewrite EL).
    rewrite M. unfold head_of. 
    assert (LL : t_latest (wipe l b T) = t_latest T).
    { unfold wipe in *. destruct l, b; cbn in *; congruence. }
    now rewrite LL.
Qed.

(** ---- together ---- *)
Lemma fs_all_records ns T T' : t_records T' = t_records T -> fs_all ns T' = fs_all ns T.
Proof. intros E. unfold fs_all, rec_range. now rewrite E. Qed.

Theorem rebuilt_as_maintained EH T l b : wf_records T -> wf_index T -> HInv T ->
  let T1 := open_store (wipe l b T) in
  t_records T1 = t_records T /\
  (forall ns, fs_all ns T1 = fs_all ns T) /\
  (forall ns q, run_query prefix_succ EH T1 ns q = run_query prefix_succ EH T ns q) /\
  (forall ns au, head_of T1 ns au = head_of T ns au) /\
  (t_latest (wipe l b T) = [] -> forall ns au t k, tbl_get pair_cmp (ns, au) (t_latest T1) = Some (t, k) ->
     exists len h, In ((ns, au, k), (t, len, h)) (t_records T)).
Proof.
  intros W WI H T1.
  assert (R1 : t_records T1 = t_records T) by (unfold T1; now rewrite open_records, wipe_records).
  assert (W0 : wf_records (wipe l b T)) by (unfold wf_records; now rewrite wipe_records).
  assert (W1 : wf_records T1) by (unfold wf_records; now rewrite R1).
  assert (WI1 : wf_index T1).
  { apply open_index_wf; auto. unfold wipe. destruct b; [left; destruct l; reflexivity|right].
    destruct l; [|exact WI]. exact WI. }
  split; [exact R1|]. split; [intros ns; now apply fs_all_records|]. split; [|split].
  - intros ns q. rewrite (run_query_is_spec EH ns T1 q W1 WI1), (run_query_is_spec EH ns T q W WI).
    now rewrite (fs_all_records ns T T1 R1).
  - now apply open_heads.
  - intros EL ns au t k G. unfold T1, open_store in G. rewrite (proj2 (migrate_index_other_tables _)) in G.
    destruct (migrate_heads_key (wipe l b T) EL ns au t k G) as (len & h & I). rewrite wipe_records in I. eauto.
Qed.

(** for the store reached by any history of inserts (local or remote, any order) *)
Lemma puts_invariants EH l : forall T, wf_records T -> wf_index T -> HInv T -> Forall wf_entry l ->
  wf_records (fs_puts EH T l) /\ wf_index (fs_puts EH T l) /\ HInv (fs_puts EH T l).
Proof.
  induction l as [|e l IH]; intros T W WI H F; cbn [fs_puts fold_left]; auto.
  inversion F; subst. apply IH; auto.
  - now destruct (fs_put_refines EH T e W H2) as (_ & _ & W').
  - now apply fs_put_keeps_index.
  - now apply fs_put_heads.
Qed.

Theorem rebuilt_after_any_history EH hist l b : Forall wf_entry hist ->
  let T := fs_puts EH empty_tables hist in
  let T1 := open_store (wipe l b T) in
  (forall ns, fs_all ns T1 = fs_all ns T) /\
  (forall ns q, run_query prefix_succ EH T1 ns q = run_query prefix_succ EH T ns q) /\
  (forall ns au, head_of T1 ns au = head_of T ns au).
Proof.
  intros F T T1.
  destruct (puts_invariants EH hist empty_tables wf_records_empty wf_index_empty HInv_empty F) as (W & WI & H).
  destruct (rebuilt_as_maintained EH T l b W WI H) as (_ & A & B & C & _). auto.
Qed.

(** any number of reopen cycles *)
Theorem open_many n T : Nat.iter (S n) open_store T = open_store T.
Proof.
  induction n as [|n IH]; [reflexivity|].
  change (Nat.iter (S (S n)) open_store T) with (open_store (Nat.iter (S n) open_store T)).
  rewrite IH. apply open_idempotent.
Qed.

(** a boolean test for well-formed entries (for the examples) *)
Definition wf_entryb (e : entry) : bool :=
  (e_ns e <=? MAX256) && (e_author e <=? MAX256) && wf_bytesb (e_key e).
Lemma wf_entryb_ok l : forallb wf_entryb l = true -> Forall wf_entry l.
Proof.
  intros H. apply Forall_forall. intros e I. rewrite forallb_forall in H. specialize (H e I).
  unfold wf_entryb in H. apply andb_true_iff in H. destruct H as [H K]. apply andb_true_iff in H. destruct H as [A B].
  apply N.leb_le in A, B. split; [exact A|split; [exact B|]].
  unfold wf_bytesb in K. rewrite forallb_forall in K. apply Forall_forall. intros x Ix.
  apply N.leb_le. now apply K.
Qed.
