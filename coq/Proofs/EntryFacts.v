From Coq Require Import Lia.
From ID Require Import Base.Bytes Base.BytesFacts Model.Entry.

Lemma entry_eqb_eq a b : entry_eqb a b = true <-> a = b.
Proof.
  unfold entry_eqb. rewrite !andb_true_iff, !N.eqb_eq, bytes_eqb_eq.
  destruct a, b; cbn. split.
  - intros [[[[[-> ->] ->] ->] ->] ->]. reflexivity.
  - intros H; inversion H; auto 10.
Qed.
Lemma entry_eqb_refl a : entry_eqb a a = true.
Proof. now apply entry_eqb_eq. Qed.
Lemma entry_eq_dec (a b : entry) : {a = b} + {a <> b}.
Proof.
  destruct (entry_eqb a b) eqn:E; [left; now apply entry_eqb_eq | right].
  intros H. apply entry_eqb_eq in H. congruence.
Defined.

Lemma val_leb_refl a : val_leb a a = true.
Proof. unfold val_leb. rewrite N.eqb_refl, N.leb_refl. now rewrite orb_true_r. Qed.
Lemma val_leb_spec a b :
  val_leb a b = true <-> (e_ts a < e_ts b \/ (e_ts a = e_ts b /\ e_hash a <= e_hash b)).
Proof. unfold val_leb. now rewrite orb_true_iff, andb_true_iff, N.ltb_lt, N.eqb_eq, N.leb_le. Qed.
Lemma val_leb_trans a b c : val_leb a b = true -> val_leb b c = true -> val_leb a c = true.
Proof. rewrite !val_leb_spec. lia. Qed.
Lemma val_leb_antisym a b :
  val_leb a b = true -> val_leb b a = true -> e_ts a = e_ts b /\ e_hash a = e_hash b.
Proof. rewrite !val_leb_spec. lia. Qed.
Lemma val_leb_total a b : val_leb a b = true \/ val_leb b a = true.
Proof. rewrite !val_leb_spec. lia. Qed.
Lemma val_ltb_spec a b : val_ltb a b = true <-> val_leb b a = false.
Proof. unfold val_ltb. now rewrite negb_true_iff. Qed.

Lemma same_id_spec a b :
  same_id a b = true <-> e_ns a = e_ns b /\ e_author a = e_author b /\ e_key a = e_key b.
Proof. unfold same_id. rewrite !andb_true_iff, !N.eqb_eq, bytes_eqb_eq. tauto. Qed.

Lemma rel_spec d e : rel d e = true <->
  e_ns d = e_ns e /\ e_author d = e_author e /\ is_prefix (e_key d) (e_key e) = true /\ val_leb e d = true.
Proof. unfold rel. rewrite !andb_true_iff, !N.eqb_eq. tauto. Qed.
Lemma rel_refl e : rel e e = true.
Proof. apply rel_spec. auto using is_prefix_refl, val_leb_refl. Qed.
Lemma rel_trans a b c : rel a b = true -> rel b c = true -> rel a c = true.
Proof.
  rewrite !rel_spec. intros (N1 & A1 & P1 & L1) (N2 & A2 & P2 & L2).
  repeat split; try congruence. eapply is_prefix_trans; eauto. eapply val_leb_trans; eauto.
Qed.
