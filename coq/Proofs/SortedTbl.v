(** Association lists kept strictly sorted by a comparison that is a strict total order:
    membership characterisation of insert, get = membership, filters keep sortedness. *)
From Coq Require Import Lia Sorted.
From ID Require Import Base.Bytes Model.Entry Model.Tables.

Section Sorted.
  Context {K V : Type} (cmp : K -> K -> comparison).
  Hypothesis cmp_eq : forall a b, cmp a b = Eq <-> a = b.
  Hypothesis cmp_lt_trans : forall a b c, cmp a b = Lt -> cmp b c = Lt -> cmp a c = Lt.
  Hypothesis cmp_gt_lt : forall a b, cmp a b = Gt <-> cmp b a = Lt.

  Definition klt (a b : K * V) : Prop := cmp (fst a) (fst b) = Lt.
  Definition sorted (l : list (K * V)) : Prop := StronglySorted klt l.

  Lemma cmp_refl' a : cmp a a = Eq.
  Proof. now apply cmp_eq. Qed.
  Lemma cmp_lt_irrefl a : cmp a a <> Lt.
  Proof. rewrite cmp_refl'. discriminate. Qed.

  Lemma sorted_filter f l : sorted l -> sorted (filter f l).
  Proof.
    induction 1 as [|x l S IH F]; cbn; [constructor|].
    destruct (f x); auto. constructor; auto.
    apply Forall_forall. intros y Hy. apply filter_In in Hy. rewrite Forall_forall in F. apply F. tauto.
  Qed.

  Lemma sorted_keys_unique l : sorted l -> forall k v v', In (k, v) l -> In (k, v') l -> v = v'.
  Proof.
    induction 1 as [|x l S IH F]; intros k v v' I1 I2; [destruct I1|].
    rewrite Forall_forall in F.
    destruct I1 as [->|I1], I2 as [E|I2].
    - now inversion E.
    - exfalso. specialize (F _ I2). unfold klt in F. cbn in F. now apply (cmp_lt_irrefl k).
    - exfalso. subst x. specialize (F _ I1). unfold klt in F. cbn in F. now apply (cmp_lt_irrefl k).
    - eauto.
  Qed.

  Lemma tbl_get_sorted l : sorted l -> forall k v, tbl_get cmp k l = Some v <-> In (k, v) l.
  Proof.
    induction 1 as [|[k0 v0] l S IH F]; intros k v; cbn; [split; [discriminate|tauto]|].
    rewrite Forall_forall in F.
    destruct (cmp k k0) eqn:C.
    - apply cmp_eq in C. subst k0. split.
      + intros H; inversion H; auto.
      + intros [H|H]; [inversion H; auto|]. exfalso. specialize (F _ H). unfold klt in F. cbn in F.
        now apply (cmp_lt_irrefl k).
    - rewrite IH. split; auto. intros [H|H]; auto. inversion H; subst. rewrite cmp_refl' in C. discriminate.
    - rewrite IH. split; auto. intros [H|H]; auto. inversion H; subst. rewrite cmp_refl' in C. discriminate.
  Qed.

  Lemma tbl_insert_spec l : sorted l -> forall k v,
    sorted (tbl_insert cmp k v l) /\
    forall k' v', In (k', v') (tbl_insert cmp k v l) <-> (k' = k /\ v' = v) \/ (In (k', v') l /\ k' <> k).
  Proof.
    induction 1 as [|[k0 v0] l S IH F]; intros k v.
    - cbn. split; [repeat constructor|]. intros k' v'. split.
      + intros [H|[]]. inversion H; auto.
      + intros [[-> ->]|[[] _]]. now left.
    - cbn [tbl_insert]. pose proof F as F'. rewrite Forall_forall in F.
      destruct (cmp k k0) eqn:C.
      + apply cmp_eq in C. subst k0. split.
        * constructor; auto.
        * intros k' v'. cbn [In]. split.
          -- intros [H|H]; [inversion H; auto|]. right. split; auto.
             intros ->. specialize (F _ H). unfold klt in F. cbn in F. now apply (cmp_lt_irrefl k).
          -- intros [[-> ->]|[[H|H] NE]]; auto. inversion H; subst. contradiction.
      + split.
        * constructor; [constructor; auto|]. constructor; [exact C|].
          apply Forall_forall. intros y Hy. specialize (F _ Hy). unfold klt in *. cbn in *. eapply cmp_lt_trans; eauto.
        * intros k' v'. cbn [In]. split.
          -- intros [H|[H|H]]; [inversion H; auto| |].
             ++ inversion H; subst. right. split; auto. intros ->. rewrite cmp_refl' in C. discriminate.
             ++ right. split; auto. intros ->. specialize (F _ H). unfold klt in F. cbn in F.
                assert (cmp k k = Lt) by (eapply cmp_lt_trans; eauto). now apply (cmp_lt_irrefl k).
          -- intros [[-> ->]|[[H|H] NE]]; auto.
      + destruct (IH k v) as [S' I']. split.
        * constructor; auto. apply Forall_forall. intros [k1 v1] Hy. apply I' in Hy. unfold klt. cbn.
          destruct Hy as [[-> ->]|[Hy _]]; [now apply cmp_gt_lt | exact (F _ Hy)].
        * intros k' v'. cbn [In]. rewrite I'. split.
          -- intros [H|[H|[H NE]]]; auto. inversion H; subst. right. split; auto.
             intros ->. rewrite cmp_refl' in C. discriminate.
          -- intros [H|[[H|H] NE]]; auto.
  Qed.
End Sorted.
