(** C01: the sub-ranges produced by the split of a range cover the range, for every split
    factor >= 2, every range shape (plain, wrap-around, whole ring) and every sorted store. *)
From Coq Require Import Lia Sorted Orders OrdersTac Morphisms RelationClasses PeanoNat.
From ID Require Import Base.Bytes Base.BytesFacts Model.Entry Model.Put Model.Tables Model.Bounds
  Model.FsStore Model.Replica Model.Ranger Proofs.EntryFacts Proofs.BoundsFacts
  Proofs.RangerFacts Proofs.FsPutFacts Proofs.ConvergeFacts.

(** ---- the order of identifiers, packaged for the [order] tactic ---- *)
Definition rlt (a b : rid) : Prop := rid_cmp a b = Lt.
Lemma rlt_trans a b c : rlt a b -> rlt b c -> rlt a c.
Proof. apply rid_cmp_lt_trans. Qed.
Lemma rlt_irrefl a : ~ rlt a a.
Proof. unfold rlt. intros H. assert (E : rid_cmp a a = Eq) by now apply rid_cmp_eq. congruence. Qed.
Lemma rlt_total a b : rlt a b \/ a = b \/ rlt b a.
Proof.
  unfold rlt. destruct (rid_cmp a b) eqn:E; auto.
  - right. left. now apply rid_cmp_eq.
  - right. right. now apply rid_cmp_gt_lt.
Qed.

Module RidO <: EqLtLe.
  Definition t := rid.
  Definition eq := @Logic.eq rid.
  Definition lt := rlt.
  Definition le (a b : rid) := rlt a b \/ a = b.
End RidO.
Module RidP <: IsTotalOrder RidO.
  Definition eq_equiv : Equivalence RidO.eq := eq_equivalence.
  Lemma lt_strorder : StrictOrder RidO.lt.
  Proof. split; [intros a; apply rlt_irrefl | intros a b c; apply rlt_trans]. Qed.
  Lemma lt_compat : Proper (RidO.eq ==> RidO.eq ==> iff) RidO.lt.
  Proof. intros a b -> c d ->. reflexivity. Qed.
  Lemma le_lteq : forall x y, RidO.le x y <-> RidO.lt x y \/ RidO.eq x y.
  Proof. reflexivity. Qed.
  Lemma lt_total : forall x y, RidO.lt x y \/ RidO.eq x y \/ RidO.lt y x.
  Proof. apply rlt_total. Qed.
End RidP.
Module RidT := MakeOrderTac RidO RidP.
Lemma rnot_lt_le a b : ~ rid_cmp a b = Lt -> RidO.le b a.
Proof. intros H. destruct (rlt_total a b) as [L|[E|G]]; [contradiction|right; now symmetry|now left]. Qed.
Ltac rorder_false := try discriminate; unfold rlt in *; change (@Logic.eq rid) with RidO.eq in *;
               repeat match goal with H : rid_cmp ?a ?b = Lt |- _ => change (RidO.lt a b) in H end;
               repeat match goal with H : ~ (rid_cmp ?a ?b = Lt) |- _ => apply rnot_lt_le in H end;
               RidT.order.
(** the [order] tactic is used with goal [False] only: a goal [a < b] is first turned into the
    two impossible cases of the trichotomy *)
Ltac rorder :=
  try discriminate; try assumption;
  lazymatch goal with
  | |- False => rorder_false
  | |- rlt ?a ?b => let H := fresh "H" in destruct (rlt_total a b) as [H|[H|H]]; [exact H|exfalso; rorder_false|exfalso; rorder_false]
  | |- rid_cmp ?a ?b = Lt => let H := fresh "H" in destruct (rlt_total a b) as [H|[H|H]]; [exact H|exfalso; rorder_false|exfalso; rorder_false]
  | |- ~ _ => let H := fresh "H" in intros H; rorder_false
  | |- _ => exfalso; rorder_false
  end.

(** all comparisons occurring in the goal, by cases *)
Ltac cmp_cases :=
  repeat match goal with
         | |- context [rid_cmp ?a ?b] =>
             let E := fresh "E" in
             destruct (rid_cmp a b) eqn:E;
             [apply rid_cmp_eq in E | idtac | apply rid_cmp_gt_lt in E]
         end.

Notation rc := range_contains.

(** an element of a proper range is not the end of the range *)
Lemma rc_not_end c y c' : rc c y c' = true -> c' <> c -> c' <> y.
Proof.
  unfold range_contains. intros H N E. subst c'. revert H. cmp_cases; intros; try discriminate; try rorder.
Qed.

(** splitting a range at one of its points *)
Lemma rc_split c y c' z : rc c y c' = true -> c' <> c -> rc c y z = true ->
  rc c c' z = true \/ rc c' y z = true.
Proof.
  unfold range_contains. intros H1 N H3. revert H1 H3.
  cmp_cases; intros; try discriminate; auto; exfalso; rorder.
Qed.

(** the whole ring, split at two different points *)
Lemma rc_split_full y c' z : c' <> y -> rc y c' z = true \/ rc c' y z = true.
Proof.
  unfold range_contains. intros N. cmp_cases; auto; exfalso; rorder.
Qed.

(** ---- chains of points going round the ring towards [y] ---- *)
Definition steps (y : rid) (P : nat -> rid) (m : nat) : Prop :=
  forall i, (i < m)%nat -> P (S i) = P i \/ rc (P i) y (P (S i)) = true.

Lemma chain_inner y z : forall m P, P O <> y -> rc (P O) y z = true -> steps y P m ->
  (exists i, (i < m)%nat /\ P i <> P (S i) /\ rc (P i) (P (S i)) z = true) \/ rc (P m) y z = true.
Proof.
  induction m as [|m IH]; intros P NE R ST; [now right|].
  assert (ST' : steps y (fun i => P (S i)) m) by (intros i Hi; apply ST; lia).
  destruct (ST O ltac:(lia)) as [EQ|RC].
  - destruct (IH (fun i => P (S i))) as [[i (Hi & N & Ri)]|Rm]; auto.
    + now rewrite EQ.
    + now rewrite EQ.
    + left. exists (S i). split; [lia|auto].
  - destruct (rid_cmp (P 1%nat) (P O)) eqn:C.
    + apply rid_cmp_eq in C. destruct (IH (fun i => P (S i))) as [[i (Hi & N & Ri)]|Rm]; auto.
      * now rewrite C.
      * now rewrite C.
      * left. exists (S i). split; [lia|auto].
    + assert (N1 : P 1%nat <> P O) by (intros E; rewrite E in C; now apply rlt_irrefl in C).
      destruct (rc_split _ _ _ z RC N1 R) as [A|B].
      * left. exists O. split; [lia|]. split; auto.
      * destruct (IH (fun i => P (S i))) as [[i (Hi & N & Ri)]|Rm]; auto.
        -- now apply (rc_not_end (P O)).
        -- left. exists (S i). split; [lia|auto].
    + assert (N1 : P 1%nat <> P O) by (intros E; rewrite E in C; assert (X : rid_cmp (P O) (P O) = Eq) by (now apply rid_cmp_eq); congruence).
      destruct (rc_split _ _ _ z RC N1 R) as [A|B].
      * left. exists O. split; [lia|]. split; auto.
      * destruct (IH (fun i => P (S i))) as [[i (Hi & N & Ri)]|Rm]; auto.
        -- now apply (rc_not_end (P O)).
        -- left. exists (S i). split; [lia|auto].
Qed.

(** a proper range [c, y) and a chain from a point of it *)
Lemma chain_cover c y z m P : c <> y -> rc c y z = true ->
  (P O = c \/ rc c y (P O) = true) -> steps y P m ->
  (c <> P O /\ rc c (P O) z = true) \/
  (exists i, (i < m)%nat /\ P i <> P (S i) /\ rc (P i) (P (S i)) z = true) \/
  rc (P m) y z = true.
Proof.
  intros NE R F ST.
  assert (D : P O = c \/ P O <> c).
  { destruct (rlt_total (P O) c) as [H|[H|H]]; auto; right; intros E; rewrite E in H; now apply rlt_irrefl in H. }
  destruct D as [E|N].
  - right. apply chain_inner; auto; now rewrite E.
  - destruct F as [E|RC]; [contradiction|].
    destruct (rc_split _ _ _ z RC N R) as [A|B].
    + left. split; auto.
    + right. apply chain_inner; auto. now apply (rc_not_end c).
Qed.

(** the whole ring, with a chain that starts and ends at [y] and leaves it at some point *)
Lemma chain_cover_full y z : forall m P, P O = y -> steps y P m -> P m <> y ->
  (exists i, (i < m)%nat /\ P i <> P (S i) /\ rc (P i) (P (S i)) z = true) \/ rc (P m) y z = true.
Proof.
  induction m as [|m IH]; intros P E0 ST NE; [contradiction|].
  assert (ST' : steps y (fun i => P (S i)) m) by (intros i Hi; apply ST; lia).
  assert (D : P 1%nat = y \/ P 1%nat <> y).
  { destruct (rlt_total (P 1%nat) y) as [H|[H|H]]; auto; right; intros E; rewrite E in H; now apply rlt_irrefl in H. }
  destruct D as [E1|N1].
  - destruct (IH (fun i => P (S i)) E1 ST' NE) as [[i (Hi & N & Ri)]|Rm]; auto.
    left. exists (S i). split; [lia|auto].
  - destruct (rc_split_full y (P 1%nat) z N1) as [A|B].
    + left. exists O. split; [lia|]. rewrite E0. split; auto.
    + destruct (chain_inner y z m (fun i => P (S i)) N1 B ST') as [[i (Hi & N & Ri)]|Rm]; auto.
      left. exists (S i). split; [lia|auto].
Qed.

(** ---- sorted stores seen as a ring ---- *)
Definition rid_at (l : list entry) (j : nat) : rid :=
  match nth_error l j with Some e => entry_rid e | None => default_id end.
Definition rot (st : nat) (l : list entry) : list entry := skipn st l ++ firstn st l.
Definition ringrel (y : rid) (u w : entry) : Prop :=
  entry_rid u <> entry_rid w /\ rc (entry_rid u) y (entry_rid w) = true.

Lemma FOP_nth {A} (R : A -> A -> Prop) l : ForallOrdPairs R l ->
  forall i j u w, (i < j)%nat -> nth_error l i = Some u -> nth_error l j = Some w -> R u w.
Proof.
  induction 1 as [|a l F FO IH]; intros i j u w L Hi Hj.
  - destruct i; discriminate.
  - destruct j as [|j]; [lia|]. cbn in Hj. destruct i as [|i]; cbn in Hi.
    + inversion Hi; subst. rewrite Forall_forall in F. apply F. eapply nth_error_In; eauto.
    + apply (IH i j u w); auto. lia.
Qed.

Lemma FOP_app {A} (R : A -> A -> Prop) a b :
  ForallOrdPairs R a -> ForallOrdPairs R b -> (forall u w, In u a -> In w b -> R u w) ->
  ForallOrdPairs R (a ++ b).
Proof.
  induction 1 as [|x a F FO IH]; intros Fb X; cbn; auto.
  constructor.
  - apply Forall_forall. intros w Hw. apply in_app_or in Hw. destruct Hw as [Hw|Hw].
    + rewrite Forall_forall in F. auto.
    + apply X; auto. now left.
  - apply IH; auto. intros u w Hu Hw. apply X; auto. now right.
Qed.

Lemma ssorted_FOP (R : entry -> entry -> Prop) l : ssorted l ->
  (forall u w, In u l -> In w l -> elt u w -> R u w) -> ForallOrdPairs R l.
Proof.
  induction 1 as [|a l S IH F]; intros X; constructor.
  - rewrite Forall_forall in *. intros w Hw. apply X; [now left|now right|auto].
  - apply IH. intros u w Hu Hw. apply X; now right.
Qed.

Lemma elt_rlt u w : elt u w -> rlt (entry_rid u) (entry_rid w).
Proof. intros H. exact H. Qed.
Lemma elt_neq u w : elt u w -> entry_rid u <> entry_rid w.
Proof. intros H E. apply elt_rlt in H. rewrite E in H. now apply rlt_irrefl in H. Qed.

(** [A]: the part of the ring at or after [y]; [B]: the part before [y]; in ring order from [y]
    every element lies in the range from any earlier element to [y] *)
Lemma ring_pairs y A B :
  ssorted A -> ssorted B ->
  (forall a, In a A -> ~ rlt (entry_rid a) y) -> (forall b, In b B -> rlt (entry_rid b) y) ->
  ForallOrdPairs (ringrel y) (A ++ B).
Proof.
  intros SA SB HA HB. apply FOP_app.
  - apply ssorted_FOP; auto. intros u w Hu Hw L. pose proof (elt_neq _ _ L) as NE. apply elt_rlt in L.
    specialize (HA u Hu). split; [exact NE|].
    unfold range_contains. revert L HA. generalize (entry_rid u) (entry_rid w). intros a b L HA.
    cmp_cases; auto; exfalso; rorder.
  - apply ssorted_FOP; auto. intros u w Hu Hw L. pose proof (elt_neq _ _ L) as NE. apply elt_rlt in L.
    specialize (HB w Hw). split; [exact NE|].
    unfold range_contains. revert L HB. generalize (entry_rid u) (entry_rid w). intros a b L HB.
    cmp_cases; auto; exfalso; rorder.
  - intros u w Hu Hw. specialize (HA u Hu). specialize (HB w Hw). split.
    + intros E. rewrite E in HA. contradiction.
    + unfold range_contains. revert HA HB. generalize (entry_rid u) (entry_rid w). intros a b HA HB.
      cmp_cases; auto; exfalso; rorder.
Qed.

(** the leading run below [x] *)
Lemma start_index_split x l : ssorted l ->
  (forall e, In e (firstn (start_index x l) l) -> rlt (entry_rid e) x) /\
  (forall e, In e (skipn (start_index x l) l) -> ~ rlt (entry_rid e) x).
Proof.
  induction 1 as [|a l S IH F]; cbn [start_index].
  - split; intros e H; destruct H.
  - destruct (rid_cmp (entry_rid a) x) eqn:C; cbn [firstn skipn].
    + split; [intros e []|]. intros e [<-|He].
      * apply rid_cmp_eq in C. rewrite C. apply rlt_irrefl.
      * rewrite Forall_forall in F. specialize (F e He). apply elt_rlt in F. apply rid_cmp_eq in C. rewrite C in F. intros H. rorder.
    + destruct IH as [I1 I2]. split; auto. intros e [<-|He]; auto.
    + split; [intros e []|]. apply rid_cmp_gt_lt in C. intros e [<-|He].
      * intros H. rorder.
      * rewrite Forall_forall in F. specialize (F e He). apply elt_rlt in F. intros H. rorder.
Qed.

Lemma start_index_le x l : (start_index x l <= length l)%nat.
Proof. induction l as [|a l IH]; cbn [start_index length]; auto. destruct (rid_cmp (entry_rid a) x); lia. Qed.

Lemma ssorted_app_inv a b : ssorted (a ++ b) -> ssorted a /\ ssorted b.
Proof.
  induction a as [|x a IH]; cbn; intros H; [split; [constructor|auto]|].
  inversion H as [|? ? S F]; subst. destruct (IH S) as [Sa Sb]. split; auto.
  constructor; auto. rewrite Forall_forall in *. intros w Hw. apply F. apply in_or_app. now left.
Qed.
Lemma ssorted_firstn_skipn st l : ssorted l -> ssorted (firstn st l) /\ ssorted (skipn st l).
Proof. intros H. apply ssorted_app_inv. now rewrite firstn_skipn. Qed.

Lemma nth_skipn {A} (l : list A) : forall s o, nth_error (skipn s l) o = nth_error l (s + o).
Proof. induction l as [|a l IH]; intros [|s] o; cbn; auto. destruct o; reflexivity. Qed.
Lemma nth_firstn {A} (l : list A) : forall s o, (o < s)%nat -> nth_error (firstn s l) o = nth_error l o.
Proof. induction l as [|a l IH]; intros [|s] [|o] H; cbn; auto; try lia. apply IH. lia. Qed.

Lemma nth_rot (l : list entry) st o : (st <= length l)%nat -> (o < length l)%nat ->
  nth_error l ((st + o) mod length l) = nth_error (rot st l) o.
Proof.
  intros Hs Ho. unfold rot.
  destruct (Nat.lt_ge_cases (st + o) (length l)) as [L|G].
  - rewrite Nat.mod_small by lia. rewrite nth_error_app1 by (rewrite skipn_length; lia).
    now rewrite nth_skipn.
  - assert (E : ((st + o) mod length l = st + o - length l)%nat).
    { symmetry. apply (Nat.mod_unique _ _ 1%nat); lia. }
    rewrite E, nth_error_app2 by (rewrite skipn_length; lia).
    rewrite skipn_length. replace (o - (length l - st))%nat with (st + o - length l)%nat by lia.
    rewrite nth_firstn by lia. reflexivity.
Qed.

(** ---- the pivots are elements of the rotated list, at non-decreasing positions ---- *)
Section Pivots.
  Variable k : N.
  Hypothesis K2 : 2 <= k.
  Variable l : list entry.
  Variable st : nat.
  Hypothesis L1 : (1 <= length l)%nat.
  Hypothesis ST : (st <= length l)%nat.
  Let n := N.of_nat (length l).

  Definition qoff (i : N) : N := (n * (i mod k + 1)) / k.
  Definition jidx (i : N) : nat := N.to_nat (qoff i mod n).

  Lemma jidx_lt i : (jidx i < length l)%nat.
  Proof.
    unfold jidx. assert (qoff i mod n < n) by (apply N.mod_lt; unfold n; lia). unfold n in *. lia.
  Qed.

  Lemma pivot_rot i : pivot k l st i = rid_at (rot st l) (jidx i).
  Proof.
    unfold pivot, rid_at. fold n. fold (qoff i).
    assert (E : N.to_nat ((N.of_nat st + qoff i) mod n) = ((st + jidx i) mod length l)%nat).
    { unfold jidx. rewrite !N2Nat.inj_mod, N2Nat.inj_add, Nat2N.id. unfold n. rewrite Nat2N.id.
      rewrite Nat.add_mod_idemp_r by lia. reflexivity. }
    rewrite E, nth_rot; auto. apply jidx_lt.
  Qed.

  Lemma qoff_small i : i + 2 <= k -> qoff i < n.
  Proof.
    intros H. unfold qoff. rewrite (N.mod_small i k) by lia.
    apply N.div_lt_upper_bound; [lia|]. unfold n in *. nia.
  Qed.
  Lemma jidx_small i : i + 2 <= k -> jidx i = N.to_nat ((n * (i + 1)) / k).
  Proof.
    intros H. unfold jidx. rewrite N.mod_small by now apply qoff_small.
    unfold qoff. now rewrite (N.mod_small i k) by lia.
  Qed.
  Lemma jidx_mono i : i + 3 <= k -> (jidx i <= jidx (i + 1))%nat.
  Proof.
    intros H. rewrite !jidx_small by lia.
    assert ((n * (i + 1)) / k <= (n * (i + 1 + 1)) / k) by (apply N.div_le_mono; nia). lia.
  Qed.
  Lemma jidx_last : jidx (k - 1) = O.
  Proof.
    unfold jidx, qoff. rewrite (N.mod_small (k - 1) k) by lia. replace (k - 1 + 1) with k by lia.
    rewrite N.div_mul by lia. rewrite N.mod_same by (unfold n; lia). reflexivity.
  Qed.
  Lemma jidx_wrap : jidx k = jidx 0.
  Proof. unfold jidx, qoff. rewrite (N.mod_same k) by lia. rewrite (N.mod_small 0 k) by lia. reflexivity. Qed.
  Lemma jidx_penult : (2 <= length l)%nat -> (1 <= jidx (k - 2))%nat.
  Proof.
    intros L2. rewrite jidx_small by lia.
    assert (1 <= (n * (k - 2 + 1)) / k) by (apply N.div_le_lower_bound; unfold n; nia). lia.
  Qed.

  (** consecutive pivots are equal or related by the ring relation of the rotated list *)
  Lemma pivot_step y i j : ForallOrdPairs (ringrel y) (rot st l) -> (jidx i <= jidx j)%nat ->
    pivot k l st j = pivot k l st i \/ rc (pivot k l st i) y (pivot k l st j) = true.
  Proof.
    intros F LE. rewrite !pivot_rot. unfold rid_at.
    assert (LEN : length (rot st l) = length l).
    { unfold rot. rewrite app_length, skipn_length, firstn_length. lia. }
    destruct (nth_error (rot st l) (jidx i)) as [u|] eqn:U;
      [|apply nth_error_None in U; pose proof (jidx_lt i); lia].
    destruct (nth_error (rot st l) (jidx j)) as [w|] eqn:W;
      [|apply nth_error_None in W; pose proof (jidx_lt j); lia].
    destruct (Nat.eq_dec (jidx i) (jidx j)) as [E|NE].
    - left. rewrite E in U. congruence.
    - right. apply (FOP_nth _ _ F (jidx i) (jidx j) u w); auto. lia.
  Qed.
  Lemma pivot_neq y i j : ForallOrdPairs (ringrel y) (rot st l) -> (jidx i < jidx j)%nat ->
    pivot k l st i <> pivot k l st j.
  Proof.
    intros F LT. rewrite !pivot_rot. unfold rid_at.
    assert (LEN : length (rot st l) = length l).
    { unfold rot. rewrite app_length, skipn_length, firstn_length. lia. }
    destruct (nth_error (rot st l) (jidx i)) as [u|] eqn:U;
      [|apply nth_error_None in U; pose proof (jidx_lt i); lia].
    destruct (nth_error (rot st l) (jidx j)) as [w|] eqn:W;
      [|apply nth_error_None in W; pose proof (jidx_lt j); lia].
    apply (FOP_nth _ _ F (jidx i) (jidx j) u w); auto.
  Qed.
  Lemma pivot_in i : exists e, In e l /\ pivot k l st i = entry_rid e.
  Proof.
    rewrite pivot_rot. unfold rid_at.
    assert (LEN : length (rot st l) = length l).
    { unfold rot. rewrite app_length, skipn_length, firstn_length. lia. }
    destruct (nth_error (rot st l) (jidx i)) as [u|] eqn:U;
      [|apply nth_error_None in U; pose proof (jidx_lt i); lia].
    exists u. split; auto. apply nth_error_In in U. unfold rot in U. apply in_app_or in U.
    rewrite <- (firstn_skipn st l). apply in_or_app. tauto.
  Qed.
End Pivots.

(** ---- the rotated range list is in ring order ---- *)
Lemma ssorted_app_lt a b : ssorted (a ++ b) -> forall u w, In u a -> In w b -> elt u w.
Proof.
  induction a as [|x a IH]; cbn; intros H u w Hu Hw; [destruct Hu|].
  inversion H as [|? ? S F]; subst. destruct Hu as [<-|Hu].
  - rewrite Forall_forall in F. apply F. apply in_or_app. now right.
  - now apply IH.
Qed.

(** proper range: ring order towards [y], starting at the first element not below [x] *)
Lemma range_ring S x y : ssorted S -> x <> y ->
  let l := rng S x y in
  ForallOrdPairs (ringrel y) (rot (start_index x l) l).
Proof.
  intros SS NE l.
  assert (SL : ssorted l) by now apply ssorted_filter.
  assert (INR : forall e, In e l -> rc x y (entry_rid e) = true).
  { intros e He. apply filter_In in He. tauto. }
  destruct (start_index_split x l SL) as [LO HI].
  destruct (ssorted_firstn_skipn (start_index x l) l SL) as [S1 S2].
  assert (IN1 : forall e, In e (firstn (start_index x l) l) -> In e l).
  { intros e He. rewrite <- (firstn_skipn (start_index x l) l). apply in_or_app. now left. }
  assert (IN2 : forall e, In e (skipn (start_index x l) l) -> In e l).
  { intros e He. rewrite <- (firstn_skipn (start_index x l) l). apply in_or_app. now right. }
  unfold rot. destruct (rlt_total x y) as [XY|[E|YX]]; [|contradiction|].
  - (* plain range: nothing below x, everything below y *)
    assert (EMP : firstn (start_index x l) l = []).
    { destruct (firstn (start_index x l) l) as [|e r] eqn:F; auto. exfalso.
      pose proof (LO e (or_introl eq_refl)) as L1. pose proof (INR e (IN1 e (or_introl eq_refl))) as R.
      revert R L1 XY. unfold range_contains. generalize (entry_rid e). intros z. cmp_cases; intros; try discriminate; rorder. }
    rewrite EMP, app_nil_r.
    change (skipn (start_index x l) l) with ([] ++ skipn (start_index x l) l).
    apply ring_pairs; [constructor|exact S2|intros a []|].
    intros b Hb. pose proof (INR b (IN2 b Hb)) as R.
    revert R XY. unfold range_contains. generalize (entry_rid b). intros z. cmp_cases; intros; try discriminate; rorder.
  - (* wrap-around: first the part from x on, then the part below y *)
    apply ring_pairs; [exact S2|exact S1| |].
    + intros a Ha H. specialize (HI a Ha). rorder.
    + intros b Hb. pose proof (LO b Hb) as L1. pose proof (INR b (IN1 b Hb)) as R.
      revert R L1 YX. unfold range_contains. generalize (entry_rid b). intros z. cmp_cases; intros; try discriminate; rorder.
Qed.

(** any rotation of a sorted list is in ring order towards its own first element *)
Lemma rot_ring l st : ssorted l -> ForallOrdPairs (ringrel (rid_at (rot st l) O)) (rot st l).
Proof.
  intros SL. destruct (ssorted_firstn_skipn st l SL) as [S1 S2]. unfold rot.
  assert (CUT : forall u w, In u (firstn st l) -> In w (skipn st l) -> elt u w).
  { apply ssorted_app_lt. now rewrite firstn_skipn. }
  destruct (skipn st l) as [|a0 A] eqn:SK.
  - cbn [app]. rewrite <- (app_nil_r (firstn st l)) at 2.
    destruct (firstn st l) as [|b0 B] eqn:FI; [constructor|].
    unfold rid_at. cbn [app nth_error]. change (b0 :: B ++ []) with ((b0 :: B) ++ []).
    apply ring_pairs; [exact S1|constructor| |intros b []].
    intros a [<-|Ha]; [apply rlt_irrefl|]. inversion S1 as [|? ? _ F]; subst. rewrite Forall_forall in F.
    pose proof (elt_rlt _ _ (F a Ha)). intros H2. rorder.
  - unfold rid_at. cbn [app nth_error]. change (a0 :: A ++ firstn st l) with ((a0 :: A) ++ firstn st l).
    apply ring_pairs; [exact S2|exact S1| |].
    + intros a [<-|Ha]; [apply rlt_irrefl|]. inversion S2 as [|? ? _ F]; subst. rewrite Forall_forall in F.
      pose proof (elt_rlt _ _ (F a Ha)). intros H2. rorder.
    + intros b Hb. apply elt_rlt. apply CUT; auto. now left.
Qed.

(** ---- the split covers the range ---- *)
Lemma rid_eqb_eq a b : rid_eqb a b = true <-> a = b.
Proof. unfold rid_eqb. destruct (rid_cmp a b) eqn:C; rewrite <- rid_cmp_eq, C; split; congruence. Qed.
Lemma rid_eqb_neq a b : a <> b -> negb (rid_eqb a b) = true.
Proof. intros H. destruct (rid_eqb a b) eqn:E; auto. apply rid_eqb_eq in E. contradiction. Qed.
Lemma in_nseq i n : (i < N.to_nat n)%nat -> In (N.of_nat i) (nseq n).
Proof. intros H. unfold nseq. apply in_map. apply in_seq. lia. Qed.

Theorem split_covers k : 2 <= k -> forall Sx x y, ssorted Sx -> (2 <= length (rng Sx x y))%nat ->
  forall z, rc x y z = true ->
  exists r, In r (split_ranges k x y (rng Sx x y)) /\ rc (fst r) (snd r) z = true.
Proof.
  intros K2 Sx x y SS L2 z R.
  set (l := rng Sx x y) in *. set (st := start_index x l).
  assert (SL : ssorted l) by now apply ssorted_filter.
  assert (L1 : (1 <= length l)%nat) by lia.
  assert (ST : (st <= length l)%nat) by apply start_index_le.
  unfold split_ranges. cbv zeta beta. fold st. set (pv := pivot k l st).
  destruct (rid_eqb x y) eqn:EQ.
  - (* the whole ring *)
    pose proof (rot_ring l st SL) as F. set (h := rid_at (rot st l) O) in *.
    assert (HK : pv (k - 1) = h).
    { unfold pv. rewrite (pivot_rot k K2 l st L1 ST). now rewrite (jidx_last k K2 l st L1 ST). }
    set (P := fun j : nat => match j with O => pv (k - 1) | S j' => pv (N.of_nat j') end).
    set (m := N.to_nat (k - 1)).
    assert (STEPS : steps h P m).
    { intros i Hi. destruct i as [|j]; cbn [P].
      - apply (pivot_step k K2 l st L1 ST h); auto. rewrite (jidx_last k K2 l st L1 ST). lia.
      - replace (N.of_nat (S j)) with (N.of_nat j + 1) by lia.
        apply (pivot_step k K2 l st L1 ST h); auto. apply (jidx_mono k K2 l st L1 ST). unfold m in Hi. lia. }
    assert (PM : P m = pv (k - 2)).
    { unfold m. destruct (N.to_nat (k - 1)) as [|m'] eqn:M; [lia|]. cbn [P]. f_equal. lia. }
    assert (NE : pv (k - 1) <> pv (k - 2)).
    { apply (pivot_neq k K2 l st L1 ST h); auto. rewrite (jidx_last k K2 l st L1 ST).
      pose proof (jidx_penult k K2 l st L1 ST L2). lia. }
    destruct (chain_cover_full h z m P HK STEPS) as [[i (Hi & NQ & Ri)]|Rm].
    + rewrite PM, <- HK. auto.
    + destruct i as [|j]; cbn [P] in NQ, Ri.
      * exists (pv (k - 1), pv (k - 1 + 1)). replace (k - 1 + 1) with k by lia.
        assert (WR : pv k = pv 0).
        { unfold pv. rewrite !(pivot_rot k K2 l st L1 ST). now rewrite (jidx_wrap k K2 l st L1 ST). }
        rewrite WR. split; [|exact Ri]. apply filter_In. split.
        -- apply in_map_iff. exists (k - 1). replace (k - 1 + 1) with k by lia. rewrite WR. split; auto.
           replace (k - 1) with (N.of_nat (N.to_nat (k - 1))) at 1 by lia. apply in_nseq. lia.
        -- cbn [fst snd]. now apply rid_eqb_neq.
      * replace (N.of_nat (S j)) with (N.of_nat j + 1) in * by lia.
        exists (pv (N.of_nat j), pv (N.of_nat j + 1)). split; [|exact Ri]. apply filter_In. split.
        -- apply in_map_iff. exists (N.of_nat j). split; auto. apply in_nseq. unfold m in Hi. lia.
        -- cbn [fst snd]. now apply rid_eqb_neq.
    + rewrite PM in Rm. exists (pv (k - 2), pv (k - 2 + 1)). replace (k - 2 + 1) with (k - 1) by lia.
      rewrite HK. split; [|exact Rm]. apply filter_In. split.
      * apply in_map_iff. exists (k - 2). replace (k - 2 + 1) with (k - 1) by lia. rewrite HK. split; auto.
        replace (k - 2) with (N.of_nat (N.to_nat (k - 2))) at 1 by lia. apply in_nseq. lia.
      * cbn [fst snd]. apply rid_eqb_neq. rewrite <- HK. auto.
  - (* a proper range *)
    assert (NE : x <> y) by (intros E; apply rid_eqb_eq in E; congruence).
    pose proof (range_ring Sx x y SS NE) as F. cbv zeta in F. fold l in F. fold st in F.
    set (P := fun j : nat => pv (N.of_nat j)).
    set (m := N.to_nat (k - 2)).
    assert (STEPS : steps y P m).
    { intros i Hi. unfold P. replace (N.of_nat (S i)) with (N.of_nat i + 1) by lia.
      apply (pivot_step k K2 l st L1 ST y); auto. apply (jidx_mono k K2 l st L1 ST). unfold m in Hi. lia. }
    assert (P0 : P O = x \/ rc x y (P O) = true).
    { right. unfold P, pv. destruct (pivot_in k K2 l st L1 ST (N.of_nat 0)) as [e [He ->]].
      unfold l in He. apply filter_In in He. tauto. }
    assert (PM : P m = pv (k - 2)) by (unfold P, m; f_equal; lia).
    destruct (chain_cover x y z m P NE R P0 STEPS) as [[N1 R1]|[[i (Hi & NQ & Ri)]|Rm]].
    + exists (x, pv 0). split; [now left|exact R1].
    + unfold P in NQ, Ri. replace (N.of_nat (S i)) with (N.of_nat i + 1) in * by lia.
      exists (pv (N.of_nat i), pv (N.of_nat i + 1)). split; [|exact Ri].
      cbn [app]. right. apply in_or_app. left. apply filter_In. split.
      * apply in_map_iff. exists (N.of_nat i). split; auto. apply in_nseq. exact Hi.
      * cbn [fst snd]. now apply rid_eqb_neq.
    + rewrite PM in Rm. exists (pv (k - 2), y). split; [|exact Rm].
      cbn [app]. right. apply in_or_app. right. now left.
Qed.
