(** C01: every complete reconciliation session over the ordered-list store — any split factor
    >= 2, any maximal set size, either side's content arbitrary — ends with both sides holding
    exactly the join of what they started with. *)
From Coq Require Import Lia Sorted.
From ID Require Import Base.Bytes Base.BytesFacts Model.Entry Model.Put Model.Tables Model.Bounds
  Model.FsStore Model.Replica Model.Ranger Proofs.EntryFacts Proofs.PutFacts Proofs.BoundsFacts
  Proofs.RangerFacts Proofs.FsPutFacts Proofs.ConvergeFacts Proofs.SplitFacts.

Section Session.
  Variables (mss k : N) (v : entry -> N -> bool) (U : list entry).
  Hypothesis K2 : 2 <= k.
  Hypothesis Ucons : consistent U.
  Hypothesis Uvalid : forall e, In e U -> v e MISSING = true.

  Let status_of := fun _ : entry => MISSING.
  Let validate := fun (_ : list entry) (e : entry) (st : N) => v e st.
  Let INV := Inv U.
  Let STEP := step_keeps_inv mss k v U Ucons Uvalid (split_covers k K2).

  (** values in flight come from the union *)
  Lemma honest_values Ss Sr m : sub U Ss -> (forall p, In p m -> honest U Ss Sr p) ->
    forall e, In e (valid_values v (message_values m)) -> In e U.
  Proof.
    intros HS HON e He. unfold valid_values in He. apply in_map_iff in He. destruct He as [q [<- Hq]].
    apply filter_In in Hq. destruct Hq as [Hq _]. unfold message_values in Hq. apply in_flat_map in Hq.
    destruct Hq as [p [Hp Hq]]. apply filter_In in Hp. destruct Hp as [Hp _]. specialize (HON p Hp).
    destruct p as [x y fp|x y vs [|]]; cbn in Hq, HON; [destruct Hq| |].
    - destruct HON as [G _]. now apply G.
    - subst vs. unfold with_status in Hq. apply in_map_iff in Hq. destruct Hq as [d [<- Hd]]. cbn.
      apply HS. apply filter_In in Hd. tauto.
  Qed.

  (** stores stay reduced *)
  Lemma step_reduced Ss Sr m : Inv U Ss Sr m -> reduced Sr ->
    reduced (fst (fst (process_message om_ops mss k status_of validate Sr m))).
  Proof.
    intros (HSs & HSr & _ & _ & _ & HON & _) RD.
    assert (C : consistent (valid_values v (message_values m) ++ Sr)).
    { apply (consistent_incl U); auto. intros a Ha. apply in_app_or in Ha. destruct Ha as [Ha|Ha]; auto.
      exact (honest_values Ss Sr m HSs HON a Ha). }
    pose proof (process_message_content mss k status_of v Sr m RD C) as PC.
    intros d e Hd He. apply PC in Hd. apply PC in He. destruct Hd as [Id _]. destruct He as [_ Te]. now apply Te.
  Qed.

  (** a settled pair of reduced stores holds exactly the top entries *)
  Lemma settled_is_join S1 S2 : settled U S1 S2 -> reduced S1 -> forall x, In x S1 <-> in_reduce U x.
  Proof.
    intros (H1 & _ & _ & _ & T) RD x. split; [|intros Tx; now destruct (T x Tx)].
    intros Hx. split; [now apply H1|]. intros d Id Dd.
    destruct (has_maximal U Ucons (above U d) d (le_n _) Id) as [mx (Im & Rm & Mx)].
    assert (Tm : in_reduce U mx) by (split; auto).
    destruct (T mx Tm) as [Am _].
    apply (RD mx x Am Hx). destruct Dd as [ND RDx]. split.
    - intros E. subst mx. apply (Mx d Id). split; auto.
    - eapply rel_trans; eauto.
  Qed.

  Lemma session_settles fuel : forall SA SB m (turn : bool) acc A' B' tr,
    (if turn then Inv U SA SB m else Inv U SB SA m) -> reduced SA -> reduced SB ->
    list_session mss k v fuel SA SB m turn acc = Some (A', B', tr) ->
    settled U A' B' /\ reduced A' /\ reduced B'.
  Proof.
    induction fuel as [|f IH]; intros SA SB m turn acc A' B' tr I RA RB H; [discriminate|].
    cbn [list_session] in H. unfold list_process in H. destruct turn.
    - pose proof (STEP SA SB m I) as ST. pose proof (step_reduced SA SB m I RB) as RD.
      unfold status_of, validate in RD.
      destruct (process_message om_ops mss k (fun _ : entry => MISSING) (fun (_ : list entry) (e : entry) (st : N) => v e st) SB m) as [[SB' reply] ins]. cbn [fst] in RD.
      destruct reply as [r|].
      + eapply IH; [| | |exact H]; auto.
      + inversion H; subst. destruct ST as (a & b & c & d & e). split; [|split]; auto.
        split; [|split; [|split; [|split]]]; auto.
    - pose proof (STEP SB SA m I) as ST. pose proof (step_reduced SB SA m I RA) as RD.
      unfold status_of, validate in RD.
      destruct (process_message om_ops mss k (fun _ : entry => MISSING) (fun (_ : list entry) (e : entry) (st : N) => v e st) SA m) as [[SA' reply] ins]. cbn [fst] in RD.
      destruct reply as [r|].
      + eapply IH; [| | |exact H]; auto.
      + inversion H; subst. destruct ST as (a & b & c & d & e). split; [|split]; auto.
        split; [|split; [|split; [|split]]]; auto.
        intros x Tx. destruct (e x Tx). auto.
  Qed.
End Session.

Lemma rc_refl x z : range_contains x x z = true.
Proof. unfold range_contains. assert (E : rid_cmp x x = Eq) by now apply rid_cmp_eq. now rewrite E. Qed.

(** The theorem: both sides end with the join — whoever initiates, whatever the configuration. *)
Theorem list_session_converges mss k v A B fuel A' B' tr :
  2 <= k -> ssorted A -> ssorted B -> reduced A -> reduced B -> consistent (A ++ B) ->
  (forall e, In e (A ++ B) -> v e MISSING = true) ->
  list_session mss k v fuel A B (initial_message om_ops A) true [] = Some (A', B', tr) ->
  (forall x, In x A' <-> In x (join A B)) /\ (forall x, In x B' <-> In x (join A B)) /\
  ssorted A' /\ ssorted B'.
Proof.
  intros K2 SA SB RA RB C V H.
  assert (I : Inv (A ++ B) A B (initial_message om_ops A)).
  { unfold Inv, initial_message. repeat split; auto.
    - intros e He. apply in_or_app. now left.
    - intros e He. apply in_or_app. now right.
    - intros e [He _]. apply in_app_or in He. exact He.
    - intros p [<-|[]]. reflexivity.
    - intros e _. right. eexists. split; [now left|]. apply rc_refl. }
  destruct (session_settles mss k v (A ++ B) K2 C V fuel A B _ true [] A' B' tr I RA RB H) as (ST & RA' & RB').
  assert (ST' : settled (A ++ B) B' A').
  { destruct ST as (a & b & c & d & e). split; [|split; [|split; [|split]]]; auto.
    intros x Tx; destruct (e x Tx); auto. }
  pose proof (settled_is_join (A ++ B) C A' B' ST RA') as JA.
  pose proof (settled_is_join (A ++ B) C B' A' ST' RB') as JB.
  destruct ST as (a & b & c & d & e).
  split; [|split; [|split]]; auto.
  - intros x. unfold join. rewrite reduce_spec. apply JA.
  - intros x. unfold join. rewrite reduce_spec. apply JB.
Qed.
