(** Round trips of the crate's wire types: decode (encode v ++ rest) = Some (v, rest). *)
From Coq Require Import Lia Arith PeanoNat.
From ID Require Import Base.Bytes Model.Entry Model.Tables Model.Postcard Model.Codecs Proofs.PostcardFacts.

Definition U64 (x : N) : Prop := x < 2 ^ 64.

Record wf_wentry (e : wentry) : Prop := {
  wf_asig : length (we_asig e) = 64%nat;
  wf_nsig : length (we_nsig e) = 64%nat;
  wf_id : (64 <= length (we_id e))%nat /\ U64 (N.of_nat (length (we_id e)));
  wf_len : U64 (we_len e);
  wf_hash : length (we_hash e) = 32%nat;
  wf_ts : U64 (we_ts e) }.

Theorem wentry_roundtrip e : wf_wentry e -> roundtrips enc_wentry dec_wentry e.
Proof.
  intros [A Ns [I1 I2] L H T] rest. unfold enc_wentry, dec_wentry.
  rewrite <- !app_assoc.
  rewrite (raw_roundtrip 64 _ A), (raw_roundtrip 64 _ Ns), (bytes_roundtrip _ I2).
  assert (G : Nat.ltb (length (we_id e)) 64 = false) by (apply Nat.ltb_ge; lia). rewrite G.
  rewrite (varint_u64_roundtrip _ L), (raw_roundtrip 32 _ H), (varint_u64_roundtrip _ T).
  now destruct e.
Qed.

Lemma app_not_nil_l {A} (a b : list A) : a <> [] -> a ++ b <> [].
Proof. destruct a; [contradiction|discriminate]. Qed.
Lemma enc_varint_not_nil v : enc_varint v <> [].
Proof. unfold enc_varint. cbn. destruct (v <? 128); discriminate. Qed.

Definition wf_value (v : wentry * N) : Prop := wf_wentry (fst v) /\ snd v < 3.
Theorem value_roundtrip v : wf_value v -> roundtrips enc_value dec_value v.
Proof.
  intros [W S] rest. unfold enc_value, dec_value. rewrite <- app_assoc, (wentry_roundtrip _ W).
  rewrite (varint_u32_small (snd v)) by lia.
  assert (G : snd v <? 3 = true) by now apply N.ltb_lt. rewrite G. now destruct v.
Qed.
Lemma enc_value_not_nil v : wf_value v -> enc_value v <> [].
Proof.
  intros [[A _ _ _ _ _] _]. unfold enc_value, enc_wentry. destruct (we_asig (fst v)); [discriminate|]. discriminate.
Qed.

Definition wf_rid (id : bytes) : Prop := (64 <= length id)%nat /\ U64 (N.of_nat (length id)).
Lemma rid_roundtrip id : wf_rid id -> roundtrips enc_rid dec_rid id.
Proof.
  intros [I1 I2] rest. unfold enc_rid, dec_rid. rewrite (bytes_roundtrip _ I2).
  assert (G : Nat.ltb (length id) 64 = false) by (apply Nat.ltb_ge; lia). now rewrite G.
Qed.

Definition wf_wpart (p : wpart) : Prop :=
  match p with
  | WFp x y fp => wf_rid x /\ wf_rid y /\ length fp = 32%nat
  | WItem x y vs _ => wf_rid x /\ wf_rid y /\ Forall wf_value vs /\ U64 (N.of_nat (length vs))
  end.
Theorem wpart_roundtrip p : wf_wpart p -> roundtrips enc_wpart dec_wpart p.
Proof.
  intros W rest. destruct p as [x y fp|x y vs hl]; unfold enc_wpart, dec_wpart.
  - destruct W as (X & Y & F). rewrite <- !app_assoc.
    rewrite (varint_u32_small 0) by lia. rewrite (rid_roundtrip _ X), (rid_roundtrip _ Y). cbn [N.eqb].
    now rewrite (raw_roundtrip 32 _ F).
  - destruct W as (X & Y & V & L). rewrite <- !app_assoc.
    rewrite (varint_u32_small 1) by lia. rewrite (rid_roundtrip _ X), (rid_roundtrip _ Y). cbn [N.eqb Pos.eqb].
    rewrite (seq_roundtrip enc_value dec_value vs); auto.
    + now rewrite bool_roundtrip.
    + eapply Forall_impl; [|exact V]. intros v. apply value_roundtrip.
    + eapply Forall_impl; [|exact V]. intros v. apply enc_value_not_nil.
Qed.
Lemma enc_wpart_not_nil p : enc_wpart p <> [].
Proof. destruct p; cbn; discriminate. Qed.

Definition wf_wmessage (m : wmessage) : Prop := Forall wf_wpart m /\ U64 (N.of_nat (length m)).
Theorem wmessage_roundtrip m : wf_wmessage m -> roundtrips enc_wmessage dec_wmessage m.
Proof.
  intros [F L]. unfold enc_wmessage, dec_wmessage. apply seq_roundtrip; auto.
  - eapply Forall_impl; [|exact F]. intros p. apply wpart_roundtrip.
  - apply Forall_forall. intros p _. apply enc_wpart_not_nil.
Qed.

Definition wf_cmsg (c : cmsg) : Prop :=
  match c with
  | CInit ns m => length ns = 32%nat /\ wf_wmessage m
  | CSync m => wf_wmessage m
  | CAbort r => r < 3
  end.
Theorem cmsg_roundtrip c : wf_cmsg c -> roundtrips enc_cmsg dec_cmsg c.
Proof.
  intros W rest. destruct c as [ns m|m|r]; unfold enc_cmsg, dec_cmsg; rewrite <- ?app_assoc.
  - destruct W as [Ns M]. rewrite (varint_u32_small 0) by lia. cbn [N.eqb].
    now rewrite (raw_roundtrip 32 _ Ns), (wmessage_roundtrip _ M).
  - rewrite (varint_u32_small 1) by lia. cbn [N.eqb Pos.eqb]. now rewrite (wmessage_roundtrip _ W).
  - cbn in W. rewrite (varint_u32_small 2) by lia. cbn [N.eqb Pos.eqb].
    rewrite (varint_u32_small r) by lia. assert (G : r <? 3 = true) by now apply N.ltb_lt. now rewrite G.
Qed.

(** author heads *)
Definition wf_head (h : N * bytes) : Prop := U64 (fst h) /\ length (snd h) = 32%nat.
Theorem heads_roundtrip l : Forall wf_head l -> U64 (N.of_nat (length l)) -> roundtrips enc_heads dec_heads l.
Proof.
  intros F L. unfold enc_heads, dec_heads. apply seq_roundtrip; auto.
  - eapply Forall_impl; [|exact F]. intros [t a] [T A] rest. unfold enc_head, dec_head. cbn [fst snd] in *.
    rewrite <- app_assoc, (varint_u64_roundtrip _ T). now rewrite (raw_roundtrip 32 _ A).
  - apply Forall_forall. intros h _. unfold enc_head. apply app_not_nil_l, enc_varint_not_nil.
Qed.

(** download policies *)
Definition filter_bytes (f : filter_kind) : bytes := match f with FPrefix b | FExact b => b end.
Theorem filter_roundtrip f : U64 (N.of_nat (length (filter_bytes f))) -> roundtrips enc_filter dec_filter f.
Proof.
  intros L rest. destruct f as [b|b]; unfold enc_filter, dec_filter; cbn [filter_bytes] in L; rewrite <- app_assoc.
  - rewrite (varint_u32_small 0) by lia. now rewrite (bytes_roundtrip _ L).
  - rewrite (varint_u32_small 1) by lia. now rewrite (bytes_roundtrip _ L).
Qed.
Definition policy_filters (p : policy) : list filter_kind := match p with NothingExcept fs | EverythingExcept fs => fs end.
Theorem policy_roundtrip p :
  Forall (fun f => U64 (N.of_nat (length (filter_bytes f)))) (policy_filters p) ->
  U64 (N.of_nat (length (policy_filters p))) -> roundtrips enc_policy dec_policy p.
Proof.
  intros F L rest.
  assert (SR : forall fs, Forall (fun f => U64 (N.of_nat (length (filter_bytes f)))) fs -> U64 (N.of_nat (length fs)) ->
               roundtrips (enc_seq enc_filter) (dec_seq dec_filter) fs).
  { intros fs F' L'. apply seq_roundtrip; auto.
    - eapply Forall_impl; [|exact F']. intros f. apply filter_roundtrip.
    - apply Forall_forall. intros f _. destruct f; cbn; discriminate. }
  destruct p as [fs|fs]; unfold enc_policy, dec_policy; cbn [policy_filters] in *; rewrite <- app_assoc.
  - rewrite (varint_u32_small 0) by lia. now rewrite (SR fs F L).
  - rewrite (varint_u32_small 1) by lia. now rewrite (SR fs F L).
Qed.

(** capability raw form *)
Theorem cap_raw_roundtrip W R c : W <> R -> cap_from_raw W R (fst (cap_raw W R c)) (snd (cap_raw W R c)) = Some c.
Proof.
  intros NE. destruct c as [[|] b]; unfold cap_raw, cap_from_raw; cbn [fst snd].
  - now rewrite N.eqb_refl.
  - assert (H : R =? W = false) by (apply N.eqb_neq; congruence). now rewrite H, N.eqb_refl.
Qed.

(** ---- frames ---- *)
Lemma be32_length n : length (be32 n) = 4%nat.
Proof. reflexivity. Qed.
Lemma be32_val_be32 n : n < 2 ^ 32 -> be32_val (be32 n) = n.
Proof.
  intros H. unfold be32, be32_val. cbn [fold_left].
  remember (n / 16777216) as a. remember (n / 65536) as b. remember (n / 256) as c.
  assert (A : a < 256) by (subst a; apply N.div_lt_upper_bound; [lia|]; change (16777216 * 256) with (2 ^ 32); exact H).
  rewrite (N.mod_small a 256 A).
  assert (B : b = a * 256 + b mod 256).
  { subst a b. change 16777216 with (65536 * 256). rewrite <- N.div_div by lia.
    rewrite (N.div_mod (n / 65536) 256) at 1 by lia. lia. }
  assert (C : c = b * 256 + c mod 256).
  { subst b c. change 65536 with (256 * 256). rewrite <- N.div_div by lia.
    rewrite (N.div_mod (n / 256) 256) at 1 by lia. lia. }
  assert (D : n = c * 256 + n mod 256).
  { subst c. rewrite (N.div_mod n 256) at 1 by lia. lia. }
  remember (b mod 256) as b'. remember (c mod 256) as c'. remember (n mod 256) as n'. lia.
Qed.

(** one whole frame at the head of the buffer is decoded as exactly that payload *)
Theorem frame_decode_whole max payload rest :
  N.of_nat (length payload) <= max -> N.of_nat (length payload) < 2 ^ 32 ->
  frame_decode max (frame payload ++ rest) = Frame payload rest.
Proof.
  intros M L. unfold frame_decode, frame. rewrite <- app_assoc.
  rewrite (raw_roundtrip 4 _ (be32_length _)), (be32_val_be32 _ L).
  assert (G1 : max <? N.of_nat (length payload) = false) by (apply N.ltb_ge; lia). rewrite G1.
  assert (G2 : N.of_nat (length (payload ++ rest)) <? N.of_nat (length payload) = false).
  { apply N.ltb_ge. rewrite app_length. lia. }
  rewrite G2, Nat2N.id, take_app. reflexivity.
Qed.

(** an oversized length header is an error, whatever follows *)
Theorem oversize_is_error max hd rest :
  length hd = 4%nat -> max < be32_val hd -> frame_decode max (hd ++ rest) = FrameErr.
Proof.
  intros L O. unfold frame_decode. rewrite (raw_roundtrip 4 _ L).
  assert (G : max <? be32_val hd = true) by now apply N.ltb_lt. now rewrite G.
Qed.

(** fewer bytes than the header announces: "need more", never a message *)
Theorem truncated_needs_more max payload k :
  N.of_nat (length payload) <= max -> N.of_nat (length payload) < 2 ^ 32 ->
  (k < length (frame payload))%nat -> frame_decode max (firstn k (frame payload)) = NeedMore.
Proof.
  intros M L K. unfold frame in *. rewrite app_length, be32_length in K.
  destruct (Nat.lt_ge_cases k 4) as [K4|K4].
  - unfold frame_decode.
    assert (T : take 4 (firstn k (be32 (N.of_nat (length payload)) ++ payload)) = None).
    { assert (LL : (length (firstn k (be32 (N.of_nat (length payload)) ++ payload)) < 4)%nat).
      { rewrite firstn_length. lia. }
      remember (firstn k (be32 (N.of_nat (length payload)) ++ payload)) as l.
      destruct l as [|a [|b [|c [|d l]]]]; cbn in LL; try lia; reflexivity. }
    now rewrite T.
  - assert (E : firstn k (be32 (N.of_nat (length payload)) ++ payload)
               = be32 (N.of_nat (length payload)) ++ firstn (k - 4) payload).
    { rewrite firstn_app, be32_length. rewrite firstn_all2 by (rewrite be32_length; lia). reflexivity. }
    rewrite E. unfold frame_decode. rewrite (raw_roundtrip 4 _ (be32_length _)), (be32_val_be32 _ L).
    assert (G1 : max <? N.of_nat (length payload) = false) by (apply N.ltb_ge; lia). rewrite G1.
    assert (G2 : N.of_nat (length (firstn (k - 4) payload)) <? N.of_nat (length payload) = true).
    { apply N.ltb_lt. rewrite firstn_length. lia. }
    now rewrite G2.
Qed.
