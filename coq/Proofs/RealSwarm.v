(** C04: the abstract swarm's complete-session step (both ends := join) is what the proved
    reconciliation protocol computes: a swarm whose replicas are sorted lists, whose writes go
    through the ordered-map insert and whose sessions are real [list_session] runs (any split factor)
    is, replica by replica, set-equal to the abstract swarm at every step. Hence the convergence
    theorem holds for it. *)
From Coq Require Import Lia Sorted PeanoNat.
From ID Require Import Base.Bytes Base.BytesFacts Model.Entry Model.Put Model.Tables Model.Bounds
  Model.FsStore Model.Replica Model.Ranger Proofs.EntryFacts Proofs.PutFacts Proofs.RangerFacts
  Proofs.FsPutFacts Proofs.ConvergeFacts Proofs.SplitFacts Proofs.SessionConverge Proofs.TerminateFacts
  Proofs.SwarmFacts Proofs.RangeFacts Proofs.RefineFacts Proofs.TerminateAll.

Local Open Scope nat_scope.

Section Real.
  Variables (mss kf : N) (v : entry -> N -> bool).
  Hypothesis K2 : (2 <= kf)%N.

  (** a real session; if it did not complete the replicas would stay as they are *)
  Definition rsync (A B : list entry) : list entry * list entry :=
    match list_session mss kf v (steps_bound A B) A B (initial_message om_ops A) true [] with
    | Some (A', B', _) => (A', B')
    | None => (A, B)
    end.

  Definition rstep (st : swarm * list entry) (ev : event) : swarm * list entry :=
    let '(s, W) := st in
    match ev with
    | EWrite i e => (sset s i (fst (om_put (sget s i) e)), if accepted (sget s i) e then e :: W else W)
    | EPut i e => (sset s i (fst (om_put (sget s i) e)), W)
    | ESync i j => let '(A', B') := rsync (sget s i) (sget s j) in (sset (sset s i A') j B', W)
    end.
  Definition rrun (st : swarm * list entry) (evs : list event) := fold_left rstep evs st.

  Variable U : list entry.
  Hypothesis Ucons : consistent U.
  Hypothesis Uvalid : forall e, In e U -> v e MISSING = true.

  (** the real swarm [r] and the abstract swarm [a] *)
  Definition sim (r a : swarm) : Prop :=
    length r = length a /\
    forall i, set_eq (sget r i) (sget a i) /\ ssorted (sget r i) /\ reduced (sget r i) /\
              (forall x, In x (sget r i) -> In x U).

  Lemma sget_nil i : sget [] i = [].
  Proof. unfold sget. destruct i; reflexivity. Qed.

  Lemma sget_sset s i j x : j < length s -> sget (sset s j x) i = if Nat.eqb i j then x else sget s i.
  Proof.
    intros L. destruct (Nat.eqb_spec i j) as [->|N].
    - now apply sget_sset_same.
    - apply sget_sset_other. auto.
  Qed.

  Lemma accepted_ext S1 S2 e : set_eq S1 S2 -> accepted S1 e = accepted S2 e.
  Proof.
    intros H. unfold accepted. f_equal. apply bool_eq_iff'. rewrite !existsb_exists.
    split; intros [p [I R]]; exists p; split; auto; now apply H.
  Qed.

  Lemma reduce_ext X Y : set_eq X Y -> set_eq (reduce X) (reduce Y).
  Proof. intros H x. rewrite !reduce_spec. apply in_reduce_ext. exact H. Qed.

  Lemma put_reduced S e : reduced S -> consistent (e :: S) -> reduced (fst (put S e)).
  Proof.
    intros R C d x Hd Hx. apply (put_is_reduce S e R C) in Hd. apply (put_is_reduce S e R C) in Hx.
    destruct Hd as [Id _]. destruct Hx as [_ Tx]. now apply Tx.
  Qed.

  (** one write / delivery keeps the correspondence *)
  Lemma put_sim R A e : set_eq R A -> ssorted R -> reduced R -> (forall x, In x R -> In x U) -> In e U ->
    let R' := fst (om_put R e) in
    set_eq R' (sput A e) /\ ssorted R' /\ reduced R' /\ (forall x, In x R' -> In x U).
  Proof.
    intros H S RD SU EU. cbv zeta.
    assert (C : consistent (e :: R)).
    { apply (consistent_incl U); auto. intros a [<-|Ha]; auto. }
    assert (E : set_eq (fst (om_put R e)) (fst (put R e))) by apply om_put_set.
    split; [|split; [|split]].
    - intros x. rewrite (E x). unfold sput. apply (put_set_ext R A e H x).
    - now apply om_put_sorted.
    - intros d x Hd Hx. apply E in Hd. apply E in Hx. exact (put_reduced R e RD C d x Hd Hx).
    - intros x Hx. apply E in Hx. unfold put in Hx. destruct (existsb _ R); cbn [fst] in Hx; auto.
      destruct Hx as [<-|Hx]; auto. apply filter_In in Hx. apply SU. tauto.
  Qed.

  (** one real session keeps it: both ends become set-equal to the join *)
  Lemma sync_sim RA RB A B : set_eq RA A -> set_eq RB B ->
    ssorted RA -> ssorted RB -> reduced RA -> reduced RB ->
    (forall x, In x RA -> In x U) -> (forall x, In x RB -> In x U) ->
    let '(A', B') := rsync RA RB in
    set_eq A' (join A B) /\ set_eq B' (join A B) /\ ssorted A' /\ ssorted B' /\
    reduced A' /\ reduced B' /\ (forall x, In x A' -> In x U) /\ (forall x, In x B' -> In x U).
  Proof.
    intros HA HB SA SB RA' RB' UA UB.
    assert (SUB : forall x, In x (RA ++ RB) -> In x U) by (intros x Hx; apply in_app_or in Hx; destruct Hx; auto).
    assert (C : consistent (RA ++ RB)) by (apply (consistent_incl U); auto).
    assert (V : forall e, In e (RA ++ RB) -> v e MISSING = true) by (intros e He; apply Uvalid; auto).
    destruct (list_session_total_all mss kf v RA RB K2 SA SB RA' RB' C V) as (A' & B' & tr & RUN & JA & JB & SA' & SB').
    unfold rsync. rewrite RUN.
    assert (JE : set_eq (join RA RB) (join A B)).
    { unfold join. apply reduce_ext. intros x. rewrite !in_app_iff, (HA x), (HB x). tauto. }
    assert (JR : reduced (join RA RB)).
    { intros d x Hd Hx. unfold join in *. apply reduce_spec in Hd. apply reduce_spec in Hx.
      destruct Hd as [Id _]. destruct Hx as [_ Tx]. now apply Tx. }
    assert (JU : forall x, In x (join RA RB) -> In x U).
    { intros x Hx. unfold join in Hx. apply reduce_spec in Hx. destruct Hx as [Hx _]. auto. }
    repeat split; auto.
    - intros Hx. apply JE. now apply JA.
    - intros Hx. apply JA. now apply JE.
    - intros Hx. apply JE. now apply JB.
    - intros Hx. apply JB. now apply JE.
    - intros d x Hd Hx. apply JA in Hd. apply JA in Hx. exact (JR d x Hd Hx).
    - intros d x Hd Hx. apply JB in Hd. apply JB in Hx. exact (JR d x Hd Hx).
    - intros x Hx. apply JU. now apply JA.
    - intros x Hx. apply JU. now apply JB.
  Qed.

  Lemma step_sim r a W ev : sim r a ->
    (match ev with EWrite _ e | EPut _ e => In e U | _ => True end) ->
    (match ev with
     | EPut i _ | EWrite i _ => i < length a
     | ESync i j => i < length a /\ j < length a
     end) ->
    sim (fst (rstep (r, W) ev)) (fst (step (a, W) ev)) /\ snd (rstep (r, W) ev) = snd (step (a, W) ev).
  Proof.
    intros [LEN S] EU LG. destruct ev as [i e|i e|i j]; cbn [rstep step fst snd].
    - destruct (S i) as (H & SS & RD & SU).
      destruct (put_sim (sget r i) (sget a i) e H SS RD SU EU) as (P1 & P2 & P3 & P4).
      split; [|now rewrite (accepted_ext _ _ e H)].
      split; [now rewrite !sset_length|]. intros k.
      rewrite !sget_sset by lia. destruct (Nat.eqb k i); auto.
    - destruct (S i) as (H & SS & RD & SU).
      destruct (put_sim (sget r i) (sget a i) e H SS RD SU EU) as (P1 & P2 & P3 & P4).
      split; auto. split; [now rewrite !sset_length|]. intros k.
      rewrite !sget_sset by lia. destruct (Nat.eqb k i); auto.
    - destruct LG as [Li Lj]. destruct (S i) as (Hi & Si & Ri & Ui). destruct (S j) as (Hj & Sj & Rj & Uj).
      pose proof (sync_sim (sget r i) (sget r j) (sget a i) (sget a j) Hi Hj Si Sj Ri Rj Ui Uj) as Y.
      destruct (rsync (sget r i) (sget r j)) as [A' B']. cbn [fst snd].
      destruct Y as (Y1 & Y2 & Y3 & Y4 & Y5 & Y6 & Y7 & Y8).
      split; auto. split; [now rewrite !sset_length|]. intros k.
      rewrite !sget_sset by (rewrite ?sset_length; lia).
      destruct (Nat.eqb k j); [auto|]. destruct (Nat.eqb k i); auto.
  Qed.

  (** whole runs *)
  Theorem run_sim evs : forall r a W,
    sim r a -> (forall x, In x W -> In x U) -> writes_in U evs -> legal W a evs ->
    sim (fst (rrun (r, W) evs)) (fst (run (a, W) evs)) /\ snd (rrun (r, W) evs) = snd (run (a, W) evs).
  Proof.
    induction evs as [|ev evs IH]; intros r a W SM WU WR L; cbn [rrun run fold_left]; auto.
    cbn [legal] in L. destruct L as [L1 L2].
    assert (EU : match ev with EWrite _ e | EPut _ e => In e U | _ => True end).
    { destruct ev; cbn in WR; try tauto. destruct L1 as [I _]. auto. }
    assert (LG : match ev with EPut i _ | EWrite i _ => i < length a | ESync i j => i < length a /\ j < length a end).
    { destruct ev; tauto. }
    destruct (step_sim r a W ev SM EU LG) as [SM' EW].
    destruct (rstep (r, W) ev) as [r' W'] eqn:RS. destruct (step (a, W) ev) as [a' W''] eqn:AS.
    cbn [fst snd] in *. subst W''.
    apply IH; auto.
    - intros x Hx. destruct ev as [i e|i e|i j]; cbn [rstep] in RS.
      + inversion RS; subst. destruct (accepted (sget r i) e); auto. destruct Hx as [<-|Hx]; auto.
      + inversion RS; subst. auto.
      + destruct (rsync (sget r i) (sget r j)). inversion RS; subst. auto.
    - destruct ev; cbn in WR; tauto.
  Qed.

  Lemma legal_syncs pairs : forall W s, Forall (fun p => fst p < length s /\ snd p < length s) pairs ->
    legal W s (map (fun p => ESync (fst p) (snd p)) pairs).
  Proof.
    induction pairs as [|p ps IH]; intros W s F; cbn [map legal]; auto.
    inversion F as [|? ? Hp Fp]; subst. split; auto. cbn [step fst snd]. apply IH.
    rewrite !sset_length. exact Fp.
  Qed.

  Lemma sget_repeat_nil n i : sget (repeat ([] : list entry) n) i = [].
  Proof. unfold sget. revert i; induction n as [|n IH]; intros [|i]; cbn; auto. Qed.

  Lemma sim_empty n : sim (repeat [] n) (repeat [] n).
  Proof.
    split; auto. intros i. rewrite sget_repeat_nil. split; [intros x; tauto|]. split; [constructor|].
    split; [intros d e []|intros x []].
  Qed.

  (** The swarm with real sessions converges: after any history of writes, deliveries (lost,
      duplicated, reordered) and sessions, a closing list of sessions through which replica [k]
      hears of everybody leaves it with exactly the merge of all accepted writes. *)
  Theorem real_swarm_converges n evs pairs :
    writes_in U evs -> legal [] (repeat [] n) evs ->
    Forall (fun p => fst p < n /\ snd p < n) pairs ->
    let st1 := rrun (@pair swarm (list entry) (repeat [] n) []) evs in
    let st2 := rrun st1 (map (fun p => ESync (fst p) (snd p)) pairs) in
    forall k, k < n -> (forall q, q < n -> In q (fold_left kstep pairs kinit k)) ->
    forall x, In x (sget (fst st2) k) <-> in_reduce (snd st1) x.
  Proof.
    intros WR L FP st1 st2 k Lk ALL x.
    assert (I0' : Inv (@pair swarm (list entry) (repeat [] n) [])).
    { split.
      - intros i y Hy. exfalso. rewrite sget_repeat_nil in Hy. destruct Hy.
      - intros w []. }
    pose proof (run_sim evs (repeat [] n) (repeat [] n) [] (sim_empty n) (fun x (F : In x []) => match F with end) WR L) as [S1 W1].
    pose proof (swarm_invariant U evs (@pair swarm (list entry) (repeat [] n) []) Ucons (fun y (F : In y []) => match F with end) WR L I0') as [I1 WU1].
    assert (LENG : forall evs st, length (fst (fold_left step evs st)) = length (fst st)).
    { clear. induction evs as [|ev evs IH]; intros [s W]; cbn [fold_left]; auto. rewrite IH.
      destruct ev; cbn [step fst]; now rewrite ?sset_length. }
    assert (LEN1 : length (fst (run (@pair swarm (list entry) (repeat [] n) []) evs)) = n).
    { unfold run. rewrite LENG. cbn [fst]. apply repeat_length. }
    unfold st2, st1.
    destruct (rrun (@pair swarm (list entry) (repeat [] n) []) evs) as [r1 Wr]. destruct (run (@pair swarm (list entry) (repeat [] n) []) evs) as [s1 Wa].
    cbn [fst snd] in *. subst Wa.
    assert (FP' : Forall (fun p => fst p < length s1 /\ snd p < length s1) pairs) by (now rewrite LEN1).
    assert (WRS : writes_in U (map (fun p : nat * nat => ESync (fst p) (snd p)) pairs)).
    { clear. induction pairs as [|p ps IH]; cbn; auto. }
    destruct (run_sim (map (fun p => ESync (fst p) (snd p)) pairs) r1 s1 Wr S1 WU1 WRS (legal_syncs pairs Wr s1 FP')) as [S2 W2].
    assert (CW : consistent Wr) by (apply (consistent_incl U); auto).
    assert (RD : forall i, reduced (sget s1 i)).
    { intros i d e Hd He. destruct S1 as [_ S1]. destruct (S1 i) as (H & _ & R & _).
      apply H in Hd. apply H in He. exact (R d e Hd He). }
    assert (ALL' : forall q, q < length s1 -> In q (fold_left kstep pairs kinit k)) by (intros q Hq; apply ALL; lia).
    assert (Lk' : k < length s1) by lia.
    pose proof (swarm_converges s1 Wr pairs CW I1 RD FP' k Lk' ALL' x) as CONV.
    destruct S2 as [_ S2]. destruct (S2 k) as (H & _). rewrite (H x). exact CONV.
  Qed.
End Real.
