(** The hypotheses of the store-level theorems are met by every reachable store: after any history
    of inserts (local or remote, any order), removals and (re-)imports the tables are sorted, hold
    32-byte ids, the index lists every record, the heads are maxima and name held entries. *)
From Coq Require Import Lia.
From ID Require Import Base.Bytes Model.Entry Model.Tables Model.Bounds Model.FsStore Model.Replica Model.Ranger
  Model.StoreOps Proofs.TblFacts Proofs.SortedTbl Proofs.EntryFacts Proofs.FsPutFacts Proofs.QueryFacts
  Proofs.StoreFacts Proofs.MigrateFacts Proofs.HeadKeyFacts.

Inductive dop :=
  | DPut (e : entry)                  (* an entry offered to the store: local insert, deletion marker, remote entry *)
  | DRemove (ns : N)                  (* remove_replica *)
  | DImport (ns : N) (c : cap).       (* import_namespace *)
Definition wf_dop (o : dop) : Prop := match o with DPut e => wf_entry e | _ => True end.
Definition dstep (EH : N) (T : tables) (o : dop) : tables :=
  match o with
  | DPut e => fst (fs_put prefix_succ EH T e)
  | DRemove ns => remove_replica T ns
  | DImport ns c => fst (import_namespace T ns c)
  end.
Definition drun (EH : N) (l : list dop) : tables := fold_left (dstep EH) l empty_tables.

Definition LInv (T : tables) : Prop :=
  Forall (fun r : (N * N) * (N * bytes) => fst (fst r) <= MAX256 /\ snd (fst r) <= MAX256) (t_latest T).
Definition SInv (T : tables) : Prop := wf_records T /\ wf_index T /\ LInv T.

Lemma SInv_wf_tables T : SInv T -> wf_tables T.
Proof.
  intros ([_ WR] & (_ & WK & _) & L). split; [|split]; auto.
  - eapply Forall_impl; [|exact WR]. intros [[[n a] k] v] (H & _). exact H.
  - eapply Forall_impl; [|exact WK]. intros [[[n k] a] v] (H & _). exact H.
Qed.

Lemma SInv_empty : SInv empty_tables.
Proof. split; [apply wf_records_empty|split; [apply wf_index_empty|constructor]]. Qed.

Lemma Forall_filter' {A} (P : A -> Prop) f l : Forall P l -> Forall P (filter f l).
Proof. intros H. apply Forall_forall. intros x I. apply filter_In in I. rewrite Forall_forall in H. now apply H. Qed.

Lemma put_LInv EH T e : wf_entry e -> LInv T -> LInv (fst (fs_put prefix_succ EH T e)).
Proof.
  intros (Hn & Ha & _) L. unfold fs_put. destruct (existsb _ _); cbn [fst]; auto.
  pose proof (remove_keeps_latest T (e_ns e) (e_author e) (e_key e) (fun c => val_leb c e)) as RL.
  destruct (fs_remove_prefix_filtered prefix_succ T (e_ns e) (e_author e) (e_key e) (fun c => val_leb c e)) as [T1 n].
  cbn [fst snd] in *. unfold LInv, fs_entry_put. cbn [t_latest set_records set_bykey set_latest]. rewrite RL.
  destruct (tbl_get pair_cmp (e_ns e, e_author e) (t_latest T)) as [[t0 k0]|]; [destruct (t0 <=? e_ts e)|];
    cbn [t_latest set_records set_bykey set_latest]; rewrite ?RL; auto; apply Forall_insert; auto.
Qed.

Theorem dstep_inv EH T o : SInv T -> wf_dop o -> SInv (dstep EH T o).
Proof.
  intros I Wo. pose proof (SInv_wf_tables T I) as WT. destruct I as (W & WI & L). destruct o as [e|ns|ns c]; cbn [dstep wf_dop] in *.
  - split; [now destruct (fs_put_refines EH T e W Wo) as (_ & _ & W')|].
    split; [now apply fs_put_keeps_index|now apply put_LInv].
  - destruct (remove_replica_spec T ns WT) as (R & K & LA & _).
    destruct W as [SR WR]. destruct WI as (KS & KW & CO). unfold SInv, wf_records, wf_index, LInv. rewrite R, K, LA.
    split; [split; [now apply sorted_filter|now apply Forall_filter']|].
    split; [|now apply Forall_filter'].
    split; [now apply sorted_filter|]. split; [now apply Forall_filter'|].
    intros n a k v In1. apply filter_In in In1. destruct In1 as [In1 NE]. apply filter_In. split; [eapply CO; eauto|].
    exact NE.
  - unfold import_namespace. destruct (get_cap T ns) as [[sk|]|]; [|destruct c|]; cbn [fst]; repeat split; auto; try apply W; try apply WI.
Qed.

Theorem reachable_inv EH l : Forall wf_dop l -> SInv (drun EH l).
Proof.
  unfold drun. generalize SInv_empty. generalize empty_tables.
  induction l as [|o l IH]; intros T I F; cbn [fold_left]; auto.
  inversion F; subst. apply IH; auto. now apply dstep_inv.
Qed.

Corollary reachable_wf_tables EH l : Forall wf_dop l -> wf_tables (drun EH l).
Proof. intros F. apply SInv_wf_tables. now apply reachable_inv. Qed.

(** ---- the head invariants in every reachable store (removal and re-creation included) ---- *)
Lemma pair_cmp_lt_trans a b c : pair_cmp a b = Lt -> pair_cmp b c = Lt -> pair_cmp a c = Lt.
Proof.
  destruct a as [a1 a2], b as [b1 b2], c as [c1 c2]. unfold pair_cmp. cbn [fst snd].
  destruct (N.compare_spec a1 b1), (N.compare_spec b1 c1), (N.compare_spec a1 c1); subst; try lia; try discriminate; auto;
    rewrite ?N.compare_lt_iff; try lia; intros; lia.
Qed.
Lemma pair_cmp_gt_lt a b : pair_cmp a b = Gt <-> pair_cmp b a = Lt.
Proof.
  destruct a as [a1 a2], b as [b1 b2]. unfold pair_cmp. cbn [fst snd].
  destruct (N.compare_spec a1 b1), (N.compare_spec b1 a1); subst; try lia; try (split; discriminate); try tauto.
  rewrite N.compare_gt_iff, N.compare_lt_iff. tauto.
Qed.

Definition lsorted := sorted (V := N * bytes) pair_cmp.
Definition HeadsInv (T : tables) : Prop := lsorted (t_latest T) /\ HInv T /\ KInv T.

Lemma tbl_get_filter_key (l : list ((N * N) * (N * bytes))) (f : N * N -> bool) k : lsorted l ->
  tbl_get pair_cmp k (filter (fun r => f (fst r)) l) = if f k then tbl_get pair_cmp k l else None.
Proof.
  intros S.
  assert (SF : lsorted (filter (fun r => f (fst r)) l)) by now apply sorted_filter.
  assert (G1 : forall v, tbl_get pair_cmp k l = Some v <-> In (k, v) l)
    by (intros v; apply (tbl_get_sorted pair_cmp pair_cmp_eq l S k v)).
  assert (G2 : forall v, tbl_get pair_cmp k (filter (fun r => f (fst r)) l) = Some v <-> In (k, v) (filter (fun r => f (fst r)) l))
    by (intros v; apply (tbl_get_sorted pair_cmp pair_cmp_eq _ SF k v)).
  destruct (tbl_get pair_cmp k (filter (fun r => f (fst r)) l)) as [v|] eqn:E.
  - pose proof (proj1 (G2 v) eq_refl) as I. apply filter_In in I. destruct I as [I Fk]. cbn [fst] in Fk. rewrite Fk. symmetry. now apply G1.
  - destruct (f k) eqn:Fk; auto. destruct (tbl_get pair_cmp k l) as [v|] eqn:E1; auto.
    pose proof (proj1 (G1 v) eq_refl) as I1.
    assert (X : In (k, v) (filter (fun r => f (fst r)) l)) by (apply filter_In; auto).
    apply G2 in X. congruence.
Qed.

Lemma recs_filter_ns T T' ns : t_records T' = filter (fun r => negb (rid_ns (fst r) =? ns)) (t_records T) ->
  forall x, In x (recs T') <-> In x (recs T) /\ e_ns x <> ns.
Proof.
  intros R x. unfold recs. rewrite R, !in_map_iff. split.
  - intros ([[[n a] k] [[t l] h]] & <- & I). apply filter_In in I. destruct I as [I NE]. cbn in NE.
    apply Bool.negb_true_iff, N.eqb_neq in NE. split; [exists ((n, a, k), (t, l, h)); auto|exact NE].
  - intros (([[[n a] k] [[t l] h]] & <- & I) & NE). exists ((n, a, k), (t, l, h)). split; auto.
    apply filter_In. split; auto. cbn in *. now apply Bool.negb_true_iff, N.eqb_neq.
Qed.

Lemma remove_heads_inv T ns : wf_tables T -> HeadsInv T -> HeadsInv (remove_replica T ns).
Proof.
  intros WT (S & H & K). destruct (remove_replica_spec T ns WT) as (R & _ & LA & _).
  pose proof (recs_filter_ns T (remove_replica T ns) ns R) as RC.
  assert (HR : forall n a, head_row (remove_replica T ns) n a = if negb (n =? ns) then head_row T n a else None).
  { intros n a. unfold head_row. rewrite LA.
    apply (tbl_get_filter_key (t_latest T) (fun k => negb (fst k =? ns)) (n, a) S). }
  split; [rewrite LA; now apply sorted_filter|]. split.
  - intros n a. specialize (H n a). unfold head_of in *. fold (head_row (remove_replica T ns) n a). fold (head_row T n a) in H.
    rewrite HR. destruct (N.eqb_spec n ns) as [->|NE]; cbn [negb].
    + intros x Ix [Ox _]. apply RC in Ix. tauto.
    + destruct (head_row T n a) as [[t k]|].
      * destruct H as [(w & Iw & Ow & Tw) B]. split.
        -- exists w. repeat split; auto; try apply Ow. apply RC. split; auto. destruct Ow. congruence.
        -- intros x Ix Ox. apply RC in Ix. apply B; tauto.
      * intros x Ix Ox. apply RC in Ix. apply (H x); tauto.
  - intros n a t k. rewrite HR. destruct (N.eqb_spec n ns) as [->|NE]; cbn [negb]; [discriminate|].
    intros G. destruct (K n a t k G) as (w & Iw & Ow & Tw & Kw). exists w. repeat split; auto; try apply Ow.
    apply RC. split; auto. destruct Ow. congruence.
Qed.

Lemma put_lsorted EH T e : lsorted (t_latest T) -> lsorted (t_latest (fst (fs_put prefix_succ EH T e))).
Proof.
  intros L. unfold fs_put. destruct (existsb _ _); cbn [fst]; auto.
  pose proof (remove_keeps_latest T (e_ns e) (e_author e) (e_key e) (fun c => val_leb c e)) as RL.
  destruct (fs_remove_prefix_filtered prefix_succ T (e_ns e) (e_author e) (e_key e) (fun c => val_leb c e)) as [T1 n].
  cbn [fst snd] in *. unfold fs_entry_put. cbn [t_latest set_records set_bykey set_latest]. rewrite RL.
  destruct (tbl_get pair_cmp (e_ns e, e_author e) (t_latest T)) as [[t0 k0]|]; [destruct (t0 <=? e_ts e)|];
    cbn [t_latest set_records set_bykey set_latest]; rewrite ?RL; auto;
    now destruct (tbl_insert_spec pair_cmp pair_cmp_eq pair_cmp_lt_trans pair_cmp_gt_lt (t_latest T) L (e_ns e, e_author e) (e_ts e, e_key e)).
Qed.

Lemma import_same T ns c : t_records (fst (import_namespace T ns c)) = t_records T /\
                           t_latest (fst (import_namespace T ns c)) = t_latest T.
Proof. unfold import_namespace. destruct (get_cap T ns) as [[sk|]|]; [|destruct c|]; cbn; auto. Qed.

Theorem dstep_heads_inv EH T o : SInv T -> HeadsInv T -> wf_dop o -> HeadsInv (dstep EH T o).
Proof.
  intros I (S & H & K) Wo. pose proof (SInv_wf_tables T I) as WT. destruct I as (W & _ & _).
  destruct o as [e|ns|ns c]; cbn [dstep wf_dop] in *.
  - split; [now apply put_lsorted|]. split; [now apply fs_put_heads|now apply fs_put_head_key].
  - apply remove_heads_inv; auto. repeat split; auto.
  - destruct (import_same T ns c) as [R L].
    split; [unfold lsorted; now rewrite L|]. split.
    + intros n a. specialize (H n a). unfold head_of, recs in *. now rewrite L, R.
    + intros n a t k. unfold head_row, recs. rewrite L, R. apply K.
Qed.

Theorem reachable_heads_inv EH l : Forall wf_dop l -> SInv (drun EH l) /\ HeadsInv (drun EH l).
Proof.
  unfold drun.
  assert (H0 : HeadsInv empty_tables) by (split; [constructor|split; [apply HInv_empty|apply KInv_empty]]).
  generalize SInv_empty H0. generalize empty_tables.
  induction l as [|o l IH]; intros T I H F; cbn [fold_left]; auto.
  inversion F; subst. apply IH; auto; [now apply dstep_inv|now apply dstep_heads_inv].
Qed.
